#!/bin/sh
# Build the framework from files on disk only (offline): Lean library + driver, harness per geometry.
set -e
cd "$(dirname "$0")"
export CARGO_NET_OFFLINE=true
python3 tools/rs2lean.py /repo lean/LLFreeV/Gen
(cd lean && lake build LLFreeV driver)
[ -f harness/Cargo.lock ] || cp /repo/Cargo.lock harness/Cargo.lock
pids=""
for g in default:"" th1:tree_huge_1 th2:tree_huge_2 th8:tree_huge_8 k16:k16; do
  name=${g%%:*}; feat=${g#*:}
  ( cd harness && if [ -n "$feat" ]; then cargo build --offline --quiet --target-dir target-$name --features $feat; else cargo build --offline --quiet --target-dir target-$name; fi ) &
  pids="$pids $!"
done
rc=0
for p in $pids; do wait $p || rc=1; done
exit $rc
