//! C20: synthetic traces for the built `replay` binary of the evaluation crate.

use std::process::Command;

use llfree::*;

use crate::common::*;
use crate::unit::Unit;

pub struct Ev {
    pub alloc: bool,
    pub pfn: usize,
    pub order: usize,
    pub cpu: usize,
    pub flags: u32,
}

/// header page + one trace page per cpu (more if needed); 4096-byte pages
pub fn write_trace(path: &str, cores: usize, max_pfn: usize, evs: &[Ev]) {
    const PAGE: usize = 4096;
    const ENTRIES: usize = (PAGE - 4) / 16;
    // group events per cpu, preserving global order through the time stamp
    let mut pages: Vec<(u32, Vec<u128>)> = vec![];
    // Time stamps. The replayer merges the per-CPU pages by sorting on the time stamp converted to
    // f32 *seconds*, which resolves 1 us only below ~16.8 s. Short traces keep small, exactly
    // representable stamps; longer ones (>= 24 events: beyond the insertion-sort threshold of the
    // standard sorts) start at 100 s, where consecutive events of one CPU (1 us apart) collapse to
    // the same f32 key and only the *stability* of the merge keeps them in program order; a change
    // of CPU advances the clock by 64 us (> the 7.6 us resolution at 100 s), so the global order
    // of the trace stays well defined.
    let late = evs.len() >= 24;
    let mut clock: u128 = if late { 100_000_000 } else { 0 };
    let mut last_cpu = usize::MAX;
    for e in evs.iter() {
        clock += if !late { 16 } else if e.cpu == last_cpu { 1 } else { 64 };
        last_cpu = e.cpu;
        let time_us = clock;
        let entry: u128 = (time_us & ((1 << 38) - 1))
            | ((e.pfn as u128 & 0xff_ffff) << 38)
            | ((e.alloc as u128) << 62)
            | ((e.order as u128 & 0xf) << 63)
            | ((e.flags as u128 & 0x1fff_ffff) << 67)
            | ((1u128) << 96);
        match pages.iter_mut().rev().find(|p| p.0 == e.cpu as u32 && p.1.len() < ENTRIES) {
            Some(p) => p.1.push(entry),
            None => pages.push((e.cpu as u32, vec![entry])),
        }
    }
    let mut out = vec![0u8; PAGE * (1 + pages.len())];
    out[0..4].copy_from_slice(&(pages.len() as u32).to_le_bytes());
    out[4..8].copy_from_slice(&(cores as u32).to_le_bytes());
    out[8..12].copy_from_slice(&(max_pfn as u32).to_le_bytes());
    for (pi, (cpu, es)) in pages.iter().enumerate() {
        let base = PAGE * (1 + pi);
        out[base..base + 4].copy_from_slice(&cpu.to_le_bytes());
        for (j, e) in es.iter().enumerate() {
            let o = base + 16 + j * 16;
            out[o..o + 16].copy_from_slice(&e.to_le_bytes());
        }
    }
    std::fs::write(path, out).unwrap();
}

pub fn case(u: &mut Unit, bin: &str, work: &str, cores: usize, max_pfn_hdr: usize, evs: &[Ev], wellformed: bool, held_frames: usize) {
    let path = format!("{work}/trace_{}.bin", std::process::id());
    write_trace(&path, cores, max_pfn_hdr, evs);
    let out = Command::new(bin).arg(&path).arg("--stride").arg("1").env("RUST_LOG", "error").output();
    let max_pfn = (max_pfn_hdr + 1).next_multiple_of(1 << HUGE_ORDER);
    let q = format!(
        "replay {HUGE_ORDER} {TREE_HUGE} {cores} {max_pfn} | {}",
        evs.iter().map(|e| format!("{}:{}:{}:{}:{}", if e.alloc { "a" } else { "f" }, e.pfn, e.order, e.cpu, e.flags)).collect::<Vec<_>>().join(" ")
    );
    let a = match out {
        Ok(o) if o.status.success() => {
            let so = String::from_utf8_lossy(&o.stdout);
            let se = String::from_utf8_lossy(&o.stderr);
            let free: Option<usize> = so.split("\"free_frames\":").nth(1).and_then(|r| r.trim().split(|c: char| !c.is_ascii_digit()).next().and_then(|d| d.parse().ok()));
            let failed = se.matches("Free failed").count();
            u.cov.oracle("C20");
            match free {
                Some(free) => {
                    if wellformed && (failed != 0 || free + held_frames != max_pfn) {
                        let m = format!("replay of a well-formed trace: free_frames = {free}, {failed} failed frees; the trace still holds {held_frames} of {max_pfn} frames (expected free {})", max_pfn - held_frames);
                        if u.violations.len() < 50 {
                            u.violations.push(crate::engine::Violation { prop: "C20", msg: m, line: u.em.nlines + 1 });
                        }
                    }
                    u.cov.hit("replay", "ok", &format!("wf{wellformed} f{} n{}", failed.min(3), evs.len() / 8));
                    format!("replay free={free} failed={failed}")
                }
                None => format!("panic no-output {}", so.len()),
            }
        }
        Ok(o) => {
            u.cov.hit("replay", "abort", "");
            let _ = o;
            "panic abort".to_string()
        }
        Err(e) => format!("panic spawn {e}"),
    };
    let _ = std::fs::remove_file(&path);
    u.em.qa(&q, &a);
}

pub fn generate(u: &mut Unit, rng: &mut Rng, n: usize, bin: &str, work: &str) {
    for _ in 0..n {
        let cores = 1 + rng.below(4);
        let trees = 2 + rng.below(6);
        let max_pfn_hdr = trees * TREE_FRAMES - 1 - rng.below(100);
        let max_pfn = (max_pfn_hdr + 1).next_multiple_of(1 << HUGE_ORDER);
        let wellformed = rng.chance(3, 4);
        let mut held: Vec<(usize, usize)> = vec![]; // trace-level (pfn, order)
        let mut held_frames = 0usize; // frames the allocator should still hold at the end
        let mut evs = vec![];
        let budget = max_pfn / 3;
        let nev = 4 + rng.below(60);
        for _ in 0..nev {
            let flags = if rng.chance(1, 2) { 0x08 } else { *rng.pick(&[0u32, 0x80, 0x10000000, 0x02]) };
            let cpu = rng.below(cores + if wellformed { 0 } else { 2 });
            if held.is_empty() || rng.chance(1, 2) {
                // allocation at a fresh, aligned pfn (never 0: a zero pfn terminates a trace page)
                let order = *rng.pick(&[0usize, 0, 1, 2, 3, 4, 6, 8, 9, 10]);
                if held_frames + (1 << order) > budget {
                    continue;
                }
                let mut pfn = None;
                for _ in 0..20 {
                    let p = (1 + rng.below(max_pfn_hdr.min((1 << 24) - 1) >> order)) << order;
                    if p + (1 << order) <= max_pfn_hdr && held.iter().all(|(hp, ho)| p + (1 << order) <= *hp || hp + (1 << ho) <= p) {
                        pfn = Some(p);
                        break;
                    }
                }
                let Some(mut pfn) = pfn else { continue };
                if !wellformed && !held.is_empty() && rng.chance(1, 6) {
                    pfn = held[rng.below(held.len())].0; // re-allocation of a held pfn
                } else {
                    held.push((pfn, order));
                }
                held_frames += 1 << order;
                evs.push(Ev { alloc: true, pfn, order, cpu, flags });
            } else if !wellformed && rng.chance(1, 6) {
                // free of an unknown pfn
                let p = 1 + rng.below(max_pfn_hdr - 1);
                evs.push(Ev { alloc: false, pfn: p, order: rng.below(3), cpu, flags });
            } else {
                // every third free releases the block allocated last, on the CPU of the previous event:
                // in the late traces the two events then share their f32 sort key (see `write_trace`)
                let recent = rng.chance(1, 3);
                let i = if recent { held.len() - 1 } else { rng.below(held.len()) };
                let cpu = if recent { evs.last().map(|e: &Ev| e.cpu).unwrap_or(cpu) } else { cpu };
                let (p, o) = held.swap_remove(i);
                // whole, first, middle or last part
                let k = if rng.chance(1, 2) { o } else { rng.below(o + 1) };
                let parts = 1usize << (o - k);
                let part = match rng.below(3) {
                    0 => 0,
                    1 => parts - 1,
                    _ => rng.below(parts),
                };
                for x in 0..parts {
                    if x != part {
                        held.push((p + (x << k), k));
                    }
                }
                held_frames -= 1 << k;
                evs.push(Ev { alloc: false, pfn: p + (part << k), order: k, cpu, flags });
            }
        }
        case(u, bin, work, cores, max_pfn_hdr, &evs, wellformed, held_frames);
    }
}

/// replay of one request line
pub fn exec_line(u: &mut Unit, line: &str, bin: &str, work: &str) -> Option<String> {
    let ws: Vec<&str> = line.split_whitespace().collect();
    if ws.first() != Some(&"replay") || ws.len() < 6 || ws[5] != "|" {
        return None;
    }
    let cores: usize = ws[3].parse().ok()?;
    let max_pfn: usize = ws[4].parse().ok()?;
    let mut evs = vec![];
    for e in &ws[6..] {
        let p: Vec<&str> = e.split(':').collect();
        if p.len() != 5 {
            return Some("bad-op".into());
        }
        evs.push(Ev { alloc: p[0] == "a", pfn: p[1].parse().ok()?, order: p[2].parse().ok()?, cpu: p[3].parse().ok()?, flags: p[4].parse().ok()? });
    }
    let before = u.em.exp.len();
    // well-formedness is not known on replay: recompute the trace-level bookkeeping
    let mut held: Vec<(usize, usize)> = vec![];
    let mut wf = true;
    let mut frames = 0usize;
    for e in &evs {
        if e.alloc {
            if held.iter().any(|(hp, ho)| !(e.pfn + (1 << e.order) <= *hp || hp + (1 << ho) <= e.pfn)) {
                wf = false;
            }
            held.push((e.pfn, e.order));
            frames += 1 << e.order;
        } else if let Some(i) = held.iter().position(|(hp, ho)| *hp <= e.pfn && e.pfn + (1 << e.order) <= hp + (1 << ho) && e.order <= *ho) {
            let (p, o) = held.swap_remove(i);
            for x in 0..(1usize << (o - e.order)) {
                if p + (x << e.order) != e.pfn {
                    held.push((p + (x << e.order), e.order));
                }
            }
            frames -= 1 << e.order;
        } else {
            wf = false;
        }
    }
    case(u, bin, work, cores, max_pfn - 1, &evs, wf, frames);
    Some(u.em.exp[before..].trim_end().to_string())
}
