//! Executes request lines on the real allocator, answers them in the driver's format and
//! evaluates the property oracles on what the implementation did (ownership shadow model,
//! accounting, admissible classes, argument rejection, panic capture).

use std::collections::BTreeMap;

use llfree::verif::RowId;
use llfree::*;

use crate::common::*;

#[derive(Clone, Debug)]
pub struct Violation {
    pub prop: &'static str,
    pub msg: String,
    /// index of the request line that exposed it
    pub line: usize,
}

/// Ownership specification (the reading-time model of C02) plus accounting ghosts.
pub struct Shadow {
    pub n: usize,
    /// per frame (up to trees * TREE_FRAMES): allocated? frames >= n are "outside" = allocated
    pub alloc: Vec<bool>,
    /// per huge frame: allocated as one huge frame
    pub whole: Vec<bool>,
    /// per tree: frames hidden by an offline operation
    pub hidden: Vec<usize>,
    pub hfree: Vec<usize>,
    pub tfree: Vec<usize>,
}
impl Shadow {
    pub fn new(n: usize, init: Init) -> Self {
        let nt = n.div_ceil(TREE_FRAMES);
        let total = nt * TREE_FRAMES;
        let mut s = Shadow {
            n,
            alloc: vec![true; total],
            whole: vec![false; nt * TREE_HUGE],
            hidden: vec![0; nt],
            hfree: vec![0; nt * TREE_HUGE],
            tfree: vec![0; nt],
        };
        match init {
            Init::FreeAll => {
                for f in 0..n {
                    s.alloc[f] = false;
                }
            }
            Init::AllocAll => {
                for h in 0..n / HUGE_FRAMES {
                    s.whole[h] = true;
                }
            }
            _ => {}
        }
        s.recount();
        s
    }
    /// derive from the logical lower words (Init::None / Recover over given metadata)
    pub fn from_words(n: usize, w: &Words) -> Self {
        let mut s = Shadow::new(n, Init::AllocAll);
        for h in 0..s.whole.len() {
            let marker = w.huge.get(h).copied() == Some(u16::MAX);
            s.whole[h] = marker;
            for i in 0..HUGE_FRAMES {
                let f = h * HUGE_FRAMES + i;
                let bit = match w.rows.get(h * ROWS + i / 64) {
                    Some(r) => (r >> (i % 64)) & 1 == 1,
                    None => true,
                };
                s.alloc[f] = marker || bit || f >= n;
            }
        }
        s.recount();
        s
    }
    pub fn recount(&mut self) {
        for h in 0..self.hfree.len() {
            self.hfree[h] = (0..HUGE_FRAMES).filter(|i| !self.alloc[h * HUGE_FRAMES + i]).count();
        }
        for t in 0..self.tfree.len() {
            self.tfree[t] = (0..TREE_HUGE).map(|c| self.hfree[t * TREE_HUGE + c]).sum();
        }
    }
    pub fn set(&mut self, f: usize, a: bool) {
        if self.alloc[f] != a {
            self.alloc[f] = a;
            let h = f / HUGE_FRAMES;
            let t = f / TREE_FRAMES;
            if a {
                self.hfree[h] -= 1;
                self.tfree[t] -= 1;
            } else {
                self.hfree[h] += 1;
                self.tfree[t] += 1;
            }
        }
    }
    pub fn block_free(&self, frame: usize, order: usize) -> bool {
        (frame..frame + (1 << order)).all(|f| f < self.n && !self.alloc[f])
    }
    pub fn block_allocated(&self, frame: usize, order: usize) -> bool {
        (frame..frame + (1 << order)).all(|f| f < self.n && self.alloc[f])
    }
    /// would the specification let this free succeed (arguments already valid)?
    pub fn put_allowed(&self, frame: usize, order: usize) -> bool {
        if order >= HUGE_ORDER {
            (frame / HUGE_FRAMES..(frame + (1 << order)) / HUGE_FRAMES).all(|h| self.whole[h])
        } else {
            self.block_allocated(frame, order)
        }
    }
    pub fn apply_put(&mut self, frame: usize, order: usize) {
        if order >= HUGE_ORDER {
            for h in frame / HUGE_FRAMES..(frame + (1 << order)) / HUGE_FRAMES {
                self.whole[h] = false;
            }
        } else {
            // freeing part of a whole huge frame splits it
            self.whole[frame / HUGE_FRAMES] = false;
        }
        for f in frame..frame + (1 << order) {
            self.set(f, false);
        }
    }
    pub fn apply_get(&mut self, frame: usize, order: usize) {
        for f in frame..frame + (1 << order) {
            self.set(f, true);
        }
        if order >= HUGE_ORDER {
            for h in frame / HUGE_FRAMES..(frame + (1 << order)) / HUGE_FRAMES {
                self.whole[h] = true;
            }
        }
    }
    pub fn free_frames(&self) -> usize {
        self.tfree.iter().sum()
    }
    pub fn free_huge(&self) -> usize {
        self.hfree.iter().filter(|f| **f == HUGE_FRAMES).count()
    }
    pub fn free_trees(&self) -> usize {
        self.tfree.iter().filter(|f| **f == TREE_FRAMES).count()
    }
    pub fn hidden_total(&self) -> usize {
        self.hidden.iter().sum()
    }
    /// compare with the allocation status encoded in the lower metadata
    pub fn diff_abs(&self, w: &Words) -> Option<String> {
        for h in 0..w.huge.len() {
            let marker = w.huge[h] == u16::MAX;
            if marker != self.whole[h] {
                return Some(format!("huge frame {h}: marker={marker} but spec whole={}", self.whole[h]));
            }
            if h * ROWS >= w.rows.len() {
                continue;
            }
            for r in 0..ROWS {
                let row = w.rows[h * ROWS + r];
                let mut want = 0u64;
                for b in 0..64 {
                    let f = h * HUGE_FRAMES + r * 64 + b;
                    if self.alloc[f] && !marker {
                        want |= 1 << b;
                    }
                }
                if row != want {
                    return Some(format!(
                        "huge frame {h} row {r}: metadata {row:016x} but spec {want:016x} (marker={marker})"
                    ));
                }
            }
            if !marker && w.huge[h] as usize != self.hfree[h] {
                return Some(format!("huge frame {h}: counter {} but {} frames free", w.huge[h], self.hfree[h]));
            }
        }
        None
    }
}

macro_rules! viol {
    ($s:expr, $prop:expr, $msg:expr) => {{
        let m: String = $msg;
        // after a captured panic the allocator's state is whatever the unwinding left behind:
        // the state oracles say nothing about the rest of that history (the line-by-line
        // comparison with the model goes on)
        if $s.violations.len() < 50 && !$s.poisoned {
            $s.violations.push(Violation { prop: $prop, msg: m, line: $s.line });
        }
    }};
}
/// a call panicked: a C09 violation if the configuration is one the property quantifies over
/// (the repository's policies; the generator's policies with `Invalid` class pairs are only
/// compared with the model), and the end of the state oracles for this allocator instance
macro_rules! panicked {
    ($s:expr, $msg:expr) => {{
        let m: String = $msg;
        let in_scope = $s.inst.as_ref().map(|i| i.cfg.pol.never_invalid()).unwrap_or(true);
        if in_scope {
            viol!($s, "C09", m);
        } else {
            $s.cov.hit("panic", "out-of-scope-policy", "");
        }
        $s.poisoned = true;
    }};
}

pub struct Inst {
    pub cfg: Config,
    pub bufs: Bufs,
    /// the allocator, always wrapped in a `ZoneAlloc` (offset 0 unless requested)
    pub zone: llfree::wrapper::ZoneAlloc<'static, LLFree<'static>>,
    pub offset: usize,
}
impl std::ops::Deref for Inst {
    type Target = llfree::wrapper::ZoneAlloc<'static, LLFree<'static>>;
    fn deref(&self) -> &Self::Target {
        &self.zone
    }
}
impl Inst {
    pub fn create(cfg: &Config, init: Init, bufs: Bufs) -> std::result::Result<std::result::Result<Inst, Error>, String> {
        Self::create_zone(cfg, init, bufs, 0)
    }
    pub fn create_zone(cfg: &Config, init: Init, bufs: Bufs, offset: usize) -> std::result::Result<std::result::Result<Inst, Error>, String> {
        let classing = cfg.classing();
        let meta = bufs.meta();
        let frames = cfg.frames;
        match guarded(|| llfree::wrapper::ZoneAlloc::<LLFree>::create(offset, frames, init, &classing, meta)) {
            Ok(Ok(zone)) => Ok(Ok(Inst { cfg: cfg.clone(), bufs, zone, offset })),
            Ok(Err(e)) => Ok(Err(e)),
            Err(p) => Err(p),
        }
    }
    pub fn words(&self) -> Words {
        words(&self.cfg, &self.bufs)
    }
}

#[derive(Default)]
pub struct Coverage {
    pub ops: BTreeMap<String, usize>,
    pub results: BTreeMap<String, usize>,
    pub orders: BTreeMap<usize, usize>,
    pub sigs: std::collections::BTreeSet<String>,
    pub oracle_checks: BTreeMap<&'static str, usize>,
}
impl Coverage {
    pub fn hit(&mut self, op: &str, res: &str, extra: &str) {
        *self.ops.entry(op.to_string()).or_default() += 1;
        *self.results.entry(format!("{op}:{res}")).or_default() += 1;
        self.sigs.insert(format!("{op}:{res}:{extra}"));
    }
    pub fn oracle(&mut self, p: &'static str) {
        *self.oracle_checks.entry(p).or_default() += 1;
    }
}

pub struct Engine {
    pub inst: Option<Inst>,
    pub twin: Option<Inst>,
    pub shadow: Option<Shadow>,
    pub violations: Vec<Violation>,
    pub line: usize,
    pub cov: Coverage,
    pub just_drained: bool,
    /// C11: only base-order requests of one class through one slot so far
    pub c11_ok: bool,
    pub dead: bool,
    /// direct lower calls were used: the upper counters are no longer meaningful
    pub lower_only: bool,
    pub held: Vec<(usize, usize)>,
    /// first line index of the current instance (replay prefix)
    pub panics: usize,
    /// a call of the current instance panicked
    pub poisoned: bool,
}

fn parse_opt(s: &str) -> Option<Option<usize>> {
    if s == "-" { Some(None) } else { s.parse().ok().map(Some) }
}

impl Engine {
    pub fn new() -> Self {
        Engine {
            inst: None,
            twin: None,
            shadow: None,
            violations: vec![],
            line: 0,
            cov: Coverage::default(),
            just_drained: false,
            c11_ok: false,
            dead: false,
            lower_only: false,
            held: vec![],
            panics: 0,
            poisoned: false,
        }
    }
    pub fn parse_pol(s: &str) -> Option<Pol> {
        let parts: Vec<&str> = s.split(':').collect();
        match parts.as_slice() {
            ["simple"] => Some(Pol::Simple),
            ["movable"] => Some(Pol::Movable),
            ["zeroed"] => Some(Pol::Zeroed),
            ["inv", "simple", rest @ ..] => {
                let mut v = vec![];
                for p in rest {
                    let (a, b) = p.split_once('>')?;
                    v.push((a.parse().ok()?, b.parse().ok()?));
                }
                Some(Pol::InvSimple(v))
            }
            _ => None,
        }
    }
    pub fn parse_classes(s: &str) -> Option<Vec<(u8, usize)>> {
        if s == "-" {
            return Some(vec![]);
        }
        s.split(',')
            .map(|p| {
                let (a, b) = p.split_once(':')?;
                Some((a.parse().ok()?, b.parse().ok()?))
            })
            .collect()
    }

    fn valid_args(&self, frame: usize, order: usize, class: u8) -> bool {
        let i = self.inst.as_ref().unwrap();
        order <= TREE_ORDER
            && frame.checked_add(1 << order).is_some_and(|e| e <= i.cfg.frames)
            && frame % (1 << order) == 0
            && i.cfg.slots_of(class).is_some()
    }

    /// after every call: metadata allocation status == specification
    fn check_abs(&mut self, what: &str) {
        if self.dead {
            return;
        }
        let (Some(i), Some(s)) = (&self.inst, &self.shadow) else { return };
        let w = i.words();
        self.cov.oracle("C02");
        if let Some(d) = s.diff_abs(&w) {
            let m = format!("after {what}: {d}");
            viol!(self, "C02", m);
            // C05: the metadata no longer records what the callers hold; does a recovery from this (quiescent)
            // state restore it? Recover a copy of the lower metadata with the real code and compare frame by frame.
            if !self.lower_only && i.offset == 0 {
                self.cov.oracle("C05");
                let fresh = Bufs::for_cfg(&i.cfg);
                fresh.lower.slice().copy_from_slice(i.bufs.lower.bytes());
                if let Ok(Ok(rec)) = Inst::create(&i.cfg, Init::Recover, fresh) {
                    let n = i.cfg.frames;
                    let bad = (0..n.min(s.alloc.len()))
                        .find(|&f| guarded(|| rec.alloc.lower.is_free(FrameId(f), 0)).map(|fr| fr == s.alloc[f]).unwrap_or(false));
                    if let Some(f) = bad {
                        let m = if s.alloc[f] {
                            format!("after {what}: a recovery from this quiescent state loses a completed allocation: frame {f} is held by a caller and free after LLFree::new(Init::Recover)")
                        } else {
                            format!("after {what}: a recovery from this quiescent state loses a free frame: frame {f} is free and allocated after LLFree::new(Init::Recover)")
                        };
                        viol!(self, "C05", m);
                    }
                }
            }
            // resynchronise so that one defect is reported once
            let n = i.cfg.frames;
            let hidden = s.hidden.clone();
            let mut ns = Shadow::from_words(n, &w);
            ns.hidden = hidden;
            self.shadow = Some(ns);
        }
    }

    fn class_admissible(&self, requested: u8, got: u8) -> bool {
        if requested == got {
            return true;
        }
        let i = self.inst.as_ref().unwrap();
        let pol = i.cfg.pol.func();
        [0, 1, TREE_FRAMES / 64, TREE_FRAMES / 2, TREE_FRAMES]
            .iter()
            .any(|f| matches!(pol(Class(requested), Class(got), *f), Policy::Match(_) | Policy::Steal))
    }

    /// Execute one request line; returns the answer line (None for blank lines).
    pub fn exec(&mut self, line: &str) -> Option<String> {
        watch_begin(line);
        let r = self.exec_inner(line);
        watch_end();
        r
    }

    fn exec_inner(&mut self, line: &str) -> Option<String> {
        self.line += 1;
        let ws: Vec<&str> = line.split_whitespace().collect();
        if ws.is_empty() {
            return None;
        }
        let ans = self.exec_words(&ws);
        Some(ans)
    }

    fn exec_words(&mut self, ws: &[&str]) -> String {
        match ws {
            ["geom", a, b] => {
                if a.parse() == Ok(HUGE_ORDER) && b.parse() == Ok(TREE_HUGE) {
                    "ok".into()
                } else {
                    "bad-op geometry-mismatch".into()
                }
            }
            ["new", frames, init, dflt, pol, classes, rest @ ..] => {
                let zoff: usize = match rest {
                    [] => 0,
                    [z] => match z.strip_prefix("zone:").and_then(|v| v.parse().ok()) {
                        Some(v) => v,
                        None => return "bad-op".into(),
                    },
                    _ => return "bad-op".into(),
                };
                let (Ok(frames), Ok(dflt), Some(pol), Some(classes)) =
                    (frames.parse::<usize>(), dflt.parse::<u8>(), Self::parse_pol(pol), Self::parse_classes(classes))
                else {
                    return "bad-op".into();
                };
                let init = match *init {
                    "free" => Init::FreeAll,
                    "alloc" => Init::AllocAll,
                    "recover" => Init::Recover,
                    "none" => Init::None,
                    _ => return "bad-op".into(),
                };
                let cfg = Config { frames, classes, default: dflt, pol };
                // Init::None / Recover keep the buffers of the previous instance if shapes agree
                let keep = matches!(init, Init::None | Init::Recover)
                    && self.inst.as_ref().is_some_and(|i| {
                        i.cfg.frames == frames && i.cfg.nslots() == cfg.nslots()
                    });
                let old = self.inst.take();
                self.twin = None;
                let bufs = if keep {
                    let o = old.unwrap();
                    let Inst { bufs, zone, .. } = o;
                    drop(zone);
                    if init == Init::Recover {
                        // only the lower metadata is persistent
                        bufs.local.slice().fill(0);
                        bufs.trees.slice().fill(0);
                    }
                    bufs
                } else {
                    drop(old);
                    Bufs::for_cfg(&cfg)
                };
                let history_ok = !self.dead && !self.poisoned && !self.lower_only;
                self.dead = false;
                self.poisoned = false;
                self.lower_only = false;
                self.just_drained = false;
                self.held.clear();
                // C11: all allocations are base-order requests of the first configured class through its only slot.
                // Other classes may be configured (trees start in the default class and are demoted on the way) if
                // the policy is one of the repository's ordered ones and the requesting class is the lowest: then
                // every tree is a match or can be demoted, so "fails only if no frame is free" applies.
                self.c11_ok = !cfg.classes.is_empty()
                    && cfg.classes[0].1 == 1
                    && (cfg.classes.len() == 1
                        || (matches!(cfg.pol, Pol::Simple | Pol::Movable)
                            && cfg.classes.iter().all(|c| c.0 >= cfg.classes[0].0)
                            && cfg.classes.iter().filter(|c| c.0 == cfg.classes[0].0).count() == 1));
                self.cov.hit("new", init_name(init), "");
                let hidden_keep = if keep { self.shadow.as_ref().map(|s| s.hidden.clone()) } else { None };
                // C05, sequential half: what the callers held (ownership model, not the metadata) before a recovery
                // at a quiescent point; a poisoned or lower-only history has no trustworthy record
                let before_recover = if keep && init == Init::Recover && history_ok {
                    self.shadow.as_ref().map(|s| s.alloc.clone())
                } else {
                    None
                };
                match Inst::create_zone(&cfg, init, bufs, zoff) {
                    Ok(Ok(inst)) => {
                        let w = inst.words();
                        let mut sh = match init {
                            Init::FreeAll | Init::AllocAll => Shadow::new(frames, init),
                            _ => Shadow::from_words(frames, &w),
                        };
                        if init == Init::None {
                            if let Some(h) = hidden_keep {
                                if h.len() == sh.hidden.len() {
                                    sh.hidden = h;
                                }
                            }
                        }
                        if let Some(before) = before_recover {
                            self.cov.oracle("C05");
                            if before.len() == sh.alloc.len() {
                                if let Some(f) = (0..frames.min(before.len())).find(|&f| before[f] != sh.alloc[f]) {
                                    let msg = if before[f] {
                                        format!("recovery at a quiescent point lost a completed allocation: frame {f} was held before and is free afterwards")
                                    } else {
                                        format!("recovery at a quiescent point lost a free frame: frame {f} was free before and is allocated afterwards")
                                    };
                                    viol!(self, "C05", msg);
                                }
                            }
                        }
                        self.inst = Some(inst);
                        self.shadow = Some(sh);
                        self.check_abs("new");
                        "ok".into()
                    }
                    Ok(Err(e)) => {
                        self.shadow = None;
                        err_str(e).into()
                    }
                    Err(p) => {
                        self.shadow = None;
                        self.panics += 1;
                        panicked!(self, format!("LLFree::new panicked: {p}"));
                        format!("panic {p}")
                    }
                }
            }
            ["mem", rest @ ..] => {
                // write logical words into the buffers of the current instance
                let Some(inst) = &self.inst else { return "bad-op no-inst".into() };
                let joined = rest.join(" ");
                let mut secs: BTreeMap<&str, Vec<u64>> = BTreeMap::new();
                for sec in joined.split(" | ") {
                    let mut it = sec.split_whitespace();
                    let Some(name) = it.next() else { continue };
                    let mut v = vec![];
                    for x in it {
                        match u64::from_str_radix(x, 16) {
                            Ok(n) => v.push(n),
                            Err(_) => return "bad-op".into(),
                        }
                    }
                    secs.insert(name, v);
                }
                let nh = inst.cfg.nhuge();
                let b = &inst.bufs;
                let put = |buf: &Buf, off: usize, bytes: &[u8]| {
                    if off + bytes.len() <= buf.len {
                        buf.slice()[off..off + bytes.len()].copy_from_slice(bytes);
                    }
                };
                for (i, v) in secs.get("rows").into_iter().flatten().enumerate() {
                    put(&b.lower, (i / ROWS) * bitfield_stride() + (i % ROWS) * 8, &v.to_le_bytes());
                }
                for (i, v) in secs.get("huge").into_iter().flatten().enumerate() {
                    put(
                        &b.lower,
                        nh * bitfield_stride() + (i / TREE_HUGE) * table_stride() + (i % TREE_HUGE) * 2,
                        &(*v as u16).to_le_bytes(),
                    );
                }
                for (i, v) in secs.get("trees").into_iter().flatten().enumerate() {
                    put(&b.trees, i * 4, &(*v as u32).to_le_bytes());
                }
                for (i, v) in secs.get("slots").into_iter().flatten().enumerate() {
                    put(&b.local, i * 64, &v.to_le_bytes());
                }
                "ok".into()
            }
            _ => {
                if self.inst.is_none() {
                    return "bad-op no-cfg".into();
                }
                self.exec_call(ws)
            }
        }
    }

    fn exec_call(&mut self, ws: &[&str]) -> String {
        let frames = self.inst.as_ref().unwrap().cfg.frames;
        match ws {
            [op @ ("get" | "zget"), o, k, l, f] => {
                let (Ok(order), Ok(class), Some(local), Some(target)) =
                    (o.parse::<usize>(), k.parse::<u8>(), parse_opt(l), parse_opt(f))
                else {
                    return "bad-op".into();
                };
                let before = digest(&self.inst.as_ref().unwrap().words());
                let req = Request::new(order, Class(class), local);
                let zoff = if *op == "zget" { self.inst.as_ref().unwrap().offset } else { 0 };
                let ztarget = target;
                // the inner (zone-relative) target the oracles reason about
                let target = match target {
                    Some(t) if t < zoff => {
                        // C17/C08: frames below the zone offset are rejected
                        let z = &self.inst.as_ref().unwrap().zone;
                        let r = guarded(|| z.get(Some(FrameId(t)), req));
                        self.cov.oracle("C17");
                        if !matches!(r, Ok(Err(Error::Argument))) || digest(&self.inst.as_ref().unwrap().words()) != before {
                            viol!(self, "C17", format!("zone get below the offset: {r:?}"));
                            viol!(self, "C08", format!("zone get below the offset was not rejected with Argument: {r:?}"));
                        }
                        self.cov.hit("zget", "below", "");
                        return match r {
                            Ok(Ok((f, c))) => format!("ok {} {}", f.0, c.0),
                            Ok(Err(e)) => err_str(e).into(),
                            Err(p) => format!("panic {p}"),
                        };
                    }
                    Some(t) => Some(t - zoff),
                    None => None,
                };
                let r = {
                    let i = self.inst.as_ref().unwrap();
                    if *op == "zget" {
                        let z = &i.zone;
                        match guarded(|| z.get(ztarget.map(FrameId), req)) {
                            Ok(Ok((f, c))) => {
                                self.cov.oracle("C17");
                                if f.0 < zoff {
                                    viol!(self, "C17", format!("zone get returned frame {} below the offset {zoff}", f.0));
                                    Ok(Ok((FrameId(0), c)))
                                } else {
                                    Ok(Ok((FrameId(f.0 - zoff), c)))
                                }
                            }
                            x => x,
                        }
                    } else {
                        let a = &i.alloc;
                        guarded(|| a.get(target.map(FrameId), req))
                    }
                };
                let twin_r = self.twin.as_ref().map(|t| guarded(|| t.alloc.get(target.map(FrameId), req)));
                let drained = std::mem::replace(&mut self.just_drained, false);
                if order != 0 || self.inst.as_ref().unwrap().cfg.classes[0].0 != class || local != Some(0) || target.is_some() {
                    self.c11_ok = false;
                }
                self.cov.orders.entry(order).and_modify(|c| *c += 1).or_insert(1);
                let valid = self.valid_args(target.unwrap_or(0), order, class);
                let ans = match &r {
                    Ok(Ok((frame, cls))) => {
                        let frame = frame.0;
                        self.cov.hit("get", "ok", &format!("o{order} t{} l{}", target.is_some(), local.is_some()));
                        self.cov.oracle("C01");
                        self.cov.oracle("C13");
                        let mut bad = None;
                        if !valid {
                            viol!(self, "C08", format!("get with invalid arguments succeeded: {ws:?}"));
                        }
                        if frame % (1 << order) != 0 || frame + (1 << order) > frames {
                            bad = Some(format!("block {frame} order {order} misaligned or out of range"));
                        } else if !self.shadow.as_ref().unwrap().block_free(frame, order) {
                            bad = Some(format!("get returned block {frame} order {order} that is not entirely free"));
                        } else if target.is_some_and(|t| t != frame) {
                            bad = Some(format!("targeted get({target:?}) returned {frame}"));
                        }
                        if let Some(b) = bad {
                            // also the sequential ownership model (C02): only entirely free blocks, a targeted get returns its target
                            self.cov.oracle("C02");
                            viol!(self, "C02", b.clone());
                            viol!(self, "C01", b);
                        }
                        if !self.class_admissible(class, cls.0) {
                            viol!(self, "C13", format!("get class {class} returned class {} which the policy does not permit", cls.0));
                        }
                        let t = frame / TREE_FRAMES;
                        let sh = self.shadow.as_mut().unwrap();
                        if t < sh.hidden.len() && sh.hidden[t] > 0 && sh.hidden[t] == sh.tfree[t] {
                            viol!(self, "C15", format!("get returned frame {frame} of offline tree {t}"));
                        }
                        let sh = self.shadow.as_mut().unwrap();
                        if frame + (1 << order) <= sh.alloc.len() {
                            sh.apply_get(frame, order);
                        }
                        self.held.push((frame, order));
                        format!("ok {} {}", frame + zoff, cls.0)
                    }
                    Ok(Err(e)) => {
                        self.cov.hit("get", err_str(*e), &format!("o{order} t{} l{}", target.is_some(), local.is_some()));
                        match e {
                            Error::Argument => {
                                self.cov.oracle("C08");
                                if valid {
                                    viol!(self, "C08", format!("valid get rejected as invalid argument: {ws:?}"));
                                }
                                if digest(&self.inst.as_ref().unwrap().words()) != before {
                                    viol!(self, "C08", format!("rejected get changed the metadata: {ws:?}"));
                                }
                            }
                            Error::Memory => {
                                if !valid {
                                    viol!(self, "C08", format!("invalid get not rejected with Argument: {ws:?}"));
                                }
                                let sh = self.shadow.as_ref().unwrap();
                                let never_inv = self.inst.as_ref().unwrap().cfg.pol.never_invalid();
                                if valid && drained && never_inv && !self.lower_only {
                                    self.cov.oracle("C10");
                                    if let Some(t) = target {
                                        let tr = t / TREE_FRAMES;
                                        if sh.block_free(t, order) && sh.hidden[tr] == 0 {
                                            let m = format!("after drain: targeted get({t}, order {order}) failed although the block is free");
                                            viol!(self, "C10", m);
                                        }
                                    } else if order == 0 {
                                        if let Some(t) = (0..sh.tfree.len()).find(|t| sh.hidden[*t] == 0 && sh.tfree[*t] > 0) {
                                            let m = format!("after drain: get(order 0, class {class}) out of memory but tree {t} has {} free frames", sh.tfree[t]);
                                            viol!(self, "C10", m);
                                        }
                                    }
                                }
                                if valid && self.c11_ok && sh.hidden_total() == 0 && !self.lower_only {
                                    self.cov.oracle("C11");
                                    if sh.free_frames() > 0 {
                                        let m = format!("single-slot get out of memory with {} free frames", sh.free_frames());
                                        viol!(self, "C11", m);
                                    }
                                }
                            }
                            Error::Initialization => viol!(self, "C09", "get returned Initialization".into()),
                        }
                        err_str(*e).into()
                    }
                    Err(p) => {
                        self.cov.hit("get", "panic", p);
                        self.panics += 1;
                        panicked!(self, format!("get panicked: {p} ({ws:?})"));
                        format!("panic {p}")
                    }
                };
                if let Some(tr) = twin_r {
                    self.compare_twin(&format!("{r:?}"), &format!("{tr:?}"), ws);
                }
                self.check_abs(&ws.join(" "));
                ans
            }
            [op @ ("put" | "zput"), f, o, k, l] => {
                let (Ok(frame), Ok(order), Ok(class), Some(local)) =
                    (f.parse::<usize>(), o.parse::<usize>(), k.parse::<u8>(), parse_opt(l))
                else {
                    return "bad-op".into();
                };
                let before = digest(&self.inst.as_ref().unwrap().words());
                let req = Request::new(order, Class(class), local);
                let zoff = if *op == "zput" { self.inst.as_ref().unwrap().offset } else { 0 };
                if frame < zoff {
                    let z = &self.inst.as_ref().unwrap().zone;
                    let r = guarded(|| z.put(FrameId(frame), req));
                    self.cov.oracle("C17");
                    if !matches!(r, Ok(Err(Error::Argument))) || digest(&self.inst.as_ref().unwrap().words()) != before {
                        viol!(self, "C17", format!("zone put below the offset: {r:?}"));
                        viol!(self, "C08", format!("zone put below the offset was not rejected with Argument: {r:?}"));
                    }
                    self.cov.hit("zput", "below", "");
                    return match r {
                        Ok(Ok(())) => "ok".into(),
                        Ok(Err(e)) => err_str(e).into(),
                        Err(p) => format!("panic {p}"),
                    };
                }
                let zframe = frame;
                let frame = frame - zoff;
                let r = {
                    let i = self.inst.as_ref().unwrap();
                    if *op == "zput" {
                        let z = &i.zone;
                        guarded(|| z.put(FrameId(zframe), req))
                    } else {
                        let a = &i.alloc;
                        guarded(|| a.put(FrameId(frame), req))
                    }
                };
                let twin_r = self.twin.as_ref().map(|t| guarded(|| t.alloc.put(FrameId(frame), req)));
                self.just_drained = false;
                if order != 0 || self.inst.as_ref().unwrap().cfg.classes[0].0 != class || !(local == Some(0) || local.is_none()) {
                    self.c11_ok = false;
                }
                let valid = self.valid_args(frame, order, class);
                let allowed = valid && self.shadow.as_ref().unwrap().put_allowed(frame, order);
                let ans = match &r {
                    Ok(Ok(())) => {
                        self.cov.hit("put", "ok", &format!("o{order} l{}", local.is_some()));
                        self.cov.oracle("C02");
                        if !valid {
                            viol!(self, "C08", format!("put with invalid arguments succeeded: {ws:?}"));
                        } else if !allowed {
                            viol!(self, "C02", format!("put({frame}, order {order}) succeeded although the block is not allocated as the model requires"));
                        }
                        if valid {
                            self.shadow.as_mut().unwrap().apply_put(frame, order);
                        }
                        if let Some(p) = self.held.iter().position(|h| *h == (frame, order)) {
                            self.held.swap_remove(p);
                        }
                        "ok".to_string()
                    }
                    Ok(Err(e)) => {
                        self.cov.hit("put", err_str(*e), &format!("o{order} l{}", local.is_some()));
                        match e {
                            Error::Argument => {
                                self.cov.oracle("C08");
                                if valid {
                                    viol!(self, "C08", format!("valid put rejected as invalid argument: {ws:?}"));
                                }
                                if digest(&self.inst.as_ref().unwrap().words()) != before {
                                    viol!(self, "C08", format!("rejected put changed the metadata: {ws:?}"));
                                }
                            }
                            _ => {
                                self.cov.oracle("C02");
                                if !valid {
                                    viol!(self, "C08", format!("invalid put not rejected with Argument: {ws:?}"));
                                }
                                if allowed {
                                    viol!(self, "C02", format!("put({frame}, order {order}) of an allocated block failed"));
                                }
                            }
                        }
                        err_str(*e).into()
                    }
                    Err(p) => {
                        self.cov.hit("put", "panic", p);
                        self.panics += 1;
                        panicked!(self, format!("put panicked: {p} ({ws:?})"));
                        format!("panic {p}")
                    }
                };
                if let Some(tr) = twin_r {
                    self.compare_twin(&format!("{r:?}"), &format!("{tr:?}"), ws);
                }
                self.check_abs(&ws.join(" "));
                ans
            }
            ["drain"] => {
                let r = {
                    let a = &self.inst.as_ref().unwrap().alloc;
                    guarded(|| a.drain())
                };
                if let Some(t) = &self.twin {
                    let _ = guarded(|| t.alloc.drain());
                }
                self.cov.hit("drain", if r.is_ok() { "ok" } else { "panic" }, "");
                self.just_drained = r.is_ok();
                let ans = match r {
                    Ok(()) => "ok".to_string(),
                    Err(p) => {
                        self.panics += 1;
                        panicked!(self, format!("drain panicked: {p}"));
                        format!("panic {p}")
                    }
                };
                self.check_abs("drain");
                ans
            }
            ["change", id, mc, mf, cc, op] => {
                let (Some(id), Some(mc), Ok(mf), Some(cc)) =
                    (parse_opt(id), parse_opt(mc), mf.parse::<usize>(), parse_opt(cc))
                else {
                    return "bad-op".into();
                };
                let operation = match *op {
                    "on" => Some(TreeOperation::Online),
                    "off" => Some(TreeOperation::Offline),
                    "-" => None,
                    _ => return "bad-op".into(),
                };
                self.c11_ok = false;
                self.just_drained = false;
                let nt = self.inst.as_ref().unwrap().cfg.ntrees();
                let snap = |i: &Inst| -> Vec<(u8, usize, bool)> {
                    (0..nt)
                        .map(|t| {
                            let (c, f, r) = i.alloc.trees.stats_at(TreeId(t));
                            (c.0, f, r)
                        })
                        .collect()
                };
                let before = snap(self.inst.as_ref().unwrap());
                let dbefore = digest(&self.inst.as_ref().unwrap().words());
                let mk = || {
                    (
                        TreeMatch { id: id.map(TreeId), class: mc.map(|c| Class(c as u8)), free: mf },
                        TreeChange { class: cc.map(|c| Class(c as u8)), operation: operation.clone() },
                    )
                };
                let r = {
                    let a = &self.inst.as_ref().unwrap().alloc;
                    let (m, c) = mk();
                    guarded(|| a.change_tree(m, c))
                };
                if let Some(t) = &self.twin {
                    let (m, c) = mk();
                    let _ = guarded(|| t.alloc.change_tree(m, c));
                }
                let after = snap(self.inst.as_ref().unwrap());
                let matches = |e: &(u8, usize, bool)| !e.2 && mc.is_none_or(|c| c as u8 == e.0) && e.1 >= mf;
                let ans = match &r {
                    Ok(Ok(())) => {
                        self.cov.hit("change", "ok", &format!("{op} id{} cls{}", id.is_some(), cc.is_some()));
                        self.cov.oracle("C15");
                        let changed: Vec<usize> = (0..nt).filter(|t| before[*t] != after[*t]).collect();
                        if changed.len() > 1 {
                            viol!(self, "C15", format!("change_tree changed several trees {changed:?}"));
                        }
                        let target = id.or(changed.first().copied());
                        if let Some(t) = target.filter(|t| *t < nt) {
                            if !matches(&before[t]) {
                                viol!(self, "C15", format!("change_tree applied to tree {t} = {:?} which is reserved or does not match", before[t]));
                            }
                            let sh = self.shadow.as_mut().unwrap();
                            match operation {
                                Some(TreeOperation::Offline) => sh.hidden[t] += before[t].1,
                                Some(TreeOperation::Online) => {
                                    sh.hidden[t] = 0;
                                    let want = sh.tfree[t];
                                    if after[t].1 != want && !self.lower_only {
                                        let m = format!("online tree {t}: counter {} but {} frames are free", after[t].1, want);
                                        viol!(self, "C15", m);
                                    }
                                }
                                None => {}
                            }
                            if let Some(c) = cc {
                                if after[t].0 != c as u8 {
                                    viol!(self, "C15", format!("change_tree: class of tree {t} is {} not {c}", after[t].0));
                                }
                            }
                        } else if id.is_none() && changed.is_empty() {
                            // a no-op change (e.g. same class) of the first matching tree: fine
                        }
                        "ok".to_string()
                    }
                    Ok(Err(e)) => {
                        self.cov.hit("change", err_str(*e), &format!("{op} id{}", id.is_some()));
                        self.cov.oracle("C15");
                        if digest(&self.inst.as_ref().unwrap().words()) != dbefore {
                            viol!(self, "C15", "failed change_tree changed the metadata".into());
                        }
                        if let Some(t) = id.filter(|t| *t < nt) {
                            let online_nonempty = operation == Some(TreeOperation::Online) && before[t].1 != 0;
                            if matches(&before[t]) && !online_nonempty {
                                viol!(self, "C15", format!("change_tree on matching unreserved tree {t} = {:?} failed", before[t]));
                            }
                        }
                        err_str(*e).into()
                    }
                    Err(p) => {
                        self.cov.hit("change", "panic", p);
                        self.panics += 1;
                        panicked!(self, format!("change_tree panicked: {p} ({ws:?})"));
                        format!("panic {p}")
                    }
                };
                self.check_abs(&ws.join(" "));
                ans
            }
            ["validate"] => {
                let r = {
                    let a = &self.inst.as_ref().unwrap().alloc;
                    guarded(|| a.validate())
                };
                self.cov.hit("validate", if r.is_ok() { "ok" } else { "panic" }, "");
                match r {
                    Ok(()) => "ok".into(),
                    Err(p) => {
                        if self.shadow.as_ref().unwrap().hidden_total() == 0 && !self.lower_only {
                            viol!(self, "C04", format!("validate failed with no tree offline: {p}"));
                        }
                        format!("panic {p}")
                    }
                }
            }
            ["stats"] => {
                let r = {
                    let a = &self.inst.as_ref().unwrap().alloc;
                    guarded(|| a.stats())
                };
                match r {
                    Ok(s) => {
                        self.cov.hit("stats", "ok", "");
                        self.cov.oracle("C04");
                        let sh = self.shadow.as_ref().unwrap();
                        let want = (sh.free_frames(), sh.free_huge(), sh.free_trees());
                        if (s.free_frames, s.free_huge, s.free_trees) != want {
                            let m = format!("stats() = {:?} but the allocation state has (free, huge, trees) = {want:?}", (s.free_frames, s.free_huge, s.free_trees));
                            viol!(self, "C04", m);
                        }
                        stats_str(&s)
                    }
                    Err(p) => {
                        panicked!(self, format!("stats panicked: {p}"));
                        format!("panic {p}")
                    }
                }
            }
            ["tstats"] => {
                let r = {
                    let a = &self.inst.as_ref().unwrap().alloc;
                    guarded(|| a.tree_stats())
                };
                match r {
                    Ok(s) => {
                        self.cov.hit("tstats", "ok", "");
                        if !self.lower_only {
                            self.cov.oracle("C04");
                            self.cov.oracle("C14");
                            let sh = self.shadow.as_ref().unwrap();
                            let want = sh.free_frames() - sh.hidden_total().min(sh.free_frames());
                            if s.free_frames != want {
                                let m = format!("tree_stats().free_frames = {} but exact {} minus offline {} = {want}", s.free_frames, sh.free_frames(), sh.hidden_total());
                                viol!(self, "C04", m);
                            }
                            let sum: usize = s.classes.iter().map(|c| c.free_frames + c.alloc_frames).sum();
                            let fsum: usize = s.classes.iter().map(|c| c.free_frames).sum();
                            let nt = sh.tfree.len();
                            if sum != nt * TREE_FRAMES {
                                let m = format!("per-class free+alloc sums to {sum}, not trees*TREE_FRAMES = {}", nt * TREE_FRAMES);
                                viol!(self, "C14", m);
                            }
                            if fsum != s.free_frames {
                                let m = format!("per-class free sums to {fsum}, fast total is {}", s.free_frames);
                                viol!(self, "C14", m);
                            }
                        }
                        tstats_str(&s)
                    }
                    Err(p) => {
                        panicked!(self, format!("tree_stats panicked: {p}"));
                        format!("panic {p}")
                    }
                }
            }
            ["statsat", f, o] => {
                let (Ok(frame), Ok(order)) = (f.parse::<usize>(), o.parse::<usize>()) else { return "bad-op".into() };
                let r = {
                    let a = &self.inst.as_ref().unwrap().alloc;
                    guarded(|| a.stats_at(FrameId(frame), order))
                };
                match r {
                    Ok(s) => {
                        self.cov.hit("statsat", "ok", &format!("o{order}"));
                        let sh = self.shadow.as_ref().unwrap();
                        if frame < frames {
                            self.cov.oracle("C04");
                            let want = if order == 0 {
                                Some((!sh.alloc[frame] as usize, 0, 0))
                            } else if order == HUGE_ORDER {
                                let h = frame / HUGE_FRAMES;
                                Some((sh.hfree[h], (sh.hfree[h] == HUGE_FRAMES) as usize, 0))
                            } else if order == TREE_ORDER {
                                let t = frame / TREE_FRAMES;
                                let fh = (0..TREE_HUGE).filter(|c| sh.hfree[t * TREE_HUGE + c] == HUGE_FRAMES).count();
                                Some((sh.tfree[t], fh, (sh.tfree[t] == TREE_FRAMES) as usize))
                            } else {
                                None
                            };
                            if let Some(w) = want {
                                if (s.free_frames, s.free_huge, s.free_trees) != w {
                                    let m = format!("stats_at({frame}, {order}) = {:?}, allocation state says {w:?}", (s.free_frames, s.free_huge, s.free_trees));
                                    viol!(self, "C04", m);
                                }
                            }
                        }
                        stats_str(&s)
                    }
                    Err(p) => {
                        if frame < frames {
                            panicked!(self, format!("stats_at({frame},{order}) panicked: {p}"));
                        }
                        format!("panic {p}")
                    }
                }
            }
            ["zstatsat", f, o] => {
                let (Ok(frame), Ok(order)) = (f.parse::<usize>(), o.parse::<usize>()) else { return "bad-op".into() };
                let i = self.inst.as_ref().unwrap();
                let z = &i.zone;
                let r = guarded(|| z.stats_at(FrameId(frame), order));
                self.cov.oracle("C17");
                match r {
                    Ok(s) => {
                        if frame >= i.offset && frame - i.offset < frames {
                            let a = &i.alloc;
                            let inner = guarded(|| a.stats_at(FrameId(frame - i.offset), order));
                            if inner.as_ref().ok().map(stats_str) != Some(stats_str(&s)) {
                                viol!(self, "C17", format!("zone stats_at({frame},{order}) = {s:?}, inner at {} = {inner:?}", frame - i.offset));
                            }
                        } else if frame < i.offset && (s.free_frames, s.free_huge, s.free_trees) != (0, 0, 0) {
                            viol!(self, "C17", format!("zone stats_at({frame},{order}) below the offset is not empty: {s:?}"));
                        }
                        self.cov.hit("zstatsat", "ok", "");
                        stats_str(&s)
                    }
                    Err(p) => format!("panic {p}"),
                }
            }
            ["isfree", f, o] => {
                let (Ok(frame), Ok(order)) = (f.parse::<usize>(), o.parse::<usize>()) else { return "bad-op".into() };
                let r = {
                    let a = &self.inst.as_ref().unwrap().alloc;
                    guarded(|| a.lower.is_free(FrameId(frame), order))
                };
                match r {
                    Ok(b) => {
                        self.cov.hit("isfree", "ok", &format!("o{order}"));
                        self.cov.oracle("C04");
                        let sh = self.shadow.as_ref().unwrap();
                        let want = sh.block_free(frame, order);
                        if b != want {
                            viol!(self, "C04", format!("is_free({frame}, {order}) = {b}, allocation state says {want}"));
                        }
                        (if b { "true" } else { "false" }).into()
                    }
                    Err(p) => format!("panic {p}"),
                }
            }
            ["lget", s, o, f] => {
                let (Ok(start), Ok(order), Some(target)) = (s.parse::<usize>(), o.parse::<usize>(), parse_opt(f)) else {
                    return "bad-op".into();
                };
                self.lower_only = true;
                let r = {
                    let a = &self.inst.as_ref().unwrap().alloc;
                    guarded(|| a.lower.get(RowId(start), order, target.map(FrameId)))
                };
                let ans = match &r {
                    Ok(Ok(frame)) => {
                        let frame = frame.0;
                        self.cov.hit("lget", "ok", &format!("o{order}"));
                        self.cov.oracle("C12");
                        self.cov.oracle("C01");
                        let tree = target.map(|t| t / TREE_FRAMES).unwrap_or(start * 64 / TREE_FRAMES);
                        let sh = self.shadow.as_mut().unwrap();
                        if frame % (1 << order) != 0 || frame / TREE_FRAMES != tree || !sh.block_free(frame, order) {
                            if frame % (1 << order) != 0 || !sh.block_free(frame, order) {
                                let m = format!("lower get(start row {start}, order {order}) returned block {frame}: misaligned or overlapping allocated frames");
                                viol!(self, "C01", m);
                            }
                            viol!(self, "C12", format!("lower get(start row {start}, order {order}) returned block {frame} which is not an aligned free block of tree {tree}"));
                        } else {
                            sh.apply_get(frame, order);
                            self.held.push((frame, order));
                        }
                        format!("ok {frame}")
                    }
                    Ok(Err(e)) => {
                        self.cov.hit("lget", err_str(*e), &format!("o{order}"));
                        self.cov.oracle("C12");
                        let sh = self.shadow.as_ref().unwrap();
                        let found = match target {
                            Some(t) => sh.block_free(t, order).then_some(t),
                            None => {
                                let tree = start * 64 / TREE_FRAMES;
                                (0..TREE_FRAMES >> order)
                                    .map(|b| tree * TREE_FRAMES + (b << order))
                                    .find(|b| sh.block_free(*b, order))
                            }
                        };
                        if let Some(b) = found {
                            viol!(self, "C12", format!("lower get(start row {start}, order {order}, {target:?}) failed although block {b} is free"));
                        }
                        err_str(*e).into()
                    }
                    Err(p) => {
                        panicked!(self, format!("lower get panicked: {p}"));
                        format!("panic {p}")
                    }
                };
                self.check_abs(&ws.join(" "));
                ans
            }
            ["lput", f, o] => {
                let (Ok(frame), Ok(order)) = (f.parse::<usize>(), o.parse::<usize>()) else { return "bad-op".into() };
                self.lower_only = true;
                let r = {
                    let a = &self.inst.as_ref().unwrap().alloc;
                    guarded(|| a.lower.put(FrameId(frame), order))
                };
                let allowed = self.shadow.as_ref().unwrap().put_allowed(frame, order);
                let ans = match &r {
                    Ok(Ok(())) => {
                        self.cov.hit("lput", "ok", &format!("o{order}"));
                        if !allowed {
                            viol!(self, "C02", format!("lower put({frame}, {order}) succeeded on a block that is not allocated"));
                        }
                        self.shadow.as_mut().unwrap().apply_put(frame, order);
                        "ok".to_string()
                    }
                    Ok(Err(e)) => {
                        self.cov.hit("lput", err_str(*e), &format!("o{order}"));
                        if allowed {
                            viol!(self, "C02", format!("lower put({frame}, {order}) of an allocated block failed"));
                        }
                        err_str(*e).into()
                    }
                    Err(p) => {
                        panicked!(self, format!("lower put panicked: {p}"));
                        format!("panic {p}")
                    }
                };
                self.check_abs(&ws.join(" "));
                ans
            }
            ["recover"] => {
                let r = {
                    let a = &self.inst.as_ref().unwrap().alloc;
                    guarded(|| a.lower.recover())
                };
                self.lower_only = true;
                match r {
                    Ok(()) => "ok".into(),
                    Err(p) => {
                        panicked!(self, format!("recover panicked: {p}"));
                        format!("panic {p}")
                    }
                }
            }
            ["handoff"] => {
                // C07: second allocator in assume-initialised mode over byte copies
                let i = self.inst.as_ref().unwrap();
                let bufs = Bufs::copy_of(&i.bufs);
                match Inst::create(&i.cfg, Init::None, bufs) {
                    Ok(Ok(t)) => {
                        self.twin = Some(t);
                        self.cov.hit("handoff", "ok", "");
                    }
                    other => {
                        let m = format!("Init::None over copied metadata failed: {:?}", other.map(|r| r.map(|_| ())));
                        viol!(self, "C07", m);
                    }
                }
                "ok".into()
            }
            // C21 line of the concurrent runs: the measured count is part of the request itself
            ["solocheck", _] => "within".into(),
            ["hash"] => {
                let i = self.inst.as_ref().unwrap();
                let d = digest(&i.words());
                if let Some(t) = &self.twin {
                    self.cov.oracle("C07");
                    let td = digest(&t.words());
                    let (s1, s2) = (guarded(|| i.alloc.stats()), guarded(|| t.alloc.stats()));
                    let (t1, t2) = (guarded(|| i.alloc.tree_stats()), guarded(|| t.alloc.tree_stats()));
                    if td != d || format!("{s1:?}") != format!("{s2:?}") || format!("{t1:?}") != format!("{t2:?}") {
                        viol!(self, "C07", "allocator rebuilt from copied metadata diverged (metadata or statistics differ)".into());
                        self.twin = None;
                    }
                }
                format!("hash {d:x}")
            }
            ["dump"] => dump_line(&self.inst.as_ref().unwrap().words()),
            _ => "bad-op".into(),
        }
    }

    fn compare_twin(&mut self, a: &str, b: &str, ws: &[&str]) {
        self.cov.oracle("C07");
        if a != b {
            viol!(self, "C07", format!("original answered {a}, allocator rebuilt from its metadata answered {b} to {ws:?}"));
            self.twin = None;
        }
    }
}
