//! `T` correspondence: real threads run calls on one shared allocator under a deterministic
//! scheduler that decides, before every atomic access (hook `verif::pre`), which thread may
//! perform its next access. The recorded event trace is replayed on the Lean interleaving
//! semantics; property oracles (ownership, panics, frees of held blocks, quiescent
//! accounting, crash recovery at every write, solo termination) run on the implementation.

use std::cell::Cell;
use std::sync::{Arc, Condvar, Mutex, OnceLock};

use llfree::verif::Kind;
use llfree::*;

use crate::common::*;
use crate::engine::{Engine, Inst, Shadow, Violation};

#[derive(Clone, Copy, PartialEq, Eq, Debug)]
enum Status {
    Waiting, // not yet begun / parked before an access
    Running,
    Done,
}

#[derive(Clone, Debug)]
pub struct Pending {
    pub kind: Kind,
    pub addr: usize,
    pub size: usize,
}

#[derive(Clone, Debug)]
pub enum Event {
    CallStart { t: usize, text: String },
    Access { t: usize, p: Pending, old: u64, new: u64, ok: bool },
    Ret { t: usize, res: String },
}

struct Shared {
    status: Vec<Status>,
    turn: Option<usize>,
    pending: Vec<Option<Pending>>,
    events: Vec<Event>,
}
pub struct Sched {
    m: Mutex<Shared>,
    cv: Condvar,
}

thread_local! {
    static WORKER: Cell<Option<usize>> = const { Cell::new(None) };
}
static SCHED: OnceLock<Mutex<Option<Arc<Sched>>>> = OnceLock::new();

fn current() -> Option<Arc<Sched>> {
    SCHED.get_or_init(|| Mutex::new(None)).lock().unwrap().clone()
}

fn hook_pre(kind: Kind, addr: usize, size: usize) {
    let Some(me) = WORKER.with(|w| w.get()) else { return };
    let Some(s) = current() else { return };
    let mut g = s.m.lock().unwrap();
    g.pending[me] = Some(Pending { kind, addr, size });
    g.status[me] = Status::Waiting;
    s.cv.notify_all();
    while g.turn != Some(me) {
        g = s.cv.wait(g).unwrap();
    }
    g.turn = None;
    g.status[me] = Status::Running;
}
fn hook_post(old: u64, new: u64, ok: bool) {
    let Some(me) = WORKER.with(|w| w.get()) else { return };
    let Some(s) = current() else { return };
    let mut g = s.m.lock().unwrap();
    if let Some(p) = g.pending[me].take() {
        g.events.push(Event::Access { t: me, p, old, new, ok });
    }
}

/// A call of a worker; block arguments are resolved when the call starts.
#[derive(Clone, Debug)]
pub enum Tmpl {
    Get { order: usize, class: u8, local: Option<usize>, target: Option<usize> },
    /// free the `i`-th block this thread currently holds (if any)
    PutHeld { i: usize, class: u8, local: Option<usize> },
    /// free a base-order part of the `i`-th held block
    PutPart { i: usize, part: usize, class: u8, local: Option<usize> },
    Drain,
    Change { id: Option<usize>, mclass: Option<u8>, mfree: usize, cclass: Option<u8>, offline: bool, online: bool },
    LGet { start: usize, order: usize },
    LPutHeld { i: usize },
}

pub struct Scenario {
    pub cfg: Config,
    pub init: Init,
    /// sequential setup requests (executed through the engine, also sent to the model)
    pub setup: Vec<String>,
    /// blocks each thread holds initially (must be allocated by `setup`)
    pub held: Vec<Vec<(usize, usize)>>,
    pub calls: Vec<Vec<Tmpl>>,
    pub lower_only: bool,
}

#[derive(Clone, Debug)]
pub enum Strategy {
    /// forced prefix, then: stay on the current thread, else the lowest enabled
    Prefix(Vec<usize>),
    Random(u64),
    /// at access number `at`, run thread `t` alone until its call returns, then random
    Freeze { at: usize, t: usize, seed: u64 },
}

pub struct RunResult {
    pub events: Vec<Event>,
    /// (enabled threads, chosen) per scheduling step
    pub choices: Vec<(Vec<usize>, usize)>,
    pub violations: Vec<Violation>,
    pub known: Vec<String>,
    pub solo_steps: Option<usize>,
    pub crash_points: usize,
    pub lines: Vec<(String, String)>,
}

fn loc_of(inst: &Inst, p: &Pending) -> (String, usize, usize, usize) {
    let b = &inst.bufs;
    let within = |buf: &Buf| p.addr >= buf.ptr as usize && p.addr < buf.ptr as usize + buf.len.max(1);
    if within(&b.lower) {
        let off = p.addr - b.lower.ptr as usize;
        let bf = inst.cfg.nhuge() * bitfield_stride();
        if off < bf {
            let h = off / bitfield_stride();
            let r = (off % bitfield_stride()) / 8;
            ("row".into(), h * ROWS + r, (off % 8) * 8, p.size * 8)
        } else {
            let o = off - bf;
            ("huge".into(), (o / table_stride()) * TREE_HUGE + (o % table_stride()) / 2, 0, 64)
        }
    } else if within(&b.trees) {
        ("tree".into(), (p.addr - b.trees.ptr as usize) / 4, 0, 64)
    } else if within(&b.local) {
        ("slot".into(), (p.addr - b.local.ptr as usize) / 64, 0, 64)
    } else {
        ("other".into(), p.addr, 0, p.size * 8)
    }
}
fn is_lower_write(inst: &Inst, p: &Pending) -> bool {
    let b = &inst.bufs.lower;
    p.kind != Kind::Load && p.addr >= b.ptr as usize && p.addr < b.ptr as usize + b.len
}

fn kind_name(k: Kind) -> &'static str {
    match k {
        Kind::Load => "load",
        Kind::Store => "store",
        Kind::Swap => "swap",
        Kind::Cas => "cas",
    }
}

/// upper bound on the atomic accesses of one call running alone (C21), generous but explicit:
/// every loop of the source is bounded by one of these factors
pub fn solo_bound(cfg: &Config) -> usize {
    let nt = cfg.ntrees().max(1);
    let per_lower = TREE_HUGE * (3 + 3 * ROWS + 3 * ROWS + 3) + 8;
    let per_tree_access = 12 + per_lower + 3 * (3 + 3);
    let search = (nt + 16) * (1 + per_tree_access) + 11 * per_tree_access;
    let slots = cfg.nslots().max(1) * 8 * (6 + per_lower);
    4 * (search * 2 + slots * 2 + per_lower * 4 + 64)
}

pub struct CrashStats {
    pub checked: usize,
}

/// crash oracle (C05): recover a copy of the persistent metadata and check it
fn crash_check(
    inst: &Inst,
    held: &[Vec<(usize, usize)>],
    inflight: &[(bool, usize)], // per in-flight call: (is_get, frames)
    base_unheld: usize,         // frames allocated by the setup that no thread holds
    stable: &[usize],           // those frames: no call of the scenario can free them
    violations: &mut Vec<Violation>,
    step: usize,
) {
    let cfg = &inst.cfg;
    let fresh = Bufs::for_cfg(cfg);
    fresh.lower.slice().copy_from_slice(inst.bufs.lower.bytes());
    let rec = match Inst::create(cfg, Init::Recover, fresh) {
        Ok(Ok(r)) => r,
        other => {
            violations.push(Violation { prop: "C05", msg: format!("recovery failed at crash point before access {step}: {:?}", other.map(|r| r.map(|_| ()))), line: step });
            return;
        }
    };
    let mut v = |msg: String| violations.push(Violation { prop: "C05", msg: format!("crash before access {step}: {msg}"), line: step });
    // fast and exact counts agree
    let (ts, st) = (guarded(|| rec.alloc.tree_stats()), guarded(|| rec.alloc.stats()));
    match (&ts, &st) {
        (Ok(t), Ok(s)) if t.free_frames == s.free_frames => {}
        _ => v(format!("recovered allocator: fast {:?} vs exact {:?}", ts.as_ref().map(|t| t.free_frames), st.as_ref().map(|s| s.free_frames))),
    }
    if guarded(|| rec.alloc.validate()).is_err() {
        v("recovered allocator fails validate()".into());
    }
    // held blocks are still allocated and can be freed with their original order
    let mut held_frames = 0;
    for (t, hs) in held.iter().enumerate() {
        for &(f, o) in hs {
            held_frames += 1 << o;
            let any_free = (f..f + (1 << o)).any(|x| guarded(|| rec.alloc.lower.is_free(FrameId(x), 0)).unwrap_or(true));
            if any_free {
                v(format!("block ({f}, order {o}) held by thread {t} is (partly) free after recovery"));
            }
        }
    }
    // frames allocated before the threads started and never named by a call stay allocated
    if let Some(x) = stable.iter().find(|x| guarded(|| rec.alloc.lower.is_free(FrameId(**x), 0)).unwrap_or(true)) {
        v(format!("frame {x} was allocated before the threads started and is named by no call, but is free after recovery"));
    }
    for hs in held {
        for &(f, o) in hs {
            let class = cfg.classes.first().map(|c| c.0).unwrap_or(0);
            match guarded(|| rec.alloc.put(FrameId(f), Request::new(o, Class(class), None))) {
                Ok(Ok(())) => {}
                r => v(format!("held block ({f}, order {o}) cannot be freed after recovery: {r:?}")),
            }
        }
    }
    // free frames that no in-flight call touched are free: after releasing everything held,
    // at most the frames of in-flight calls may be missing
    let _ = held_frames;
    let slack: usize = inflight.iter().map(|c| c.1).sum();
    if let Ok(s) = guarded(|| rec.alloc.stats()) {
        if s.free_frames + slack + base_unheld < cfg.frames {
            v(format!("after recovery and freeing all held blocks only {} of {} frames are free (in-flight calls can account for {slack}, {base_unheld} allocated by the setup and not held)", s.free_frames, cfg.frames));
        }
    }
}

/// Run one scenario under one schedule.
pub fn run(sc: &Scenario, strat: &Strategy, crash_every: usize) -> Option<RunResult> {
    let mut eng = Engine::new();
    let mut lines: Vec<(String, String)> = vec![];
    let mut q = |eng: &mut Engine, l: String| {
        let a = eng.exec(&l).unwrap_or_default();
        lines.push((l, a.clone()));
        a
    };
    q(&mut eng, format!("geom {HUGE_ORDER} {TREE_HUGE}"));
    let a = q(&mut eng, format!("new {} {} {} {} {}", sc.cfg.frames, init_name(sc.init), sc.cfg.default, sc.cfg.pol.name(), sc.cfg.classes_str()));
    if a != "ok" {
        return None;
    }
    for s in &sc.setup {
        q(&mut eng, s.clone());
    }
    q(&mut eng, "hash".into());
    let n = sc.calls.len();
    lines.push((format!("cthreads {n}"), "ok".into()));
    let inst = eng.inst.as_ref().unwrap();
    let initial_shadow_words = inst.words();

    let sched = Arc::new(Sched {
        m: Mutex::new(Shared { status: vec![Status::Waiting; n], turn: None, pending: vec![None; n], events: vec![] }),
        cv: Condvar::new(),
    });
    *SCHED.get_or_init(|| Mutex::new(None)).lock().unwrap() = Some(sched.clone());
    llfree::verif::set_hooks(Some((hook_pre, hook_post)));

    let held_init = sc.held.clone();
    let stable: Vec<usize> = {
        let sh = Shadow::from_words(sc.cfg.frames, &initial_shadow_words);
        (0..sc.cfg.frames)
            .filter(|f| sh.alloc[*f] && !held_init.iter().flatten().any(|h| h.0 <= *f && *f < h.0 + (1 << h.1)))
            .take(4096)
            .collect()
    };
    let base_unheld = {
        let sh = Shadow::from_words(sc.cfg.frames, &initial_shadow_words);
        let held_frames: usize = held_init.iter().flatten().map(|h| 1usize << h.1).sum();
        (sc.cfg.frames - sh.free_frames()).saturating_sub(held_frames)
    };
    let mut violations: Vec<Violation> = vec![];
    let mut known: Vec<String> = vec![];
    // a concurrent change_tree(Online): outside the interleaving model (the closure's reads of the lower counters
    // happen inside the update loop), so such runs are checked by the oracles only
    let has_online = sc.calls.iter().flatten().any(|c| matches!(c, Tmpl::Change { online: true, .. }));
    let mut choices: Vec<(Vec<usize>, usize)> = vec![];
    let mut solo_steps = None;
    let mut crash_points = 0;
    // ghost: blocks held per thread (completed get, no started put)
    let ghost: Mutex<Vec<Vec<(usize, usize)>>> = Mutex::new(held_init.clone());
    let alloc = &inst.alloc;
    let lower_only = sc.lower_only;

    std::thread::scope(|scope| {
        for t in 0..n {
            let sched = sched.clone();
            let calls = sc.calls[t].clone();
            let ghost = &ghost;
            let cfg = &sc.cfg;
            scope.spawn(move || {
                WORKER.with(|w| w.set(Some(t)));
                // wait for the begin turn
                {
                    let mut g = sched.m.lock().unwrap();
                    while g.turn != Some(t) {
                        g = sched.cv.wait(g).unwrap();
                    }
                    g.turn = None;
                    g.status[t] = Status::Running;
                }
                let first_class = cfg.classes.first().map(|c| c.0).unwrap_or(0);
                let _ = first_class;
                for c in calls {
                    // resolve arguments
                    let (text, run): (String, Box<dyn FnOnce() -> String>) = match c {
                        Tmpl::Get { order, class, local, target } => (
                            format!("get {order} {class} {} {}", opt(local), opt(target)),
                            Box::new(move || match alloc.get(target.map(FrameId), Request::new(order, Class(class), local)) {
                                Ok((f, c)) => format!("ok {} {}", f.0, c.0),
                                Err(e) => err_str(e).to_string(),
                            }),
                        ),
                        Tmpl::PutHeld { i, class, local } => {
                            let b = {
                                let mut g = ghost.lock().unwrap();
                                if g[t].is_empty() { None } else { let k = i % g[t].len(); Some(g[t].remove(k)) }
                            };
                            let Some((f, o)) = b else { continue };
                            (
                                format!("put {f} {o} {class} {}", opt(local)),
                                Box::new(move || match alloc.put(FrameId(f), Request::new(o, Class(class), local)) {
                                    Ok(()) => "ok".to_string(),
                                    Err(e) => err_str(e).to_string(),
                                }),
                            )
                        }
                        Tmpl::PutPart { i, part, class, local } => {
                            let b = {
                                let mut g = ghost.lock().unwrap();
                                if g[t].is_empty() {
                                    None
                                } else {
                                    let k = i % g[t].len();
                                    let (f, o) = g[t].remove(k);
                                    // the remaining parts stay held as base frames
                                    let p = part % (1 << o);
                                    for x in 0..(1usize << o) {
                                        if x != p {
                                            g[t].push((f + x, 0));
                                        }
                                    }
                                    Some(f + p)
                                }
                            };
                            let Some(f) = b else { continue };
                            (
                                format!("put {f} 0 {class} {}", opt(local)),
                                Box::new(move || match alloc.put(FrameId(f), Request::new(0, Class(class), local)) {
                                    Ok(()) => "ok".to_string(),
                                    Err(e) => err_str(e).to_string(),
                                }),
                            )
                        }
                        Tmpl::Drain => ("drain".into(), Box::new(move || { alloc.drain(); "ok".to_string() })),
                        Tmpl::Change { id, mclass, mfree, cclass, offline, online } => (
                            format!("change {} {} {mfree} {} {}", opt(id), opt(mclass.map(|c| c as usize)), opt(cclass.map(|c| c as usize)), if offline { "off" } else if online { "on" } else { "-" }),
                            Box::new(move || {
                                match alloc.change_tree(
                                    TreeMatch { id: id.map(TreeId), class: mclass.map(Class), free: mfree },
                                    TreeChange { class: cclass.map(Class), operation: if offline { Some(TreeOperation::Offline) } else if online { Some(TreeOperation::Online) } else { None } },
                                ) {
                                    Ok(()) => "ok".to_string(),
                                    Err(e) => err_str(e).to_string(),
                                }
                            }),
                        ),
                        Tmpl::LGet { start, order } => (
                            format!("lget {start} {order} -"),
                            Box::new(move || match alloc.lower.get(llfree::verif::RowId(start), order, None) {
                                Ok(f) => format!("ok {}", f.0),
                                Err(e) => err_str(e).to_string(),
                            }),
                        ),
                        Tmpl::LPutHeld { i } => {
                            let b = {
                                let mut g = ghost.lock().unwrap();
                                if g[t].is_empty() { None } else { let k = i % g[t].len(); Some(g[t].remove(k)) }
                            };
                            let Some((f, o)) = b else { continue };
                            (
                                format!("lput {f} {o}"),
                                Box::new(move || match alloc.lower.put(FrameId(f), o) {
                                    Ok(()) => "ok".to_string(),
                                    Err(e) => err_str(e).to_string(),
                                }),
                            )
                        }
                    };
                    sched.m.lock().unwrap().events.push(Event::CallStart { t, text: text.clone() });
                    let res = match guarded(run) {
                        Ok(s) => s,
                        Err(p) => format!("panic {p}"),
                    };
                    // a successful allocation is held from the moment it returns
                    let ws: Vec<&str> = text.split_whitespace().collect();
                    if let Some(r) = res.strip_prefix("ok ") {
                        if ws[0] == "get" || ws[0] == "lget" {
                            let f: usize = r.split_whitespace().next().unwrap().parse().unwrap();
                            let o: usize = ws[if ws[0] == "get" { 1 } else { 2 }].parse().unwrap();
                            ghost.lock().unwrap()[t].push((f, o));
                        }
                    }
                    let dead = res.starts_with("panic");
                    sched.m.lock().unwrap().events.push(Event::Ret { t, res });
                    if dead {
                        break;
                    }
                }
                let mut g = sched.m.lock().unwrap();
                g.status[t] = Status::Done;
                sched.cv.notify_all();
            });
        }

        // ---- controller
        let wait_settled = |t: usize| {
            let mut g = sched.m.lock().unwrap();
            while g.status[t] == Status::Running || g.turn == Some(t) {
                g = sched.cv.wait(g).unwrap();
            }
            drop(g);
            watch_end();
        };
        let grant = |t: usize| {
            let mut g = sched.m.lock().unwrap();
            // watchdog (C21): the granted thread runs alone until its next atomic access
            let cur = g.events.iter().rev().find_map(|e| match e {
                Event::CallStart { t: x, text } if *x == t => Some(text.clone()),
                _ => None,
            });
            watch_begin(&format!("thread {t} running alone: {}", cur.unwrap_or_else(|| "<starting>".into())));
            g.turn = Some(t);
            g.status[t] = Status::Running;
            sched.cv.notify_all();
        };
        // begin the workers one after the other
        for t in 0..n {
            grant(t);
            wait_settled(t);
        }
        let mut rng = Rng(match strat {
            Strategy::Random(s) => *s,
            Strategy::Freeze { seed, .. } => *seed,
            _ => 1,
        });
        let mut last: Option<usize> = None;
        let mut step = 0usize;
        let mut frozen_for: Option<(usize, usize)> = None; // (thread, returns seen at freeze start)
        let budget = 200_000;
        loop {
            let (enabled, pend): (Vec<usize>, Vec<Option<Pending>>) = {
                let g = sched.m.lock().unwrap();
                ((0..n).filter(|t| g.status[*t] == Status::Waiting && g.pending[*t].is_some()).collect(), g.pending.clone())
            };
            if enabled.is_empty() || step >= budget {
                break;
            }
            let rets_of = |t: usize| -> usize {
                sched.m.lock().unwrap().events.iter().filter(|e| matches!(e, Event::Ret { t: x, .. } if *x == t)).count()
            };
            // solo-termination experiment (C21)
            if let Strategy::Freeze { at, t, .. } = strat {
                if step == *at && enabled.contains(t) && frozen_for.is_none() {
                    frozen_for = Some((*t, rets_of(*t)));
                    solo_steps = Some(0);
                }
            }
            let mut pick = match strat {
                Strategy::Prefix(p) if step < p.len() && enabled.contains(&p[step]) => p[step],
                Strategy::Prefix(_) => match last {
                    Some(l) if enabled.contains(&l) => l,
                    _ => enabled[0],
                },
                _ => enabled[rng.below(enabled.len())],
            };
            if let Some((ft, r0)) = frozen_for {
                if rets_of(ft) > r0 || !enabled.contains(&ft) {
                    frozen_for = None; // the call returned: C21 experiment over
                } else {
                    pick = ft;
                    let s = solo_steps.unwrap_or(0) + 1;
                    solo_steps = Some(s);
                    if s > solo_bound(&sc.cfg) {
                        violations.push(Violation { prop: "C21", msg: format!("thread {ft} running alone from access {} did not finish its call within {} accesses", step - s, solo_bound(&sc.cfg)), line: step });
                        frozen_for = None;
                    }
                }
            }
            // crash point before a write to the persistent metadata (C05)
            if crash_every > 0 && pend[pick].as_ref().is_some_and(|p| is_lower_write(inst, p)) && (crash_points % crash_every == 0 || crash_every == 1) && !lower_only {
                let g = ghost.lock().unwrap().clone();
                // in-flight calls: every thread with a started, not yet returned call
                let ev = sched.m.lock().unwrap().events.clone();
                let mut inflight = vec![];
                for t in 0..n {
                    let mut cur: Option<String> = None;
                    for e in &ev {
                        match e {
                            Event::CallStart { t: x, text } if *x == t => cur = Some(text.clone()),
                            // a call that panicked (known finding K1) never completed: its frames stay in doubt
                            Event::Ret { t: x, res } if *x == t && !res.starts_with("panic") => cur = None,
                            _ => {}
                        }
                    }
                    if let Some(c) = cur {
                        let ws: Vec<&str> = c.split_whitespace().collect();
                        let frames = match ws[0] {
                            "get" => 1usize << ws[1].parse::<usize>().unwrap_or(0),
                            "put" => 1usize << ws[2].parse::<usize>().unwrap_or(0),
                            _ => 0,
                        };
                        inflight.push((ws[0] == "get", frames));
                    }
                }
                crash_check(inst, &g, &inflight, base_unheld, &stable, &mut violations, step);
            }
            if pend[pick].as_ref().is_some_and(|p| is_lower_write(inst, p)) {
                crash_points += 1;
            }
            choices.push((enabled.clone(), pick));
            grant(pick);
            wait_settled(pick);
            last = Some(pick);
            step += 1;
        }
        // let everything finish if the budget was hit
        loop {
            let enabled: Vec<usize> = {
                let g = sched.m.lock().unwrap();
                (0..n).filter(|t| g.status[*t] == Status::Waiting && g.pending[*t].is_some()).collect()
            };
            if enabled.is_empty() {
                break;
            }
            grant(enabled[0]);
            wait_settled(enabled[0]);
        }
    });
    llfree::verif::set_hooks(None);
    *SCHED.get_or_init(|| Mutex::new(None)).lock().unwrap() = None;

    let events = sched.m.lock().unwrap().events.clone();

    // ---- oracles over the event log
    let mut held: Vec<Vec<(usize, usize)>> = held_init.clone();
    let mut shadow = Shadow::from_words(sc.cfg.frames, &initial_shadow_words);
    let mut cur: Vec<Option<String>> = vec![None; n];
    let mut freeing_held: Vec<bool> = vec![false; n];
    let pol = sc.cfg.pol.func();
    for (i, e) in events.iter().enumerate() {
        match e {
            Event::CallStart { t, text } => {
                cur[*t] = Some(text.clone());
                let ws: Vec<&str> = text.split_whitespace().collect();
                freeing_held[*t] = false;
                if ws[0] == "put" || ws[0] == "lput" {
                    let f: usize = ws[1].parse().unwrap();
                    let o: usize = ws[2].parse().unwrap();
                    // whole held block, or a part of one (the rest stays held as base frames)
                    if let Some(k) = held[*t].iter().position(|h| *h == (f, o)) {
                        held[*t].remove(k);
                        freeing_held[*t] = true;
                    } else if let Some(k) = held[*t].iter().position(|h| h.0 <= f && f + (1 << o) <= h.0 + (1 << h.1)) {
                        let (hf, ho) = held[*t].remove(k);
                        for x in 0..(1usize << ho) {
                            if hf + x < f || hf + x >= f + (1 << o) {
                                held[*t].push((hf + x, 0));
                            }
                        }
                        freeing_held[*t] = true;
                    }
                    if freeing_held[*t] {
                        // the free of a held block takes effect somewhere inside the call: another thread may be
                        // handed the frames before this call returns, so the ownership model gives them up now
                        shadow.apply_put(f, o);
                    }
                }
            }
            Event::Ret { t, res } => {
                let text = cur[*t].take().unwrap_or_default();
                let ws: Vec<&str> = text.split_whitespace().collect();
                if res.starts_with("panic") {
                    if res.contains("Exceeding retries") {
                        known.push(format!("K1 {res} (thread {t}, call `{text}`)"));
                    } else if has_online && ws.first() == Some(&"put") && res.trim_start_matches("panic").trim().parse::<usize>().is_ok_and(|v| v > TREE_FRAMES) {
                        // K2: the counter assertion of Tree::put fails because change_tree(Online) counted the
                        // frames of this free (already visible in the lower counters) a first time
                        known.push(format!("K2 {res} = tree counter beyond TREE_FRAMES in Tree::put while change_tree(Online) is in flight (thread {t}, call `{text}`)"));
                    } else {
                        violations.push(Violation { prop: "C03", msg: format!("thread {t}: `{text}` panicked: {res}"), line: i });
                    }
                    continue;
                }
                match ws.first().copied() {
                    Some("get") | Some("lget") => {
                        if let Some(r) = res.strip_prefix("ok ") {
                            let mut it = r.split_whitespace();
                            let f: usize = it.next().unwrap().parse().unwrap();
                            let o: usize = ws[if ws[0] == "get" { 1 } else { 2 }].parse().unwrap();
                            if f % (1 << o) != 0 || f + (1 << o) > sc.cfg.frames {
                                violations.push(Violation { prop: "C01", msg: format!("thread {t}: `{text}` returned block {f} order {o}: misaligned or out of range"), line: i });
                            }
                            for (u, hs) in held.iter().enumerate() {
                                for &(hf, ho) in hs {
                                    if f < hf + (1 << ho) && hf < f + (1 << o) {
                                        violations.push(Violation { prop: "C01", msg: format!("thread {t}: `{text}` returned block ({f}, order {o}) overlapping block ({hf}, order {ho}) held by thread {u}"), line: i });
                                    }
                                }
                            }
                            if ws[0] == "get" {
                                let req: u8 = ws[2].parse().unwrap();
                                let got: u8 = it.next().unwrap().parse().unwrap();
                                let adm = req == got || [0, 1, TREE_FRAMES / 64, TREE_FRAMES / 2, TREE_FRAMES].iter().any(|fr| matches!(pol(Class(req), Class(got), *fr), Policy::Match(_) | Policy::Steal));
                                if !adm {
                                    violations.push(Violation { prop: "C13", msg: format!("thread {t}: `{text}` reported class {got}"), line: i });
                                }
                                if ws[4] != "-" && ws[4].parse() != Ok(f) {
                                    violations.push(Violation { prop: "C01", msg: format!("thread {t}: targeted `{text}` returned {f}"), line: i });
                                }
                            }
                            held[*t].push((f, o));
                            if f + (1 << o) <= shadow.alloc.len() {
                                shadow.apply_get(f, o);
                            }
                        }
                    }
                    Some("put") | Some("lput") => {
                        let f: usize = ws[1].parse().unwrap();
                        let o: usize = ws[2].parse().unwrap();
                        if res == "ok" {
                            if !freeing_held[*t] {
                                shadow.apply_put(f, o);
                            }
                        } else if freeing_held[*t] {
                            violations.push(Violation { prop: "C03", msg: format!("thread {t}: free of held block `{text}` failed: {res}"), line: i });
                        }
                    }
                    _ => {}
                }
            }
            Event::Access { .. } => {}
        }
    }
    // quiescent end: metadata == ownership model, accounting (C01/C04)
    if known.is_empty() && !violations.iter().any(|v| v.prop == "C03") {
        let w = inst.words();
        if let Some(d) = shadow.diff_abs(&w) {
            violations.push(Violation { prop: "C01", msg: format!("at the quiescent end the metadata differs from the blocks handed out: {d}"), line: events.len() });
        } else if !sc.lower_only {
            let st = guarded(|| inst.alloc.stats());
            let want = (shadow.free_frames(), shadow.free_huge(), shadow.free_trees());
            match &st {
                Ok(s) if (s.free_frames, s.free_huge, s.free_trees) == want => {}
                _ => violations.push(Violation { prop: "C04", msg: format!("quiescent stats {:?} vs allocation state {want:?}", st.as_ref().map(|s| (s.free_frames, s.free_huge, s.free_trees))), line: events.len() }),
            }
            let mut offline = events.iter().any(|e| matches!(e, Event::CallStart { text, .. } if text.starts_with("change") && text.ends_with("off")));
            if has_online {
                // the setup took a tree offline; it is online again only if the concurrent Online call succeeded
                let mut cur_on: Vec<bool> = vec![false; n];
                let mut online_ok = false;
                for e in &events {
                    match e {
                        Event::CallStart { t, text } => cur_on[*t] = text.starts_with("change") && text.ends_with("on"),
                        Event::Ret { t, res } => {
                            if cur_on[*t] && res == "ok" {
                                online_ok = true;
                            }
                            cur_on[*t] = false;
                        }
                        _ => {}
                    }
                }
                offline = offline || !online_ok;
            }
            if !offline {
                let ts = guarded(|| inst.alloc.tree_stats());
                match &ts {
                    Ok(t) if t.free_frames == want.0 => {}
                    Ok(t) if has_online && t.free_frames > want.0 => {
                        // K3: the same race as K2 without the overflow: the frames of the racing free are counted twice
                        known.push(format!("K3 tree counters over-report after put raced with change_tree(Online): fast free count {} vs exact {}{}", t.free_frames, want.0,
                            if guarded(|| inst.alloc.validate()).is_err() { "; validate() fails" } else { "" }));
                    }
                    _ => violations.push(Violation { prop: "C04", msg: format!("quiescent fast free count {:?} vs exact {}", ts.as_ref().map(|t| t.free_frames), want.0), line: events.len() }),
                }
                if !known.iter().any(|k| k.starts_with("K3")) {
                    if let Err(p) = guarded(|| inst.alloc.validate()) {
                        violations.push(Violation { prop: "C04", msg: format!("validate() fails at the quiescent end: {p}"), line: events.len() });
                    }
                }
            }
        }
    }

    // ---- request/expectation lines for the model
    let mut i = 0;
    while i < events.len() {
        match &events[i] {
            Event::CallStart { t, text } => {
                lines.push((format!("ccall {t} {text}"), "ok".into()));
                let a = match events.get(i + 1) {
                    Some(Event::Ret { t: x, res }) if x == t => {
                        i += 1;
                        format!("ret {t} {res}")
                    }
                    _ => "ok".into(),
                };
                lines.push((format!("cbegin {t}"), a));
            }
            Event::Access { t, p, old, new, ok } => {
                let (k, idx, sh, w) = loc_of(inst, p);
                let mut a = format!("ev {t} {} {k} {idx} {sh} {w} {old:x} {new:x} {}", kind_name(p.kind), *ok as u8);
                if let Some(Event::Ret { t: x, res }) = events.get(i + 1) {
                    if x == t {
                        i += 1;
                        a += &format!(" | ret {t} {res}");
                    }
                }
                lines.push((format!("cstep {t}"), a));
            }
            Event::Ret { t, res } => {
                // a return not directly after its thread's access or call start cannot happen
                lines.push((format!("# stray ret {t}"), format!("ret {t} {res}")));
            }
        }
        i += 1;
    }
    lines.push(("cend".into(), "ok".into()));
    lines.push(("hash".into(), format!("hash {:x}", digest(&inst.words()))));
    if has_online {
        // not replayed on the model (see `has_online`)
        lines.clear();
    }
    if let Some(s) = solo_steps {
        // C21: the accesses the thread needed alone must lie within the bound proved for the model (`apiB`)
        lines.push((format!("solocheck {s}"), "within".into()));
    }
    Some(RunResult { events, choices, violations, known, solo_steps, crash_points, lines })
}

// ------------------------------------------------------------------ scenarios, exploration

impl Tmpl {
    pub fn to_text(&self) -> String {
        match self {
            Tmpl::Get { order, class, local, target } => format!("get {order} {class} {} {}", opt(*local), opt(*target)),
            Tmpl::PutHeld { i, class, local } => format!("putheld {i} {class} {}", opt(*local)),
            Tmpl::PutPart { i, part, class, local } => format!("putpart {i} {part} {class} {}", opt(*local)),
            Tmpl::Drain => "drain".into(),
            Tmpl::Change { id, mclass, mfree, cclass, offline, online } => format!(
                "change {} {} {mfree} {} {}",
                opt(*id),
                opt(mclass.map(|c| c as usize)),
                opt(cclass.map(|c| c as usize)),
                if *online { 2 } else { *offline as u8 }
            ),
            Tmpl::LGet { start, order } => format!("lget {start} {order}"),
            Tmpl::LPutHeld { i } => format!("lputheld {i}"),
        }
    }
    pub fn from_text(s: &str) -> Option<Tmpl> {
        let ws: Vec<&str> = s.split_whitespace().collect();
        let o = |x: &str| -> Option<Option<usize>> { if x == "-" { Some(None) } else { x.parse().ok().map(Some) } };
        Some(match ws.as_slice() {
            ["get", a, b, c, d] => Tmpl::Get { order: a.parse().ok()?, class: b.parse().ok()?, local: o(c)?, target: o(d)? },
            ["putheld", a, b, c] => Tmpl::PutHeld { i: a.parse().ok()?, class: b.parse().ok()?, local: o(c)? },
            ["putpart", a, p, b, c] => Tmpl::PutPart { i: a.parse().ok()?, part: p.parse().ok()?, class: b.parse().ok()?, local: o(c)? },
            ["drain"] => Tmpl::Drain,
            ["change", a, b, c, d, e] => Tmpl::Change {
                id: o(a)?,
                mclass: o(b)?.map(|x| x as u8),
                mfree: c.parse().ok()?,
                cclass: o(d)?.map(|x| x as u8),
                offline: *e == "1",
                online: *e == "2",
            },
            ["lget", a, b] => Tmpl::LGet { start: a.parse().ok()?, order: b.parse().ok()? },
            ["lputheld", a] => Tmpl::LPutHeld { i: a.parse().ok()? },
            _ => return None,
        })
    }
}

impl Scenario {
    pub fn to_text(&self) -> Vec<String> {
        let mut v = vec![format!(
            "cfg {} {} {} {} {}",
            self.cfg.frames,
            init_name(self.init),
            self.cfg.default,
            self.cfg.pol.name(),
            self.cfg.classes_str()
        )];
        for s in &self.setup {
            v.push(format!("setup {s}"));
        }
        for (t, h) in self.held.iter().enumerate() {
            v.push(format!("held {t} {}", h.iter().map(|(f, o)| format!("{f}:{o}")).collect::<Vec<_>>().join(" ")));
        }
        for (t, cs) in self.calls.iter().enumerate() {
            for c in cs {
                v.push(format!("call {t} {}", c.to_text()));
            }
        }
        v.push(format!("lower_only {}", self.lower_only as u8));
        v
    }
    pub fn from_text(lines: &[String]) -> Option<Scenario> {
        let mut sc: Option<Scenario> = None;
        for l in lines {
            let (k, rest) = l.split_once(' ').unwrap_or((l.as_str(), ""));
            match k {
                "cfg" => {
                    let ws: Vec<&str> = rest.split_whitespace().collect();
                    let init = match ws[1] {
                        "free" => Init::FreeAll,
                        "alloc" => Init::AllocAll,
                        _ => return None,
                    };
                    sc = Some(Scenario {
                        cfg: Config { frames: ws[0].parse().ok()?, default: ws[2].parse().ok()?, pol: Engine::parse_pol(ws[3])?, classes: Engine::parse_classes(ws[4])? },
                        init,
                        setup: vec![],
                        held: vec![],
                        calls: vec![],
                        lower_only: false,
                    });
                }
                "setup" => sc.as_mut()?.setup.push(rest.to_string()),
                "held" => {
                    let ws: Vec<&str> = rest.split_whitespace().collect();
                    let t: usize = ws[0].parse().ok()?;
                    let s = sc.as_mut()?;
                    while s.held.len() <= t {
                        s.held.push(vec![]);
                        s.calls.push(vec![]);
                    }
                    for b in &ws[1..] {
                        let (f, o) = b.split_once(':')?;
                        s.held[t].push((f.parse().ok()?, o.parse().ok()?));
                    }
                }
                "call" => {
                    let (t, c) = rest.split_once(' ')?;
                    let t: usize = t.parse().ok()?;
                    let s = sc.as_mut()?;
                    while s.calls.len() <= t {
                        s.held.push(vec![]);
                        s.calls.push(vec![]);
                    }
                    s.calls[t].push(Tmpl::from_text(c)?);
                }
                "lower_only" => sc.as_mut()?.lower_only = rest.trim() == "1",
                _ => {}
            }
        }
        sc
    }
}

pub fn gen_scenario(rng: &mut Rng, kind: usize) -> Scenario {
    let nthreads = 2 + (rng.chance(1, 4) as usize);
    let orders: Vec<usize> = vec![0, 0, 1, 3, 6, 7, 8, HUGE_ORDER, TREE_ORDER.min(HUGE_ORDER + 1)];
    let (classes, default, pol) = match rng.below(4) {
        0 | 1 => (vec![(0u8, 1usize), (1, 1)], 1u8, Pol::Simple),
        2 => (vec![(0, 2), (1, 1), (2, 1)], 2, Pol::Movable),
        _ => (vec![(0, 1), (1, 1), (2, 1)], 1, Pol::Zeroed),
    };
    let frames = match rng.below(4) {
        0 => TREE_FRAMES,
        1 => 2 * TREE_FRAMES,
        2 => TREE_FRAMES + HUGE_FRAMES + if rng.chance(1, 2) { 17 } else { 0 },
        _ => 3 * TREE_FRAMES,
    };
    let cfg = Config { frames, classes: classes.clone(), default, pol };
    let mut sc = Scenario { cfg, init: Init::FreeAll, setup: vec![], held: vec![vec![]; nthreads], calls: vec![vec![]; nthreads], lower_only: false };
    let rc = |rng: &mut Rng| classes[rng.below(classes.len())].0;
    let rl = |rng: &mut Rng, c: u8| -> Option<usize> {
        let n = classes.iter().find(|x| x.0 == c).map(|x| x.1).unwrap_or(0);
        if n == 0 || rng.chance(1, 3) { None } else { Some(rng.below(n)) }
    };
    if kind == 6 || kind == 7 {
        // a free into an offline tree racing with change_tree(Online): kind 6 = the tree is otherwise free (known
        // finding K2: the counter assertion fires), kind 7 = another frame of it stays allocated (K3: it over-reports)
        let c = classes[0].0;
        sc.cfg.frames = 2 * TREE_FRAMES;
        let a = TREE_FRAMES + rng.below(TREE_FRAMES);
        sc.setup.push(format!("get 0 {c} - {a}"));
        if kind == 7 {
            let b = TREE_FRAMES + (a - TREE_FRAMES + 1 + rng.below(TREE_FRAMES - 1)) % TREE_FRAMES;
            sc.setup.push(format!("get 0 {c} - {b}"));
        }
        sc.setup.push("change 1 - 0 - off".into());
        sc.held = vec![vec![(a, 0)], vec![]];
        sc.calls = vec![
            vec![Tmpl::PutHeld { i: 0, class: c, local: None }],
            vec![Tmpl::Change { id: Some(1), mclass: None, mfree: 0, cclass: None, offline: false, online: true }],
        ];
        return sc;
    }
    match kind % 6 {
        0 => {
            // multi-row allocations racing in one huge frame (orders 7, 8)
            sc.cfg.frames = TREE_FRAMES;
            for t in 0..nthreads {
                let c = rc(rng);
                let n = 1 + rng.below(2);
                for _ in 0..n {
                    let order = *rng.pick(&[7usize, 7, 8, 6]);
                    sc.calls[t].push(Tmpl::Get { order, class: c, local: rl(rng, c), target: None });
                }
                if rng.chance(1, 2) {
                    sc.calls[t].push(Tmpl::PutHeld { i: 0, class: c, local: rl(rng, c) });
                }
            }
        }
        1 => {
            // frees of different parts of one whole-allocated huge frame
            let c = classes[0].0;
            sc.setup.push(format!("get {HUGE_ORDER} {c} - -"));
            for t in 0..nthreads {
                sc.held[t].push((t * 3, 0)); // parts of the block at frame 0 (first block of a free-all allocator)
                sc.calls[t].push(Tmpl::PutHeld { i: 0, class: c, local: rl(rng, c) });
                if rng.chance(1, 2) {
                    sc.calls[t].push(Tmpl::Get { order: 0, class: c, local: rl(rng, c), target: None });
                }
            }
        }
        2 => {
            // lower level only
            sc.lower_only = true;
            sc.cfg.frames = TREE_FRAMES;
            for t in 0..nthreads {
                for _ in 0..1 + rng.below(3) {
                    if rng.chance(2, 3) {
                        sc.calls[t].push(Tmpl::LGet { start: rng.below(TREE_FRAMES / 64), order: *rng.pick(&orders) });
                    } else {
                        sc.calls[t].push(Tmpl::LPutHeld { i: rng.below(4) });
                    }
                }
            }
        }
        3 => {
            // nearly full allocator: contention on the last frames, drains, targeted gets
            let c = classes[0].0;
            sc.cfg.frames = TREE_FRAMES;
            sc.setup.push(format!("get {} {c} - -", TREE_ORDER.min(HUGE_ORDER + 1)));
            if TREE_HUGE >= 4 {
                sc.setup.push(format!("get {HUGE_ORDER} {c} - -"));
            }
            for t in 0..nthreads {
                let c = rc(rng);
                for _ in 0..1 + rng.below(3) {
                    match rng.below(5) {
                        0 => sc.calls[t].push(Tmpl::Drain),
                        1 => sc.calls[t].push(Tmpl::PutHeld { i: rng.below(3), class: c, local: rl(rng, c) }),
                        2 => sc.calls[t].push(Tmpl::Get { order: 0, class: c, local: rl(rng, c), target: Some(rng.below(sc.cfg.frames)) }),
                        _ => sc.calls[t].push(Tmpl::Get { order: *rng.pick(&[0usize, 0, 1, 6, 7]), class: c, local: rl(rng, c), target: None }),
                    }
                }
            }
        }
        _ => {
            // random mixes
            for t in 0..nthreads {
                for _ in 0..1 + rng.below(3) {
                    let c = rc(rng);
                    match rng.below(10) {
                        0 => sc.calls[t].push(Tmpl::Drain),
                        1 => sc.calls[t].push(Tmpl::Change { id: Some(rng.below(sc.cfg.ntrees())), mclass: None, mfree: 0, cclass: Some(rc(rng)), offline: rng.chance(1, 3), online: false }),
                        2 | 3 => sc.calls[t].push(Tmpl::PutHeld { i: rng.below(3), class: c, local: rl(rng, c) }),
                        4 => sc.calls[t].push(Tmpl::PutPart { i: rng.below(3), part: rng.below(8), class: c, local: rl(rng, c) }),
                        5 => {
                            let order = *rng.pick(&orders);
                            let f = rng.below(sc.cfg.frames) >> order << order;
                            sc.calls[t].push(Tmpl::Get { order, class: c, local: rl(rng, c), target: Some(f) })
                        }
                        _ => sc.calls[t].push(Tmpl::Get { order: *rng.pick(&orders), class: c, local: rl(rng, c), target: None }),
                    }
                }
            }
        }
    }
    sc
}

fn preemptions(choices: &[(Vec<usize>, usize)], upto: usize) -> usize {
    let mut n = 0;
    for i in 1..upto.min(choices.len()) {
        let prev = choices[i - 1].1;
        if choices[i].1 != prev && choices[i].0.contains(&prev) {
            n += 1;
        }
    }
    n
}

pub struct Explore {
    pub runs: usize,
    pub events: usize,
    pub crash_points: usize,
    pub freeze_runs: usize,
    pub max_solo: usize,
    pub violations: Vec<(Violation, Vec<String>, Vec<usize>)>,
    pub known: Vec<String>,
    pub lines: Vec<(String, String)>,
    pub run_starts: Vec<usize>,
    pub sigs: std::collections::BTreeSet<String>,
}

/// explore one scenario: preemption-bounded DFS + random schedules + freeze experiments
pub fn explore(sc: &Scenario, ex: &mut Explore, bound: usize, max_dfs: usize, randoms: usize, freezes: usize, crash_every: usize, seed: u64) {
    let mut rng = Rng(seed);
    let mut record = |ex: &mut Explore, r: RunResult| {
        ex.runs += 1;
        ex.events += r.events.len();
        ex.crash_points += r.crash_points;
        if let Some(s) = r.solo_steps {
            ex.freeze_runs += 1;
            ex.max_solo = ex.max_solo.max(s);
        }
        let sched: Vec<usize> = r.choices.iter().map(|c| c.1).collect();
        for v in r.violations {
            if ex.violations.len() < 20 {
                ex.violations.push((v, sc.to_text(), sched.clone()));
            }
        }
        for k in r.known {
            // at most ten instances per finding
            let id = k.split_whitespace().next().unwrap_or("").to_string();
            if ex.known.iter().filter(|x| x.starts_with(&id)).count() < 10 {
                ex.known.push(k);
            }
        }
        for e in &r.events {
            if let Event::Ret { res, .. } = e {
                ex.sigs.insert(format!("ret:{}", res.split_whitespace().take(2).collect::<Vec<_>>().join(" ").chars().take(12).collect::<String>()));
            }
        }
        ex.sigs.insert(format!("sched:{}", sched.iter().map(|t| t.to_string()).collect::<String>()));
        ex.run_starts.push(ex.lines.len());
        ex.lines.extend(r.lines);
        r.choices
    };
    // DFS over forced prefixes
    let mut stack: Vec<Vec<usize>> = vec![vec![]];
    let mut done = 0;
    while let Some(prefix) = stack.pop() {
        if done >= max_dfs {
            break;
        }
        let Some(r) = run(sc, &Strategy::Prefix(prefix.clone()), crash_every) else { return };
        done += 1;
        let choices = record(ex, r);
        for i in prefix.len()..choices.len() {
            for &alt in &choices[i].0 {
                if alt == choices[i].1 {
                    continue;
                }
                let mut p: Vec<usize> = choices[..i].iter().map(|c| c.1).collect();
                p.push(alt);
                // count preemptions of the new prefix
                let mut tmp: Vec<(Vec<usize>, usize)> = choices[..i].to_vec();
                tmp.push((choices[i].0.clone(), alt));
                if preemptions(&tmp, tmp.len()) <= bound {
                    stack.push(p);
                }
            }
        }
    }
    for _ in 0..randoms {
        if let Some(r) = run(sc, &Strategy::Random(rng.next()), crash_every) {
            record(ex, r);
        }
    }
    for _ in 0..freezes {
        let at = rng.below(40);
        let t = rng.below(sc.calls.len());
        if let Some(r) = run(sc, &Strategy::Freeze { at, t, seed: rng.next() }, 0) {
            record(ex, r);
        }
    }
}
