//! `U` correspondence for the packed metadata entries: every pure transition of `Tree` (trees.rs),
//! `LocalTree` (local.rs) and `HugeEntry` (lower.rs), driven on raw bits through the `verif` hooks,
//! implementation vs. model, with conservation / admissibility oracles.

use llfree::verif::{huge_entry, local_tree, tree};
use llfree::*;

use crate::common::*;
use crate::engine::Engine;
use crate::unit::Unit;

const TREE_ROWS: usize = TREE_FRAMES / 64;

fn o32(r: std::result::Result<Option<u32>, String>) -> String {
    match r {
        Ok(Some(v)) => format!("set {v:x}"),
        Ok(None) => "none".into(),
        Err(p) => format!("panic {p}"),
    }
}
fn o64(r: std::result::Result<Option<u64>, String>) -> String {
    match r {
        Ok(Some(v)) => format!("set {v:x}"),
        Ok(None) => "none".into(),
        Err(p) => format!("panic {p}"),
    }
}
fn o16(r: std::result::Result<Option<u16>, String>) -> String {
    match r {
        Ok(Some(v)) => format!("set {v:x}"),
        Ok(None) => "none".into(),
        Err(p) => format!("panic {p}"),
    }
}
fn kind(a: &str) -> &str {
    a.split(' ').next().unwrap_or("")
}
/// fields of a packed tree entry (free:28 | reserved:1 | class:3)
fn tf(raw: u32) -> (usize, bool, u8) {
    ((raw & ((1 << 28) - 1)) as usize, raw >> 28 & 1 == 1, (raw >> 29) as u8)
}
/// fields of a packed reservation (row:44 | free:19 | present:1)
fn lf(raw: u64) -> (usize, usize, bool) {
    ((raw & ((1 << 44) - 1)) as usize, (raw >> 44 & ((1 << 19) - 1)) as usize, raw >> 63 == 1)
}
fn popt(s: &str) -> Option<Option<usize>> {
    if s == "-" { Some(None) } else { s.parse().ok().map(Some) }
}

impl Unit {
    fn ent_viol(&mut self, prop: &'static str, msg: String) {
        if self.violations.len() < 50 {
            self.violations.push(crate::engine::Violation { prop, msg, line: self.em.nlines + 1 });
        }
    }

    pub fn et_with(&mut self, free: usize, res: bool, cls: u8) {
        let a = o32(guarded(|| Some(tree::with(free, res, Class(cls)))));
        self.cov.hit("et_with", kind(&a), "");
        self.em.qa(&format!("et_with {free} {} {cls}", res as u8), &a);
    }
    pub fn et_put(&mut self, raw: u32, free: usize, pol: &Pol, dflt: u8) {
        let f = pol.func();
        let r = guarded(|| Some(tree::put(raw, free, f, Class(dflt))));
        if let Ok(Some(n)) = r {
            // conservation: exactly the returned frames are added, the reserved flag is untouched
            self.cov.oracle("C04");
            if tf(n).0 != tf(raw).0 + free || tf(n).1 != tf(raw).1 {
                self.ent_viol("C04", format!("Tree::put({raw:#x}, {free}) = {n:#x}: counter or reserved flag wrong"));
            }
        }
        let a = o32(r);
        self.cov.hit("et_put", kind(&a), &format!("f{}", (tf(raw).0 + free == TREE_FRAMES) as u8));
        self.em.qa(&format!("et_put {raw:x} {free} {} {dflt}", pol.name()), &a);
    }
    pub fn et_steal(&mut self, raw: u32, cls: u8, free: usize, pol: &Pol) {
        let f = pol.func();
        let r = guarded(|| tree::steal(raw, Class(cls), free, f));
        if let Ok(Some(n)) = r {
            let (of, ores, oc) = tf(raw);
            let p = f(Class(cls), Class(oc), free);
            self.cov.oracle("C13");
            self.cov.oracle("C15");
            // only from an unreserved tree with enough frames, never against an Invalid rating;
            // the class afterwards is the requested one or (Steal) the tree's
            if ores || of < free || tf(n).0 != of - free || p == Policy::Invalid {
                self.ent_viol("C15", format!("Tree::steal({raw:#x}, {cls}, {free}) = {n:#x}: not payable (policy {p:?})"));
            }
            let nc = tf(n).2;
            if !(nc == cls || (p == Policy::Steal && nc == oc)) {
                self.ent_viol("C13", format!("Tree::steal({raw:#x}, {cls}, {free}) = {n:#x}: class {nc} under policy {p:?}"));
            }
        }
        let a = o32(r);
        self.cov.hit("et_steal", kind(&a), &format!("r{}", tf(raw).1 as u8));
        self.em.qa(&format!("et_steal {raw:x} {cls} {free} {}", pol.name()), &a);
    }
    pub fn et_ros(&mut self, raw: u32, free: usize, pol: &Pol, cls: u8) {
        let f = pol.func();
        let r = guarded(|| tree::reserve_or_steal(raw, free, f, Class(cls)));
        if let Ok(Some(n)) = r {
            let (of, ores, oc) = tf(raw);
            let p = f(Class(cls), Class(oc), free);
            self.cov.oracle("C15");
            let (nf, nres, ncl) = tf(n);
            // either the whole counter moves into a reservation of the requested class, or `free` is taken
            let reserved = nres && nf == 0 && ncl == cls && p != Policy::Steal;
            let stolen = !nres && nf + free == of && ncl == oc && p == Policy::Steal;
            if ores || of < free || p == Policy::Invalid || !(reserved || stolen) {
                self.ent_viol("C15", format!("Tree::reserve_or_steal({raw:#x}, {free}, {cls}) = {n:#x} under policy {p:?}"));
            }
        }
        let a = o32(r);
        self.cov.hit("et_ros", kind(&a), &format!("r{}", tf(raw).1 as u8));
        self.em.qa(&format!("et_ros {raw:x} {free} {} {cls}", pol.name()), &a);
    }
    pub fn et_ua(&mut self, raw: u32, free: usize, cls: u8, pol: &Pol, dflt: u8) {
        let f = pol.func();
        let r = guarded(|| tree::unreserve_add(raw, free, Class(cls), f, Class(dflt)));
        if let Ok(Some(n)) = r {
            self.cov.oracle("C04");
            if !tf(raw).1 || tf(n).1 || tf(n).0 != tf(raw).0 + free {
                self.ent_viol("C04", format!("Tree::unreserve_add({raw:#x}, {free}, {cls}) = {n:#x}: counter or flag wrong"));
            }
        }
        let a = o32(r);
        self.cov.hit("et_ua", kind(&a), "");
        self.em.qa(&format!("et_ua {raw:x} {free} {cls} {} {dflt}", pol.name()), &a);
    }
    pub fn et_ss(&mut self, raw: u32, min: usize) {
        let a = o32(guarded(|| tree::sync_steal(raw, min)));
        self.cov.hit("et_ss", kind(&a), "");
        self.em.qa(&format!("et_ss {raw:x} {min}"), &a);
    }
    pub fn et_chg(&mut self, raw: u32, mc: Option<usize>, mf: usize, cc: Option<usize>, op: Option<bool>, fetch: usize) {
        let ch = TreeChange {
            class: cc.map(|c| Class(c as u8)),
            operation: op.map(|on| if on { TreeOperation::Online } else { TreeOperation::Offline }),
        };
        let a = o32(guarded(|| tree::change(raw, mc.map(|c| Class(c as u8)), mf, ch.clone(), fetch)));
        self.cov.hit("et_chg", kind(&a), &format!("{}{}", cc.is_some() as u8, match op { None => "-", Some(true) => "on", Some(false) => "off" }));
        self.em.qa(
            &format!("et_chg {raw:x} {} {mf} {} {} {fetch}", opt(mc), opt(cc), match op { None => "-", Some(true) => "on", Some(false) => "off" }),
            &a,
        );
    }
    pub fn el_with(&mut self, row: usize, free: usize) {
        let a = o64(guarded(|| Some(local_tree::with(row, free))));
        self.cov.hit("el_with", kind(&a), "");
        self.em.qa(&format!("el_with {row} {free}"), &a);
    }
    pub fn el_get(&mut self, raw: u64, tree_id: Option<usize>, free: usize) {
        let r = guarded(|| local_tree::get(raw, tree_id, free));
        if let Ok(Some(n)) = r {
            let (orow, of, op) = lf(raw);
            self.cov.oracle("C15");
            if !op || of < free || lf(n).1 != of - free || lf(n).0 != orow || tree_id.is_some_and(|t| t != orow / TREE_ROWS) {
                self.ent_viol("C15", format!("LocalTree::get({raw:#x}, {tree_id:?}, {free}) = {n:#x}: not payable"));
            }
        }
        let a = o64(r);
        self.cov.hit("el_get", kind(&a), "");
        self.em.qa(&format!("el_get {raw:x} {} {free}", opt(tree_id)), &a);
    }
    pub fn el_put(&mut self, raw: u64, tree_id: usize, free: usize) {
        let r = guarded(|| local_tree::put(raw, tree_id, free));
        if let Ok(Some(n)) = r {
            let (orow, of, op) = lf(raw);
            self.cov.oracle("C04");
            if !op || orow / TREE_ROWS != tree_id || lf(n).1 != of + free {
                self.ent_viol("C04", format!("LocalTree::put({raw:#x}, {tree_id}, {free}) = {n:#x}: counter wrong"));
            }
        }
        let a = o64(r);
        self.cov.hit("el_put", kind(&a), "");
        self.em.qa(&format!("el_put {raw:x} {tree_id} {free}"), &a);
    }
    pub fn el_start(&mut self, raw: u64, row: usize) {
        let a = o64(guarded(|| local_tree::set_start(raw, row)));
        self.cov.hit("el_start", kind(&a), "");
        self.em.qa(&format!("el_start {raw:x} {row}"), &a);
    }
    pub fn eh_new(&mut self, free: usize) {
        let a = o16(guarded(|| Some(huge_entry::new_with(free))));
        self.em.qa(&format!("eh_new {free}"), &a);
    }
    pub fn eh_view(&mut self, raw: u16) {
        let a = match guarded(|| (huge_entry::huge(raw), huge_entry::free(raw))) {
            Ok((h, f)) => format!("view {} {f}", h as u8),
            Err(p) => format!("panic {p}"),
        };
        self.em.qa(&format!("eh_view {raw:x}"), &a);
    }
    pub fn eh_dec(&mut self, raw: u16, n: usize) {
        let r = guarded(|| huge_entry::dec(raw, n));
        if let Ok(Some(v)) = r {
            self.cov.oracle("C15");
            if raw == u16::MAX || (raw as usize) < n || v as usize != raw as usize - n {
                self.ent_viol("C15", format!("HugeEntry::dec({raw:#x}, {n}) = {v:#x}: not payable"));
            }
        }
        let a = o16(r);
        self.cov.hit("eh_dec", kind(&a), "");
        self.em.qa(&format!("eh_dec {raw:x} {n}"), &a);
    }
    pub fn eh_inc(&mut self, raw: u16, n: usize) {
        let r = guarded(|| huge_entry::inc(raw, n));
        if let Ok(Some(v)) = r {
            self.cov.oracle("C04");
            if raw == u16::MAX || v as usize != raw as usize + n || v as usize > HUGE_FRAMES {
                self.ent_viol("C04", format!("HugeEntry::inc({raw:#x}, {n}) = {v:#x}: counter wrong"));
            }
        }
        let a = o16(r);
        self.cov.hit("eh_inc", kind(&a), "");
        self.em.qa(&format!("eh_inc {raw:x} {n}"), &a);
    }
}

fn pols() -> Vec<Pol> {
    vec![
        Pol::Simple,
        Pol::Movable,
        Pol::Zeroed,
        Pol::InvSimple(vec![(2, 0), (0, 2)]),
        Pol::InvSimple(vec![(1, 1), (0, 1), (2, 1)]),
    ]
}

/// boundary-dense counter values for a capacity
fn bvals(cap: usize) -> Vec<usize> {
    let mut v = vec![0, 1, 2, 63, 64, 65, cap / 64, cap / 64 + 1, cap / 8, cap / 4, cap / 2 - 1, cap / 2, cap / 2 + 1, cap - 64, cap - 2, cap - 1, cap];
    v.retain(|x| *x <= cap);
    v.sort();
    v.dedup();
    v
}

pub fn generate(u: &mut Unit, rng: &mut Rng, n: usize) {
    let fv = bvals(TREE_FRAMES);
    let amounts: Vec<usize> = {
        let mut a: Vec<usize> = (0..=TREE_ORDER).map(|o| 1usize << o).collect();
        a.extend([0, 3, TREE_FRAMES - 1, TREE_FRAMES + 1]);
        a
    };
    let pols = pols();
    // --- constructors (incl. the setter bounds)
    for &f in fv.iter().chain([TREE_FRAMES + 1, 1 << 27].iter()) {
        for res in [false, true] {
            for cls in [0u8, 1, 2, 7, 8] {
                u.et_with(f, res, cls);
            }
        }
    }
    // --- exhaustive over boundary values: counter x reserved x class x amount x policy x class argument
    for &f in &fv {
        for res in [false, true] {
            for tc in [0u8, 1, 2, 3] {
                let raw = tree::with(f, res, Class(tc));
                for &a in &amounts {
                    for pol in &pols {
                        for c in [0u8, 1, 2] {
                            u.et_steal(raw, c, a, pol);
                            u.et_ros(raw, a, pol, c);
                            if a <= TREE_FRAMES {
                                u.et_put(raw, a, pol, c);
                                u.et_ua(raw, a, c, pol, 0);
                                u.et_ua(raw, a, c, pol, 2);
                            }
                        }
                    }
                    u.et_ss(raw, a);
                    for mc in [None, Some(0), Some(tc as usize)] {
                        for cc in [None, Some(1usize), Some(8)] {
                            for op in [None, Some(true), Some(false)] {
                                u.et_chg(raw, mc, a, cc, op, fv[(a + f) % fv.len()]);
                            }
                        }
                    }
                }
            }
        }
    }
    // --- reservations
    let rows: Vec<usize> = vec![0, 1, TREE_ROWS - 1, TREE_ROWS, TREE_ROWS + 1, 3 * TREE_ROWS + 5, (1 << 44) - 1];
    for &r in rows.iter().chain([1usize << 44].iter()) {
        for &f in fv.iter().chain([TREE_FRAMES + 1, (1 << 19) - 1, 1 << 19].iter()) {
            u.el_with(r, f);
        }
    }
    let mut lraws = vec![local_tree::none()];
    for &r in &rows {
        for &f in &fv {
            lraws.push(local_tree::with(r, f));
        }
    }
    for &raw in &lraws {
        let t = lf(raw).0 / TREE_ROWS;
        for &a in &amounts {
            for tr in [None, Some(t), Some(t + 1), Some(0)] {
                u.el_get(raw, tr, a);
            }
            for tr in [t, t + 1, 0] {
                u.el_put(raw, tr, a);
            }
        }
        for &r in &rows {
            u.el_start(raw, r);
        }
        u.el_start(raw, t * TREE_ROWS + 7 % TREE_ROWS);
    }
    // --- huge entries
    let hv: Vec<u16> = bvals(HUGE_FRAMES).iter().map(|x| *x as u16).chain([u16::MAX, u16::MAX - 1, HUGE_FRAMES as u16 + 1]).collect();
    for &f in bvals(HUGE_FRAMES).iter() {
        u.eh_new(f);
    }
    for &raw in &hv {
        u.eh_view(raw);
        for o in 0..=HUGE_ORDER {
            u.eh_dec(raw, 1 << o);
            u.eh_inc(raw, 1 << o);
        }
        u.eh_dec(raw, 0);
        u.eh_inc(raw, 0);
    }
    // --- seeded random (mostly valid) entries and arguments
    for _ in 0..n {
        let f = if rng.chance(1, 2) { *rng.pick(&fv) } else { rng.below(TREE_FRAMES + 1) };
        let raw = tree::with(f, rng.chance(1, 3), Class(rng.below(4) as u8));
        let a = if rng.chance(2, 3) { 1 << rng.below(TREE_ORDER + 1) } else { rng.below(TREE_FRAMES + 2) };
        let pol = if rng.chance(1, 4) {
            let k = rng.below(4);
            Pol::InvSimple((0..k).map(|_| (rng.below(3) as u8, rng.below(3) as u8)).collect())
        } else {
            rng.pick(&pols).clone()
        };
        let c = rng.below(3) as u8;
        match rng.below(10) {
            0 | 1 => u.et_steal(raw, c, a, &pol),
            2 | 3 => u.et_ros(raw, a, &pol, c),
            4 => {
                if tf(raw).0 + a <= TREE_FRAMES + 1 {
                    u.et_put(raw, a, &pol, rng.below(3) as u8)
                }
            }
            5 => u.et_ua(raw, a.min(TREE_FRAMES), c, &pol, rng.below(3) as u8),
            6 => u.et_ss(raw, a),
            7 => {
                let mc = if rng.chance(1, 2) { None } else { Some(rng.below(4)) };
                let cc = if rng.chance(1, 2) { None } else { Some(rng.below(9)) };
                let op = *rng.pick(&[None, Some(true), Some(false)]);
                u.et_chg(raw, mc, a, cc, op, if rng.chance(1, 20) { 1 << 28 } else { rng.below(TREE_FRAMES + 1) });
            }
            8 => {
                let l = *rng.pick(&lraws);
                let t = lf(l).0 / TREE_ROWS;
                let tr = match rng.below(3) { 0 => None, 1 => Some(t), _ => Some(rng.below(4)) };
                u.el_get(l, tr, a);
                u.el_put(l, tr.unwrap_or(t), a.min(TREE_FRAMES));
                u.el_start(l, t * TREE_ROWS + rng.below(2 * TREE_ROWS));
            }
            _ => {
                let h = if rng.chance(1, 8) { u16::MAX } else { rng.below(HUGE_FRAMES + 1) as u16 };
                let k = 1 << rng.below(HUGE_ORDER + 1);
                u.eh_dec(h, k);
                u.eh_inc(h, k);
            }
        }
    }
}

pub fn exec_line(u: &mut Unit, line: &str) -> Option<String> {
    let ws: Vec<&str> = line.split_whitespace().collect();
    let before = u.em.exp.len();
    let h32 = |s: &str| u32::from_str_radix(s, 16).ok();
    let h64 = |s: &str| u64::from_str_radix(s, 16).ok();
    let h16 = |s: &str| u16::from_str_radix(s, 16).ok();
    let pol = |s: &str| Engine::parse_pol(s);
    let op = |s: &str| match s { "-" => Some(None), "on" => Some(Some(true)), "off" => Some(Some(false)), _ => None };
    match ws.as_slice() {
        ["et_with", f, r, c] => u.et_with(f.parse().ok()?, *r == "1", c.parse().ok()?),
        ["et_put", raw, f, p, d] => u.et_put(h32(raw)?, f.parse().ok()?, &pol(p)?, d.parse().ok()?),
        ["et_steal", raw, c, f, p] => u.et_steal(h32(raw)?, c.parse().ok()?, f.parse().ok()?, &pol(p)?),
        ["et_ros", raw, f, p, c] => u.et_ros(h32(raw)?, f.parse().ok()?, &pol(p)?, c.parse().ok()?),
        ["et_ua", raw, f, c, p, d] => u.et_ua(h32(raw)?, f.parse().ok()?, c.parse().ok()?, &pol(p)?, d.parse().ok()?),
        ["et_ss", raw, m] => u.et_ss(h32(raw)?, m.parse().ok()?),
        ["et_chg", raw, mc, mf, cc, o, fetch] => u.et_chg(h32(raw)?, popt(mc)?, mf.parse().ok()?, popt(cc)?, op(o)?, fetch.parse().ok()?),
        ["el_with", r, f] => u.el_with(r.parse().ok()?, f.parse().ok()?),
        ["el_get", raw, t, f] => u.el_get(h64(raw)?, popt(t)?, f.parse().ok()?),
        ["el_put", raw, t, f] => u.el_put(h64(raw)?, t.parse().ok()?, f.parse().ok()?),
        ["el_start", raw, r] => u.el_start(h64(raw)?, r.parse().ok()?),
        ["eh_new", f] => u.eh_new(f.parse().ok()?),
        ["eh_view", raw] => u.eh_view(h16(raw)?),
        ["eh_dec", raw, n] => u.eh_dec(h16(raw)?, n.parse().ok()?),
        ["eh_inc", raw, n] => u.eh_inc(h16(raw)?, n.parse().ok()?),
        _ => return None,
    }
    Some(u.em.exp[before..].trim_end().to_string())
}
