//! `U` correspondence: pure leaf functions, implementation vs. model, with property oracles.

use llfree::*;

use crate::common::*;
use crate::engine::{Coverage, Violation};

pub struct Unit {
    pub em: Emit,
    pub cov: Coverage,
    pub violations: Vec<Violation>,
}

impl Unit {
    pub fn new() -> Self {
        Unit { em: Emit::new(), cov: Coverage::default(), violations: vec![] }
    }
    fn viol(&mut self, prop: &'static str, msg: String) {
        if self.violations.len() < 50 {
            self.violations.push(Violation { prop, msg, line: self.em.nlines });
        }
    }

    // ---------------------------------------------------------------- C23: row search
    /// reference: lowest aligned all-zero block
    fn fza_ref(v: u64, order: usize) -> Option<(u64, usize)> {
        let w = 1usize << order;
        let mask = if w == 64 { u64::MAX } else { (1u64 << w) - 1 };
        (0..64 / w).map(|k| k * w).find(|p| (v >> p) & mask == 0).map(|p| (v | (mask << p), p))
    }
    pub fn fza_case(&mut self, v: u64, order: usize) {
        let r = guarded(|| llfree::verif::first_zeros_aligned(v, order));
        let a = match &r {
            Ok(Some((nv, off))) => format!("some {nv:x} {off}"),
            Ok(None) => "none".into(),
            Err(p) => format!("panic {p}"),
        };
        self.cov.hit("fza", if a.starts_with("some") { "some" } else { &a }, &format!("o{order} z{}", (v.count_zeros() / 8)));
        self.cov.oracle("C23");
        if let Ok(got) = r {
            let want = Self::fza_ref(v, order);
            if got != want {
                self.viol("C23", format!("first_zeros_aligned({v:#x}, {order}) = {got:x?}, the lowest aligned free block gives {want:x?}"));
            }
        } else {
            self.viol("C23", format!("first_zeros_aligned({v:#x}, {order}) panicked"));
        }
        self.em.qa(&format!("fza {v:x} {order}"), &a);
    }
    pub fn fza(&mut self, rng: &mut Rng, n: usize) {
        for order in 0..=6usize {
            let w = 1usize << order;
            let mask = if w == 64 { u64::MAX } else { (1u64 << w) - 1 };
            // saturated / empty rows
            for v in [0, u64::MAX, 1, 1 << 63, u64::MAX >> 1, u64::MAX << 1] {
                self.fza_case(v, order);
            }
            // every single free aligned block, with and without stray zero bits elsewhere
            for k in 0..64 / w {
                let v = !(mask << (k * w));
                self.fza_case(v, order);
                if w > 1 {
                    // a misaligned hole of the same width just below: must not be taken
                    let sh = (k * w + w / 2) % 64;
                    self.fza_case(!(mask << sh) | (mask << (k * w)) >> 1 << 1, order);
                    // borrow chains: a 1 directly above a zero block of the next lower unit
                    if k + 1 < 64 / w {
                        self.fza_case(v & !(1u64 << ((k + 1) * w)), order);
                        self.fza_case((1u64 << (k * w)) | ((mask >> 1) << ((k + 1) * w + 1)).wrapping_neg(), order);
                    }
                }
            }
            for _ in 0..n {
                let mut v = rng.next();
                match rng.below(6) {
                    0 => v |= rng.next(),
                    1 => v |= rng.next() | rng.next(),
                    2 => v &= rng.next(),
                    3 => {
                        // mostly full row with one or two free blocks
                        v = u64::MAX;
                        for _ in 0..1 + rng.below(2) {
                            v &= !(mask << (rng.below(64 / w) * w));
                        }
                        if rng.chance(1, 2) {
                            v &= !(1u64 << rng.below(64));
                        }
                    }
                    4 => {
                        // per block: empty / full / single bit / random
                        v = 0;
                        for k in 0..64 / w {
                            let b = match rng.below(4) {
                                0 => 0,
                                1 => mask,
                                2 => 1u64 << rng.below(w),
                                _ => rng.next() & mask,
                            };
                            v |= b << (k * w);
                        }
                    }
                    _ => {}
                }
                self.fza_case(v, order);
            }
        }
    }
}
