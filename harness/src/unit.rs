//! `U` correspondence: pure leaf functions, implementation vs. model, with property oracles.

use llfree::*;

use crate::common::*;
use crate::engine::{Coverage, Violation};

pub struct Unit {
    pub em: Emit,
    pub cov: Coverage,
    pub violations: Vec<Violation>,
}

impl Unit {
    pub fn new() -> Self {
        let mut em = Emit::new();
        em.qa(&format!("geom {HUGE_ORDER} {TREE_HUGE}"), "ok");
        Unit { em, cov: Coverage::default(), violations: vec![] }
    }
    fn viol(&mut self, prop: &'static str, msg: String) {
        if self.violations.len() < 50 {
            self.violations.push(Violation { prop, msg, line: self.em.nlines + 1 });
        }
    }

    // ---------------------------------------------------------------- C23: row search
    /// reference: lowest aligned all-zero block
    fn fza_ref(v: u64, order: usize) -> Option<(u64, usize)> {
        let w = 1usize << order;
        let mask = if w == 64 { u64::MAX } else { (1u64 << w) - 1 };
        (0..64 / w).map(|k| k * w).find(|p| (v >> p) & mask == 0).map(|p| (v | (mask << p), p))
    }
    pub fn fza_case(&mut self, v: u64, order: usize) {
        let r = guarded(|| llfree::verif::first_zeros_aligned(v, order));
        let a = match &r {
            Ok(Some((nv, off))) => format!("some {nv:x} {off}"),
            Ok(None) => "none".into(),
            Err(p) => format!("panic {p}"),
        };
        self.cov.hit("fza", if a.starts_with("some") { "some" } else { &a }, &format!("o{order} z{}", (v.count_zeros() / 8)));
        self.cov.oracle("C23");
        if let Ok(got) = r {
            let want = Self::fza_ref(v, order);
            if got != want {
                self.viol("C23", format!("first_zeros_aligned({v:#x}, {order}) = {got:x?}, the lowest aligned free block gives {want:x?}"));
            }
        } else {
            self.viol("C23", format!("first_zeros_aligned({v:#x}, {order}) panicked"));
        }
        self.em.qa(&format!("fza {v:x} {order}"), &a);
    }
    pub fn fza(&mut self, rng: &mut Rng, n: usize) {
        for order in 0..=6usize {
            let w = 1usize << order;
            let mask = if w == 64 { u64::MAX } else { (1u64 << w) - 1 };
            // saturated / empty rows
            for v in [0, u64::MAX, 1, 1 << 63, u64::MAX >> 1, u64::MAX << 1] {
                self.fza_case(v, order);
            }
            // every single free aligned block, with and without stray zero bits elsewhere
            for k in 0..64 / w {
                let v = !(mask << (k * w));
                self.fza_case(v, order);
                if w > 1 {
                    // a misaligned hole of the same width just below: must not be taken
                    let sh = (k * w + w / 2) % 64;
                    self.fza_case(!(mask << sh) | (mask << (k * w)) >> 1 << 1, order);
                    // borrow chains: a 1 directly above a zero block of the next lower unit
                    if k + 1 < 64 / w {
                        self.fza_case(v & !(1u64 << ((k + 1) * w)), order);
                        self.fza_case((1u64 << (k * w)) | ((mask >> 1) << ((k + 1) * w + 1)).wrapping_neg(), order);
                    }
                }
            }
            for _ in 0..n {
                let mut v = rng.next();
                match rng.below(6) {
                    0 => v |= rng.next(),
                    1 => v |= rng.next() | rng.next(),
                    2 => v &= rng.next(),
                    3 => {
                        // mostly full row with one or two free blocks
                        v = u64::MAX;
                        for _ in 0..1 + rng.below(2) {
                            v &= !(mask << (rng.below(64 / w) * w));
                        }
                        if rng.chance(1, 2) {
                            v &= !(1u64 << rng.below(64));
                        }
                    }
                    4 => {
                        // per block: empty / full / single bit / random
                        v = 0;
                        for k in 0..64 / w {
                            let b = match rng.below(4) {
                                0 => 0,
                                1 => mask,
                                2 => 1u64 << rng.below(w),
                                _ => rng.next() & mask,
                            };
                            v |= b << (k * w);
                        }
                    }
                    _ => {}
                }
                self.fza_case(v, order);
            }
        }
    }

    // ---------------------------------------------------------------- C16: SortedBuffer
    fn sbuf_run<const N: usize>(keys: &[u8]) -> Vec<(u8, usize)> {
        use llfree::util::{OrdBy, SortedBuffer};
        let mut b = SortedBuffer::<N, OrdBy<u8, usize>>::new();
        for (i, k) in keys.iter().enumerate() {
            b.add(OrdBy(*k, i));
        }
        b.iter().map(|OrdBy(k, i)| (*k, *i)).collect()
    }
    pub fn sbuf_case(&mut self, n: usize, keys: &[u8]) {
        let r = guarded(|| match n {
            0 => Self::sbuf_run::<0>(keys),
            1 => Self::sbuf_run::<1>(keys),
            2 => Self::sbuf_run::<2>(keys),
            3 => Self::sbuf_run::<3>(keys),
            4 => Self::sbuf_run::<4>(keys),
            5 => Self::sbuf_run::<5>(keys),
            6 => Self::sbuf_run::<6>(keys),
            7 => Self::sbuf_run::<7>(keys),
            _ => Self::sbuf_run::<8>(keys),
        });
        let q = format!("sbuf {n} {}", keys.iter().map(|k| k.to_string()).collect::<Vec<_>>().join(" "));
        self.cov.oracle("C16");
        let a = match r {
            Ok(v) => {
                let mut want: Vec<u8> = keys.to_vec();
                want.sort();
                let want: Vec<u8> = want[want.len() - n.min(want.len())..].to_vec();
                let got: Vec<u8> = v.iter().map(|x| x.0).collect();
                if got != want {
                    self.viol("C16", format!("SortedBuffer<{n}> after inserting {keys:?} holds {got:?}, the {n} greatest in ascending order are {want:?}"));
                }
                self.cov.hit("sbuf", "ok", &format!("n{n} len{} kept{}", keys.len().min(9), got.len()));
                format!("kept {}", v.iter().map(|(k, i)| format!("{k}:{i}")).collect::<Vec<_>>().join(" ")).trim_end().to_string()
            }
            Err(p) => {
                self.viol("C16", format!("SortedBuffer<{n}>::add panicked: {p} ({keys:?})"));
                format!("panic {p}")
            }
        };
        self.em.qa(&q, &a);
    }
    pub fn sbuf(&mut self, rng: &mut Rng, n: usize, exhaustive_len: usize) {
        // bounded-exhaustive: all sequences up to `exhaustive_len` over 4 ratings, capacities 0..=8
        for cap in 0..=8usize {
            for len in 0..=exhaustive_len {
                let total = 4usize.pow(len as u32);
                for code in 0..total {
                    let keys: Vec<u8> = (0..len).map(|i| ((code / 4usize.pow(i as u32)) % 4) as u8).collect();
                    self.sbuf_case(cap, &keys);
                }
            }
        }
        for _ in 0..n {
            let cap = rng.below(9);
            let len = rng.below(40);
            let small = rng.chance(1, 2);
            let dom = 1 + rng.below(if small { 4 } else { 200 });
            let keys: Vec<u8> = (0..len).map(|_| rng.below(dom) as u8).collect();
            self.sbuf_case(cap, &keys);
        }
    }

    // ---------------------------------------------------------------- C16: search_best
    pub fn sbest(&mut self, rng: &mut Rng, n: usize) {
        for _ in 0..n {
            let nt = 1 + rng.below(24);
            let mut tw = vec![];
            for _ in 0..nt {
                let free = match rng.below(6) {
                    0 => 0,
                    1 => rng.below(TREE_FRAMES / 64 + 1),
                    2 => TREE_FRAMES / 64 + rng.below(TREE_FRAMES / 2),
                    3 => TREE_FRAMES / 2 + rng.below(TREE_FRAMES / 2),
                    4 => TREE_FRAMES,
                    _ => rng.below(TREE_FRAMES + 1),
                };
                tw.push((free as u32) | ((rng.chance(1, 5) as u32) << 28) | ((rng.below(3) as u32) << 29));
            }
            let cls = rng.below(3) as u8;
            let order = *rng.pick(&[0usize, 0, 3, HUGE_ORDER, TREE_ORDER]);
            let variant = rng.below(3);
            let start = rng.below(nt);
            let (offset, len) = match rng.below(3) {
                0 => (0, nt),
                1 => (1, (nt / 16).max(4)),
                _ => (rng.below(2), rng.below(nt + 3)),
            };
            let cap = *rng.pick(&[1usize, 3, 8]);
            self.sbest_case(cap, start, offset, len, cls, order, variant, &tw);
        }
    }
    #[allow(clippy::too_many_arguments)]
    pub fn sbest_case(&mut self, cap: usize, start: usize, offset: usize, len: usize, cls: u8, order: usize, variant: usize, tw: &[u32]) {
        use std::cell::RefCell;
        {
            let nt = tw.len();
            let cfg = Config { frames: nt * TREE_FRAMES, classes: vec![(0, 1), (1, 1), (2, 1)], default: 0, pol: Pol::Zeroed };
            let bufs = Bufs::for_cfg(&cfg);
            for (t, w) in tw.iter().enumerate() {
                bufs.trees.slice()[t * 4..t * 4 + 4].copy_from_slice(&w.to_le_bytes());
            }
            let inst = match crate::engine::Inst::create(&cfg, Init::None, bufs) {
                Ok(Ok(i)) => i,
                _ => return,
            };
            let pol = cfg.pol.func();
            let rate = move |t: Class, f: usize| -> Policy {
                let base = if f >= (1 << order) { pol(Class(cls), t, f) } else { Policy::Invalid };
                match variant {
                    0 => base,
                    1 => match base {
                        p @ Policy::Match(_) => p,
                        p @ Policy::Demote if f == TREE_FRAMES => p,
                        _ => Policy::Invalid,
                    },
                    _ => match base {
                        Policy::Match(_) => Policy::Match(u8::MAX),
                        Policy::Demote if f == TREE_FRAMES => Policy::Match(u8::MAX),
                        p => p,
                    },
                }
            };
            let log = RefCell::new(vec![]);
            let access = |i: TreeId| -> Result<()> {
                log.borrow_mut().push(i.0);
                Err(Error::Memory)
            };
            let r = guarded(|| match cap {
                1 => inst.alloc.trees.search_best::<1, ()>(TreeId(start), offset, len, rate, access),
                3 => inst.alloc.trees.search_best::<3, ()>(TreeId(start), offset, len, rate, access),
                _ => inst.alloc.trees.search_best::<8, ()>(TreeId(start), offset, len, rate, access),
            });
            let accessed = log.borrow().clone();
            // oracle: perfect matches in scan order, then the `cap` best remaining, best first
            self.cov.oracle("C16");
            let mut perfect = vec![];
            let mut rest: Vec<((Policy, bool), usize)> = vec![];
            for i in offset..len {
                let off = if i % 2 == 0 { (i / 2) as isize } else { -(i.div_ceil(2) as isize) };
                let idx = ((start + nt) as isize + off) as usize % nt;
                let w = tw[idx];
                let (free, reserved, class) = ((w & 0xfff_ffff) as usize, (w >> 28) & 1 == 1, (w >> 29) as u8);
                if reserved {
                    continue;
                }
                match rate(Class(class), free) {
                    Policy::Match(u8::MAX) => perfect.push(idx),
                    Policy::Invalid => {}
                    p => rest.push(((p, free == TREE_FRAMES), idx)),
                }
            }
            let mut keys: Vec<(Policy, bool)> = rest.iter().map(|r| r.0).collect();
            keys.sort();
            keys.reverse();
            keys.truncate(cap);
            let tail = &accessed[perfect.len().min(accessed.len())..];
            let tail_keys: Vec<(Policy, bool)> =
                tail.iter().map(|i| rest.iter().find(|r| r.1 == *i).map(|r| r.0).unwrap_or((Policy::Invalid, false))).collect();
            if r.is_ok() && (accessed.len() < perfect.len() || accessed[..perfect.len()] != perfect[..] || tail_keys != keys) {
                self.viol("C16", format!("search_best<{cap}>(start {start}, {offset}..{len}) over trees {tw:x?} (class {cls}, order {order}, variant {variant}) accessed {accessed:?}; expected perfect matches {perfect:?} then ratings {keys:?}, got ratings {tail_keys:?}"));
            }
            self.cov.hit("sbest", if r.is_ok() { "ok" } else { "panic" }, &format!("cap{cap} v{variant} p{} r{}", perfect.len().min(3), rest.len().min(10)));
            let q = format!(
                "sbest {cap} {start} {offset} {len} {cls} {order} {variant} | {}",
                tw.iter().map(|w| format!("{w:x}")).collect::<Vec<_>>().join(" ")
            );
            let a = match r {
                Ok(_) => format!("accessed {}", accessed.iter().map(|i| i.to_string()).collect::<Vec<_>>().join(" ")),
                Err(p) => format!("panic {p}"),
            };
            self.em.qa(&q, a.trim_end());
        }
    }

    /// execute one unit request line (replay); None = not a unit request
    pub fn exec_line(&mut self, line: &str) -> Option<String> {
        let ws: Vec<&str> = line.split_whitespace().collect();
        let before = self.em.exp.len();
        match ws.as_slice() {
            ["fza", v, o] => self.fza_case(u64::from_str_radix(v, 16).ok()?, o.parse().ok()?),
            ["sbuf", n, keys @ ..] => {
                let keys: Vec<u8> = keys.iter().filter_map(|k| k.parse().ok()).collect();
                self.sbuf_case(n.parse().ok()?, &keys)
            }
            ["sbest", cap, start, offset, len, cls, order, variant, "|", tw @ ..] => {
                let tw: Vec<u32> = tw.iter().filter_map(|w| u32::from_str_radix(w, 16).ok()).collect();
                self.sbest_case(cap.parse().ok()?, start.parse().ok()?, offset.parse().ok()?, len.parse().ok()?,
                    cls.parse().ok()?, order.parse().ok()?, variant.parse().ok()?, &tw)
            }
            ["newmeta", _ho, _th, frames, classes, "|", nums @ ..] => {
                let n: Vec<usize> = nums.iter().filter_map(|x| x.parse().ok()).collect();
                if n.len() != 6 || n[0] < 4096 || n[2] < 4096 || n[4] < 4096 {
                    return Some("bad-op".into());
                }
                let cl = crate::engine::Engine::parse_classes(classes)?;
                self.meta_case(frames.parse().ok()?, &cl, [n[0] - 4096, n[1], n[2] - 4096, n[3], n[4] - 4096, n[5]])
            }
            _ => return None,
        }
        Some(self.em.exp[before..].trim_end().to_string())
    }

    // ---------------------------------------------------------------- C08: metadata buffers
    /// `LLFree::new` over buffers carved out of one arena at the given offsets/lengths
    pub fn meta_case(&mut self, frames: usize, classes: &[(u8, usize)], o: [usize; 6]) {
        const ARENA: usize = 1 << 18;
        let arena = Buf4k::new(ARENA);
        if (0..3).any(|i| o[2 * i] + o[2 * i + 1] > ARENA) {
            return;
        }
        let cfg = Config { frames, classes: classes.to_vec(), default: classes.first().map(|c| c.0).unwrap_or(0), pol: Pol::Simple };
        let classing = cfg.classing();
        let sl = |off: usize, len: usize| -> &'static mut [u8] { unsafe { std::slice::from_raw_parts_mut(arena.ptr.add(off), len) } };
        let meta = MetaData { local: sl(o[0], o[1]), trees: sl(o[2], o[3]), lower: sl(o[4], o[5]) };
        let r = guarded(|| LLFree::new(frames, Init::FreeAll, &classing, meta).map(|_| ()));
        let a = match &r {
            Ok(Ok(())) => "ok".to_string(),
            Ok(Err(e)) => err_str(*e).to_string(),
            Err(p) => format!("panic {p}"),
        };
        // oracle: too small / misaligned / overlapping => Initialization
        let m = LLFree::metadata_size(&classing, frames);
        let small = o[1] < m.local || o[3] < m.trees || o[5] < m.lower;
        let misaligned = o[0] % 64 != 0 || o[2] % 64 != 0 || o[4] % 64 != 0;
        let inter = |a: usize, la: usize, b: usize, lb: usize| la > 0 && lb > 0 && a < b + lb && b < a + la;
        let overl = inter(o[0], o[1], o[2], o[3]) || inter(o[2], o[3], o[4], o[5]) || inter(o[4], o[5], o[0], o[1]);
        self.cov.oracle("C08");
        if (small || misaligned || overl) && a != "err init" {
            self.viol("C08", format!("LLFree::new accepted metadata buffers local@{}+{} trees@{}+{} lower@{}+{} (required {m:?}; small={small} misaligned={misaligned} overlapping={overl}): {a}", o[0], o[1], o[2], o[3], o[4], o[5]));
        }
        if !(small || misaligned || overl) && a != "ok" && frames > 0 {
            self.viol("C08", format!("LLFree::new rejected valid metadata buffers: {a}"));
        }
        self.cov.hit("meta", &a, &format!("s{small} m{misaligned} o{overl}"));
        let cl = if classes.is_empty() { "-".to_string() } else { classes.iter().map(|(c, n)| format!("{c}:{n}")).collect::<Vec<_>>().join(",") };
        // addresses relative to the 4096-aligned arena, shifted so that they are positive
        self.em.qa(
            &format!("newmeta {HUGE_ORDER} {TREE_HUGE} {frames} {cl} | {} {} {} {} {} {}", o[0] + 4096, o[1], o[2] + 4096, o[3], o[4] + 4096, o[5]),
            &a,
        );
    }
    pub fn meta(&mut self, rng: &mut Rng, n: usize) {
        for _ in 0..n {
            let frames = crate::genseq::frame_choices(rng, 3);
            let cores = 1 + rng.below(3);
            let classes: Vec<(u8, usize)> = match rng.below(3) {
                0 => vec![(0, cores), (1, cores)],
                1 => vec![(0, cores), (1, cores), (2, cores)],
                _ => vec![(0, 0), (1, 1)],
            };
            let cfg = Config { frames, classes: classes.clone(), default: 0, pol: Pol::Simple };
            let m = LLFree::metadata_size(&cfg.classing(), frames);
            // a valid layout: consecutive, 64-aligned
            let up = |v: usize| v.next_multiple_of(64);
            let mut o = [0, m.local, up(m.local) + 64, m.trees, 0, m.lower];
            o[4] = up(o[2] + o[3]) + 64;
            match rng.below(8) {
                0 => {}
                1 => {
                    // one byte (or a few) short
                    let i = rng.below(3);
                    o[2 * i + 1] = o[2 * i + 1].saturating_sub(1 + rng.below(3));
                }
                2 => {
                    // misaligned by 1..63
                    let i = rng.below(3);
                    o[2 * i] += 1 + rng.below(63);
                }
                3 => {
                    // overlapping pair: b starts inside a
                    let (a, b) = *rng.pick(&[(0usize, 1usize), (1, 2), (2, 0), (1, 0), (2, 1), (0, 2)]);
                    if o[2 * a + 1] > 0 {
                        o[2 * b] = (o[2 * a] + rng.below(o[2 * a + 1])) / 64 * 64;
                    }
                }
                4 => {
                    // b ends inside a / contains a
                    let (a, b) = *rng.pick(&[(0usize, 1usize), (1, 2), (2, 0)]);
                    o[2 * b] = o[2 * a].saturating_sub(64 * rng.below(3));
                    o[2 * b + 1] += 64 * rng.below(4);
                }
                5 => {
                    // larger than needed
                    let i = rng.below(3);
                    o[2 * i + 1] += rng.below(200);
                }
                6 => {
                    // exactly adjacent
                    o[2] = up(o[0] + o[1]);
                    o[4] = up(o[2] + o[3]);
                }
                _ => {
                    // reordered
                    o = [up(m.lower) + 128 + up(m.trees), m.local, up(m.lower) + 64, m.trees, 0, m.lower];
                }
            }
            self.meta_case(frames, &classes, o);
        }
    }
}

/// 4096-aligned zeroed arena
pub struct Buf4k {
    pub ptr: *mut u8,
    len: usize,
}
impl Buf4k {
    pub fn new(len: usize) -> Self {
        let ptr = unsafe { std::alloc::alloc_zeroed(std::alloc::Layout::from_size_align(len, 4096).unwrap()) };
        Self { ptr, len }
    }
}
impl Drop for Buf4k {
    fn drop(&mut self) {
        unsafe { std::alloc::dealloc(self.ptr, std::alloc::Layout::from_size_align(self.len, 4096).unwrap()) }
    }
}
