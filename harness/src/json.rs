//! Minimal JSON reader (objects, arrays, strings without escapes beyond \" \\, integers).
#[derive(Debug, Clone)]
pub enum J {
    Obj(Vec<(String, J)>),
    Arr(Vec<J>),
    Str(String),
    Num(i64),
    Other,
}
impl J {
    pub fn get(&self, k: &str) -> Option<&J> {
        match self {
            J::Obj(v) => v.iter().find(|e| e.0 == k).map(|e| &e.1),
            _ => None,
        }
    }
}
pub fn parse(s: &str) -> Option<J> {
    let b: Vec<char> = s.chars().collect();
    let mut i = 0;
    let v = val(&b, &mut i)?;
    Some(v)
}
fn ws(b: &[char], i: &mut usize) {
    while *i < b.len() && b[*i].is_whitespace() {
        *i += 1;
    }
}
fn val(b: &[char], i: &mut usize) -> Option<J> {
    ws(b, i);
    match *b.get(*i)? {
        '{' => {
            *i += 1;
            let mut v = vec![];
            loop {
                ws(b, i);
                if b.get(*i) == Some(&'}') {
                    *i += 1;
                    return Some(J::Obj(v));
                }
                let J::Str(k) = val(b, i)? else { return None };
                ws(b, i);
                if b.get(*i) != Some(&':') {
                    return None;
                }
                *i += 1;
                let x = val(b, i)?;
                v.push((k, x));
                ws(b, i);
                if b.get(*i) == Some(&',') {
                    *i += 1;
                }
            }
        }
        '[' => {
            *i += 1;
            let mut v = vec![];
            loop {
                ws(b, i);
                if b.get(*i) == Some(&']') {
                    *i += 1;
                    return Some(J::Arr(v));
                }
                v.push(val(b, i)?);
                ws(b, i);
                if b.get(*i) == Some(&',') {
                    *i += 1;
                }
            }
        }
        '"' => {
            *i += 1;
            let mut s = String::new();
            while *i < b.len() && b[*i] != '"' {
                if b[*i] == '\\' {
                    *i += 1;
                }
                s.push(b[*i]);
                *i += 1;
            }
            *i += 1;
            Some(J::Str(s))
        }
        c if c == '-' || c.is_ascii_digit() => {
            let st = *i;
            *i += 1;
            while *i < b.len() && (b[*i].is_ascii_digit()) {
                *i += 1;
            }
            b[st..*i].iter().collect::<String>().parse().ok().map(J::Num)
        }
        _ => {
            while *i < b.len() && b[*i].is_alphanumeric() {
                *i += 1;
            }
            Some(J::Other)
        }
    }
}
