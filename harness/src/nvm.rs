//! C17: the persistent wrapper `NvmAlloc` over a real (anonymous) memory region.

use llfree::frame::Frame;
use llfree::wrapper::NvmAlloc;
use llfree::*;

use crate::common::*;
use crate::engine::Violation;
use crate::unit::Unit;

/// anonymous mapping aligned to `Frame::SIZE << TREE_ORDER`
struct Region {
    base: *mut u8,
    map_len: usize,
    ptr: *mut u8,
}
impl Region {
    fn new(bytes: usize, extra_trees: usize) -> Self {
        let align = Frame::SIZE << TREE_ORDER;
        let map_len = bytes + align * (2 + extra_trees);
        let base = unsafe {
            libc::mmap(std::ptr::null_mut(), map_len, libc::PROT_READ | libc::PROT_WRITE, libc::MAP_PRIVATE | libc::MAP_ANONYMOUS | libc::MAP_NORESERVE, -1, 0)
        } as *mut u8;
        assert!(base as isize != -1, "mmap failed");
        let a = (base as usize).next_multiple_of(align) + align * extra_trees;
        Self { base, map_len, ptr: a as *mut u8 }
    }
    fn frames(&self, z: usize) -> &'static mut [Frame] {
        unsafe { std::slice::from_raw_parts_mut(self.ptr.cast::<Frame>(), z) }
    }
}
impl Drop for Region {
    fn drop(&mut self) {
        unsafe { libc::munmap(self.base.cast(), self.map_len) };
    }
}

fn viol(u: &mut Unit, msg: String) {
    if u.violations.len() < 50 {
        u.violations.push(Violation { prop: "C17", msg, line: u.em.nlines + 1 });
    }
}

pub fn generate(u: &mut Unit, rng: &mut Rng, n: usize) {
    for _ in 0..n {
        // region sizes: 1-3 trees plus odd remainders, and tiny regions
        let z = match rng.below(8) {
            0 => 1 + rng.below(4),
            1 => TREE_FRAMES,
            2 => TREE_FRAMES + 1 + rng.below(3),
            3 => (1 + rng.below(3)) * TREE_FRAMES + rng.below(HUGE_FRAMES + 70),
            4 => (1 + rng.below(3)) * TREE_FRAMES - rng.below(70),
            5 => HUGE_FRAMES + rng.below(3 * HUGE_FRAMES),
            6 => {
                // the managed size is a whole number of huge frames (most of them with a partial last tree): the
                // boundary of the table scans in create and recover
                let n = (1 + rng.below(3 * TREE_HUGE)) * HUGE_FRAMES;
                let probe = Config { frames: n, classes: vec![(0, 1), (1, 1)], default: 1, pol: Pol::Simple }.classing();
                n + 1 + LLFree::metadata_size(&probe, n).lower.div_ceil(Frame::SIZE) + rng.below(2)
            }
            _ => 1 + rng.below(3 * TREE_FRAMES),
        };
        let region = Region::new(z * Frame::SIZE, rng.below(3));
        let cores = 1 + rng.below(2);
        let cfg0 = Config { frames: z, classes: vec![(0, cores), (1, cores)], default: 1, pol: Pol::Simple };
        let classing = cfg0.classing();
        let ms = LLFree::metadata_size(&classing, z);
        let local = Buf::new(ms.local);
        let trees = Buf::new(ms.trees);
        // recovery of an untouched region must be refused
        u.cov.oracle("C17");
        match guarded(|| NvmAlloc::<LLFree>::create(region.frames(z), true, &classing, local.slice(), trees.slice()).map(|_| ())) {
            Ok(Err(Error::Initialization)) => {}
            r => viol(u, format!("recover of an untouched {z}-frame region: {r:?}")),
        }
        let created = guarded(|| NvmAlloc::<LLFree>::create(region.frames(z), false, &classing, local.slice(), trees.slice()));
        let q = format!("nvmlayout {HUGE_ORDER} {TREE_HUGE} {} {z}", Frame::SIZE);
        let alloc = match created {
            Ok(Ok(a)) => a,
            Ok(Err(e)) => {
                u.cov.hit("nvm", "rejected", "");
                u.em.qa(&q, err_str(e));
                continue;
            }
            Err(p) => {
                viol(u, format!("NvmAlloc::create({z} frames) panicked: {p}"));
                u.em.qa(&q, &format!("panic {p}"));
                continue;
            }
        };
        let managed = alloc.frames();
        let off = region.ptr as usize / Frame::SIZE;
        u.em.qa(&q, &format!("ok {managed}"));
        // independent of the wrapper's own bookkeeping: managed frames + pages of the lower metadata + header page tile the region
        u.cov.oracle("C17");
        let lower_pages = LLFree::metadata_size(&classing, managed).lower.div_ceil(Frame::SIZE);
        if managed + lower_pages + 1 > z {
            viol(u, format!("NvmAlloc over a {z}-frame region manages {managed} frames although its lower metadata needs {lower_pages} page(s) and the header one: they overlap"));
        }
        // the frames behind the managed ones (metadata pages, header page) can never be obtained
        for extra in managed..z.min(managed + 4) {
            let r = guarded(|| alloc.get(Some(FrameId(off + extra)), Request::new(0, Class(0), None)));
            if let Ok(Ok((f, _))) = &r {
                viol(u, format!("NvmAlloc handed out frame {} which holds its own metadata/header (region frames {off}..{}, managed {managed})", f.0, off + z));
                let _ = guarded(|| alloc.put(*f, Request::new(0, Class(0), None)));
            }
        }
        u.cov.hit("nvm", "created", &format!("t{}", managed / TREE_FRAMES));
        u.em.qa(&format!("new {managed} free 1 simple {} zone:{off}", cfg0.classes_str()), "ok");
        // a random history through the wrapper
        let mut held: Vec<(usize, usize)> = vec![];
        let steps = 20 + rng.below(200);
        for _ in 0..steps {
            if managed == 0 {
                break;
            }
            if held.is_empty() || rng.chance(3, 5) {
                let order = *rng.pick(&[0usize, 0, 0, 1, 3, 6, 7, HUGE_ORDER, TREE_ORDER]);
                let class = (order >= HUGE_ORDER) as u8;
                let local_i = if rng.chance(3, 4) { Some(rng.below(cores)) } else { None };
                let target = if rng.chance(1, 6) { Some(off + (rng.below(z + 2) >> order << order)) } else { None };
                let r = guarded(|| alloc.get(target.map(FrameId), Request::new(order, Class(class), local_i)));
                let a = match &r {
                    Ok(Ok((f, c))) => {
                        u.cov.oracle("C17");
                        if f.0 < off || f.0 - off + (1 << order) > managed {
                            viol(u, format!("NvmAlloc handed out block ({}, order {order}) but only frames {off}..{} are managed; metadata pages follow, header page at {}", f.0, off + managed, off + z - 1));
                        }
                        held.push((f.0, order));
                        format!("ok {} {}", f.0, c.0)
                    }
                    Ok(Err(e)) => err_str(*e).to_string(),
                    Err(p) => {
                        viol(u, format!("NvmAlloc get panicked: {p}"));
                        format!("panic {p}")
                    }
                };
                u.em.qa(&format!("zget {order} {class} {} {}", opt(local_i), opt(target)), &a);
            } else {
                let (f, o) = held.swap_remove(rng.below(held.len()));
                let class = (o >= HUGE_ORDER) as u8;
                let r = guarded(|| alloc.put(FrameId(f), Request::new(o, Class(class), None)));
                let a = match &r {
                    Ok(Ok(())) => "ok".to_string(),
                    Ok(Err(e)) => {
                        viol(u, format!("NvmAlloc put of held block ({f}, {o}) failed"));
                        err_str(*e).to_string()
                    }
                    Err(p) => format!("panic {p}"),
                };
                u.em.qa(&format!("zput {f} {o} {class} -"), &a);
            }
        }
        let before = guarded(|| alloc.stats());
        if let Ok(s) = &before {
            u.em.qa("stats", &stats_str(s));
        }
        // "crash": forget the instance, recover from the region alone
        std::mem::forget(alloc);
        let local2 = Buf::new(ms.local);
        let trees2 = Buf::new(ms.trees);
        u.cov.oracle("C17");
        match guarded(|| NvmAlloc::<LLFree>::create(region.frames(z), true, &classing, local2.slice(), trees2.slice())) {
            Ok(Ok(rec)) => {
                let after = guarded(|| rec.stats());
                if before.as_ref().ok().map(stats_str) != after.as_ref().ok().map(stats_str) {
                    viol(u, format!("recovered instance has a different allocation state: {before:?} vs {after:?}"));
                }
                u.em.qa(&format!("new {managed} recover 1 simple {} zone:{off}", cfg0.classes_str()), "ok");
                if let Ok(s) = &after {
                    u.em.qa("stats", &stats_str(s));
                }
                // every block held before the crash can be freed
                for (f, o) in held.drain(..) {
                    let class = (o >= HUGE_ORDER) as u8;
                    let r = guarded(|| rec.put(FrameId(f), Request::new(o, Class(class), None)));
                    if !matches!(r, Ok(Ok(()))) {
                        viol(u, format!("after recovery, held block ({f}, {o}) cannot be freed: {r:?}"));
                    }
                    u.em.qa(&format!("zput {f} {o} {class} -"), match &r {
                        Ok(Ok(())) => "ok",
                        Ok(Err(e)) => err_str(*e),
                        Err(_) => "panic",
                    });
                }
                u.cov.hit("nvm", "recovered", "");
                std::mem::forget(rec);
            }
            r => viol(u, format!("recover of a created {z}-frame region failed: {:?}", r.map(|x| x.map(|_| ())))),
        }
        // a region of a different size over the same memory holds no instance of that size
        for z2 in [z.saturating_sub(1), z + 1] {
            if z2 == 0 || z2 == z || (z2 + 1) * Frame::SIZE > region.map_len / 2 {
                continue;
            }
            let l3 = Buf::new(LLFree::metadata_size(&classing, z2).local);
            let t3 = Buf::new(LLFree::metadata_size(&classing, z2).trees);
            u.cov.oracle("C17");
            match guarded(|| NvmAlloc::<LLFree>::create(region.frames(z2), true, &classing, l3.slice(), t3.slice()).map(|_| ())) {
                Ok(Err(Error::Initialization)) => {}
                r => viol(u, format!("recover of a {z2}-frame region over a {z}-frame instance: {r:?}")),
            }
        }
        // same end, different base: the header page is shared, so the magic matches but the recorded size does not
        if z > TREE_FRAMES + 2 {
            let z3 = z - TREE_FRAMES;
            let sub: &'static mut [Frame] = unsafe { std::slice::from_raw_parts_mut(region.ptr.cast::<Frame>().add(TREE_FRAMES), z3) };
            let l3 = Buf::new(LLFree::metadata_size(&classing, z3).local);
            let t3 = Buf::new(LLFree::metadata_size(&classing, z3).trees);
            u.cov.oracle("C17");
            u.cov.hit("nvm", "shared-header", "");
            match guarded(|| NvmAlloc::<LLFree>::create(sub, true, &classing, l3.slice(), t3.slice()).map(|_| ())) {
                Ok(Err(Error::Initialization)) => {}
                r => viol(u, format!("recover of the last {z3} frames of a {z}-frame instance (same header page, other size): {r:?}")),
            }
        }
        // the recorded size matches but the magic is foreign
        {
            let hdr = unsafe { region.ptr.add((z - 1) * Frame::SIZE).cast::<usize>() };
            let old = unsafe { hdr.read_volatile() };
            unsafe { hdr.write_volatile(old ^ 0x10) };
            u.cov.oracle("C17");
            u.cov.hit("nvm", "foreign-magic", "");
            match guarded(|| NvmAlloc::<LLFree>::create(region.frames(z), true, &classing, local.slice(), trees.slice()).map(|_| ())) {
                Ok(Err(Error::Initialization)) => {}
                r => viol(u, format!("recover of a {z}-frame region whose header magic is {:#x}: {r:?}", old ^ 0x10)),
            }
            unsafe { hdr.write_volatile(old) };
        }
    }
}
