//! Seeded generator of sequential histories (the `S` correspondence): chooses the next
//! request from the state of the real allocator and the ownership shadow, so that frees can
//! deliberately name held, partially held, split, foreign or never-allocated blocks.

use llfree::*;

use crate::common::*;
use crate::engine::Engine;

#[derive(Clone, Copy, PartialEq, Eq, Debug)]
pub enum Flavor {
    /// all operations, all classings
    Mixed,
    /// C11: one class, one slot, base order
    SingleSlot,
    /// C15: change heavy
    Change,
    /// C08: mostly malformed calls
    Malformed,
    /// C06: init then full exhaust / free cycles
    InitCycle,
    /// C12: direct lower-level gets on crafted tree patterns
    LowerSearch,
    /// C07: handoffs
    Handoff,
    /// C10: drain probes
    Drain,
    /// C05: like `Mixed`, with frequent crash-less recoveries and many targeted multi-row allocations
    /// (orders 6..8: the roll-back paths of the row loops) — what survives a recovery is what was recorded
    Recover,
    /// C17: through the zone wrapper with an offset
    Zone,
}

pub fn frame_choices(rng: &mut Rng, max_trees: usize) -> usize {
    let nt = 1 + rng.below(max_trees);
    let base = nt * TREE_FRAMES;
    let opts = [
        base,
        base,
        base - 1,
        base + 1,
        (base - HUGE_FRAMES).max(1),
        base - HUGE_FRAMES + 1,
        base.saturating_sub(HUGE_FRAMES + 1).max(1),
        base - 63,
        base - 64,
        base - 65,
        (nt - 1) * TREE_FRAMES + 1,
        (nt - 1) * TREE_FRAMES + 63,
        (nt - 1) * TREE_FRAMES + 64,
        (nt - 1) * TREE_FRAMES + 65,
        (nt - 1) * TREE_FRAMES + HUGE_FRAMES - 1,
        (nt - 1) * TREE_FRAMES + HUGE_FRAMES,
        (nt - 1) * TREE_FRAMES + HUGE_FRAMES + 1,
        (nt - 1) * TREE_FRAMES + 1 + rng.below(TREE_FRAMES),
    ];
    if rng.chance(1, 15) {
        return 0; // zero managed frames: every call must fail gracefully
    }
    (*rng.pick(&opts)).max(1)
}

pub fn classing_choice(rng: &mut Rng, flavor: Flavor) -> (Vec<(u8, usize)>, u8, Pol) {
    if flavor == Flavor::SingleSlot {
        let c = rng.below(3) as u8;
        return match rng.below(4) {
            // further classes above the requesting one: the trees start in the default class and are demoted
            0 => (vec![(0, 1), (1, 1)], 1, Pol::Simple),
            1 => (vec![(0, 1), (1, 2), (2, 1)], 2, Pol::Movable),
            _ => (vec![(c, 1)], c, if rng.chance(1, 2) { Pol::Simple } else { Pol::Movable }),
        };
    }
    let cores = 1 + rng.below(3);
    match rng.below(if flavor == Flavor::Drain { 5 } else { 7 }) {
        0 | 1 => (vec![(0, cores), (1, cores)], 1, Pol::Simple),
        2 => (vec![(0, cores), (1, cores), (2, cores)], 2, Pol::Movable),
        3 => (vec![(0, cores), (1, cores), (2, cores)], 1, Pol::Zeroed),
        4 => {
            // classes without local slots
            let v = match rng.below(3) {
                0 => vec![(0, 0), (1, 1)],
                1 => vec![(0, 1), (1, 0)],
                _ => vec![(0, 0), (1, 0), (2, cores)],
            };
            let d = v[rng.below(v.len())].0;
            (v, d, Pol::Zeroed)
        }
        5 => {
            let pairs = match rng.below(3) {
                0 => vec![(1, 0)],
                1 => vec![(0, 1)],
                _ => vec![(2, 0), (0, 2)],
            };
            (vec![(0, cores), (1, cores), (2, 1)], 1, Pol::InvSimple(pairs))
        }
        _ => (vec![(3, 1), (5, cores)], 5, Pol::Simple),
    }
}

pub struct Gen<'a> {
    pub rng: Rng,
    pub eng: &'a mut Engine,
    pub em: &'a mut Emit,
    pub flavor: Flavor,
    pub dense: bool,
}

impl Gen<'_> {
    fn q(&mut self, line: String) -> String {
        let a = self.eng.exec(&line).unwrap_or_default();
        self.em.qa(&line, &a);
        a
    }
    fn post(&mut self) {
        self.q("hash".into());
        if self.dense || self.rng.chance(1, 4) {
            self.q("stats".into());
            self.q("tstats".into());
        }
    }
    fn cfg(&self) -> Config {
        self.eng.inst.as_ref().unwrap().cfg.clone()
    }
    fn rand_class(&mut self) -> u8 {
        let c = self.cfg();
        if c.classes.is_empty() || self.rng.chance(1, 40) {
            self.rng.below(8) as u8
        } else {
            c.classes[self.rng.below(c.classes.len())].0
        }
    }
    fn rand_local(&mut self, class: u8) -> Option<usize> {
        let n = self.cfg().slots_of(class).unwrap_or(0);
        if n == 0 || self.rng.chance(1, 4) { None } else { Some(self.rng.below(n)) }
    }
    fn rand_order(&mut self) -> usize {
        match self.rng.below(10) {
            0..=4 => 0,
            5 => 1 + self.rng.below(5),
            6 => 6 + self.rng.below(HUGE_ORDER - 6),
            7 | 8 => HUGE_ORDER,
            _ => self.rng.below(TREE_ORDER + 1),
        }
    }

    /// C12: craft an arbitrary (invariant-respecting) allocation pattern of the lower metadata and
    /// drive `Lower::get`/`put` directly with every hint row and order
    pub fn lower_search(&mut self, len: usize) {
        let frames = match self.rng.below(4) {
            0 => TREE_FRAMES,
            1 => TREE_FRAMES + self.rng.below(TREE_FRAMES) + 1,
            2 => 2 * TREE_FRAMES,
            _ => self.rng.below(TREE_FRAMES) + 1,
        };
        self.q(format!("geom {HUGE_ORDER} {TREE_HUGE}"));
        if self.q(format!("new {frames} free 0 simple 0:1")) != "ok" {
            return;
        }
        let nh = frames.div_ceil(HUGE_FRAMES);
        let nt = frames.div_ceil(TREE_FRAMES);
        let mut rows = vec![0u64; nh * ROWS];
        let mut huge = vec![0u16; nt * TREE_HUGE];
        for h in 0..nh {
            let full_in = (h + 1) * HUGE_FRAMES <= frames;
            let kind = self.rng.below(7);
            if kind == 0 && full_in {
                huge[h] = u16::MAX; // allocated as a whole, bitfield empty
                continue;
            }
            // structure: aligned sub-blocks of a random order, each empty / full / single bit / random
            let so = self.rng.below(HUGE_ORDER + 1);
            for b in 0..(HUGE_FRAMES >> so) {
                let mode = if kind == 1 { 0 } else if kind == 2 { 1 } else { self.rng.below(4) };
                for i in 0..(1usize << so) {
                    let f = (b << so) + i;
                    let set = match mode {
                        0 => false,
                        1 => true,
                        2 => i == (self.rng.0 as usize) % (1 << so),
                        _ => self.rng.chance(1, 2),
                    };
                    if set {
                        rows[h * ROWS + f / 64] |= 1 << (f % 64);
                    }
                }
            }
            for i in 0..HUGE_FRAMES {
                if h * HUGE_FRAMES + i >= frames {
                    rows[h * ROWS + i / 64] |= 1 << (i % 64);
                }
            }
            huge[h] = (0..ROWS).map(|r| rows[h * ROWS + r].count_zeros() as u16).sum();
        }
        self.q(format!(
            "mem rows {} | huge {}",
            rows.iter().map(|v| format!("{v:x}")).collect::<Vec<_>>().join(" "),
            huge.iter().map(|v| format!("{v:x}")).collect::<Vec<_>>().join(" ")
        ));
        self.q(format!("new {frames} none 0 simple 0:1"));
        self.q("hash".into());
        for _ in 0..len {
            match self.rng.below(10) {
                0..=6 => {
                    let start = self.rng.below(frames) / 64;
                    let order = match self.rng.below(4) {
                        0 => self.rng.below(7),
                        1 => 6 + self.rng.below(HUGE_ORDER - 5),
                        2 => HUGE_ORDER + self.rng.below(TREE_ORDER - HUGE_ORDER + 1),
                        _ => self.rng.below(TREE_ORDER + 1),
                    };
                    self.q(format!("lget {start} {order} -"));
                }
                7 => {
                    let order = self.rng.below(TREE_ORDER + 1);
                    let f = self.rng.below(frames) >> order << order;
                    if f + (1 << order) <= frames {
                        self.q(format!("lget {} {order} {f}", f / 64));
                    }
                }
                8 => {
                    if !self.eng.held.is_empty() {
                        let i = self.rng.below(self.eng.held.len());
                        let (f, o) = self.eng.held.swap_remove(i);
                        self.q(format!("lput {f} {o}"));
                    }
                }
                _ => {
                    let o = self.rng.below(TREE_ORDER + 1);
                    let f = self.rng.below(frames) >> o << o;
                    if f + (1 << o) <= frames {
                        self.q(format!("isfree {f} {o}"));
                    }
                }
            }
            self.q("hash".into());
        }
        self.q("stats".into());
        self.q("dump".into());
    }

    pub fn start(&mut self, max_trees: usize) -> bool {
        let frames = if self.flavor == Flavor::SingleSlot {
            (2 + self.rng.below(3)) * TREE_FRAMES - if self.rng.chance(1, 3) { self.rng.below(TREE_FRAMES) } else { 0 }
        } else if self.flavor == Flavor::InitCycle && self.rng.chance(1, 2) {
            // boundary-dense small counts: around rows, huge frames, trees
            match self.rng.below(5) {
                0 => self.rng.below(131), // includes a zero-frame allocator
                1 => (64 * (1 + self.rng.below(2 * ROWS)) + self.rng.below(3)).saturating_sub(1).max(1),
                2 => (HUGE_FRAMES * (1 + self.rng.below(2 * TREE_HUGE + 1)) + self.rng.below(3)).saturating_sub(1),
                3 => (TREE_FRAMES * (1 + self.rng.below(max_trees)) + self.rng.below(3)).saturating_sub(1),
                _ => 1 + self.rng.below(max_trees * TREE_FRAMES),
            }
        } else {
            frame_choices(&mut self.rng, max_trees)
        };
        let (classes, default, pol) = classing_choice(&mut self.rng, self.flavor);
        let init = if self.flavor == Flavor::InitCycle {
            if self.rng.chance(1, 2) { "free" } else { "alloc" }
        } else if self.flavor == Flavor::SingleSlot || self.rng.chance(2, 3) { "free" } else { "alloc" };
        let cl = Config { frames, classes, default, pol };
        self.q(format!("geom {HUGE_ORDER} {TREE_HUGE}"));
        let zone = if self.flavor == Flavor::Zone {
            let off = match self.rng.below(6) {
                0 => 0,
                1 => TREE_FRAMES * (1 + self.rng.below(5)) + 1 + self.rng.below(TREE_FRAMES - 1), // misaligned: rejected
                _ => TREE_FRAMES * (1 + self.rng.below(1000)),
            };
            format!(" zone:{off}")
        } else {
            String::new()
        };
        let a = self.q(format!("new {frames} {init} {default} {} {}{zone}", cl.pol.name(), cl.classes_str()));
        if a != "ok" {
            return false;
        }
        self.q("hash".into());
        self.q("stats".into());
        self.q("tstats".into());
        self.q("validate".into());
        true
    }

    fn op_get(&mut self, exhaust: bool) -> String {
        let order = if self.flavor == Flavor::SingleSlot { 0 } else if exhaust && self.rng.chance(3, 4) { 0 } else { self.rand_order() };
        let class = if self.flavor == Flavor::SingleSlot { self.cfg().classes[0].0 } else { self.rand_class() };
        let local = if self.flavor == Flavor::SingleSlot { Some(0) } else { self.rand_local(class) };
        let frames = self.cfg().frames;
        let target = if self.flavor != Flavor::SingleSlot && self.rng.chance(1, 5) {
            // mostly aligned, in range; prefer free blocks half of the time
            let mut f = self.rng.below(frames) >> order << order;
            if self.rng.chance(1, 2) {
                let sh = self.eng.shadow.as_ref().unwrap();
                for _ in 0..8 {
                    let c = self.rng.below(frames) >> order << order;
                    if sh.block_free(c, order) {
                        f = c;
                        break;
                    }
                }
            }
            Some(f)
        } else {
            None
        };
        let a = self.q(format!("get {order} {class} {} {}", opt(local), opt(target)));
        self.post();
        a
    }

    fn op_put(&mut self) {
        let frames = self.cfg().frames;
        let sh_n = self.eng.shadow.as_ref().unwrap().alloc.len();
        let (frame, order) = match self.rng.below(20) {
            0..=11 if !self.eng.held.is_empty() => {
                let i = self.rng.below(self.eng.held.len());
                let (f, o) = self.eng.held[i];
                // sometimes free only a part, or a block around it
                match self.rng.below(10) {
                    0 if o > 0 => {
                        let so = self.rng.below(o);
                        (f + (self.rng.below(1 << (o - so)) << so), so)
                    }
                    1 if o < TREE_ORDER => (f >> (o + 1) << (o + 1), o + 1),
                    _ => (f, o),
                }
            }
            0..=16 => {
                // some allocated frame, with the largest/random order that the model allows
                let sh = self.eng.shadow.as_ref().unwrap();
                let mut pick = None;
                for _ in 0..16 {
                    let f = self.rng.below(frames);
                    if sh.alloc[f] {
                        pick = Some(f);
                        break;
                    }
                }
                match pick {
                    Some(f) => {
                        let mut o = 0;
                        let max = self.rng.below(TREE_ORDER + 1);
                        while o < max && {
                            let b = f >> (o + 1) << (o + 1);
                            b + (1 << (o + 1)) <= frames && sh.put_allowed(b, o + 1)
                        } {
                            o += 1;
                        }
                        (f >> o << o, o)
                    }
                    None => (self.rng.below(frames), 0),
                }
            }
            _ => {
                let o = self.rand_order();
                (self.rng.below(sh_n.max(1)) >> o << o, o)
            }
        };
        let class = if self.flavor == Flavor::SingleSlot { self.cfg().classes[0].0 } else { self.rand_class() };
        let local = if self.flavor == Flavor::SingleSlot {
            if self.rng.chance(1, 2) { Some(0) } else { None }
        } else {
            self.rand_local(class)
        };
        self.q(format!("put {frame} {order} {class} {}", opt(local)));
        self.post();
    }

    fn op_change(&mut self) {
        let c = self.cfg();
        let nt = c.ntrees();
        let id = match self.rng.below(10) {
            0..=5 => Some(self.rng.below(nt)),
            6 => Some(nt + self.rng.below(3)),
            _ => None,
        };
        let mc = if self.rng.chance(1, 2) { None } else { Some(self.rand_class() as usize % 8) };
        let mf = *self.rng.pick(&[0, 0, 0, 1, TREE_FRAMES / 2, TREE_FRAMES, TREE_FRAMES]);
        let cc = if self.rng.chance(1, 2) { None } else { Some(self.rand_class() as usize % 8) };
        let op = *self.rng.pick(&["on", "off", "off", "-"]);
        self.q(format!("change {} {} {mf} {} {op}", opt(id), opt(mc), opt(cc)));
        self.post();
    }

    fn op_malformed(&mut self) {
        let c = self.cfg();
        let n = c.frames;
        let order = match self.rng.below(4) {
            0 => TREE_ORDER + 1 + self.rng.below(3),
            _ => self.rng.below(TREE_ORDER + 1),
        };
        let b = 1usize << order.min(TREE_ORDER + 3);
        let frame = match self.rng.below(8) {
            0 => n,
            1 => n.saturating_sub(1),
            2 => (n >> order.min(20) << order.min(20)).saturating_add(0),
            3 => n.saturating_sub(b) + 1,
            4 => (self.rng.below(n) >> order.min(20) << order.min(20)) + 1 + self.rng.below(b.max(2) - 1),
            5 => n + self.rng.below(3 * TREE_FRAMES),
            6 => usize::MAX - self.rng.below(3),
            _ => self.rng.below(n),
        };
        let class = if self.rng.chance(1, 2) { self.rng.below(8) as u8 } else { self.rand_class() };
        let local = self.rand_local(class);
        if self.rng.chance(1, 2) {
            self.q(format!("get {order} {class} {} {frame}", opt(local)));
        } else {
            self.q(format!("put {frame} {order} {class} {}", opt(local)));
        }
        self.post();
    }

    fn op_query(&mut self) {
        let c = self.cfg();
        let f = self.rng.below(c.frames);
        match self.rng.below(6) {
            0 => {
                self.q(format!("statsat {f} 0"));
            }
            1 => {
                self.q(format!("statsat {} {HUGE_ORDER}", f / HUGE_FRAMES * HUGE_FRAMES));
            }
            2 => {
                self.q(format!("statsat {} {TREE_ORDER}", f / TREE_FRAMES * TREE_FRAMES));
            }
            _ => {
                let o = self.rand_order();
                let b = f >> o << o;
                if b + (1 << o) <= c.frames {
                    self.q(format!("isfree {b} {o}"));
                }
            }
        }
    }

    fn validate_if_online(&mut self) {
        if self.eng.shadow.as_ref().is_some_and(|s| s.hidden_total() == 0) && !self.eng.dead {
            self.q("validate".into());
        }
    }

    /// C06: look at every huge frame of the fresh allocator, then exhaust / free everything
    fn init_cycle(&mut self) {
        let c = self.cfg();
        let nh = c.frames.div_ceil(HUGE_FRAMES);
        for h in 0..nh.min(48) {
            self.q(format!("statsat {} {HUGE_ORDER}", h * HUGE_FRAMES));
            if (h + 1) * HUGE_FRAMES <= c.frames {
                self.q(format!("isfree {} {HUGE_ORDER}", h * HUGE_FRAMES));
            }
        }
        for t in 0..c.ntrees() {
            self.q(format!("statsat {} {TREE_ORDER}", t * TREE_FRAMES));
        }
        for d in 1..=3usize {
            if c.frames >= d {
                self.q(format!("isfree {} 0", c.frames - d));
                self.q(format!("statsat {} 0", c.frames - d));
            }
        }
        for round in 0..2 {
            if self.eng.inst.is_none() || self.eng.dead {
                return;
            }
            let free = self.eng.shadow.as_ref().unwrap().free_frames();
            if free > 0 {
                // exhaust with one order, then with base frames; every further get must fail
                let o = *self.rng.pick(&[0, 0, HUGE_ORDER, TREE_ORDER, 3, 6, 7]);
                let class = self.rand_class();
                for pass in 0..2 {
                    let order = if pass == 0 { o } else { 0 };
                    for _ in 0..(c.frames + 8) {
                        let local = self.rand_local(class);
                        let a = self.q(format!("get {order} {class} {} -", opt(local)));
                        self.post();
                        if !a.starts_with("ok") {
                            break;
                        }
                    }
                }
                self.q("stats".into());
                self.q("tstats".into());
                self.validate_if_online();
                // free everything that is held
                while let Some(&(f, o)) = self.eng.held.last() {
                    let class = self.rand_class();
                    let local = self.rand_local(class);
                    let a = self.q(format!("put {f} {o} {class} {}", opt(local)));
                    self.post();
                    if !a.starts_with("ok") {
                        break;
                    }
                }
            } else {
                // allocate-all: nothing can be allocated; free it piecewise
                for o in [0, HUGE_ORDER, TREE_ORDER] {
                    let class = self.rand_class();
                    let local = self.rand_local(class);
                    self.q(format!("get {o} {class} {} -", opt(local)));
                    self.post();
                }
                let mut f = 0;
                while f < c.frames {
                    let class = self.rand_class();
                    let local = self.rand_local(class);
                    let mut o = *self.rng.pick(&[TREE_ORDER, HUGE_ORDER, HUGE_ORDER, 0, 4]);
                    while o > 0 && (f % (1 << o) != 0 || f + (1 << o) > c.frames) {
                        o -= 1;
                    }
                    // partial frees of a whole huge frame split it: then continue with small orders
                    self.q(format!("put {f} {o} {class} {}", opt(local)));
                    self.post();
                    f += 1 << o;
                }
            }
            self.q("stats".into());
            self.q("tstats".into());
            self.validate_if_online();
            let _ = round;
        }
    }

    /// one history of about `len` operations
    pub fn history(&mut self, len: usize) {
        if self.eng.inst.is_some() && self.cfg().frames == 0 {
            // zero managed frames: no frame-indexed query is valid; every call must answer without a panic
            for _ in 0..len.min(40) {
                let class = self.rand_class();
                let local = self.rand_local(class);
                let order = self.rand_order();
                match self.rng.below(8) {
                    0 | 1 => {
                        self.q(format!("get {order} {class} {} -", opt(local)));
                    }
                    2 => {
                        self.q(format!("get {order} {class} {} 0", opt(local)));
                    }
                    3 => {
                        self.q(format!("put 0 {order} {class} {}", opt(local)));
                    }
                    4 => {
                        self.q("drain".into());
                    }
                    5 => {
                        let op = *self.rng.pick(&["on", "off", "-"]);
                        let id = if self.rng.chance(1, 2) { Some(self.rng.below(3)) } else { None };
                        self.q(format!("change {} - 0 - {op}", opt(id)));
                    }
                    _ => {
                        self.q("stats".into());
                        self.q("tstats".into());
                        self.q("validate".into());
                    }
                }
                self.q("hash".into());
            }
            self.q("dump".into());
            return;
        }
        if self.flavor == Flavor::InitCycle {
            self.init_cycle();
        }
        let mut i = 0;
        while i < len {
            i += 1;
            if self.eng.inst.is_none() {
                return;
            }
            let mut r = self.rng.below(100);
            if self.flavor == Flavor::Recover {
                match self.rng.below(8) {
                    0 => r = 96, // recovery
                    1 | 2 => {
                        // a targeted allocation of 1-4 rows somewhere in the first trees: succeeds or rolls back
                        let order = *self.rng.pick(&[6usize, 7, 7, 8, 8]);
                        let class = self.rand_class();
                        let local = self.rand_local(class);
                        let frames = self.cfg().frames;
                        let f = self.rng.below(frames.min(2 * TREE_FRAMES)) >> order << order;
                        self.q(format!("get {order} {class} {} {f}", opt(local)));
                        self.post();
                        continue;
                    }
                    _ => {}
                }
            }
            match self.flavor {
                Flavor::SingleSlot => {
                    // exhaust, free a subset, allocate again
                    match r {
                        0..=9 => {
                            for _ in 0..(TREE_FRAMES * 5) {
                                if self.op_get(true) != "ok".to_string() && !self.eng.held.is_empty() {
                                    // keep going until out of memory
                                }
                                if self.eng.shadow.as_ref().unwrap().free_frames() == 0 {
                                    break;
                                }
                            }
                            let a = self.op_get(true);
                            let _ = a;
                        }
                        10..=54 => {
                            self.op_get(false);
                        }
                        _ => self.op_put(),
                    }
                }
                Flavor::Malformed => match r {
                    0..=59 => self.op_malformed(),
                    60..=79 => {
                        self.op_get(false);
                    }
                    _ => self.op_put(),
                },
                Flavor::Change => match r {
                    0..=34 => self.op_change(),
                    35..=59 => {
                        self.op_get(false);
                    }
                    60..=79 => self.op_put(),
                    80..=84 => {
                        self.q("drain".into());
                        self.post();
                    }
                    85..=89 => {
                        // targeted allocation into an offline tree
                        let sh = self.eng.shadow.as_ref().unwrap();
                        if let Some(t) = (0..sh.hidden.len()).find(|t| sh.hidden[*t] > 0) {
                            let o = self.rand_order();
                            let f = (t * TREE_FRAMES + self.rng.below(TREE_FRAMES)) >> o << o;
                            let class = self.rand_class();
                            let local = self.rand_local(class);
                            self.q(format!("get {o} {class} {} {f}", opt(local)));
                            self.post();
                        }
                    }
                    90..=94 => self.validate_if_online(),
                    _ => self.op_query(),
                },
                Flavor::Drain => match r {
                    0..=29 => {
                        self.q("drain".into());
                        self.q("hash".into());
                        // probe directly after the drain
                        if self.rng.chance(1, 2) {
                            let class = self.rand_class();
                            let local = self.rand_local(class);
                            self.q(format!("get 0 {class} {} -", opt(local)));
                        } else {
                            let o = self.rand_order();
                            let c = self.cfg();
                            let f = self.rng.below(c.frames) >> o << o;
                            let class = self.rand_class();
                            let local = self.rand_local(class);
                            self.q(format!("get {o} {class} {} {f}", opt(local)));
                        }
                        self.post();
                    }
                    30..=64 => {
                        self.op_get(self.rng.0 % 3 == 0);
                    }
                    65..=89 => self.op_put(),
                    90..=94 => self.op_change(),
                    _ => self.validate_if_online(),
                },
                Flavor::Handoff => match r {
                    0..=14 => {
                        self.q("handoff".into());
                        self.q("hash".into());
                    }
                    15..=54 => {
                        self.op_get(false);
                    }
                    55..=84 => self.op_put(),
                    85..=89 => {
                        self.q("drain".into());
                        self.post();
                    }
                    90..=94 => self.op_change(),
                    _ => {
                        // rebuild the primary in place from its own buffers
                        let c = self.cfg();
                        self.q(format!("new {} none {} {} {}", c.frames, c.default, c.pol.name(), c.classes_str()));
                        self.q("hash".into());
                        self.q("stats".into());
                        self.q("tstats".into());
                    }
                },
                Flavor::Zone => {
                    let off = self.eng.inst.as_ref().unwrap().offset;
                    let c = self.cfg();
                    match r {
                        0..=39 => {
                            let order = self.rand_order();
                            let class = self.rand_class();
                            let local = self.rand_local(class);
                            let target = match self.rng.below(6) {
                                0 => Some(off + (self.rng.below(c.frames) >> order << order)),
                                1 => Some(self.rng.below(off + 1)),
                                2 => Some(off.saturating_sub(1 + self.rng.below(3))),
                                _ => None,
                            };
                            self.q(format!("zget {order} {class} {} {}", opt(local), opt(target)));
                            self.post();
                        }
                        40..=79 => {
                            let class = self.rand_class();
                            let local = self.rand_local(class);
                            let (f, o) = if !self.eng.held.is_empty() && self.rng.chance(4, 5) {
                                let i = self.rng.below(self.eng.held.len());
                                self.eng.held[i]
                            } else {
                                (self.rng.below(c.frames), 0)
                            };
                            let zf = match self.rng.below(10) {
                                0 => f,                       // forgot the offset
                                1 => off.saturating_sub(1),
                                _ => f + off,
                            };
                            self.q(format!("zput {zf} {o} {class} {}", opt(local)));
                            self.post();
                        }
                        80..=89 => {
                            let f = match self.rng.below(4) {
                                0 => self.rng.below(off + 1),
                                _ => off + self.rng.below(c.frames),
                            };
                            let o = *self.rng.pick(&[0, HUGE_ORDER, TREE_ORDER]);
                            let f = if o == 0 { f } else if f >= off { off + ((f - off) >> o << o) } else { f };
                            self.q(format!("zstatsat {f} {o}"));
                        }
                        90..=94 => {
                            self.q("drain".into());
                            self.post();
                        }
                        _ => self.validate_if_online(),
                    }
                }
                _ => match r {
                    0..=34 => {
                        self.op_get(false);
                    }
                    35..=64 => self.op_put(),
                    65..=69 => {
                        // exhaustion phase
                        let n = 1 + self.rng.below(3000);
                        for _ in 0..n {
                            let a = self.op_get(true);
                            if a.starts_with("err") || a.starts_with("panic") {
                                break;
                            }
                        }
                    }
                    70..=74 => {
                        self.q("drain".into());
                        self.post();
                    }
                    75..=79 => self.op_change(),
                    80..=84 => self.op_malformed(),
                    85..=89 => self.validate_if_online(),
                    90..=93 => self.op_query(),
                    94..=95 => {
                        self.q("handoff".into());
                        self.q("hash".into());
                    }
                    96 => {
                        // crash-less recovery at a quiescent point: lower metadata only
                        let c = self.cfg();
                        if self.eng.shadow.as_ref().unwrap().hidden_total() == 0 {
                            self.q(format!("new {} recover {} {} {}", c.frames, c.default, c.pol.name(), c.classes_str()));
                            self.post();
                            self.validate_if_online();
                        }
                    }
                    _ => {
                        // free many
                        let n = 1 + self.rng.below(200);
                        for _ in 0..n {
                            self.op_put();
                        }
                    }
                },
            }
        }
        self.validate_if_online();
        self.q("dump".into());
    }
}
