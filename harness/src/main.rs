//! Verification harness: runs the real llfree code, writes request (`.req`) and expectation
//! (`.exp`) files for the Lean model driver, evaluates property oracles on the
//! implementation, and prints a JSON summary.

mod common;
mod engine;
mod genseq;
mod unit;
mod json;
mod evalu;

use std::io::{BufRead, Write};

use common::*;
use engine::Engine;
use genseq::{Flavor, Gen};

fn arg<T: std::str::FromStr>(args: &[String], name: &str, default: T) -> T {
    args.iter()
        .position(|a| a == name)
        .and_then(|i| args.get(i + 1))
        .and_then(|v| v.parse().ok())
        .unwrap_or(default)
}
fn arg_s(args: &[String], name: &str, default: &str) -> String {
    args.iter()
        .position(|a| a == name)
        .and_then(|i| args.get(i + 1))
        .cloned()
        .unwrap_or(default.to_string())
}

fn summary(eng: &Engine, em_lines: usize, extra: &str) -> String {
    let mut s = String::from("{");
    s += &format!("\"geom\":[{},{}],", llfree::HUGE_ORDER, llfree::TREE_HUGE);
    s += &format!("\"lines\":{em_lines},");
    s += &format!("\"panics\":{},", eng.panics);
    s += &format!("\"distinct_signatures\":{},", eng.cov.sigs.len());
    let m = |m: &std::collections::BTreeMap<String, usize>| {
        m.iter().map(|(k, v)| format!("{}:{v}", jstr(k))).collect::<Vec<_>>().join(",")
    };
    s += &format!("\"ops\":{{{}}},", m(&eng.cov.ops));
    s += &format!("\"results\":{{{}}},", m(&eng.cov.results));
    s += &format!(
        "\"orders\":{{{}}},",
        eng.cov.orders.iter().map(|(k, v)| format!("\"{k}\":{v}")).collect::<Vec<_>>().join(",")
    );
    s += &format!(
        "\"oracle_checks\":{{{}}},",
        eng.cov.oracle_checks.iter().map(|(k, v)| format!("\"{k}\":{v}")).collect::<Vec<_>>().join(",")
    );
    s += &format!(
        "\"violations\":[{}]",
        eng.violations
            .iter()
            .map(|v| format!("{{\"prop\":\"{}\",\"line\":{},\"msg\":{}}}", v.prop, v.line, jstr(&v.msg)))
            .collect::<Vec<_>>()
            .join(",")
    );
    s += extra;
    s += "}";
    s
}

fn main() {
    let args: Vec<String> = std::env::args().collect();
    let mode = args.get(1).map(|s| s.as_str()).unwrap_or("");
    // silence the default panic output: panics are captured and reported as answers
    if std::env::var_os("VH_PANIC").is_none() {
        std::panic::set_hook(Box::new(|_| {}));
    }
    match mode {
        "geom" => println!("{} {}", llfree::HUGE_ORDER, llfree::TREE_HUGE),
        // execute request lines from a file on the real allocator
        "exec" => {
            let path = &args[2];
            let out = arg_s(&args, "--out", "");
            let f = std::io::BufReader::new(std::fs::File::open(path).expect("open req"));
            let mut eng = Engine::new();
            let mut un = unit::Unit::new();
            let mut exp = String::new();
            let mut n = 0;
            for line in f.lines() {
                let line = line.unwrap();
                if let Some(a) = un.exec_line(&line).or_else(|| evalu::exec_line(&mut un, &line)) {
                    eng.line += 1;
                    for mut v in un.violations.drain(..) {
                        v.line = eng.line;
                        eng.violations.push(v);
                    }
                    exp.push_str(&a);
                    exp.push('\n');
                    n += 1;
                    continue;
                }
                if let Some(a) = eng.exec(&line) {
                    exp.push_str(&a);
                    exp.push('\n');
                    n += 1;
                }
            }
            if out.is_empty() {
                print!("{exp}");
            } else {
                std::fs::write(&out, exp).unwrap();
            }
            eprintln!("{}", summary(&eng, n, ""));
            if !out.is_empty() {
                println!("{}", summary(&eng, n, ""));
            }
        }
        // generate sequential histories
        "seq" => {
            let seed: u64 = arg(&args, "--seed", 1);
            let histories: usize = arg(&args, "--histories", 10);
            let len: usize = arg(&args, "--len", 200);
            let max_trees: usize = arg(&args, "--max-trees", 4);
            let out = arg_s(&args, "--out", "/tmp/seq");
            let flavor = match arg_s(&args, "--flavor", "mixed").as_str() {
                "single" => Flavor::SingleSlot,
                "change" => Flavor::Change,
                "malformed" => Flavor::Malformed,
                "handoff" => Flavor::Handoff,
                "drain" => Flavor::Drain,
                "zone" => Flavor::Zone,
                _ => Flavor::Mixed,
            };
            let dense = args.iter().any(|a| a == "--dense");
            let mut eng = Engine::new();
            let mut em = Emit::new();
            let mut rng = Rng(seed ^ 0x5eed);
            let mut starts = vec![];
            for h in 0..histories {
                let hseed = rng.next();
                starts.push(em.nlines);
                let mut g = Gen { rng: Rng(hseed), eng: &mut eng, em: &mut em, flavor, dense };
                if g.start(max_trees) {
                    g.history(len);
                }
                let _ = h;
            }
            std::fs::write(format!("{out}.req"), &em.req).unwrap();
            std::fs::write(format!("{out}.exp"), &em.exp).unwrap();
            let extra = format!(
                ",\"histories\":{histories},\"history_starts\":[{}]",
                starts.iter().map(|s| s.to_string()).collect::<Vec<_>>().join(",")
            );
            println!("{}", summary(&eng, em.nlines, &extra));
        }
        "unit" => {
            let what = args.get(2).cloned().unwrap_or_default();
            let seed: u64 = arg(&args, "--seed", 1);
            let n: usize = arg(&args, "--n", 1000);
            let out = arg_s(&args, "--out", "/tmp/unit");
            let mut u = unit::Unit::new();
            let mut rng = Rng(seed ^ 0xabcd);
            match what.as_str() {
                "fza" => u.fza(&mut rng, n),
                "sbuf" => {
                    let ex: usize = arg(&args, "--exhaustive", 5);
                    u.sbuf(&mut rng, n, ex)
                }
                "sbest" => u.sbest(&mut rng, n),
                "req" => evalu::req(&mut u, &mut rng, n),
                "meta" => u.meta(&mut rng, n),
                _ => {
                    eprintln!("unknown unit {what}");
                    std::process::exit(2);
                }
            }
            std::fs::write(format!("{out}.req"), &u.em.req).unwrap();
            std::fs::write(format!("{out}.exp"), &u.em.exp).unwrap();
            let mut eng = Engine::new();
            eng.cov = u.cov;
            eng.violations = u.violations;
            println!("{}", summary(&eng, u.em.nlines, ""));
        }
        _ => {
            eprintln!("usage: vharness geom|exec|seq|unit ...");
            std::process::exit(2);
        }
    }
    std::io::stdout().flush().unwrap();
}
