//! Verification harness: runs the real llfree code, writes request (`.req`) and expectation
//! (`.exp`) files for the Lean model driver, evaluates property oracles on the
//! implementation, and prints a JSON summary.

mod common;
mod engine;
mod genseq;
mod unit;
mod json;
mod evalu;
mod conc;
mod replayt;
mod nvm;
mod entries;

use std::io::{BufRead, Write};

use common::*;
use engine::Engine;
use genseq::{Flavor, Gen};

fn arg<T: std::str::FromStr>(args: &[String], name: &str, default: T) -> T {
    args.iter()
        .position(|a| a == name)
        .and_then(|i| args.get(i + 1))
        .and_then(|v| v.parse().ok())
        .unwrap_or(default)
}
/// root of the verification tree this binary was built in (`<root>/harness/target-<geom>/<profile>/vharness`):
/// defaults for the replay binary and the work directory are taken relative to it, so that a copy of
/// the tree (e.g. a snapshot) never picks up the build outputs of another copy
fn verif_root() -> String {
    std::env::current_exe()
        .ok()
        .and_then(|p| p.ancestors().nth(4).map(|a| a.to_string_lossy().into_owned()))
        .unwrap_or_else(|| "/verif".to_string())
}

fn arg_s(args: &[String], name: &str, default: &str) -> String {
    args.iter()
        .position(|a| a == name)
        .and_then(|i| args.get(i + 1))
        .cloned()
        .unwrap_or(default.to_string())
}

fn summary(eng: &Engine, em_lines: usize, extra: &str) -> String {
    let mut s = String::from("{");
    s += &format!("\"geom\":[{},{}],", llfree::HUGE_ORDER, llfree::TREE_HUGE);
    s += &format!("\"lines\":{em_lines},");
    s += &format!("\"panics\":{},", eng.panics);
    s += &format!("\"guard_hits\":{},\"guarded_buffers\":{},", common::GUARD_HITS.load(std::sync::atomic::Ordering::Relaxed),
        common::BUFS_CREATED.load(std::sync::atomic::Ordering::Relaxed));
    s += &format!("\"distinct_signatures\":{},", eng.cov.sigs.len());
    let m = |m: &std::collections::BTreeMap<String, usize>| {
        m.iter().map(|(k, v)| format!("{}:{v}", jstr(k))).collect::<Vec<_>>().join(",")
    };
    s += &format!("\"ops\":{{{}}},", m(&eng.cov.ops));
    s += &format!("\"results\":{{{}}},", m(&eng.cov.results));
    s += &format!(
        "\"orders\":{{{}}},",
        eng.cov.orders.iter().map(|(k, v)| format!("\"{k}\":{v}")).collect::<Vec<_>>().join(",")
    );
    s += &format!(
        "\"oracle_checks\":{{{}}},",
        eng.cov.oracle_checks.iter().map(|(k, v)| format!("\"{k}\":{v}")).collect::<Vec<_>>().join(",")
    );
    s += &format!(
        "\"violations\":[{}]",
        eng.violations
            .iter()
            .map(|v| format!("{{\"prop\":\"{}\",\"line\":{},\"msg\":{}}}", v.prop, v.line, jstr(&v.msg)))
            .collect::<Vec<_>>()
            .join(",")
    );
    s += extra;
    s += "}";
    s
}

extern "C" fn on_segv(_sig: libc::c_int) {
    // async-signal-safe: one write, then exit with a status the checker recognises (C18)
    let msg = b"C18-GUARD: SIGSEGV/SIGBUS - access outside a metadata buffer (guard page hit)\n";
    unsafe {
        libc::write(2, msg.as_ptr().cast(), msg.len());
        libc::_exit(77);
    }
}

fn main() {
    unsafe {
        libc::signal(libc::SIGSEGV, on_segv as *const () as usize);
        libc::signal(libc::SIGBUS, on_segv as *const () as usize);
    }
    common::spawn_watchdog();
    let args: Vec<String> = std::env::args().collect();
    let mode = args.get(1).map(|s| s.as_str()).unwrap_or("");
    // silence the default panic output: panics are captured and reported as answers
    if std::env::var_os("VH_PANIC").is_none() {
        std::panic::set_hook(Box::new(|_| {}));
    }
    match mode {
        "geom" => println!("{} {}", llfree::HUGE_ORDER, llfree::TREE_HUGE),
        // execute request lines from a file on the real allocator
        "exec" => {
            let path = &args[2];
            let out = arg_s(&args, "--out", "");
            let f = std::io::BufReader::new(std::fs::File::open(path).expect("open req"));
            let mut eng = Engine::new();
            let mut un = unit::Unit::new();
            let mut exp = String::new();
            let mut n = 0;
            for line in f.lines() {
                let line = line.unwrap();
                if let Some(a) = un.exec_line(&line).or_else(|| entries::exec_line(&mut un, &line)).or_else(|| evalu::exec_line(&mut un, &line)).or_else(|| {
                    replayt::exec_line(&mut un, &line, &arg_s(&args, "--bin", &format!("{}/harness/target-replay/debug/replay", verif_root())), &arg_s(&args, "--work", &format!("{}/.work", verif_root())))
                }) {
                    eng.line += 1;
                    for mut v in un.violations.drain(..) {
                        v.line = eng.line;
                        eng.violations.push(v);
                    }
                    exp.push_str(&a);
                    exp.push('\n');
                    n += 1;
                    continue;
                }
                if let Some(a) = eng.exec(&line) {
                    exp.push_str(&a);
                    exp.push('\n');
                    n += 1;
                }
            }
            if out.is_empty() {
                print!("{exp}");
            } else {
                std::fs::write(&out, exp).unwrap();
            }
            eprintln!("{}", summary(&eng, n, ""));
            if !out.is_empty() {
                println!("{}", summary(&eng, n, ""));
            }
        }
        // generate sequential histories
        "seq" => {
            let seed: u64 = arg(&args, "--seed", 1);
            let histories: usize = arg(&args, "--histories", 10);
            let len: usize = arg(&args, "--len", 200);
            let max_trees: usize = arg(&args, "--max-trees", 4);
            let out = arg_s(&args, "--out", "/tmp/seq");
            let flavor = match arg_s(&args, "--flavor", "mixed").as_str() {
                "single" => Flavor::SingleSlot,
                "init" => Flavor::InitCycle,
                "change" => Flavor::Change,
                "malformed" => Flavor::Malformed,
                "handoff" => Flavor::Handoff,
                "drain" => Flavor::Drain,
                "zone" => Flavor::Zone,
                "lower" => Flavor::LowerSearch,
                "recov" => Flavor::Recover,
                _ => Flavor::Mixed,
            };
            let dense = args.iter().any(|a| a == "--dense");
            let mut eng = Engine::new();
            let mut em = Emit::new();
            let mut rng = Rng(seed ^ 0x5eed);
            let mut starts = vec![];
            for h in 0..histories {
                let hseed = rng.next();
                starts.push(em.nlines);
                let mut g = Gen { rng: Rng(hseed), eng: &mut eng, em: &mut em, flavor, dense };
                if flavor == Flavor::LowerSearch {
                    g.lower_search(len);
                } else if g.start(max_trees) {
                    g.history(len);
                }
                let _ = h;
            }
            std::fs::write(format!("{out}.req"), &em.req).unwrap();
            std::fs::write(format!("{out}.exp"), &em.exp).unwrap();
            let extra = format!(
                ",\"histories\":{histories},\"history_starts\":[{}]",
                starts.iter().map(|s| s.to_string()).collect::<Vec<_>>().join(",")
            );
            println!("{}", summary(&eng, em.nlines, &extra));
        }
        "conc" => {
            let seed: u64 = arg(&args, "--seed", 1);
            let scenarios: usize = arg(&args, "--scenarios", 6);
            let bound: usize = arg(&args, "--bound", 2);
            let max_dfs: usize = arg(&args, "--dfs", 60);
            let randoms: usize = arg(&args, "--random", 20);
            let freezes: usize = arg(&args, "--freeze", 6);
            let crash_every: usize = arg(&args, "--crash-every", 0);
            let kind: i64 = arg(&args, "--kind", -1);
            let out = arg_s(&args, "--out", "/tmp/conc");
            let replay = arg_s(&args, "--replay", "");
            let mut ex = conc::Explore { runs: 0, events: 0, crash_points: 0, freeze_runs: 0, max_solo: 0, violations: vec![], known: vec![],
                lines: vec![], run_starts: vec![], sigs: Default::default() };
            if !replay.is_empty() {
                // replay file: scenario lines + `schedule t t t ...`
                let text = std::fs::read_to_string(&replay).expect("replay file");
                let lines: Vec<String> = text.lines().map(|l| l.to_string()).collect();
                let sc = conc::Scenario::from_text(&lines).expect("scenario");
                let sched: Vec<usize> = lines.iter().find_map(|l| l.strip_prefix("schedule ")).map(|r| r.split_whitespace().filter_map(|x| x.parse().ok()).collect()).unwrap_or_default();
                let crash = arg(&args, "--crash-every", 1);
                if let Some(r) = conc::run(&sc, &conc::Strategy::Prefix(sched), crash) {
                    ex.runs = 1;
                    ex.events = r.events.len();
                    let schedule: Vec<usize> = r.choices.iter().map(|c| c.1).collect();
                    for v in r.violations {
                        ex.violations.push((v, sc.to_text(), schedule.clone()));
                    }
                    ex.known = r.known;
                    ex.lines = r.lines;
                    ex.run_starts = vec![0];
                }
            } else {
                let mut rng = Rng(seed ^ 0xc0c0);
                for i in 0..scenarios {
                    let k = if kind >= 0 { kind as usize } else { i };
                    let sc = conc::gen_scenario(&mut rng, k);
                    conc::explore(&sc, &mut ex, bound, max_dfs, randoms, freezes, crash_every, rng.next());
                }
            }
            let mut req = String::new();
            let mut exp = String::new();
            for (q, a) in &ex.lines {
                req.push_str(q);
                req.push('\n');
                exp.push_str(a);
                exp.push('\n');
            }
            std::fs::write(format!("{out}.req"), req).unwrap();
            std::fs::write(format!("{out}.exp"), exp).unwrap();
            let viol: Vec<String> = ex.violations.iter().map(|(v, sc, sched)| {
                format!("{{\"prop\":\"{}\",\"line\":{},\"msg\":{},\"scenario\":[{}],\"schedule\":[{}]}}", v.prop, v.line, jstr(&v.msg),
                    sc.iter().map(|l| jstr(l)).collect::<Vec<_>>().join(","), sched.iter().map(|t| t.to_string()).collect::<Vec<_>>().join(","))
            }).collect();
            print!("{{\"guard_hits\":{},\"guarded_buffers\":{},", common::GUARD_HITS.load(std::sync::atomic::Ordering::Relaxed),
                common::BUFS_CREATED.load(std::sync::atomic::Ordering::Relaxed));
            println!("\"geom\":[{},{}],\"lines\":{},\"runs\":{},\"events\":{},\"crash_points\":{},\"freeze_runs\":{},\"max_solo_steps\":{},\"distinct_signatures\":{},\"known\":[{}],\"history_starts\":[{}],\"violations\":[{}]}}",
                llfree::HUGE_ORDER, llfree::TREE_HUGE, ex.lines.len(), ex.runs, ex.events, ex.crash_points, ex.freeze_runs, ex.max_solo, ex.sigs.len(),
                ex.known.iter().map(|k| jstr(k)).collect::<Vec<_>>().join(","),
                ex.run_starts.iter().map(|s| s.to_string()).collect::<Vec<_>>().join(","), viol.join(","));
        }
        "unit" => {
            let what = args.get(2).cloned().unwrap_or_default();
            let seed: u64 = arg(&args, "--seed", 1);
            let n: usize = arg(&args, "--n", 1000);
            let out = arg_s(&args, "--out", "/tmp/unit");
            let mut u = unit::Unit::new();
            let mut rng = Rng(seed ^ 0xabcd);
            match what.as_str() {
                "fza" => u.fza(&mut rng, n),
                "sbuf" => {
                    let ex: usize = arg(&args, "--exhaustive", 5);
                    u.sbuf(&mut rng, n, ex)
                }
                "sbest" => u.sbest(&mut rng, n),
                "req" => evalu::req(&mut u, &mut rng, n),
                "meta" => u.meta(&mut rng, n),
                "ent" => entries::generate(&mut u, &mut rng, n),
                "nvm" => nvm::generate(&mut u, &mut rng, n),
                "replay" => {
                    let bin = arg_s(&args, "--bin", &format!("{}/harness/target-replay/debug/replay", verif_root()));
                    let work = arg_s(&args, "--work", &format!("{}/.work", verif_root()));
                    replayt::generate(&mut u, &mut rng, n, &bin, &work)
                }
                _ => {
                    eprintln!("unknown unit {what}");
                    std::process::exit(2);
                }
            }
            std::fs::write(format!("{out}.req"), &u.em.req).unwrap();
            std::fs::write(format!("{out}.exp"), &u.em.exp).unwrap();
            let mut eng = Engine::new();
            eng.cov = u.cov;
            eng.violations = u.violations;
            println!("{}", summary(&eng, u.em.nlines, ""));
        }
        _ => {
            eprintln!("usage: vharness geom|exec|seq|unit ...");
            std::process::exit(2);
        }
    }
    std::io::stdout().flush().unwrap();
}
