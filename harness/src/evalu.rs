//! C19: class configurations of the evaluation crate -> requests.

use llfree_eval::classes::ClassingConfig;

use crate::common::*;
use crate::json::{self, J};
use crate::unit::Unit;

const FLAGS: &[(&str, u32)] = &[
    ("DMA", 0x01), ("HIGHMEM", 0x02), ("DMA32", 0x04), ("MOVABLE", 0x08), ("RECLAIMABLE", 0x10), ("HIGH", 0x20),
    ("IO", 0x40), ("FS", 0x80), ("ZERO", 0x100), ("ATOMIC", 0x200), ("DIRECT_RECLAIM", 0x400),
    ("KSWAPD_RECLAIM", 0x800), ("WRITE", 0x1000), ("NOWARN", 0x2000), ("RETRY_MAYFAIL", 0x4000), ("NOFAIL", 0x8000),
    ("NORETRY", 0x10000), ("MEMALLOC", 0x20000), ("COMP", 0x40000), ("NOMEMALLOC", 0x80000), ("HARDWALL", 0x100000),
    ("THISNODE", 0x200000), ("ACCOUNT", 0x400000), ("ZEROTAGS", 0x800000), ("PAGE_CACHE", 0x10000000),
];
const KINDS: &[&str] = &["zero", "one", "cores", "cores_half", "pids"];

/// matcher expression: (json, model syntax)
fn gen_match(rng: &mut Rng, depth: usize) -> (String, String) {
    let k = if depth == 0 { rng.below(2) } else { rng.below(5) };
    match k {
        0 | 1 => {
            let (n, v) = *rng.pick(FLAGS);
            let w = if k == 0 { "on" } else { "off" };
            (format!("{{\"{w}\":\"{n}\"}}"), format!("{w}:{v}"))
        }
        2 | 3 => {
            let w = if k == 2 { "all" } else { "any" };
            let cnt = rng.below(4);
            let parts: Vec<(String, String)> = (0..cnt).map(|_| gen_match(rng, depth - 1)).collect();
            (
                format!("{{\"{w}\":[{}]}}", parts.iter().map(|p| p.0.clone()).collect::<Vec<_>>().join(",")),
                format!("{w}({})", parts.iter().map(|p| p.1.clone()).collect::<Vec<_>>().join(",")),
            )
        }
        _ => {
            let (j, m) = gen_match(rng, depth - 1);
            (format!("{{\"not\":{j}}}"), format!("not({m})"))
        }
    }
}

/// model syntax of a shipped matcher
fn match_of_json(j: &J) -> Option<String> {
    let J::Obj(v) = j else { return None };
    let (k, x) = v.first()?;
    match (k.as_str(), x) {
        ("on" | "off", J::Str(name)) => {
            let val = FLAGS.iter().find(|f| f.0 == name)?.1;
            Some(format!("{k}:{val}"))
        }
        ("all" | "any", J::Arr(l)) => {
            let parts: Option<Vec<String>> = l.iter().map(match_of_json).collect();
            Some(format!("{k}({})", parts?.join(",")))
        }
        ("not", m) => Some(format!("not({})", match_of_json(m)?)),
        _ => None,
    }
}

pub struct ClassDesc {
    pub id: u8,
    pub kind: String,
    pub order: Option<(usize, usize)>,
    pub gfp_json: Option<String>,
    pub gfp_model: String,
}

fn config_json(classes: &[ClassDesc], default: u8) -> String {
    let cl: Vec<String> = classes
        .iter()
        .map(|c| {
            let mut s = format!("{{\"id\":{},\"count\":\"{}\"", c.id, c.kind);
            if let Some((a, b)) = c.order {
                s += &format!(",\"order\":[{a},{b}]");
            }
            if let Some(g) = &c.gfp_json {
                s += &format!(",\"gfp\":{g}");
            }
            s + "}"
        })
        .collect();
    format!("{{\"classes\":[{}],\"default\":{default},\"perfect\":[64,2047],\"good\":[2048,4095]}}", cl.join(","))
}

fn model_classes(classes: &[ClassDesc]) -> String {
    classes
        .iter()
        .map(|c| {
            let o = match c.order {
                Some((a, b)) => format!("{a}-{b}"),
                None => "-".into(),
            };
            format!("{} {} {o} {}", c.id, c.kind, c.gfp_model)
        })
        .collect::<Vec<_>>()
        .join(" ")
}

/// run requests against one parsed configuration
fn run_cfg(u: &mut Unit, json_text: &str, model: &str, ids: &[u8], cases: &[(usize, usize, usize, usize, u32)], tag: &str) {
    let cfg: ClassingConfig = match guarded(|| facet_json::from_str::<ClassingConfig>(json_text)) {
        Ok(Ok(c)) => c,
        _ => {
            u.cov.hit("req", "config-rejected", tag);
            return;
        }
    };
    for &(cores, core, pid, order, gfp) in cases {
        let r = guarded(|| {
            let cl = cfg.classing(cores);
            let req = cfg.request(order, core, cores, pid, gfp);
            let slots = cl.classes().iter().rev().find(|c| c.0.0 == req.class.0).map(|c| c.1);
            (req.class.0, req.local, slots)
        });
        u.cov.oracle("C19");
        let q = format!("req {cores} {core} {pid} {order} {gfp} | {model}");
        let a = match r {
            Ok((cls, loc, slots)) => {
                if !ids.contains(&cls) {
                    u.cov.hit("req", "bad-class", tag);
                    viol(u, format!("request class {cls} is not one of the configured ids {ids:?}"));
                } else if loc.is_some_and(|l| slots.is_none_or(|s| l >= s)) {
                    viol(u, format!("request (class {cls}, slot {loc:?}) but the class has {slots:?} slots (cores {cores}, core {core}, pid {pid}, order {order}, gfp {gfp:#x}; config {json_text})"));
                }
                u.cov.hit("req", "ok", &format!("{tag} l{} c{}", loc.is_some(), ids.len()));
                format!("req {cls} {} {}", opt(loc), opt(slots))
            }
            Err(p) => {
                viol(u, format!("request generation panicked: {p} (config {json_text})"));
                format!("panic {p}")
            }
        };
        u.em.qa(&q, &a);
    }
}
fn viol(u: &mut Unit, msg: String) {
    if u.violations.len() < 50 {
        u.violations.push(crate::engine::Violation { prop: "C19", msg, line: u.em.nlines + 1 });
    }
}

fn cases(rng: &mut Rng, n: usize) -> Vec<(usize, usize, usize, usize, u32)> {
    (0..n)
        .map(|_| {
            let gfp = match rng.below(4) {
                0 => 0,
                1 => rng.pick(FLAGS).1,
                _ => (0..1 + rng.below(5)).fold(0, |a, _| a | rng.pick(FLAGS).1),
            };
            (1 + rng.below(16), rng.below(65), rng.below(65), rng.below(11), gfp)
        })
        .collect()
}

pub fn req(u: &mut Unit, rng: &mut Rng, n: usize) {
    // all combinations of kinds for 1..=3 classes (distinct ids), plus random 4-class ones
    let mut combos: Vec<Vec<usize>> = vec![];
    for a in 0..5 {
        combos.push(vec![a]);
        for b in 0..5 {
            combos.push(vec![a, b]);
            for c in 0..5 {
                combos.push(vec![a, b, c]);
            }
        }
    }
    for _ in 0..n {
        combos.push((0..4).map(|_| rng.below(5)).collect());
    }
    for kinds in combos {
        let classes: Vec<ClassDesc> = kinds
            .iter()
            .enumerate()
            .map(|(i, k)| {
                let order = match rng.below(3) {
                    0 => None,
                    1 => Some((0, 8)),
                    _ => {
                        let a = rng.below(11);
                        Some((a, a + rng.below(11 - a)))
                    }
                };
                let (gj, gm) = if rng.chance(1, 3) { (None, "all()".to_string()) } else { let (j, m) = gen_match(rng, 3); (Some(j), m) };
                // ids are distinct, or repeat an earlier id (like results/classes-ilong.json), with any kind
                let id = if i > 0 && rng.chance(1, 6) { rng.below(i) as u8 } else { i as u8 };
                ClassDesc { id, kind: KINDS[*k].into(), order, gfp_json: gj, gfp_model: gm }
            })
            .collect();
        let ids: Vec<u8> = classes.iter().map(|c| c.id).collect();
        let j = config_json(&classes, ids[0]);
        let m = model_classes(&classes);
        let cs = cases(rng, 6);
        run_cfg(u, &j, &m, &ids, &cs, "gen");
    }
    // the shipped configurations
    if let Ok(rd) = std::fs::read_dir("/repo/results") {
        let mut files: Vec<_> = rd.filter_map(|e| e.ok()).map(|e| e.path()).collect();
        files.sort();
        for f in files {
            let name = f.file_name().unwrap().to_string_lossy().to_string();
            if !(name.starts_with("classes") && name.ends_with(".json")) {
                continue;
            }
            let text = std::fs::read_to_string(&f).unwrap();
            let Some(j) = json::parse(&text) else { continue };
            let Some(J::Arr(cl)) = j.get("classes") else { continue };
            let mut descs = vec![];
            for c in cl {
                let id = match c.get("id") { Some(J::Num(n)) => *n as u8, _ => continue };
                let kind = match c.get("count") { Some(J::Str(s)) => s.clone(), _ => continue };
                let order = match c.get("order") {
                    Some(J::Arr(a)) if a.len() == 2 => match (&a[0], &a[1]) {
                        (J::Num(x), J::Num(y)) => Some((*x as usize, *y as usize)),
                        _ => None,
                    },
                    _ => None,
                };
                let gm = match c.get("gfp") { Some(g) => match_of_json(g).unwrap_or("all()".into()), None => "all()".into() };
                descs.push(ClassDesc { id, kind, order, gfp_json: None, gfp_model: gm });
            }
            let ids: Vec<u8> = descs.iter().map(|c| c.id).collect();
            let m = model_classes(&descs);
            let cs = cases(rng, 200);
            run_cfg(u, &text, &m, &ids, &cs, &format!("file:{name}"));
        }
    }
}

/// replay of one `req` line: rebuilds the JSON configuration from the model syntax
pub fn exec_line(u: &mut Unit, line: &str) -> Option<String> {
    let ws: Vec<&str> = line.split_whitespace().collect();
    if ws.first() != Some(&"req") || ws.len() < 7 || ws[6] != "|" {
        return None;
    }
    let nums: Vec<usize> = ws[1..6].iter().filter_map(|x| x.parse().ok()).collect();
    if nums.len() != 5 {
        return Some("bad-op".into());
    }
    fn json_of_model(m: &str) -> String {
        // on:N / off:N / all(..) / any(..) / not(..)
        fn split_top(s: &str) -> Vec<&str> {
            let mut out = vec![];
            let (mut depth, mut st) = (0, 0);
            for (i, c) in s.char_indices() {
                match c {
                    '(' => depth += 1,
                    ')' => depth -= 1,
                    ',' if depth == 0 => {
                        out.push(&s[st..i]);
                        st = i + 1;
                    }
                    _ => {}
                }
            }
            if st < s.len() {
                out.push(&s[st..]);
            }
            out
        }
        if let Some(v) = m.strip_prefix("on:").or_else(|| m.strip_prefix("off:")) {
            let val: u32 = v.parse().unwrap_or(0);
            let name = FLAGS.iter().find(|f| f.1 == val).map(|f| f.0).unwrap_or("DMA");
            return format!("{{\"{}\":\"{name}\"}}", &m[..m.find(':').unwrap()]);
        }
        for w in ["all", "any"] {
            if let Some(inner) = m.strip_prefix(&format!("{w}(")).and_then(|r| r.strip_suffix(')')) {
                return format!("{{\"{w}\":[{}]}}", split_top(inner).iter().map(|p| json_of_model(p)).collect::<Vec<_>>().join(","));
            }
        }
        if let Some(inner) = m.strip_prefix("not(").and_then(|r| r.strip_suffix(')')) {
            return format!("{{\"not\":{}}}", json_of_model(inner));
        }
        "{\"all\":[]}".into()
    }
    let mut descs = vec![];
    for c in ws[7..].chunks(4) {
        if c.len() != 4 {
            return Some("bad-op".into());
        }
        let order = c[2].split_once('-').and_then(|(a, b)| Some((a.parse().ok()?, b.parse().ok()?)));
        descs.push(ClassDesc { id: c[0].parse().unwrap_or(0), kind: c[1].into(), order, gfp_json: Some(json_of_model(c[3])), gfp_model: c[3].into() });
    }
    let ids: Vec<u8> = descs.iter().map(|c| c.id).collect();
    let before = u.em.exp.len();
    run_cfg(u, &config_json(&descs, ids.first().copied().unwrap_or(0)), &model_classes(&descs), &ids,
        &[(nums[0], nums[1], nums[2], nums[3], nums[4] as u32)], "replay");
    Some(u.em.exp[before..].trim_end().to_string())
}
