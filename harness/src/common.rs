//! Shared pieces: PRNG, aligned buffers, policies, the allocator wrapper and the emitter
//! of request/expectation lines.

use std::fmt::Write as _;
use std::panic::{AssertUnwindSafe, catch_unwind};
use std::sync::atomic::{AtomicU64, Ordering};

use llfree::*;

pub const ROWS: usize = HUGE_FRAMES / 64;

/// splitmix64
#[derive(Clone)]
pub struct Rng(pub u64);
impl Rng {
    pub fn next(&mut self) -> u64 {
        self.0 = self.0.wrapping_add(0x9e37_79b9_7f4a_7c15);
        let mut z = self.0;
        z = (z ^ (z >> 30)).wrapping_mul(0xbf58_476d_1ce4_e5b9);
        z = (z ^ (z >> 27)).wrapping_mul(0x94d0_49bb_1331_11eb);
        z ^ (z >> 31)
    }
    pub fn below(&mut self, n: usize) -> usize {
        if n == 0 { 0 } else { (self.next() % n as u64) as usize }
    }
    pub fn chance(&mut self, num: usize, den: usize) -> bool {
        self.below(den) < num
    }
    pub fn pick<'a, T>(&mut self, xs: &'a [T]) -> &'a T {
        &xs[self.below(xs.len())]
    }
}

/// 64-byte aligned, zeroed, owned buffer of *exactly* `len` bytes (C18): the bytes live at the end of an
/// anonymous mapping that is followed (and preceded) by an inaccessible guard page, so an access past the end
/// faults at once; the unused bytes in front of the buffer hold a canary that is checked when the buffer is
/// dropped. (`len` is a multiple of 64 for all metadata sizes; otherwise up to 63 slack bytes remain.)
pub struct Buf {
    pub ptr: *mut u8,
    pub len: usize,
    map: *mut u8,
    map_len: usize,
}
unsafe impl Send for Buf {}
unsafe impl Sync for Buf {}
const PAGE: usize = 4096;
const CANARY: u8 = 0xA5;
pub static GUARD_HITS: AtomicU64 = AtomicU64::new(0);
// ---- watchdog (C21): a call that runs without any interference must return
pub static HEARTBEAT: AtomicU64 = AtomicU64::new(0);
pub static BUSY: AtomicU64 = AtomicU64::new(0);
pub static CURRENT: std::sync::Mutex<String> = std::sync::Mutex::new(String::new());
/// seconds without progress inside an allocator call after which the run is declared hung
pub const HANG_SECS: u64 = 20;
pub fn watch_begin(what: &str) {
    if let Ok(mut c) = CURRENT.try_lock() {
        c.clear();
        c.push_str(what);
    }
    HEARTBEAT.fetch_add(1, Ordering::Relaxed);
    BUSY.store(1, Ordering::Relaxed);
}
pub fn watch_tick() {
    HEARTBEAT.fetch_add(1, Ordering::Relaxed);
}
pub fn watch_end() {
    BUSY.store(0, Ordering::Relaxed);
    HEARTBEAT.fetch_add(1, Ordering::Relaxed);
}
pub fn spawn_watchdog() {
    std::thread::spawn(|| {
        let mut last = HEARTBEAT.load(Ordering::Relaxed);
        let mut still = 0u64;
        loop {
            std::thread::sleep(std::time::Duration::from_secs(1));
            let now = HEARTBEAT.load(Ordering::Relaxed);
            if now == last && BUSY.load(Ordering::Relaxed) == 1 {
                still += 1;
            } else {
                still = 0;
            }
            last = now;
            if still >= HANG_SECS {
                let cur = CURRENT.try_lock().map(|c| c.clone()).unwrap_or_default();
                eprintln!("C21-HANG: `{cur}` made no progress for {HANG_SECS} s although nothing interferes with it");
                unsafe { libc::_exit(78) };
            }
        }
    });
}
pub static BUFS_CREATED: AtomicU64 = AtomicU64::new(0);
impl Buf {
    pub fn new(len: usize) -> Self {
        BUFS_CREATED.fetch_add(1, Ordering::Relaxed);
        let data = len.next_multiple_of(64).next_multiple_of(PAGE).max(PAGE);
        let map_len = data + 2 * PAGE;
        unsafe {
            let map = libc::mmap(std::ptr::null_mut(), map_len, libc::PROT_READ | libc::PROT_WRITE,
                libc::MAP_PRIVATE | libc::MAP_ANONYMOUS, -1, 0) as *mut u8;
            assert!(map as isize != -1, "mmap failed");
            libc::mprotect(map.cast(), PAGE, libc::PROT_NONE);
            libc::mprotect(map.add(PAGE + data).cast(), PAGE, libc::PROT_NONE);
            let start = map.add(PAGE + data - len.next_multiple_of(64));
            // canary in front of the buffer
            std::ptr::write_bytes(map.add(PAGE), CANARY, data - len.next_multiple_of(64));
            Self { ptr: start, len, map, map_len }
        }
    }
    fn lead(&self) -> &[u8] {
        unsafe { std::slice::from_raw_parts(self.map.add(PAGE), self.ptr as usize - (self.map as usize + PAGE)) }
    }
    /// the bytes in front of the buffer are untouched
    pub fn canary_ok(&self) -> bool {
        self.lead().iter().all(|b| *b == CANARY)
    }
    pub fn slice(&self) -> &'static mut [u8] {
        unsafe { std::slice::from_raw_parts_mut(self.ptr, self.len) }
    }
    pub fn bytes(&self) -> &[u8] {
        unsafe { std::slice::from_raw_parts(self.ptr, self.len) }
    }
    pub fn copy_of(other: &Buf) -> Self {
        let b = Buf::new(other.len);
        b.slice().copy_from_slice(other.bytes());
        b
    }
    pub fn u64_at(&self, off: usize) -> u64 {
        u64::from_le_bytes(self.bytes()[off..off + 8].try_into().unwrap())
    }
    pub fn u32_at(&self, off: usize) -> u32 {
        u32::from_le_bytes(self.bytes()[off..off + 4].try_into().unwrap())
    }
    pub fn u16_at(&self, off: usize) -> u16 {
        u16::from_le_bytes(self.bytes()[off..off + 2].try_into().unwrap())
    }
}
impl Drop for Buf {
    fn drop(&mut self) {
        if !self.canary_ok() {
            GUARD_HITS.fetch_add(1, Ordering::Relaxed);
            eprintln!("C18-GUARD: bytes in front of a metadata buffer of {} bytes were overwritten", self.len);
        }
        unsafe { libc::munmap(self.map.cast(), self.map_len) };
    }
}

// ------------------------------------------------------------------ policies

fn ordered(requested: Class, target: Class) -> Option<Policy> {
    if requested.0 > target.0 {
        Some(Policy::Steal)
    } else if requested.0 < target.0 {
        Some(Policy::Demote)
    } else {
        None
    }
}
/// the `zeroed_policy` of eval/tests/integration.rs
pub fn zeroed_policy(requested: Class, target: Class, free: usize) -> Policy {
    if let Some(p) = ordered(requested, target) {
        return p;
    }
    match free {
        f if f >= TREE_FRAMES / 2 => Policy::Match(1),
        f if f >= TREE_FRAMES / 64 => Policy::Match(u8::MAX),
        _ => Policy::Match(0),
    }
}
/// bit (r*8+t) set = pair (r,t) is Invalid
pub static INVALID_PAIRS: AtomicU64 = AtomicU64::new(0);
pub fn invalid_simple_policy(requested: Class, target: Class, free: usize) -> Policy {
    let bit = (requested.0 as u64 % 8) * 8 + (target.0 as u64 % 8);
    if INVALID_PAIRS.load(Ordering::Relaxed) >> bit & 1 == 1 {
        return Policy::Invalid;
    }
    zeroed_policy(requested, target, free)
}

#[derive(Clone, Debug)]
pub enum Pol {
    Simple,
    Movable,
    Zeroed,
    InvSimple(Vec<(u8, u8)>),
}
impl Pol {
    pub fn name(&self) -> String {
        match self {
            Pol::Simple => "simple".into(),
            Pol::Movable => "movable".into(),
            Pol::Zeroed => "zeroed".into(),
            Pol::InvSimple(p) => {
                let mut s = "inv:simple".to_string();
                for (a, b) in p {
                    write!(s, ":{a}>{b}").unwrap();
                }
                s
            }
        }
    }
    pub fn func(&self) -> PolicyFn {
        match self {
            // the policy functions of `Classing::simple/movable` are private; take them from there
            Pol::Simple => Classing::simple(1).0.policy,
            Pol::Movable => Classing::movable(1).0.policy,
            Pol::Zeroed => zeroed_policy,
            Pol::InvSimple(p) => {
                let mut bits = 0u64;
                for (a, b) in p {
                    bits |= 1 << ((*a as u64 % 8) * 8 + (*b as u64 % 8));
                }
                INVALID_PAIRS.store(bits, Ordering::Relaxed);
                invalid_simple_policy
            }
        }
    }
    pub fn never_invalid(&self) -> bool {
        !matches!(self, Pol::InvSimple(p) if !p.is_empty())
    }
}

#[derive(Clone, Debug)]
pub struct Config {
    pub frames: usize,
    pub classes: Vec<(u8, usize)>,
    pub default: u8,
    pub pol: Pol,
}
impl Config {
    pub fn classing(&self) -> Classing {
        let cl: Vec<(Class, usize)> = self.classes.iter().map(|&(c, n)| (Class(c), n)).collect();
        Classing::new(&cl, Class(self.default), self.pol.func())
    }
    pub fn classes_str(&self) -> String {
        if self.classes.is_empty() {
            return "-".into();
        }
        self.classes
            .iter()
            .map(|(c, n)| format!("{c}:{n}"))
            .collect::<Vec<_>>()
            .join(",")
    }
    pub fn ntrees(&self) -> usize {
        self.frames.div_ceil(TREE_FRAMES)
    }
    pub fn nhuge(&self) -> usize {
        self.frames.div_ceil(HUGE_FRAMES)
    }
    pub fn nslots(&self) -> usize {
        self.classes.iter().map(|c| c.1).sum()
    }
    /// slot count of the class (last entry wins, like `Locals::new`)
    pub fn slots_of(&self, class: u8) -> Option<usize> {
        self.classes.iter().rev().find(|c| c.0 == class).map(|c| c.1)
    }
}

pub fn init_name(i: Init) -> &'static str {
    match i {
        Init::FreeAll => "free",
        Init::AllocAll => "alloc",
        Init::Recover => "recover",
        Init::None => "none",
    }
}

/// The three metadata buffers
pub struct Bufs {
    pub local: Buf,
    pub trees: Buf,
    pub lower: Buf,
}
impl Bufs {
    pub fn for_cfg(cfg: &Config) -> Self {
        let m = LLFree::metadata_size(&cfg.classing(), cfg.frames);
        Self { local: Buf::new(m.local), trees: Buf::new(m.trees), lower: Buf::new(m.lower) }
    }
    pub fn copy_of(o: &Bufs) -> Self {
        Self { local: Buf::copy_of(&o.local), trees: Buf::copy_of(&o.trees), lower: Buf::copy_of(&o.lower) }
    }
    pub fn meta(&self) -> MetaData<'static> {
        MetaData { local: self.local.slice(), trees: self.trees.slice(), lower: self.lower.slice() }
    }
}

pub fn table_stride() -> usize {
    (TREE_HUGE * 2).next_multiple_of(64)
}
pub fn bitfield_stride() -> usize {
    (ROWS * 8).next_multiple_of(64)
}

/// Logical words of the buffers, in the order of the model's `Mem`
pub struct Words {
    pub rows: Vec<u64>,
    pub huge: Vec<u16>,
    pub trees: Vec<u32>,
    pub slots: Vec<u64>,
}
pub fn words(cfg: &Config, b: &Bufs) -> Words {
    let nh = cfg.nhuge();
    let nt = cfg.ntrees();
    let mut w = Words { rows: vec![], huge: vec![], trees: vec![], slots: vec![] };
    for h in 0..nh {
        for r in 0..ROWS {
            w.rows.push(b.lower.u64_at(h * bitfield_stride() + r * 8));
        }
    }
    let toff = nh * bitfield_stride();
    for t in 0..nt {
        for c in 0..TREE_HUGE {
            w.huge.push(b.lower.u16_at(toff + t * table_stride() + c * 2));
        }
    }
    for t in 0..nt {
        w.trees.push(b.trees.u32_at(t * 4));
    }
    for s in 0..cfg.nslots() {
        w.slots.push(b.local.u64_at(s * 64));
    }
    w
}
pub fn digest(w: &Words) -> u64 {
    fn mix(h: u64, x: u64) -> u64 {
        (h ^ x).wrapping_mul(0x100_0000_01b3)
    }
    let mut h = 0xcbf2_9ce4_8422_2325u64;
    for v in &w.rows {
        h = mix(h, *v);
    }
    h = mix(h, 0x11);
    for v in &w.huge {
        h = mix(h, *v as u64);
    }
    h = mix(h, 0x22);
    for v in &w.trees {
        h = mix(h, *v as u64);
    }
    h = mix(h, 0x33);
    for v in &w.slots {
        h = mix(h, *v);
    }
    h
}
pub fn dump_line(w: &Words) -> String {
    let j = |v: Vec<String>| v.join(" ");
    format!(
        "dump rows {} | huge {} | trees {} | slots {}",
        j(w.rows.iter().map(|v| format!("{v:x}")).collect()),
        j(w.huge.iter().map(|v| format!("{v:x}")).collect()),
        j(w.trees.iter().map(|v| format!("{v:x}")).collect()),
        j(w.slots.iter().map(|v| format!("{v:x}")).collect())
    )
}
pub fn mem_line(w: &Words) -> String {
    dump_line(w).replacen("dump", "mem", 1)
}

/// Request/expectation emitter. `Q` lines go to the model driver, `A` lines are what the
/// implementation answered (the driver's answers are compared with them line by line).
pub struct Emit {
    pub req: String,
    pub exp: String,
    pub nlines: usize,
}
impl Emit {
    pub fn new() -> Self {
        Self { req: String::new(), exp: String::new(), nlines: 0 }
    }
    pub fn qa(&mut self, q: &str, a: &str) {
        self.req.push_str(q);
        self.req.push('\n');
        self.exp.push_str(a);
        self.exp.push('\n');
        self.nlines += 1;
    }
}

pub fn opt(v: Option<usize>) -> String {
    match v {
        Some(x) => x.to_string(),
        None => "-".into(),
    }
}

/// run with panic capture; the message is reduced to its first line
pub fn guarded<T>(f: impl FnOnce() -> T) -> std::result::Result<T, String> {
    catch_unwind(AssertUnwindSafe(f)).map_err(|e| {
        let s = if let Some(s) = e.downcast_ref::<String>() {
            s.clone()
        } else if let Some(s) = e.downcast_ref::<&str>() {
            s.to_string()
        } else {
            "?".into()
        };
        s.lines().next().unwrap_or("").to_string()
    })
}

pub fn err_str(e: Error) -> &'static str {
    match e {
        Error::Memory => "err mem",
        Error::Argument => "err arg",
        Error::Initialization => "err init",
    }
}

pub fn stats_str(s: &Stats) -> String {
    format!("stats {} {} {}", s.free_frames, s.free_huge, s.free_trees)
}
pub fn tstats_str(s: &TreeStats) -> String {
    let mut o = format!("tstats {} {}", s.free_frames, s.free_trees);
    for c in &s.classes {
        write!(o, " {} {}", c.free_frames, c.alloc_frames).unwrap();
    }
    o
}

/// minimal JSON string escaping
pub fn jstr(s: &str) -> String {
    let mut o = String::from("\"");
    for c in s.chars() {
        match c {
            '"' => o.push_str("\\\""),
            '\\' => o.push_str("\\\\"),
            '\n' => o.push_str("\\n"),
            c if (c as u32) < 0x20 => write!(o, "\\u{:04x}", c as u32).unwrap(),
            c => o.push(c),
        }
    }
    o.push('"');
    o
}
