#!/usr/bin/env python3
"""check.py <property> [--tier quick|thorough] [--replay FILE]

One check = (1) regenerate the Lean `Gen/*` modules from /repo, (2) re-prove the property's
theorems and audit their axioms, (3) rebuild the Rust harness from /repo's working tree and
run the property's correspondence scope (implementation vs. Lean model driver), (4) evaluate
the property's oracle on what the implementation did.  Exit 0 = held on everything explored;
exit 1 + "VIOLATION property=<id> replay=<path>" otherwise.  See DESIGN.md section 5.
"""
import fcntl, hashlib, json, os, re, subprocess, sys, time, shutil

ROOT = os.path.dirname(os.path.abspath(__file__))
REPO = os.environ.get('VERIF_REPO', '/repo')
LEAN = os.path.join(ROOT, 'lean')
HARN = os.path.join(ROOT, 'harness')
WORK = os.path.join(ROOT, '.work')
DRIVER = os.path.join(LEAN, '.lake/build/bin/driver')
ALLOWED_AXIOMS = {'propext', 'Classical.choice', 'Quot.sound'}

sys.path.insert(0, os.path.join(ROOT, 'tools'))
from scopes import PROPS, GEOMS  # noqa: E402

def sh(cmd, cwd=None, timeout=None, env=None, stdin=None):
    e = dict(os.environ)
    e['CARGO_NET_OFFLINE'] = 'true'
    if env: e.update(env)
    p = subprocess.run(cmd, cwd=cwd, stdout=subprocess.PIPE, stderr=subprocess.STDOUT, text=True,
                       timeout=timeout, env=e, stdin=stdin)
    return p.returncode, p.stdout

class Lock:
    def __init__(self, name):
        os.makedirs(WORK, exist_ok=True)
        self.f = open(os.path.join(WORK, name + '.lock'), 'w')
    def __enter__(self):
        fcntl.flock(self.f, fcntl.LOCK_EX); return self
    def __exit__(self, *a):
        fcntl.flock(self.f, fcntl.LOCK_UN)

# ------------------------------------------------------------------ steps 1+2: Lean
def regenerate():
    with Lock('lean'):
        rc, out = sh([sys.executable, os.path.join(ROOT, 'tools/rs2lean.py'), REPO, os.path.join(LEAN, 'LLFreeV/Gen')])
    return rc == 0, out

def gen_deps(prop):
    """names of the generated modules (`LLFreeV.Gen.X`) in the import closure of the property module"""
    seen, todo, gens = set(), [f'LLFreeV.Props.{prop}'], set()
    while todo:
        m = todo.pop()
        if m in seen: continue
        seen.add(m)
        path = os.path.join(LEAN, m.replace('.', '/') + '.lean')
        if not os.path.exists(path): continue
        for imp in re.findall(r'^import\s+(LLFreeV\.[\w.]+)', open(path).read(), re.M):
            if imp.startswith('LLFreeV.Gen.'): gens.add(imp.split('.')[-1])
            todo.append(imp)
    return gens

def theorems_of(prop):
    path = os.path.join(LEAN, 'LLFreeV/Props', prop + '.lean')
    if not os.path.exists(path): return []
    src = open(path).read()
    src = re.sub(r'/-.*?-/', '', src, flags=re.S)
    names = re.findall(r'^theorem\s+([A-Za-z_][\w.\']*)', src, re.M)
    ns = re.search(r'^namespace\s+([\w.]+)', src, re.M)
    pre = (ns.group(1) + '.') if ns else ''
    return [pre + n for n in names]

FORBIDDEN = re.compile(r'\bsorry\b|\badmit\b|^\s*axiom\s|native_decide|implemented_by|\bunsafe\s|maxHeartbeats\s+0', re.M)

def source_audit():
    bad = []
    for dp, _, fs in os.walk(os.path.join(LEAN, 'LLFreeV')):
        for f in fs:
            if not f.endswith('.lean'): continue
            src = open(os.path.join(dp, f)).read()
            src = re.sub(r'/-.*?-/', '', src, flags=re.S)
            src = re.sub(r'--[^\n]*', '', src)
            for m in FORBIDDEN.finditer(src):
                bad.append(f"{os.path.relpath(os.path.join(dp, f), LEAN)}: {m.group(0).strip()}")
    return bad

def prove(prop, tier):
    """lake build of the property module + axiom audit. Returns dict."""
    res = {'module': f'LLFreeV.Props.{prop}', 'theorems': [], 'axioms': {}, 'ok': False, 'log': ''}
    thms = theorems_of(prop)
    res['theorems'] = thms
    with Lock('lean'):
        t0 = time.time()
        rc, out = sh(['lake', 'build', f'LLFreeV.Props.{prop}', 'driver'], cwd=LEAN, timeout=3000)
        res['build_s'] = round(time.time() - t0, 1)
        if rc != 0:
            res['log'] = out[-4000:]
            # which declarations failed?
            res['failed'] = sorted(set(re.findall(r'error: (LLFreeV/[^:]+:\d+:\d+)', out)))
            return res
        audit = os.path.join(WORK, f'audit_{prop}.lean')
        with open(audit, 'w') as f:
            f.write(f'import LLFreeV.Props.{prop}\n')
            for t in thms:
                f.write(f'#print axioms {t}\n')
        rc, out = sh(['lake', 'env', 'lean', audit], cwd=LEAN, timeout=1200)
        if tier == 'thorough':
            rc2, out2 = sh(['lake', 'env', 'leanchecker', f'LLFreeV.Props.{prop}'], cwd=LEAN, timeout=3000)
            res['leanchecker'] = 'ok' if rc2 == 0 else out2[-2000:]
            if rc2 != 0: rc = rc2
    if rc != 0:
        res['log'] = out[-4000:]; return res
    # parse "'<name>' depends on axioms: [a, b]" / "does not depend on any axioms"
    for m in re.finditer(r"'([^']+)' depends on axioms: \[([^\]]*)\]", out, re.S):
        res['axioms'][m.group(1)] = [a.strip() for a in m.group(2).replace('\n', ' ').split(',') if a.strip()]
    for m in re.finditer(r"'([^']+)' does not depend on any axioms", out):
        res['axioms'][m.group(1)] = []
    bad = source_audit()
    res['forbidden'] = bad
    notallowed = {}
    for t, ax in res['axioms'].items():
        extra = [a for a in ax if a not in ALLOWED_AXIOMS and not (PROPS[prop].get('bv_decide') and '._native.bv_decide.ax' in a)]
        if extra: notallowed[t] = extra
    res['axioms_not_allowed'] = notallowed
    missing = [t for t in thms if t not in res['axioms']]
    res['missing'] = missing
    res['ok'] = not bad and not notallowed and not missing and len(thms) > 0
    return res

# ------------------------------------------------------------------ step 3: harness
def geom_dir(geom):
    return os.path.join(HARN, 'target-' + geom)

def build_harness(geom):
    feats = GEOMS[geom]['features']
    cmd = ['cargo', 'build', '--offline', '--quiet', '--target-dir', geom_dir(geom)]
    if feats: cmd += ['--features', ','.join(feats)]
    with Lock('cargo-' + geom):
        lock = os.path.join(HARN, 'Cargo.lock')
        if not os.path.exists(lock):
            shutil.copy(os.path.join(REPO, 'Cargo.lock'), lock)
        rc, out = sh(cmd, cwd=HARN, timeout=3000)
    return rc == 0, out

def harness_bin(geom):
    return os.path.join(geom_dir(geom), 'debug/vharness')

def norm(line):
    line = line.rstrip('\n')
    if line.startswith('panic'): return 'panic'
    return line

def run_scope(prop, geom, run, seed, tag):
    """run one harness generation + model driver; returns dict with mismatches and violations"""
    os.makedirs(WORK, exist_ok=True)
    base = os.path.join(WORK, f'{prop}_{geom}_{tag}')
    args = [harness_bin(geom)] + [a.replace('{seed}', str(seed)) for a in run['args']] + ['--out', base]
    t0 = time.time()
    rc, out = sh(args, timeout=3000)
    r = {'args': run['args'], 'geom': geom, 'ok': True, 'mismatch': None, 'violations': [], 'summary': None,
         'base': base}
    if rc != 0:
        r['ok'] = False; r['error'] = 'harness failed: ' + out[-2000:]
        if rc == 78 or 'C21-HANG' in out:
            # a call made no progress although nothing interferes with it (watchdog of the harness)
            import re as _re
            mm = _re.search(r'C21-HANG: (.*)', out)
            r['hang'] = 'C21-HANG: ' + (mm.group(1) if mm else 'a call did not return') + ' (exit %s)' % rc
        if rc == 77 or 'C18-GUARD' in out:
            # an access outside an exactly sized metadata buffer hit the guard page
            r['guard'] = 'C18-GUARD: the harness faulted on an access outside a metadata buffer (exit %s): %s' % (rc, out[-300:].strip())
        return r
    try:
        summ = json.loads(out.strip().splitlines()[-1])
    except Exception as ex:
        r['ok'] = False; r['error'] = f'harness summary unreadable: {ex}: {out[-500:]}'; return r
    r['summary'] = summ
    with open(base + '.req') as f:
        rc2, got = sh([DRIVER], stdin=f, timeout=3000)
    with open(base + '.got', 'w') as f: f.write(got)
    exp = open(base + '.exp').read().splitlines()
    gotl = got.splitlines()
    r['lines'] = len(exp)
    if rc2 != 0:
        r['ok'] = False; r['error'] = 'model driver failed: ' + got[-500:]
    for i, e in enumerate(exp):
        g = gotl[i] if i < len(gotl) else '<no answer>'
        if norm(e) != norm(g):
            r['ok'] = False
            r['mismatch'] = {'line': i, 'impl': e, 'model': g}
            break
    if r['mismatch'] is None and len(gotl) != len(exp):
        r['ok'] = False; r['mismatch'] = {'line': min(len(gotl), len(exp)), 'impl': '<eof>', 'model': '<eof>'}
    r['violations'] = summ.get('violations', [])
    r['wall_s'] = round(time.time() - t0, 2)
    return r

def history_prefix(base, summ, line):
    """request lines from the start of the history containing `line` up to and including it"""
    req = open(base + '.req').read().splitlines()
    if 'history_starts' not in summ:
        # unit cases are independent: geometry line + the case itself
        return [req[0], req[min(line, len(req) - 1)]]
    starts = summ.get('history_starts') or [0]
    st = max([s for s in starts if s <= line] or [0])
    return req[st:line + 1]

def exec_lines(geom, lines):
    """run request lines on the implementation; returns (answers, summary)"""
    p = os.path.join(WORK, f'replay_{os.getpid()}.req')
    with open(p, 'w') as f: f.write('\n'.join(lines) + '\n')
    rc, out = sh([harness_bin(geom), 'exec', p, '--out', p + '.exp'], timeout=600)
    try:
        summ = json.loads(out.strip().splitlines()[-1])
    except Exception:
        summ = {'violations': [], 'error': out[-500:]}
    ans = open(p + '.exp').read().splitlines() if os.path.exists(p + '.exp') else []
    return ans, summ

def model_lines(lines):
    rc, got = sh([DRIVER], stdin=None, timeout=600) if False else (0, '')
    p = os.path.join(WORK, f'replay_{os.getpid()}.mreq')
    with open(p, 'w') as f: f.write('\n'.join(lines) + '\n')
    with open(p) as f:
        rc, got = sh([DRIVER], stdin=f, timeout=600)
    return got.splitlines()

def shrink(geom, lines, pred, budget=150):
    """ddmin over request lines (first two lines = geom/new are kept)"""
    head, body = lines[:2], lines[2:]
    n = 2
    tries = 0
    while len(body) >= 2 and tries < budget:
        chunk = max(1, len(body) // n)
        reduced = False
        for i in range(0, len(body), chunk):
            cand = body[:i] + body[i + chunk:]
            tries += 1
            if pred(head + cand):
                body = cand; n = max(n - 1, 2); reduced = True; break
            if tries >= budget: break
        if not reduced:
            if chunk == 1: break
            n = min(n * 2, len(body))
    return head + body

# ------------------------------------------------------------------ known findings
def load_known():
    p = os.path.join(ROOT, 'known_findings.json')
    if not os.path.exists(p): return []
    return [k for k in json.load(open(p)).get('findings', []) if k.get('status') == 'known']

def is_known(prop, msg, known):
    for k in known:
        if k['property'] == prop and re.search(k['signature'], msg):
            return k
    return None

# ------------------------------------------------------------------ main
def main():
    if len(sys.argv) < 2 or sys.argv[1] not in PROPS:
        print('usage: check.py <property> [--tier quick|thorough] [--replay FILE]; properties: ' + ' '.join(sorted(PROPS)))
        sys.exit(2)
    prop = sys.argv[1]
    tier = 'quick'
    if '--tier' in sys.argv: tier = sys.argv[sys.argv.index('--tier') + 1]
    tier = os.environ.get('VERIF_TIER', tier)
    if tier not in ('quick', 'thorough'): tier = 'quick'
    seed = int(os.environ.get('VERIF_SEED', '1') or '1')
    spec = PROPS[prop]
    t0 = time.time()
    os.makedirs(os.path.join(ROOT, 'evidence'), exist_ok=True)
    os.makedirs(os.path.join(ROOT, 'replays'), exist_ok=True)

    if '--replay' in sys.argv:
        rp = json.load(open(sys.argv[sys.argv.index('--replay') + 1]))
        geom = rp.get('geom', 'default')
        ok, out = build_harness(geom)
        if not ok: print(out); sys.exit(2)
        if PROPS[prop].get('replay_bin'):
            # the replay runs the `replay` binary of the *current* tree, not whatever was built last
            with Lock('cargo-replay'):
                rc, out = sh(['cargo', 'build', '-p', 'llfree-eval', '--bin', 'replay', '--offline', '--quiet'], cwd=REPO,
                             env={'CARGO_TARGET_DIR': os.path.join(HARN, 'target-replay')}, timeout=3000)
            if rc != 0: print(out[-2000:]); sys.exit(2)
        if rp.get('kind') == 'schedule':
            rf = os.path.join(WORK, 'replay_sched.txt')
            os.makedirs(WORK, exist_ok=True)
            with open(rf, 'w') as f:
                f.write('\n'.join(rp['scenario']) + '\nschedule ' + ' '.join(str(t) for t in rp['schedule']) + '\n')
            rc, out = sh([harness_bin(geom), 'conc', '--replay', rf, '--out', rf + '.out'], timeout=600)
            try:
                summ = json.loads(out.strip().splitlines()[-1])
            except Exception:
                print(out[-2000:]); sys.exit(2)
            v = [x for x in summ.get('violations', []) if x['prop'] == prop]
            kn = summ.get('known', [])
            print(json.dumps({'violations': [{'prop': x['prop'], 'msg': x['msg']} for x in v], 'known': kn}, indent=1))
            sys.exit(1 if v else 0)
        if rp.get('request_lines'):
            ans, summ = exec_lines(geom, rp['request_lines'])
            v = [x for x in summ.get('violations', []) if x['prop'] == prop]
            print(json.dumps({'answers_tail': ans[-5:], 'violations': v}, indent=1))
            sys.exit(1 if v else 0)
        print('replay file carries no request lines:', rp.get('kind'), rp.get('broken'))
        sys.exit(1)

    problems = []      # (kind, description, replay-dict)
    known = load_known()
    known_hits = []

    gen_ok, gen_out = regenerate()
    # a generator that cannot translate the current source breaks the obligations of the
    # properties whose theorems import its module (the stale module is not trusted), not of others
    gen_failed = set(re.findall(r'rs2lean: (\w+): TRANSLATE-ERROR', gen_out))
    if not gen_ok and not gen_failed: gen_failed = {'?'}
    if not gen_ok and (gen_failed & (gen_deps(prop) | {'?'})):
        problems.append(('translator', 'rs2lean could not translate the current source: ' + gen_out.strip()[-600:],
                         {'kind': 'proof', 'broken': 'translator tools/rs2lean.py', 'log': gen_out[-2000:]}))
    pr = prove(prop, tier)
    if not pr['ok']:
        what = pr.get('failed') or pr.get('axioms_not_allowed') or pr.get('forbidden') or pr.get('missing') or 'lake build failed'
        problems.append(('proof', f"proof obligations of {pr['module']} no longer check: {what}",
                         {'kind': 'proof', 'broken': pr['module'], 'theorems': pr['theorems'], 'detail': str(what),
                          'log': pr.get('log', '')[-3000:]}))

    runs = []
    if spec.get('replay_bin'):
        with Lock('cargo-replay'):
            rc, out = sh(['cargo', 'build', '-p', 'llfree-eval', '--bin', 'replay', '--offline', '--quiet'], cwd=REPO,
                         env={'CARGO_TARGET_DIR': os.path.join(HARN, 'target-replay')}, timeout=3000)
        if rc != 0:
            problems.append(('build', 'the replay binary does not build: ' + out[-800:],
                             {'kind': 'correspondence', 'broken': 'cargo build -p llfree-eval --bin replay', 'log': out[-3000:]}))
    geoms = spec['geoms'][tier]
    built = {}
    for g in geoms:
        ok, out = build_harness(g)
        built[g] = ok
        if not ok:
            problems.append(('build', f'harness does not build against the current tree ({g}): ' + out[-800:],
                             {'kind': 'correspondence', 'broken': f'harness build {g}', 'log': out[-3000:]}))
    corpus = []
    cpath = os.path.join(ROOT, 'corpus', prop)
    if os.path.isdir(cpath):
        corpus = sorted(os.listdir(cpath))
    total_lines = 0
    sigs = 0
    oracle_checks = {}
    dist = {}
    samples = []
    impl_viol = []
    mismatches = []
    conc_stats = {}
    for g in geoms:
        if not built.get(g): continue
        # corpus first
        for cf in corpus:
            cj = json.load(open(os.path.join(cpath, cf)))
            if cj.get('geom', 'default') != g: continue
            ans, summ = exec_lines(g, cj['request_lines'])
            got = model_lines(cj['request_lines'])
            total_lines += len(ans)
            for v in summ.get('violations', []):
                if v['prop'] in spec['oracles']:
                    impl_viol.append((g, v, cj['request_lines'][:v['line']], 'corpus:' + cf))
            for i, (a, b) in enumerate(zip(ans, got)):
                if norm(a) != norm(b):
                    mismatches.append((g, {'line': i, 'impl': a, 'model': b}, cj['request_lines'][:i + 1], 'corpus:' + cf)); break
        for ri, run in enumerate(spec['runs'][tier]):
            if run.get('geoms') and g not in run['geoms']: continue
            r = run_scope(prop, g, run, seed * 1000 + ri, f'r{ri}')
            runs.append({k: r.get(k) for k in ('args', 'geom', 'ok', 'lines', 'wall_s', 'error')})
            if r.get('error'):
                if r.get('hang') and 'C21' in spec['oracles']:
                    problems.append(('oracle', 'C21: ' + r['hang'],
                                     {'kind': 'command', 'geom': g, 'violation': {'prop': 'C21', 'msg': r['hang']},
                                      'command': [harness_bin(g)] + [a.replace('{seed}', str(seed * 1000 + ri)) for a in run['args']],
                                      'replay_cmd': 'run the command: the watchdog ends it with exit 78 and names the call that hangs'}))
                elif r.get('guard') and 'C18' in spec['oracles']:
                    problems.append(('oracle', 'C18: ' + r['guard'],
                                     {'kind': 'command', 'geom': g, 'violation': {'prop': 'C18', 'msg': r['guard']},
                                      'command': [harness_bin(g)] + [a.replace('{seed}', str(seed * 1000 + ri)) for a in run['args']],
                                      'replay_cmd': 'run the command: it is killed by the guard page (exit 77)'}))
                else:
                    problems.append(('run', r['error'], {'kind': 'correspondence', 'broken': ' '.join(run['args']), 'log': r['error']}))
                continue
            summ = r['summary']
            if summ.get('guard_hits', 0) and 'C18' in spec['oracles']:
                problems.append(('oracle', f"C18: {summ['guard_hits']} metadata buffer(s) had the bytes in front of them overwritten",
                                 {'kind': 'command', 'geom': g, 'violation': {'prop': 'C18', 'msg': 'canary in front of a metadata buffer overwritten'},
                                  'command': [harness_bin(g)] + [a.replace('{seed}', str(seed * 1000 + ri)) for a in run['args']]}))
            guarded = summ.get('guarded_buffers', 0)
            conc_stats['guarded_buffers'] = conc_stats.get('guarded_buffers', 0) + guarded
            total_lines += r.get('lines', 0)
            sigs += summ.get('distinct_signatures', 0)
            for k, v in summ.get('oracle_checks', {}).items():
                oracle_checks[k] = oracle_checks.get(k, 0) + v
            for k, v in summ.get('results', {}).items():
                dist[k] = dist.get(k, 0) + v
            if len(samples) < 3:
                req = open(r['base'] + '.req').read().splitlines()
                exp = open(r['base'] + '.exp').read().splitlines()
                k = min(len(req), 40)
                samples.append({'geom': g, 'args': run['args'], 'first_lines': [f'{q} => {a}' for q, a in zip(req[:k], exp[:k])]})
            if r['mismatch']:
                pre = history_prefix(r['base'], summ, r['mismatch']['line'])
                mismatches.append((g, r['mismatch'], pre, ' '.join(run['args'])))
            for v in r['violations']:
                if v['prop'] in spec['oracles']:
                    if 'schedule' in v:
                        impl_viol.append((g, v, None, ' '.join(run['args'])))
                    else:
                        pre = history_prefix(r['base'], summ, v['line'] - 1)
                        impl_viol.append((g, v, pre, ' '.join(run['args'])))
            for kmsg in summ.get('known', []):
                # findings the harness classifies itself (K1, K2, K3): the message starts with the id of the entry of
                # known_findings.json; its property is the one listed there (an unlisted id counts against C03)
                kid = kmsg.split()[0] if kmsg.split() else ''
                kprop = next((k['property'] for k in known if k.get('id') == kid), 'C03')
                impl_viol.append((g, {'prop': kprop, 'line': 0, 'msg': kmsg, 'classified': True}, None, ' '.join(run['args'])))
            for key in ('runs', 'events', 'crash_points', 'freeze_runs', 'max_solo_steps'):
                if key in summ:
                    conc_stats[key] = max(conc_stats.get(key, 0), summ[key]) if key == 'max_solo_steps' else conc_stats.get(key, 0) + summ[key]

    # implementation-vs-oracle failures: concrete failing inputs
    replay_path = None
    for (g, v, pre, src) in impl_viol:
        k = is_known(v['prop'], v['msg'], known)
        if k:
            if v['prop'] == prop: known_hits.append((k, v))
            continue
        if v.get('classified') and v['prop'] != prop:
            continue
        if 'schedule' in v:
            problems.append(('oracle', f"{v['prop']}: {v['msg']}",
                             {'kind': 'schedule', 'geom': g, 'scenario': v['scenario'], 'schedule': v['schedule'],
                              'violation': {'prop': v['prop'], 'msg': v['msg']}, 'source': src,
                              'replay_cmd': f'python3 check.py {prop} --replay <this file>'}))
            break
        if pre is None:
            problems.append(('oracle', f"{v['prop']}: {v['msg']}", {'kind': 'oracle', 'geom': g, 'violation': v, 'source': src}))
            break
        def pred(lines, g=g, v=v):
            _, s = exec_lines(g, lines)
            return any(x['prop'] == v['prop'] for x in s.get('violations', []))
        small = shrink(g, pre, pred) if len(pre) > 3 else pre
        problems.append(('oracle', f"{v['prop']}: {v['msg']}",
                         {'kind': 'oracle', 'geom': g, 'request_lines': small, 'violation': v, 'source': src,
                          'replay_cmd': f'python3 check.py {prop} --replay <this file>'}))
        break
    # model-vs-implementation disagreements
    for (g, mm, pre, src) in mismatches:
        problems.append(('correspondence', f"model and implementation disagree at request {mm['line']}: impl `{mm['impl']}` vs model `{mm['model']}`",
                         {'kind': 'correspondence', 'geom': g, 'request_lines': pre, 'disagreement': mm, 'source': src,
                          'broken': 'sequential correspondence S (' + src + ')'}))
        break

    # a proof or the correspondence broke without a concrete failing input so far: search for one
    # (deeper runs of the same scopes with other seeds, time-capped); never replaces the report above
    if problems and not any(p[0] == 'oracle' for p in problems) and not os.environ.get('VERIF_NO_SEARCH'):
        budget = 240 if tier == 'quick' else 900
        ts = time.time()
        found = None
        for rnd in range(3):
            for g in geoms:
                if not built.get(g) or found: continue
                for ri, run in enumerate(spec['runs']['thorough'] + spec['runs']['quick']):
                    if time.time() - ts > budget or found: break
                    r = run_scope(prop, g, run, seed * 1000 + 500 + 37 * rnd + ri, f's{ri}')
                    if r.get('error'): continue
                    for v in r['violations']:
                        if v['prop'] in spec['oracles'] and not is_known(v['prop'], v['msg'], known):
                            pre = None if 'schedule' in v else history_prefix(r['base'], r['summary'], v['line'] - 1)
                            found = (g, v, pre, ' '.join(run['args']))
                            break
        if found:
            g, v, pre, src = found
            if 'schedule' in v:
                problems.append(('oracle', f"{v['prop']}: {v['msg']}",
                                 {'kind': 'schedule', 'geom': g, 'scenario': v['scenario'], 'schedule': v['schedule'],
                                  'violation': {'prop': v['prop'], 'msg': v['msg']}, 'source': 'search: ' + src,
                                  'replay_cmd': f'python3 check.py {prop} --replay <this file>'}))
            else:
                def pred2(lines, g=g, v=v):
                    _, s2 = exec_lines(g, lines)
                    return any(x['prop'] == v['prop'] for x in s2.get('violations', []))
                small = shrink(g, pre, pred2) if pre and len(pre) > 3 else pre
                problems.append(('oracle', f"{v['prop']}: {v['msg']}",
                                 {'kind': 'oracle', 'geom': g, 'request_lines': small, 'violation': v, 'source': 'search: ' + src,
                                  'replay_cmd': f'python3 check.py {prop} --replay <this file>'}))

    seen_known = set()
    for k, v in known_hits:
        if k['id'] in seen_known: continue
        seen_known.add(k['id'])
        print(f"KNOWN-FINDING: property={prop} {k['id']}: {v['msg']}")

    wall = round(time.time() - t0, 2)
    nthm = len(pr['theorems'])
    discharged = len([t for t in pr['theorems'] if t in pr['axioms']]) if pr['ok'] else 0
    ev = {
        'property_id': prop, 'tier': tier, 'seed': seed, 'level': 'proof',
        'coverage': {
            'obligations': max(nthm, 1), 'discharged': discharged,
            'checker_cmd': f'cd lean && lake build LLFreeV.Props.{prop} && lake env lean .work/audit_{prop}.lean (#print axioms)' + (' && lake env leanchecker' if tier == 'thorough' else ''),
            'trusted_base': ['Lean 4.33 kernel', 'axioms: ' + ', '.join(sorted({a for ax in pr['axioms'].values() for a in ax})),
                             'tools/rs2lean.py (translator for Gen/*)', 'harness + driver line protocol (correspondence)'],
            'theorems': pr['theorems'], 'axioms': pr['axioms'],
            'generated_modules': sorted(gen_deps(prop)),   # Gen/*.lean regenerated from /repo in this run, in the import closure
            'evaluations': total_lines, 'distinct_nontrivial': sigs,
            'rule': spec['rule'],
            'samples': samples or [{'note': 'no correspondence run'}],
            'traces_validated_against_impl': len([r for r in runs if r['ok']]),
            'programs': len(runs), 'disagreements_checked': total_lines,
            'oracle_checks': oracle_checks, 'result_distribution': dist,
            'runs': runs, 'proof_build_s': pr.get('build_s'), 'leanchecker': pr.get('leanchecker'),
            'model_vs_impl_disagreements': len(mismatches), 'impl_vs_oracle_failures': len(impl_viol),
            'known_findings_hit': [k['id'] for k, _ in known_hits],
            'partial': spec.get('partial', ''),
            'concurrent_exploration': conc_stats,
        },
        'assumptions': spec.get('assumptions', []),
        'wall_s': wall, 'violations': len(problems),
    }
    with open(os.path.join(ROOT, 'evidence', prop + '.json'), 'w') as f:
        json.dump(ev, f, indent=1)

    if problems:
        kinds = [p[0] for p in problems]
        # prefer a concrete failing input as the replay
        best = next((p for p in problems if p[0] == 'oracle'), problems[0])
        rp = dict(best[2]); rp['property'] = prop; rp['seed'] = seed; rp['tier'] = tier
        rp['all_problems'] = [{'kind': p[0], 'what': p[1][:500]} for p in problems]
        path = os.path.join(ROOT, 'replays', f'{prop}-{seed}.json')
        with open(path, 'w') as f: json.dump(rp, f, indent=1)
        for p in problems: print(f'[{p[0]}] {p[1][:400]}')
        suffix = '' if any(k == 'oracle' for k in kinds) else ' no-failing-input-found'
        print(f'VIOLATION property={prop} replay={path}{suffix}')
        sys.exit(1)
    print(f'OK {prop} tier={tier} theorems={nthm} lines={total_lines} wall={wall}s')
    sys.exit(0)

if __name__ == '__main__':
    main()
