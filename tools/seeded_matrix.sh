#!/bin/sh
# usage: seeded_matrix.sh [dir-prefix]  — apply every seeded change (whose directory name starts with the prefix) in turn,
# run the checks its meta.json names (quick tier), record the outcome in seeded/RESULTS.txt
cd /verif
out=seeded/RESULTS.txt
pre=${1:-}
[ -n "$pre" ] && grep -v "^$pre" $out > $out.new 2>/dev/null || : > $out.new
for d in seeded/$pre*/; do
  id=$(basename $d)
  [ -f $d/patch.diff ] || continue
  props=$(python3 -c "import json;print(' '.join(json.load(open('$d/meta.json'))['run_props']))")
  git -C /repo apply /verif/$d/patch.diff || { echo "$id: patch does not apply" >> $out.new; continue; }
  for p in $props; do
    python3 /verif/check.py $p --tier quick > /tmp/matrix_${id}_$p.log 2>&1
    rc=$?
    line=$(grep -E '^VIOLATION|^OK' /tmp/matrix_${id}_$p.log | head -1)
    why=$(grep -E '^\[(oracle|proof|correspondence|run|build)' /tmp/matrix_${id}_$p.log | head -2 | cut -c1-220 | tr '\n' ' ')
    echo "$id $p exit=$rc $line :: $why" >> $out.new
  done
  git -C /repo checkout -- .
done
sort $out.new > $out; rm -f $out.new
# leave the tree and the build outputs in the unchanged state
sh /verif/setup.sh > /dev/null 2>&1
