#!/usr/bin/env python3
"""rs2lean: regenerate the Lean modules `LLFreeV/Gen/*.lean` from the Rust sources in /repo.

A deliberately small translator for *scalar leaf code*: constants, bit-field layouts and pure
functions whose bodies stay inside a whitelisted expression subset (let / if / match on
literals with guards / integer and bit operators / a fixed table of method calls).
Anything outside the subset is a hard error (exit 2): the proof obligation is then *broken*,
never guessed.

Two typing modes:
  * mode 'bv'  : every integer is a `BitVec 64` (bit twiddling on u64; u32 values are kept
                 zero-extended, which preserves ==, <, and their use as shift amounts);
                 a trailing `as _`/`as usize` in result position converts with `.toNat`.
  * mode 'nat' : every integer is a `Nat` (counters); `a - b` is emitted as checked
                 subtraction via `LLFree.Gen.csub` only where the source uses it unguarded.
"""
import re, sys, os

class TranslateError(Exception):
    pass

# ------------------------------------------------------------------ tokenizer
TOK = re.compile(r"""
    (?P<ws>\s+|//[^\n]*)
  | (?P<num>0x[0-9a-fA-F_]+|0b[01_]+|[0-9][0-9_]*)(?P<suf>_?(?:u8|u16|u32|u64|usize|i32|i64|isize))?
  | (?P<id>[A-Za-z_][A-Za-z0-9_]*)
  | (?P<op>\.\.=|<<=|>>=|=>|==|!=|<=|>=|&&|\|\||<<|>>|::|->|[-+*/%&|^!<>=.,;:(){}\[\]@?])
""", re.X)

def tokenize(src):
    out = []; pos = 0
    while pos < len(src):
        m = TOK.match(src, pos)
        if not m:
            raise TranslateError(f"cannot tokenize at: {src[pos:pos+40]!r}")
        pos = m.end()
        if m.group('ws'): continue
        if m.group('num'):
            txt = m.group('num').replace('_', '')
            val = int(txt, 0)
            out.append(('num', val))
        elif m.group('id'):
            out.append(('id', m.group('id')))
        else:
            out.append(('op', m.group('op')))
    out.append(('eof', None))
    return out

# ------------------------------------------------------------------ parser (AST = tuples)
class P:
    def __init__(self, toks): self.t = toks; self.i = 0
    def peek(self, k=0): return self.t[self.i + k]
    def next(self): x = self.t[self.i]; self.i += 1; return x
    def accept(self, kind, val=None):
        k, v = self.peek()
        if k == kind and (val is None or v == val):
            self.i += 1; return True
        return False
    def expect(self, kind, val=None):
        k, v = self.next()
        if k != kind or (val is not None and v != val):
            raise TranslateError(f"expected {kind} {val!r}, got {k} {v!r} (token {self.i})")
        return v

    # block: { stmt* expr? }
    def block(self):
        self.expect('op', '{')
        stmts = []
        while True:
            if self.accept('op', '}'):
                return ('block', stmts, None)
            if self.peek() == ('id', 'let'):
                self.next()
                mut = self.accept('id', 'mut')
                name = self.pattern()
                if self.accept('op', ':'):
                    self.type_()
                self.expect('op', '=')
                e = self.expr()
                self.expect('op', ';')
                stmts.append(('let', name, e, mut))
                continue
            if self.peek() == ('id', 'return'):
                self.next()
                e = self.expr()
                self.accept('op', ';')
                stmts.append(('return', e))
                continue
            e = self.expr()
            if self.accept('op', ';'):
                stmts.append(('expr', e)); continue
            if self.accept('op', '}'):
                return ('block', stmts, e)
            # block-like expressions as statements without ';'
            if e[0] in ('if', 'match', 'block'):
                stmts.append(('expr', e)); continue
            raise TranslateError(f"unexpected token after expression: {self.peek()}")

    def type_(self):
        # skip a simple type
        depth = 0
        while True:
            k, v = self.peek()
            if k == 'op' and v in ('<', '('): depth += 1
            elif k == 'op' and v in ('>', ')'):
                if depth == 0: return
                depth -= 1
            elif k == 'op' and v in ('=', ';', ',', '{') and depth == 0: return
            elif k == 'eof': return
            self.next()

    def pattern(self):
        k, v = self.peek()
        if self.accept('op', '('):
            items = []
            while not self.accept('op', ')'):
                items.append(self.pattern()); self.accept('op', ',')
            return ('ptuple', items)
        if k == 'num':
            self.next()
            if self.accept('op', '..='):
                hi = self.expect('num'); return ('prange', v, hi)
            return ('pnum', v)
        if k == 'id':
            self.next()
            name = v
            while self.accept('op', '::'):
                name += '::' + self.expect('id')
            if self.accept('op', '('):
                items = []
                while not self.accept('op', ')'):
                    items.append(self.pattern()); self.accept('op', ',')
                return ('pctor', name, items)
            if name == '_': return ('pwild',)
            if '::' in name or name[0].isupper(): return ('pctor', name, [])
            return ('pvar', name)
        raise TranslateError(f"pattern: {k} {v}")

    PREC = [('||',), ('&&',), ('==', '!=', '<', '>', '<=', '>='), ('|',), ('^',), ('&',),
            ('<<', '>>'), ('+', '-'), ('*', '/', '%')]

    def expr(self, lvl=0, nostruct=False):
        if lvl == len(self.PREC):
            return self.cast(nostruct)
        lhs = self.expr(lvl + 1, nostruct)
        while self.peek()[0] == 'op' and self.peek()[1] in self.PREC[lvl]:
            # a closure `|| e` never follows an operand, so `||`/`|` here are binary
            op = self.next()[1]
            rhs = self.expr(lvl + 1, nostruct)
            lhs = ('bin', op, lhs, rhs)
        return lhs

    def cast(self, nostruct):
        e = self.unary(nostruct)
        while self.peek() == ('id', 'as'):
            self.next()
            k, v = self.next()
            e = ('cast', e, v)
        return e

    def unary(self, nostruct):
        if self.accept('op', '!'): return ('not', self.unary(nostruct))
        if self.accept('op', '-'): return ('neg', self.unary(nostruct))
        if self.accept('op', '*'): return self.unary(nostruct)   # deref: transparent
        if self.accept('op', '&'): return self.unary(nostruct)   # borrow: transparent
        return self.postfix(nostruct)

    def args(self):
        a = []
        while not self.accept('op', ')'):
            a.append(self.expr()); self.accept('op', ',')
        return a

    def postfix(self, nostruct):
        e = self.primary(nostruct)
        while True:
            if self.accept('op', '.'):
                k, v = self.next()
                if k == 'num':
                    e = ('field', e, str(v)); continue
                if self.accept('op', '('):
                    e = ('mcall', e, v, self.args())
                else:
                    e = ('field', e, v)
            elif self.accept('op', '?'):
                e = ('try', e)
            elif self.peek() == ('op', '(') and e[0] in ('path',):
                self.next()
                e = ('call', e[1], self.args())
            else:
                return e

    def primary(self, nostruct):
        k, v = self.peek()
        if k == 'num':
            self.next(); return ('num', v)
        if k == 'op' and v == '(':
            self.next()
            items = []
            if self.accept('op', ')'): return ('tuple', [])
            items.append(self.expr())
            if self.accept('op', ')'): return items[0]
            while self.accept('op', ','):
                if self.peek() == ('op', ')'): break
                items.append(self.expr())
            self.expect('op', ')')
            return ('tuple', items)
        if k == 'op' and v == '{':
            return self.block()
        if k == 'op' and v in ('||', '|'):
            # closure without / with parameters
            self.next()
            params = []
            if v == '|':
                while not self.accept('op', '|'):
                    params.append(self.pattern()); self.accept('op', ',')
            body = self.expr()
            return ('closure', params, body)
        if k == 'id' and v == 'if':
            self.next()
            if self.peek() == ('id', 'let'):
                raise TranslateError("if let is outside the subset")
            c = self.expr(nostruct=True)
            th = self.block()
            el = None
            if self.accept('id', 'else'):
                if self.peek() == ('id', 'if'): el = self.primary(nostruct)
                else: el = self.block()
            return ('if', c, th, el)
        if k == 'id' and v == 'match':
            self.next()
            scrut = self.expr(nostruct=True)
            self.expect('op', '{')
            arms = []
            while not self.accept('op', '}'):
                pats = [self.pattern()]
                while self.accept('op', '|'): pats.append(self.pattern())
                guard = None
                if self.accept('id', 'if'): guard = self.expr()
                self.expect('op', '=>')
                body = self.expr()
                self.accept('op', ',')
                arms.append((pats, guard, body))
            return ('match', scrut, arms)
        if k == 'id' and v == 'return':
            self.next()
            return ('ret', self.expr())
        if k == 'id':
            self.next()
            name = v
            while self.accept('op', '::'):
                name += '::' + self.expect('id')
            if name.endswith('!'):
                pass
            if self.peek() == ('op', '!'):  # macro call
                self.next(); self.expect('op', '(')
                depth = 1; toks = []
                while depth:
                    kk, vv = self.next()
                    if (kk, vv) == ('op', '('): depth += 1
                    elif (kk, vv) == ('op', ')'): depth -= 1
                    if depth: toks.append((kk, vv))
                return ('macro', name, toks)
            return ('path', name)
        raise TranslateError(f"primary: unexpected {k} {v!r}")

# ------------------------------------------------------------------ source extraction
def read(path):
    with open(path) as f: return f.read()

def extract_fn(src, name, within=None):
    """Return (params, body_source) of `fn name(...)` (optionally after the marker `within`)."""
    start = 0
    if within:
        start = src.find(within)
        if start < 0: raise TranslateError(f"marker {within!r} not found")
    m = re.compile(r"\bfn\s+" + re.escape(name) + r"\s*(<[^>]*>)?\s*\(").search(src, start)
    if not m: raise TranslateError(f"fn {name} not found")
    i = m.end(); depth = 1
    while depth:
        c = src[i]
        depth += (c == '(') - (c == ')'); i += 1
    params = src[m.end():i - 1]
    j = src.index('{', i)
    depth = 0; k = j
    while True:
        c = src[k]
        if c == '{': depth += 1
        elif c == '}':
            depth -= 1
            if depth == 0: break
        k += 1
    return params, src[j:k + 1]

def const_expr(src, name):
    m = re.search(r"\bconst\s+" + re.escape(name) + r"\s*:\s*[A-Za-z0-9_]+\s*=\s*(.*?);", src, re.S)
    if not m: raise TranslateError(f"const {name} not found")
    return m.group(1).strip()

# ------------------------------------------------------------------ Lean emission
class Emit:
    def __init__(self, mode, consts=None, methods=None, paths=None):
        self.mode = mode
        self.consts = consts or {}
        self.methods = methods or {}
        self.paths = paths or {}

    def lit(self, v):
        return f"{v}#64" if self.mode == 'bv' else str(v)

    def ex(self, e, want=None):
        """emit expression; want='nat' converts a bv value in result position"""
        k = e[0]
        if k == 'num': return str(e[1]) if want == 'nat' else self.lit(e[1])
        if k == 'path':
            n = e[1]
            if n == 'None': return 'none'
            if n in self.paths: return self.paths[n]
            if n in self.consts: return self.consts[n]
            if re.fullmatch(r"[a-z_][a-z0-9_]*", n): return n
            raise TranslateError(f"unknown path {n}")
        if k == 'not':
            if self.mode == 'bv' and not self.is_bool(e[1]): return f"(~~~{self.ex(e[1])})"
            return f"(!{self.ex(e[1])})"
        if k == 'cast':
            inner, ty = e[1], e[2]
            if self.mode == 'bv':
                if ty == 'u32': return f"({self.ex(inner)} &&& 0xffffffff#64)"
                if ty in ('_', 'usize', 'u64'):
                    return f"({self.ex(inner)}).toNat" if want == 'nat' else self.ex(inner)
                raise TranslateError(f"cast to {ty}")
            if ty in ('_', 'usize', 'u64', 'u32', 'u8'):
                return self.ex(inner)
            raise TranslateError(f"cast to {ty}")
        if k == 'bin':
            op, a, b = e[1], e[2], e[3]
            A, B = self.ex(a), self.ex(b)
            if self.mode == 'bv':
                m = {'|': '|||', '&': '&&&', '^': '^^^', '<<': '<<<', '>>': '>>>', '+': '+', '-': '-',
                     '==': '==', '!=': '!=', '<': '<', '<=': '≤', '>': '>', '>=': '≥', '&&': '&&', '||': '||'}
            else:
                m = {'+': '+', '*': '*', '/': '/', '%': '%', '==': '==', '!=': '!=', '<': '<', '<=': '≤',
                     '>': '>', '>=': '≥', '&&': '&&', '||': '||', '<<': '<<<', '>>': '>>>', '-': '-'}
            if op not in m: raise TranslateError(f"operator {op} in mode {self.mode}")
            if op in ('<', '<=', '>', '>='):
                return f"(decide ({A} {m[op]} {B}))"
            return f"({A} {m[op]} {B})"
        if k == 'tuple':
            if not e[1]: return "()"
            items = e[1]
            # result tuples: the last component of (value, offset) is a usize
            parts = [self.ex(x, want=('nat' if (self.mode == 'bv' and i == len(items) - 1) else None))
                     for i, x in enumerate(items)]
            return "(" + ", ".join(parts) + ")"
        if k == 'call':
            f = e[1]
            if f == 'Some': return f"(some {self.ex(e[2][0])})"
            if f in self.paths: return "(" + self.paths[f] + " " + " ".join(self.ex(a) for a in e[2]) + ")"
            raise TranslateError(f"call {f}")
        if k == 'mcall':
            recv, name, args = e[1], e[2], e[3]
            R = self.ex(recv)
            if self.mode == 'bv':
                if name == 'trailing_ones' and not args: return f"(BitVec.ctz (~~~{R}))"
                if name == 'trailing_zeros' and not args: return f"(BitVec.ctz {R})"
                if name == 'wrapping_sub': return f"({R} - {self.ex(args[0])})"
            if name == 'then':
                if args[0][0] != 'closure' or args[0][1]: raise TranslateError("then: closure expected")
                return f"(if {R} then some {self.ex(args[0][2])} else none)"
            if name == 'then_some':
                return f"(if {R} then some {self.ex(args[0])} else none)"
            if name in self.methods:
                return self.methods[name](R, [self.ex(a) for a in args])
            raise TranslateError(f"method .{name}() is outside the subset")
        if k == 'if':
            c = self.ex(e[1])
            th = self.blk(e[2])
            el = self.blk(e[3]) if e[3] is not None and e[3][0] == 'block' else (self.ex(e[3]) if e[3] else "()")
            return f"(if {c} then {th} else {el})"
        if k == 'block':
            return self.blk(e)
        if k == 'macro':
            if e[1] == 'unreachable': return "none" if self.mode == 'bv' else "default"
            raise TranslateError(f"macro {e[1]}!")
        if k == 'match':
            return self.match(e)
        if k == 'field':
            return f"{self.ex(e[1])}.{e[2]}"
        raise TranslateError(f"expression kind {k}")

    def is_bool(self, e):
        return e[0] == 'bin' and e[1] in ('==', '!=', '<', '<=', '>', '>=', '&&', '||') \
            or (e[0] == 'mcall' and e[2] in ('huge', 'reserved', 'present'))

    def blk(self, b):
        stmts, tail = b[1], b[2]
        out = ""
        for s in stmts:
            if s[0] == 'let':
                if s[1][0] != 'pvar': raise TranslateError("let pattern")
                out += f"let {s[1][1]} := {self.ex(s[2])}; "
            elif s[0] == 'return':
                # only as the last statement of a block (then it is the value)
                if s is not stmts[-1] or tail is not None:
                    raise TranslateError("early return inside a block is handled by the caller")
                return "(" + out + self.ex(s[1]) + ")"
            else:
                raise TranslateError(f"statement {s[0]}")
        if tail is None: raise TranslateError("block without value")
        return "(" + out + self.ex(tail) + ")"

    def match(self, e):
        scrut = self.ex(e[1])
        # literal arms become an if-chain on the scrutinee; a `_` arm is the else
        out = ""; closing = ""
        for pats, guard, body in e[2]:
            conds = []
            for p in pats:
                if p[0] == 'pnum': conds.append(f"{scrut} == {p[1]}")
                elif p[0] == 'pwild': conds.append(None)
                elif p[0] == 'pvar':
                    # `f if cond`: bind
                    conds.append(('bind', p[1]))
                else: raise TranslateError(f"match pattern {p[0]}")
            if guard is not None:
                if len(conds) != 1 or not (isinstance(conds[0], tuple)):
                    raise TranslateError("guard only on binding patterns")
                name = conds[0][1]
                out += f"(let {name} := {scrut}; if {self.ex(guard)} then {self.ex(body)} else "
                closing += ")"
            elif conds == [None] or (len(conds) == 1 and isinstance(conds[0], tuple)):
                out += self.ex(body)
                return "(" + out + closing + ")"
            else:
                out += f"(if {' || '.join(conds)} then {self.ex(body)} else "
                closing += ")"
        raise TranslateError("match without catch-all arm")

def parse_fn_body(body_src):
    p = P(tokenize(body_src))
    b = p.block()
    return b

# ------------------------------------------------------------------ generators
def gen_fza(repo):
    src = read(os.path.join(repo, 'core/src/bitfield.rs'))
    params, body = extract_fn(src, 'first_zeros_aligned')
    if re.sub(r"\s+", "", params) != "v:u64,order:usize":
        raise TranslateError(f"first_zeros_aligned: unexpected signature ({params})")
    ast = parse_fn_body(body)
    # body must be a single `match order { 0 => .., …, _ => unreachable!() }`
    if ast[1] or ast[2][0] != 'match' or ast[2][1] != ('path', 'order'):
        raise TranslateError("first_zeros_aligned: body is not `match order {..}`")
    em = Emit('bv', paths={'u64::BITS': '64#64', 'u64::MAX': '(BitVec.allOnes 64)'})
    arms = ast[2][2]
    lines = []
    orders = []
    for pats, guard, bodye in arms:
        if guard is not None: raise TranslateError("fza: guard")
        if pats[0][0] == 'pwild':
            if bodye[0] != 'macro' or bodye[1] != 'unreachable':
                raise TranslateError("fza: catch-all arm must be unreachable!()")
            continue
        if len(pats) != 1 or pats[0][0] != 'pnum': raise TranslateError("fza: pattern")
        o = pats[0][1]; orders.append(o)
        lines.append((o, em.ex(bodye)))
    if orders != list(range(0, 7)):
        raise TranslateError(f"fza: expected arms 0..=6, got {orders}")
    out = ["/- GENERATED by tools/rs2lean.py from core/src/bitfield.rs — do not edit. -/",
           "namespace LLFree.Gen", ""]
    for o, txt in lines:
        out.append(f"/-- `first_zeros_aligned(v, {o})` -/")
        out.append(f"def fza{o} (v : BitVec 64) : Option (BitVec 64 × Nat) :=\n  {txt}\n")
    out.append("/-- `first_zeros_aligned`; orders above 6 are `unreachable!()` in the source. -/")
    out.append("def fza (v : BitVec 64) (order : Nat) : Option (BitVec 64 × Nat) :=")
    out.append("  match order with")
    for o, _ in lines:
        out.append(f"  | {o} => fza{o} v")
    out.append("  | _ => none")
    out.append("\nend LLFree.Gen")
    return "\n".join(out) + "\n"

def eval_const(expr, env):
    """tiny evaluator for constant expressions (ints, names, + - * / << >>, ilog2, cfg!)"""
    e = expr
    e = re.sub(r"\bas\s+(usize|_|u32|u64)\b", "", e)
    e = re.sub(r"(\w+)\.ilog2\(\)", r"ilog2(\1)", e)
    e = re.sub(r"\b([A-Za-z_]\w*)::([A-Z_]+)\b", r"\1__\2", e)
    e = re.sub(r"0x[0-9a-fA-F_]+|[0-9][0-9_]*", lambda m: str(int(m.group(0).replace('_', ''), 0)), e)
    e = e.replace('/', '//')
    if not re.fullmatch(r"[\w\s+\-*/()<>]*", e):
        raise TranslateError(f"constant expression outside subset: {expr}")
    return eval(e, {"__builtins__": {}, "ilog2": lambda x: x.bit_length() - 1}, env)

def gen_consts(repo):
    lib = read(os.path.join(repo, 'core/src/lib.rs'))
    out = ["/- GENERATED by tools/rs2lean.py from core/src/{lib,trees,local,lower,wrapper}.rs — do not edit. -/",
           "namespace LLFree.Gen", ""]
    # HUGE_ORDER / FRAME_SIZE: `if cfg!(feature = "16K") { a } else { b }`
    def cfg16(name):
        e = const_expr(lib, name)
        m = re.fullmatch(r'if\s+cfg!\(feature\s*=\s*"16K"\)\s*\{\s*([0-9a-fx_]+)\s*\}\s*else\s*\{\s*([0-9a-fx_]+)\s*\}', e)
        if not m: raise TranslateError(f"{name}: unexpected form {e}")
        return int(m.group(1).replace('_', ''), 0), int(m.group(2).replace('_', ''), 0)
    ho16, ho = cfg16('HUGE_ORDER'); fs16, fs = cfg16('FRAME_SIZE')
    out.append(f"def hugeOrder (k16 : Bool) : Nat := if k16 then {ho16} else {ho}")
    out.append(f"def frameSize (k16 : Bool) : Nat := if k16 then {fs16} else {fs}")
    # TREE_HUGE table
    e = const_expr(lib, 'TREE_HUGE')
    m = re.fullmatch(r"cfg_select!\s*\{(.*)\}", e, re.S)
    if not m: raise TranslateError("TREE_HUGE: not a cfg_select!")
    table = []; dflt = None
    for arm in m.group(1).split(','):
        arm = arm.strip()
        if not arm: continue
        mm = re.fullmatch(r'feature\s*=\s*"tree_huge_(\d+)"\s*=>\s*(\d+)', arm)
        if mm:
            table.append((int(mm.group(1)), int(mm.group(2)))); continue
        mm = re.fullmatch(r'_\s*=>\s*(\d+)', arm)
        if mm: dflt = int(mm.group(1)); continue
        raise TranslateError(f"TREE_HUGE arm: {arm}")
    out.append("/-- (feature suffix, value) of `TREE_HUGE`, in `cfg_select!` order -/")
    out.append("def treeHugeTable : List (Nat × Nat) := [" + ", ".join(f"({a}, {b})" for a, b in table) + "]")
    out.append(f"def treeHugeDefault : Nat := {dflt}")
    env = {}
    for name in ('BITFIELD_ROW', 'RETRIES'):
        env[name] = eval_const(const_expr(lib, name), env)
    out.append(f"def bitfieldRow : Nat := {env['BITFIELD_ROW']}")
    out.append(f"def retries : Nat := {env['RETRIES']}")
    # derived constant definitions, as expressions over hugeOrder / treeHuge
    for name, want in (('TREE_FRAMES', 'TREE_HUGE << HUGE_ORDER'), ('TREE_ORDER', 'TREE_FRAMES.ilog2() as usize'),
                       ('HUGE_FRAMES', '1 << HUGE_ORDER')):
        got = re.sub(r"\s+", " ", const_expr(lib, name))
        if got != want: raise TranslateError(f"{name} = {got!r}, the model assumes {want!r}")
    trees = read(os.path.join(repo, 'core/src/trees.rs'))
    got = re.sub(r"\s+", " ", const_expr(trees, 'MIN_FREE'))
    if got != 'TREE_FRAMES / 16': raise TranslateError(f"MIN_FREE = {got}")
    # bit-field layouts
    def layout(src, struct, repr_):
        m = re.search(r"#\[bitfield\(" + repr_ + r"\)\][^{]*struct\s+" + struct + r"\s*\{(.*?)\n\}", src, re.S)
        if not m: raise TranslateError(f"bitfield {struct} not found")
        fields = []; bits = None
        for line in m.group(1).splitlines():
            line = line.strip()
            if not line or line.startswith('//'): continue
            mb = re.fullmatch(r"#\[bits\((\d+)\)\]", line)
            if mb: bits = int(mb.group(1)); continue
            mf = re.fullmatch(r"(?:pub\s+)?(\w+)\s*:\s*([\w:]+),", line)
            if not mf: raise TranslateError(f"{struct}: field line {line!r}")
            ty = mf.group(2)
            w = bits if bits is not None else {'bool': 1, 'u16': 16, 'u32': 32, 'u8': 8}.get(ty)
            if w is None: raise TranslateError(f"{struct}.{mf.group(1)}: width of {ty}")
            fields.append((mf.group(1), w)); bits = None
        return fields
    lay = {
        'Tree': layout(trees, 'Tree', 'u32'),
        'LocalTree': layout(read(os.path.join(repo, 'core/src/local.rs')), 'LocalTree', 'u64'),
        'HugeEntry': layout(read(os.path.join(repo, 'core/src/lower.rs')), 'HugeEntry', 'u16'),
    }
    for s, f in lay.items():
        out.append(f"/-- bit-field layout of `{s}` (LSB first) -/")
        out.append(f"def layout{s} : List (String × Nat) := [" + ", ".join(f'("{n}", {w})' for n, w in f) + "]")
    wr = read(os.path.join(repo, 'core/src/wrapper.rs'))
    magic = eval_const(const_expr(wr, 'MAGIC'), {})
    out.append(f"def metaMagic : Nat := {magic}")
    m = re.search(r"pub const BITS: usize = (\d+);", lib)
    if not m: raise TranslateError("Class::BITS")
    out.append(f"def classBits : Nat := {m.group(1)}")
    out.append("\nend LLFree.Gen")
    return "\n".join(out) + "\n"

def camel(name):
    return name[0].lower() + name[1:]

def gen_leaf(repo):
    """eval/src/classes.rs: enum Count and its two methods (Nat mode)"""
    src = read(os.path.join(repo, 'eval/src/classes.rs'))
    m = re.search(r"\benum\s+Count\s*\{(.*?)\}", src, re.S)
    if not m: raise TranslateError("enum Count not found")
    variants = [v.strip() for v in m.group(1).split(',') if v.strip()]
    for v in variants:
        if not re.fullmatch(r"[A-Z][A-Za-z0-9]*", v): raise TranslateError(f"Count variant {v!r}")
    out = ["/- GENERATED by tools/rs2lean.py from eval/src/classes.rs — do not edit. -/",
           "namespace LLFree.Gen", "",
           "/-- `enum Count` (slot-count kinds of a class configuration) -/",
           "inductive Count where"]
    for v in variants: out.append(f"  | {camel(v)}")
    out.append("deriving Repr, DecidableEq\n")
    out.append("def Count.all : List Count := [" + ", ".join('.' + camel(v) for v in variants) + "]\n")
    methods = {'div_ceil': lambda R, a: f"(({R} + {a[0]} - 1) / {a[0]})"}
    em = Emit('nat', methods=methods)
    def method(name, lean_name, sig, ret):
        params, body = extract_fn(src, name, within='impl Count')
        if re.sub(r"\s+", "", params) != sig:
            raise TranslateError(f"Count::{name}: unexpected signature ({params})")
        ast = parse_fn_body(body)
        if ast[1] or ast[2][0] != 'match' or ast[2][1] != ('path', 'self'):
            raise TranslateError(f"Count::{name}: body is not `match self {{..}}`")
        arms = []
        seen = []
        for pats, guard, bodye in ast[2][2]:
            if guard is not None: raise TranslateError("guard")
            for p in pats:
                if p[0] != 'pctor' or not p[1].startswith('Self::') or p[2]:
                    raise TranslateError(f"Count::{name}: pattern {p}")
                v = p[1][len('Self::'):]
                if v not in variants: raise TranslateError(f"unknown variant {v}")
                seen.append(v)
                arms.append(f"  | .{camel(v)} => {em.ex(bodye)}")
        if sorted(seen) != sorted(variants): raise TranslateError(f"Count::{name}: arms {seen} do not cover {variants}")
        args = " ".join(f"({a.split(':')[0]} : Nat)" for a in sig.split(',')[1:])
        out.append(f"/-- `Count::{name}` -/")
        out.append(f"def Count.{lean_name} (self : Count) {args} : {ret} :=\n  match self with")
        out.extend(arms); out.append("")
    method('to_count', 'toCount', 'self,cores:usize', 'Nat')
    method('to_local', 'toLocal', 'self,core:usize,cores:usize,pid:usize', 'Option Nat')
    out.append("end LLFree.Gen")
    return "\n".join(out) + "\n"

GENERATORS = {'Consts': gen_consts, 'Fza': gen_fza, 'Leaf': gen_leaf}

def write_if_changed(path, txt):
    if os.path.exists(path) and read(path) == txt: return False
    os.makedirs(os.path.dirname(path), exist_ok=True)
    with open(path, 'w') as f: f.write(txt)
    return True

def main():
    repo = sys.argv[1] if len(sys.argv) > 1 else '/repo'
    outdir = sys.argv[2] if len(sys.argv) > 2 else '/verif/lean/LLFreeV/Gen'
    only = sys.argv[3:] or list(GENERATORS)
    rc = 0
    for name in only:
        try:
            txt = GENERATORS[name](repo)
            ch = write_if_changed(os.path.join(outdir, name + '.lean'), txt)
            print(f"rs2lean: {name}: {'updated' if ch else 'unchanged'}")
        except TranslateError as ex:
            print(f"rs2lean: {name}: TRANSLATE-ERROR: {ex}")
            rc = 2
    sys.exit(rc)

if __name__ == '__main__':
    main()
