#!/usr/bin/env python3
"""rs2lean: regenerate the Lean modules `LLFreeV/Gen/*.lean` from the Rust sources in /repo.

A deliberately small translator for *scalar leaf code*: constants, bit-field layouts and pure
functions whose bodies stay inside a whitelisted expression subset (let / if / match on
literals with guards / integer and bit operators / a fixed table of method calls).
Anything outside the subset is a hard error (exit 2): the proof obligation is then *broken*,
never guessed.

The generators `Tree` and `Local` translate whole `impl` blocks of entry methods (`Tree`,
`LocalTree`) at statement level into Lean `do` blocks over `Except String` (see `EntryEmit`).

Two typing modes:
  * mode 'bv'  : every integer is a `BitVec 64` (bit twiddling on u64; u32 values are kept
                 zero-extended, which preserves ==, <, and their use as shift amounts);
                 a trailing `as _`/`as usize` in result position converts with `.toNat`.
  * mode 'nat' : every integer is a `Nat` (counters); `a - b` is emitted as checked
                 subtraction via `LLFree.Gen.csub` only where the source uses it unguarded.
"""
import re, sys, os

class TranslateError(Exception):
    pass

# ------------------------------------------------------------------ tokenizer
TOK = re.compile(r"""
    (?P<ws>\s+|//[^\n]*)
  | (?P<num>0x[0-9a-fA-F_]+|0b[01_]+|[0-9][0-9_]*)(?P<suf>_?(?:u8|u16|u32|u64|usize|i32|i64|isize))?
  | (?P<id>[A-Za-z_][A-Za-z0-9_]*)
  | (?P<op>\.\.=|<<=|>>=|=>|==|!=|<=|>=|&&|\|\||<<|>>|::|->|[-+*/%&|^!<>=.,;:(){}\[\]@?])
""", re.X)

def tokenize(src):
    out = []; pos = 0
    while pos < len(src):
        m = TOK.match(src, pos)
        if not m:
            raise TranslateError(f"cannot tokenize at: {src[pos:pos+40]!r}")
        pos = m.end()
        if m.group('ws'): continue
        if m.group('num'):
            txt = m.group('num').replace('_', '')
            val = int(txt, 0)
            out.append(('num', val))
        elif m.group('id'):
            out.append(('id', m.group('id')))
        else:
            out.append(('op', m.group('op')))
    out.append(('eof', None))
    return out

# ------------------------------------------------------------------ parser (AST = tuples)
class P:
    def __init__(self, toks): self.t = toks; self.i = 0
    def peek(self, k=0): return self.t[self.i + k]
    def next(self): x = self.t[self.i]; self.i += 1; return x
    def accept(self, kind, val=None):
        k, v = self.peek()
        if k == kind and (val is None or v == val):
            self.i += 1; return True
        return False
    def expect(self, kind, val=None):
        k, v = self.next()
        if k != kind or (val is not None and v != val):
            raise TranslateError(f"expected {kind} {val!r}, got {k} {v!r} (token {self.i})")
        return v

    # block: { stmt* expr? }
    def block(self):
        self.expect('op', '{')
        stmts = []
        while True:
            if self.accept('op', '}'):
                return ('block', stmts, None)
            if self.peek() == ('id', 'let'):
                self.next()
                mut = self.accept('id', 'mut')
                name = self.pattern()
                if self.accept('op', ':'):
                    self.type_()
                self.expect('op', '=')
                e = self.expr()
                self.expect('op', ';')
                stmts.append(('let', name, e, mut))
                continue
            if self.peek() == ('id', 'return'):
                self.next()
                e = self.expr()
                self.accept('op', ';')
                stmts.append(('return', e))
                continue
            e = self.expr()
            if self.accept('op', ';'):
                stmts.append(('expr', e)); continue
            if self.accept('op', '}'):
                return ('block', stmts, e)
            # block-like expressions as statements without ';'
            if e[0] in ('if', 'match', 'block'):
                stmts.append(('expr', e)); continue
            raise TranslateError(f"unexpected token after expression: {self.peek()}")

    def type_(self):
        # skip a simple type
        depth = 0
        while True:
            k, v = self.peek()
            if k == 'op' and v in ('<', '('): depth += 1
            elif k == 'op' and v in ('>', ')'):
                if depth == 0: return
                depth -= 1
            elif k == 'op' and v in ('=', ';', ',', '{') and depth == 0: return
            elif k == 'eof': return
            self.next()

    def pattern(self):
        k, v = self.peek()
        if self.accept('op', '('):
            items = []
            while not self.accept('op', ')'):
                items.append(self.pattern()); self.accept('op', ',')
            return ('ptuple', items)
        if k == 'num':
            self.next()
            if self.accept('op', '..='):
                hi = self.expect('num'); return ('prange', v, hi)
            return ('pnum', v)
        if k == 'id':
            self.next()
            name = v
            while self.accept('op', '::'):
                name += '::' + self.expect('id')
            if self.accept('op', '('):
                items = []
                while not self.accept('op', ')'):
                    items.append(self.pattern()); self.accept('op', ',')
                return ('pctor', name, items)
            if name == '_': return ('pwild',)
            if '::' in name or name[0].isupper(): return ('pctor', name, [])
            return ('pvar', name)
        raise TranslateError(f"pattern: {k} {v}")

    PREC = [('||',), ('&&',), ('==', '!=', '<', '>', '<=', '>='), ('|',), ('^',), ('&',),
            ('<<', '>>'), ('+', '-'), ('*', '/', '%')]

    def expr(self, lvl=0, nostruct=False):
        if lvl == len(self.PREC):
            return self.cast(nostruct)
        lhs = self.expr(lvl + 1, nostruct)
        while self.peek()[0] == 'op' and self.peek()[1] in self.PREC[lvl]:
            # a closure `|| e` never follows an operand, so `||`/`|` here are binary
            op = self.next()[1]
            rhs = self.expr(lvl + 1, nostruct)
            lhs = ('bin', op, lhs, rhs)
        return lhs

    def cast(self, nostruct):
        e = self.unary(nostruct)
        while self.peek() == ('id', 'as'):
            self.next()
            k, v = self.next()
            e = ('cast', e, v)
        return e

    def unary(self, nostruct):
        if self.accept('op', '!'): return ('not', self.unary(nostruct))
        if self.accept('op', '-'): return ('neg', self.unary(nostruct))
        if self.accept('op', '*'): return self.unary(nostruct)   # deref: transparent
        if self.accept('op', '&'): return self.unary(nostruct)   # borrow: transparent
        return self.postfix(nostruct)

    def args(self):
        a = []
        while not self.accept('op', ')'):
            a.append(self.expr()); self.accept('op', ',')
        return a

    def postfix(self, nostruct):
        e = self.primary(nostruct)
        while True:
            if self.accept('op', '.'):
                k, v = self.next()
                if k == 'num':
                    e = ('field', e, str(v)); continue
                if self.accept('op', '('):
                    e = ('mcall', e, v, self.args())
                else:
                    e = ('field', e, v)
            elif self.accept('op', '?'):
                e = ('try', e)
            elif self.peek() == ('op', '(') and e[0] in ('path',):
                self.next()
                e = ('call', e[1], self.args())
            else:
                return e

    def primary(self, nostruct):
        k, v = self.peek()
        if k == 'num':
            self.next(); return ('num', v)
        if k == 'op' and v == '(':
            self.next()
            items = []
            if self.accept('op', ')'): return ('tuple', [])
            items.append(self.expr())
            if self.accept('op', ')'): return items[0]
            while self.accept('op', ','):
                if self.peek() == ('op', ')'): break
                items.append(self.expr())
            self.expect('op', ')')
            return ('tuple', items)
        if k == 'op' and v == '{':
            return self.block()
        if k == 'op' and v in ('||', '|'):
            # closure without / with parameters
            self.next()
            params = []
            if v == '|':
                while not self.accept('op', '|'):
                    params.append(self.pattern()); self.accept('op', ',')
            body = self.expr()
            return ('closure', params, body)
        if k == 'id' and v == 'if':
            self.next()
            if self.peek() == ('id', 'let'):
                raise TranslateError("if let is outside the subset")
            c = self.expr(nostruct=True)
            th = self.block()
            el = None
            if self.accept('id', 'else'):
                if self.peek() == ('id', 'if'): el = self.primary(nostruct)
                else: el = self.block()
            return ('if', c, th, el)
        if k == 'id' and v == 'match':
            self.next()
            scrut = self.expr(nostruct=True)
            self.expect('op', '{')
            arms = []
            while not self.accept('op', '}'):
                pats = [self.pattern()]
                while self.accept('op', '|'): pats.append(self.pattern())
                guard = None
                if self.accept('id', 'if'): guard = self.expr()
                self.expect('op', '=>')
                body = self.expr()
                self.accept('op', ',')
                arms.append((pats, guard, body))
            return ('match', scrut, arms)
        if k == 'id' and v == 'return':
            self.next()
            return ('ret', self.expr())
        if k == 'id':
            self.next()
            name = v
            while self.accept('op', '::'):
                name += '::' + self.expect('id')
            if name.endswith('!'):
                pass
            if self.peek() == ('op', '!'):  # macro call
                self.next(); self.expect('op', '(')
                depth = 1; toks = []
                while depth:
                    kk, vv = self.next()
                    if (kk, vv) == ('op', '('): depth += 1
                    elif (kk, vv) == ('op', ')'): depth -= 1
                    if depth: toks.append((kk, vv))
                return ('macro', name, toks)
            return ('path', name)
        raise TranslateError(f"primary: unexpected {k} {v!r}")

# ------------------------------------------------------------------ source extraction
def read(path):
    with open(path) as f: return f.read()

def extract_fn(src, name, within=None):
    """Return (params, body_source) of `fn name(...)` (optionally after the marker `within`)."""
    start = 0
    if within:
        start = src.find(within)
        if start < 0: raise TranslateError(f"marker {within!r} not found")
    m = re.compile(r"\bfn\s+" + re.escape(name) + r"\s*(<[^>]*>)?\s*\(").search(src, start)
    if not m: raise TranslateError(f"fn {name} not found")
    i = m.end(); depth = 1
    while depth:
        c = src[i]
        depth += (c == '(') - (c == ')'); i += 1
    params = src[m.end():i - 1]
    j = src.index('{', i)
    depth = 0; k = j
    while True:
        c = src[k]
        if c == '{': depth += 1
        elif c == '}':
            depth -= 1
            if depth == 0: break
        k += 1
    return params, src[j:k + 1]

def const_expr(src, name):
    m = re.search(r"\bconst\s+" + re.escape(name) + r"\s*:\s*[A-Za-z0-9_]+\s*=\s*(.*?);", src, re.S)
    if not m: raise TranslateError(f"const {name} not found")
    return m.group(1).strip()

# ------------------------------------------------------------------ Lean emission
class Emit:
    def __init__(self, mode, consts=None, methods=None, paths=None):
        self.mode = mode
        self.consts = consts or {}
        self.methods = methods or {}
        self.paths = paths or {}

    def lit(self, v):
        return f"{v}#64" if self.mode == 'bv' else str(v)

    def ex(self, e, want=None):
        """emit expression; want='nat' converts a bv value in result position"""
        k = e[0]
        if k == 'num': return str(e[1]) if want == 'nat' else self.lit(e[1])
        if k == 'path':
            n = e[1]
            if n == 'None': return 'none'
            if n in self.paths: return self.paths[n]
            if n in self.consts: return self.consts[n]
            if re.fullmatch(r"[a-z_][a-z0-9_]*", n): return n
            raise TranslateError(f"unknown path {n}")
        if k == 'not':
            if self.mode == 'bv' and not self.is_bool(e[1]): return f"(~~~{self.ex(e[1])})"
            return f"(!{self.ex(e[1])})"
        if k == 'cast':
            inner, ty = e[1], e[2]
            if self.mode == 'bv':
                if ty == 'u32': return f"({self.ex(inner)} &&& 0xffffffff#64)"
                if ty in ('_', 'usize', 'u64'):
                    return f"({self.ex(inner)}).toNat" if want == 'nat' else self.ex(inner)
                raise TranslateError(f"cast to {ty}")
            if ty in ('_', 'usize', 'u64', 'u32', 'u8'):
                return self.ex(inner)
            raise TranslateError(f"cast to {ty}")
        if k == 'bin':
            op, a, b = e[1], e[2], e[3]
            A, B = self.ex(a), self.ex(b)
            if self.mode == 'bv':
                m = {'|': '|||', '&': '&&&', '^': '^^^', '<<': '<<<', '>>': '>>>', '+': '+', '-': '-',
                     '==': '==', '!=': '!=', '<': '<', '<=': '≤', '>': '>', '>=': '≥', '&&': '&&', '||': '||'}
            else:
                m = {'+': '+', '*': '*', '/': '/', '%': '%', '==': '==', '!=': '!=', '<': '<', '<=': '≤',
                     '>': '>', '>=': '≥', '&&': '&&', '||': '||', '<<': '<<<', '>>': '>>>', '-': '-'}
            if op not in m: raise TranslateError(f"operator {op} in mode {self.mode}")
            if op in ('<', '<=', '>', '>='):
                return f"(decide ({A} {m[op]} {B}))"
            return f"({A} {m[op]} {B})"
        if k == 'tuple':
            if not e[1]: return "()"
            items = e[1]
            # result tuples: the last component of (value, offset) is a usize
            parts = [self.ex(x, want=('nat' if (self.mode == 'bv' and i == len(items) - 1) else None))
                     for i, x in enumerate(items)]
            return "(" + ", ".join(parts) + ")"
        if k == 'call':
            f = e[1]
            if f == 'Some': return f"(some {self.ex(e[2][0])})"
            if f in self.paths: return "(" + self.paths[f] + " " + " ".join(self.ex(a) for a in e[2]) + ")"
            raise TranslateError(f"call {f}")
        if k == 'mcall':
            recv, name, args = e[1], e[2], e[3]
            R = self.ex(recv)
            if self.mode == 'bv':
                if name == 'trailing_ones' and not args: return f"(BitVec.ctz (~~~{R}))"
                if name == 'trailing_zeros' and not args: return f"(BitVec.ctz {R})"
                if name == 'wrapping_sub': return f"({R} - {self.ex(args[0])})"
            if name == 'then':
                if args[0][0] != 'closure' or args[0][1]: raise TranslateError("then: closure expected")
                return f"(if {R} then some {self.ex(args[0][2])} else none)"
            if name == 'then_some':
                return f"(if {R} then some {self.ex(args[0])} else none)"
            if name in self.methods:
                return self.methods[name](R, [self.ex(a) for a in args])
            raise TranslateError(f"method .{name}() is outside the subset")
        if k == 'if':
            c = self.ex(e[1])
            th = self.blk(e[2])
            el = self.blk(e[3]) if e[3] is not None and e[3][0] == 'block' else (self.ex(e[3]) if e[3] else "()")
            return f"(if {c} then {th} else {el})"
        if k == 'block':
            return self.blk(e)
        if k == 'macro':
            if e[1] == 'unreachable': return "none" if self.mode == 'bv' else "default"
            raise TranslateError(f"macro {e[1]}!")
        if k == 'match':
            return self.match(e)
        if k == 'field':
            return f"{self.ex(e[1])}.{e[2]}"
        raise TranslateError(f"expression kind {k}")

    def is_bool(self, e):
        return e[0] == 'bin' and e[1] in ('==', '!=', '<', '<=', '>', '>=', '&&', '||') \
            or (e[0] == 'mcall' and e[2] in ('huge', 'reserved', 'present'))

    def blk(self, b):
        stmts, tail = b[1], b[2]
        out = ""
        for s in stmts:
            if s[0] == 'let':
                if s[1][0] != 'pvar': raise TranslateError("let pattern")
                out += f"let {s[1][1]} := {self.ex(s[2])}; "
            elif s[0] == 'return':
                # only as the last statement of a block (then it is the value)
                if s is not stmts[-1] or tail is not None:
                    raise TranslateError("early return inside a block is handled by the caller")
                return "(" + out + self.ex(s[1]) + ")"
            else:
                raise TranslateError(f"statement {s[0]}")
        if tail is None: raise TranslateError("block without value")
        return "(" + out + self.ex(tail) + ")"

    def match(self, e):
        scrut = self.ex(e[1])
        # literal arms become an if-chain on the scrutinee; a `_` arm is the else
        out = ""; closing = ""
        for pats, guard, body in e[2]:
            conds = []
            for p in pats:
                if p[0] == 'pnum': conds.append(f"{scrut} == {p[1]}")
                elif p[0] == 'pwild': conds.append(None)
                elif p[0] == 'pvar':
                    # `f if cond`: bind
                    conds.append(('bind', p[1]))
                else: raise TranslateError(f"match pattern {p[0]}")
            if guard is not None:
                if len(conds) != 1 or not (isinstance(conds[0], tuple)):
                    raise TranslateError("guard only on binding patterns")
                name = conds[0][1]
                out += f"(let {name} := {scrut}; if {self.ex(guard)} then {self.ex(body)} else "
                closing += ")"
            elif conds == [None] or (len(conds) == 1 and isinstance(conds[0], tuple)):
                out += self.ex(body)
                return "(" + out + closing + ")"
            else:
                out += f"(if {' || '.join(conds)} then {self.ex(body)} else "
                closing += ")"
        raise TranslateError("match without catch-all arm")

def parse_fn_body(body_src):
    p = P(tokenize(body_src))
    b = p.block()
    return b

# ------------------------------------------------------------------ generators
def gen_fza(repo):
    src = read(os.path.join(repo, 'core/src/bitfield.rs'))
    params, body = extract_fn(src, 'first_zeros_aligned')
    if re.sub(r"\s+", "", params) != "v:u64,order:usize":
        raise TranslateError(f"first_zeros_aligned: unexpected signature ({params})")
    ast = parse_fn_body(body)
    # body must be a single `match order { 0 => .., …, _ => unreachable!() }`
    if ast[1] or ast[2][0] != 'match' or ast[2][1] != ('path', 'order'):
        raise TranslateError("first_zeros_aligned: body is not `match order {..}`")
    em = Emit('bv', paths={'u64::BITS': '64#64', 'u64::MAX': '(BitVec.allOnes 64)'})
    arms = ast[2][2]
    lines = []
    orders = []
    for pats, guard, bodye in arms:
        if guard is not None: raise TranslateError("fza: guard")
        if pats[0][0] == 'pwild':
            if bodye[0] != 'macro' or bodye[1] != 'unreachable':
                raise TranslateError("fza: catch-all arm must be unreachable!()")
            continue
        if len(pats) != 1 or pats[0][0] != 'pnum': raise TranslateError("fza: pattern")
        o = pats[0][1]; orders.append(o)
        lines.append((o, em.ex(bodye)))
    if orders != list(range(0, 7)):
        raise TranslateError(f"fza: expected arms 0..=6, got {orders}")
    out = ["/- GENERATED by tools/rs2lean.py from core/src/bitfield.rs — do not edit. -/",
           "namespace LLFree.Gen", ""]
    for o, txt in lines:
        out.append(f"/-- `first_zeros_aligned(v, {o})` -/")
        out.append(f"def fza{o} (v : BitVec 64) : Option (BitVec 64 × Nat) :=\n  {txt}\n")
    out.append("/-- `first_zeros_aligned`; orders above 6 are `unreachable!()` in the source. -/")
    out.append("def fza (v : BitVec 64) (order : Nat) : Option (BitVec 64 × Nat) :=")
    out.append("  match order with")
    for o, _ in lines:
        out.append(f"  | {o} => fza{o} v")
    out.append("  | _ => none")
    out.append("\nend LLFree.Gen")
    return "\n".join(out) + "\n"

def eval_const(expr, env):
    """tiny evaluator for constant expressions (ints, names, + - * / << >>, ilog2, cfg!)"""
    e = expr
    e = re.sub(r"\bas\s+(usize|_|u32|u64)\b", "", e)
    e = re.sub(r"(\w+)\.ilog2\(\)", r"ilog2(\1)", e)
    e = re.sub(r"\b([A-Za-z_]\w*)::([A-Z_]+)\b", r"\1__\2", e)
    e = re.sub(r"0x[0-9a-fA-F_]+|[0-9][0-9_]*", lambda m: str(int(m.group(0).replace('_', ''), 0)), e)
    e = e.replace('/', '//')
    if not re.fullmatch(r"[\w\s+\-*/()<>]*", e):
        raise TranslateError(f"constant expression outside subset: {expr}")
    return eval(e, {"__builtins__": {}, "ilog2": lambda x: x.bit_length() - 1}, env)

def gen_consts(repo):
    lib = read(os.path.join(repo, 'core/src/lib.rs'))
    out = ["/- GENERATED by tools/rs2lean.py from core/src/{lib,trees,local,lower,wrapper}.rs — do not edit. -/",
           "namespace LLFree.Gen", ""]
    # HUGE_ORDER / FRAME_SIZE: `if cfg!(feature = "16K") { a } else { b }`
    def cfg16(name):
        e = const_expr(lib, name)
        m = re.fullmatch(r'if\s+cfg!\(feature\s*=\s*"16K"\)\s*\{\s*([0-9a-fx_]+)\s*\}\s*else\s*\{\s*([0-9a-fx_]+)\s*\}', e)
        if not m: raise TranslateError(f"{name}: unexpected form {e}")
        return int(m.group(1).replace('_', ''), 0), int(m.group(2).replace('_', ''), 0)
    ho16, ho = cfg16('HUGE_ORDER'); fs16, fs = cfg16('FRAME_SIZE')
    out.append(f"def hugeOrder (k16 : Bool) : Nat := if k16 then {ho16} else {ho}")
    out.append(f"def frameSize (k16 : Bool) : Nat := if k16 then {fs16} else {fs}")
    # TREE_HUGE table
    e = const_expr(lib, 'TREE_HUGE')
    m = re.fullmatch(r"cfg_select!\s*\{(.*)\}", e, re.S)
    if not m: raise TranslateError("TREE_HUGE: not a cfg_select!")
    table = []; dflt = None
    for arm in m.group(1).split(','):
        arm = arm.strip()
        if not arm: continue
        mm = re.fullmatch(r'feature\s*=\s*"tree_huge_(\d+)"\s*=>\s*(\d+)', arm)
        if mm:
            table.append((int(mm.group(1)), int(mm.group(2)))); continue
        mm = re.fullmatch(r'_\s*=>\s*(\d+)', arm)
        if mm: dflt = int(mm.group(1)); continue
        raise TranslateError(f"TREE_HUGE arm: {arm}")
    out.append("/-- (feature suffix, value) of `TREE_HUGE`, in `cfg_select!` order -/")
    out.append("def treeHugeTable : List (Nat × Nat) := [" + ", ".join(f"({a}, {b})" for a, b in table) + "]")
    out.append(f"def treeHugeDefault : Nat := {dflt}")
    env = {}
    for name in ('BITFIELD_ROW', 'RETRIES'):
        env[name] = eval_const(const_expr(lib, name), env)
    out.append(f"def bitfieldRow : Nat := {env['BITFIELD_ROW']}")
    out.append(f"def retries : Nat := {env['RETRIES']}")
    # derived constant definitions, as expressions over hugeOrder / treeHuge
    for name, want in (('TREE_FRAMES', 'TREE_HUGE << HUGE_ORDER'), ('TREE_ORDER', 'TREE_FRAMES.ilog2() as usize'),
                       ('HUGE_FRAMES', '1 << HUGE_ORDER')):
        got = re.sub(r"\s+", " ", const_expr(lib, name))
        if got != want: raise TranslateError(f"{name} = {got!r}, the model assumes {want!r}")
    trees = read(os.path.join(repo, 'core/src/trees.rs'))
    got = re.sub(r"\s+", " ", const_expr(trees, 'MIN_FREE'))
    if got != 'TREE_FRAMES / 16': raise TranslateError(f"MIN_FREE = {got}")
    # bit-field layouts
    def layout(src, struct, repr_):
        m = re.search(r"#\[bitfield\(" + repr_ + r"\)\][^{]*struct\s+" + struct + r"\s*\{(.*?)\n\}", src, re.S)
        if not m: raise TranslateError(f"bitfield {struct} not found")
        fields = []; bits = None
        for line in m.group(1).splitlines():
            line = line.strip()
            if not line or line.startswith('//'): continue
            mb = re.fullmatch(r"#\[bits\((\d+)\)\]", line)
            if mb: bits = int(mb.group(1)); continue
            mf = re.fullmatch(r"(?:pub\s+)?(\w+)\s*:\s*([\w:]+),", line)
            if not mf: raise TranslateError(f"{struct}: field line {line!r}")
            ty = mf.group(2)
            w = bits if bits is not None else {'bool': 1, 'u16': 16, 'u32': 32, 'u8': 8}.get(ty)
            if w is None: raise TranslateError(f"{struct}.{mf.group(1)}: width of {ty}")
            fields.append((mf.group(1), w)); bits = None
        return fields
    lay = {
        'Tree': layout(trees, 'Tree', 'u32'),
        'LocalTree': layout(read(os.path.join(repo, 'core/src/local.rs')), 'LocalTree', 'u64'),
        'HugeEntry': layout(read(os.path.join(repo, 'core/src/lower.rs')), 'HugeEntry', 'u16'),
    }
    for s, f in lay.items():
        out.append(f"/-- bit-field layout of `{s}` (LSB first) -/")
        out.append(f"def layout{s} : List (String × Nat) := [" + ", ".join(f'("{n}", {w})' for n, w in f) + "]")
    wr = read(os.path.join(repo, 'core/src/wrapper.rs'))
    magic = eval_const(const_expr(wr, 'MAGIC'), {})
    out.append(f"def metaMagic : Nat := {magic}")
    m = re.search(r"pub const BITS: usize = (\d+);", lib)
    if not m: raise TranslateError("Class::BITS")
    out.append(f"def classBits : Nat := {m.group(1)}")
    out.append("\nend LLFree.Gen")
    return "\n".join(out) + "\n"

def camel(name):
    return name[0].lower() + name[1:]

def gen_leaf(repo):
    """eval/src/classes.rs: enum Count and its two methods (Nat mode)"""
    src = read(os.path.join(repo, 'eval/src/classes.rs'))
    m = re.search(r"\benum\s+Count\s*\{(.*?)\}", src, re.S)
    if not m: raise TranslateError("enum Count not found")
    variants = [v.strip() for v in m.group(1).split(',') if v.strip()]
    for v in variants:
        if not re.fullmatch(r"[A-Z][A-Za-z0-9]*", v): raise TranslateError(f"Count variant {v!r}")
    out = ["/- GENERATED by tools/rs2lean.py from eval/src/classes.rs — do not edit. -/",
           "namespace LLFree.Gen", "",
           "/-- `enum Count` (slot-count kinds of a class configuration) -/",
           "inductive Count where"]
    for v in variants: out.append(f"  | {camel(v)}")
    out.append("deriving Repr, DecidableEq\n")
    out.append("def Count.all : List Count := [" + ", ".join('.' + camel(v) for v in variants) + "]\n")
    methods = {'div_ceil': lambda R, a: f"(({R} + {a[0]} - 1) / {a[0]})"}
    em = Emit('nat', methods=methods)
    def method(name, lean_name, sig, ret):
        params, body = extract_fn(src, name, within='impl Count')
        if re.sub(r"\s+", "", params) != sig:
            raise TranslateError(f"Count::{name}: unexpected signature ({params})")
        ast = parse_fn_body(body)
        if ast[1] or ast[2][0] != 'match' or ast[2][1] != ('path', 'self'):
            raise TranslateError(f"Count::{name}: body is not `match self {{..}}`")
        arms = []
        seen = []
        for pats, guard, bodye in ast[2][2]:
            if guard is not None: raise TranslateError("guard")
            for p in pats:
                if p[0] != 'pctor' or not p[1].startswith('Self::') or p[2]:
                    raise TranslateError(f"Count::{name}: pattern {p}")
                v = p[1][len('Self::'):]
                if v not in variants: raise TranslateError(f"unknown variant {v}")
                seen.append(v)
                arms.append(f"  | .{camel(v)} => {em.ex(bodye)}")
        if sorted(seen) != sorted(variants): raise TranslateError(f"Count::{name}: arms {seen} do not cover {variants}")
        args = " ".join(f"({a.split(':')[0]} : Nat)" for a in sig.split(',')[1:])
        out.append(f"/-- `Count::{name}` -/")
        out.append(f"def Count.{lean_name} (self : Count) {args} : {ret} :=\n  match self with")
        out.extend(arms); out.append("")
    method('to_count', 'toCount', 'self,cores:usize', 'Nat')
    method('to_local', 'toLocal', 'self,core:usize,cores:usize,pid:usize', 'Option Nat')
    out.append("end LLFree.Gen")
    return "\n".join(out) + "\n"

# ---------------------------------------------------------------------------------------------
# Entry methods: `impl Tree` (trees.rs) and `impl LocalTree` (local.rs).
# Target: do-blocks in `Except String` (a panic is `throw msg`); `Option<Self>` results stay options.
# Subset: let / let mut-free rebinding of `self` through setters / if / if-let on Option /
# match on `Policy` and `Option<TreeOperation>` patterns with guards / early `return None` /
# assert! / panic! / warn! (ignored) / builder chains of bit-field setters.
# ---------------------------------------------------------------------------------------------

RENAME = {'class': 'cls', 'default': 'dflt', 'fetch_free': 'fetchFree', 'new_class': 'newClass', 'self': 'self'}

def camel_id(s):
    parts = s.split('_')
    return parts[0] + ''.join(p.capitalize() for p in parts[1:])

class EntryEmit:
    """statement-level translation into Lean `do` notation"""
    def __init__(self, ty, fields, consts):
        self.ty = ty              # 'Tree' | 'LTree'
        self.fields = fields      # rust field name -> (lean field, bits, kind)
        self.consts = consts      # rust const -> lean term
        self.tmp = 0
        self.pre = []             # hoisted statements for the expression being translated
        self.checked_sub = False  # emit `a - b` as a trapping subtraction

    def name(self, n):
        return RENAME.get(n, camel_id(n))

    # ---------------- expressions (may append hoisted do-lines to self.pre)
    def ex(self, e):
        k = e[0]
        if k == 'num': return str(e[1])
        if k == 'path':
            n = e[1]
            if n == 'None': return 'none'
            if n == 'true' or n == 'false': return n
            if n in self.consts: return self.consts[n]
            if n == 'u16::MAX': return '65535'
            if n.startswith('Policy::'):
                return '.' + {'Invalid': 'invalid', 'Demote': 'demote', 'Steal': 'steal'}[n.split('::')[1]]
            if re.fullmatch(r"[a-z_][a-z0-9_]*", n): return self.name(n)
            raise TranslateError(f"entry: unknown path {n}")
        if k == 'not': return f"(!{self.ex(e[1])})"
        if k == 'bin' and e[1] == '&&':
            a = self.ex(e[2])
            saved, self.pre = self.pre, []
            b = self.ex(e[3])
            inner, self.pre = self.pre, saved
            if not inner and '(←' not in b: return f"({a} && {b})"
            # the right operand can panic: Rust evaluates it only if the left one holds
            t = self.fresh()
            self.pre.append(('sc', t, a, e[3]))
            return t
        if k == 'bin':
            op, a, b = e[1], self.ex(e[2]), self.ex(e[3])
            if op == '-' and self.checked_sub: return f"(← csub {a} {b})"
            m = {'+': '+', '-': '-', '*': '*', '==': '==', '!=': '!=', '&&': '&&', '||': '||', '<<': '<<<'}
            if op in ('<', '<=', '>', '>='):
                return f"(decide ({a} {dict(zip(['<','<=','>','>='],['<','≤','>','≥']))[op]} {b}))"
            if op not in m: raise TranslateError(f"entry: operator {op}")
            return f"({a} {m[op]} {b})"
        if k == 'call':
            f, args = e[1], e[2]
            if f == 'Some': return f"(some {self.ex(args[0])})"
            if f == 'policy': return "(policy " + " ".join(self.ex(a) for a in args) + ")"
            if f == 'Self::new' and not args: return f"({self.ty}.zero)"
            if f == 'Self::with':
                return "(← with' tf " + " ".join(self.ex(a) for a in args) + ")" if self.ty == 'Tree' else \
                       "(← with' " + " ".join(self.ex(a) for a in args) + ")"
            if f == 'fetch_free' and not args: return "fetchFree"
            if self.ty == 'Nat' and f in ('Self::new_with',): return f"(← newWith {self.ex(args[0])})"
            raise TranslateError(f"entry: call {f}")
        if k == 'tuple' and len(e[1]) == 1:
            return self.ex(e[1][0])
        if k == 'mcall':
            recv, name, args = e[1], e[2], e[3]
            # `(policy)(a, b, c)` parses as a call on a parenthesised path
            if name in self.fields and not args:
                return f"{self.ex(recv)}.{self.fields[name][0]}"
            if name.startswith('with_') and name[5:] in self.fields:
                return f"(← {camel_id(name)} {self.ex(recv)} {self.ex(args[0])})"
            if name == 'put' and self.ty == 'Tree':
                return f"(← put tf {self.ex(recv)} " + " ".join(self.ex(a) for a in args) + ")"
            if name == 'as_tree' and not args:
                return f"({self.ex(recv)} / tr)"
            if name == 'is_none_or':
                c = args[0]
                if c[0] != 'closure' or len(c[1]) != 1 or c[1][0][0] != 'pvar': raise TranslateError("is_none_or: closure")
                v = self.name(c[1][0][1])
                return f"(match {self.ex(recv)} with | none => true | some {v} => {self.ex(c[2])})"
            if name == 'checked_sub':
                return f"(if {self.ex(args[0])} ≤ {self.ex(recv)} then some ({self.ex(recv)} - {self.ex(args[0])}) else none)"
            if name == 'clone' and not args: return self.ex(recv)
            if self.ty == 'Nat':
                if name == 'count' and not args: return self.ex(recv)
                if name in ('huge', 'free') and not args: return f"(← {name} {self.ex(recv)})"
                if name == 'with_count': return f"(← withCount {self.ex(args[0])})"
            raise TranslateError(f"entry: method .{name}()")
        if k == 'try':
            # `e?` on an Option: early return of `None`
            t = self.fresh()
            self.pre.append(('try', t, e[1]))
            return t
        if k == 'cast':
            if e[2] == '_' and self.ty == 'Nat': return self.ex(e[1]) + "/-as-/"
            raise TranslateError(f"entry: cast to {e[2]}")
        if k == 'field':
            base = self.ex(e[1])
            return f"{base}.{ {'class': 'cls', 'operation': 'op'}.get(e[2], e[2]) }"
        if k in ('match', 'if', 'block'):
            # hoist: a value-producing match/if in argument position
            t = self.fresh()
            self.pre.append(('hoist', t, e))
            return t
        if k == 'macro':
            raise TranslateError(f"entry: macro {e[1]}! in expression position")
        raise TranslateError(f"entry: expression kind {k}")

    def fresh(self):
        self.tmp += 1
        return f"t{self.tmp}"

    # ---------------- patterns of the two matched enums as boolean tests on a variable
    def ptest(self, var, p):
        if p[0] == 'pwild': return 'true'
        if p[0] == 'pctor':
            n, items = p[1], p[2]
            if n == 'Policy::Match': return f"(isMatch {var})"
            if n in ('Policy::Demote', 'Policy::Steal', 'Policy::Invalid'):
                return f"({var} == .{n.split('::')[1].lower()})"
            if n == 'None': return f"({var} == none)"
            if n == 'Some' and len(items) == 1 and items[0][0] == 'pctor' and items[0][1].startswith('TreeOperation::'):
                return f"({var} == some .{items[0][1].split('::')[1].lower()})"
        raise TranslateError(f"entry: pattern {p}")

    # ---------------- statements -> list of (indent, line)
    def stmts(self, block, ind, result, assign=None):
        """`result`: how the value of the block is used: 'ret' (function result), 'unit', or ('assign', var)"""
        out = []
        for s in block[1]:
            out += self.stmt(s, ind)
        tail = block[2]
        if tail is not None:
            out += self.value(tail, ind, result)
        elif result not in ('unit',) and not (block[1] and block[1][-1][0] == 'return') and not self.diverges(block):
            if result == 'ret': raise TranslateError("entry: block without value in result position")
            out.append((ind, "pure ()"))
        elif result == 'unit' and not out:
            out.append((ind, "pure ()"))
        return out

    def diverges(self, block):
        if not block[1]: return False
        last = block[1][-1]
        return last[0] == 'return' or (last[0] == 'expr' and last[1][0] in ('ret',) ) or \
            (last[0] == 'expr' and last[1][0] == 'macro' and last[1][1] == 'panic')

    def flush(self, ind):
        out = []
        while self.pre:
            h = self.pre.pop(0)
            if isinstance(h, str):
                out.append((ind, h))
            elif h[0] == 'sc':
                _, t, a, rhs = h
                out.append((ind, f"let mut {t} := false"))
                out.append((ind, f"if {a} then"))
                out += self.with_pre(ind + 1, lambda: f"{t} := {self.ex(rhs)}")
            elif h[0] == 'try':
                _, t, e = h
                inner = self.with_pre(ind, lambda: f"match {self.ex(e)} with")
                out.append((ind, f"let mut {t} := default"))
                out += inner
                out.append((ind, f"| some v => {t} := v"))
                out.append((ind, "| none => return none"))
            else:
                _, t, e = h
                out.append((ind, f"let mut {t} := default"))
                out += self.value(e, ind, ('assign', t))
        return out

    def with_pre(self, ind, mk):
        """evaluate `mk()` (which calls self.ex) and prepend whatever it hoisted"""
        saved, self.pre = self.pre, []
        line = mk()
        pre = self.flush(ind)
        self.pre = saved
        return pre + ([(ind, line)] if line is not None else [])

    def stmt(self, s, ind):
        if s[0] == 'let':
            if s[1][0] != 'pvar': raise TranslateError("entry: let pattern")
            v = self.name(s[1][1])
            if s[2][0] in ('match', 'if'):
                return [(ind, f"let mut {v} := default")] + self.value(s[2], ind, ('assign', v))
            return self.with_pre(ind, lambda: f"let {v} := {self.ex(s[2])}")
        if s[0] == 'return':
            return self.value(s[1], ind, 'ret')
        if s[0] == 'expr':
            e = s[1]
            if e[0] == 'macro':
                return self.macro(e, ind)
            if e[0] == 'mcall' and e[2].startswith('set_') and e[2][4:] in self.fields and e[1] == ('path', 'self'):
                return self.with_pre(ind, lambda: f"self := (← with{e[2][4:].capitalize()} self {self.ex(e[3][0])})")
            if e[0] in ('if', 'iflet', 'match', 'block'):
                return self.value(e, ind, 'unit')
            if e[0] == 'ret':
                return self.value(e[1], ind, 'ret')
            raise TranslateError(f"entry: expression statement {e[0]}")
        raise TranslateError(f"entry: statement {s[0]}")

    def macro(self, e, ind):
        name, toks = e[1], e[2]
        if name in ('warn', 'debug', 'info', 'trace'): return []
        if name == 'assert':
            # condition = tokens up to the first top-level comma
            depth = 0; cut = len(toks)
            for i, (k, v) in enumerate(toks):
                if k == 'op' and v in '([{': depth += 1
                elif k == 'op' and v in ')]}': depth -= 1
                elif k == 'op' and v == ',' and depth == 0: cut = i; break
            cond = P(toks[:cut] + [('eof', None)]).expr()
            text = ' '.join(str(v) for _, v in toks[:cut])
            text = re.sub(r"\s*([().])\s*", r"\1", text)
            return self.with_pre(ind, lambda: f"if !{self.ex(cond)} then throw \"assertion failed: {text}\"")
        if name == 'panic':
            msg = toks[0][1] if toks and toks[0][0] == 'str' else 'explicit panic'
            return [(ind, f"throw \"{msg}\"")]
        raise TranslateError(f"entry: macro {name}!")

    def value(self, e, ind, result):
        """emit `e` in a position where its value goes to `result`"""
        k = e[0]
        if k == 'block':
            return self.stmts(e, ind, result)
        if k == 'if':
            out = self.with_pre(ind, lambda: f"if {self.ex(e[1])} then")
            out += self.stmts(e[2], ind + 1, result)
            if e[3] is not None:
                out.append((ind, "else"))
                out += (self.stmts(e[3], ind + 1, result) if e[3][0] == 'block' else self.value(e[3], ind + 1, result))
            elif result != 'unit':
                raise TranslateError("entry: if without else in value position")
            return out
        if k == 'iflet':
            pat, scrut, th, el = e[1], e[2], e[3], e[4]
            if pat[0] != 'pctor' or pat[1] != 'Some' or pat[2][0][0] != 'pvar': raise TranslateError("entry: if let pattern")
            v = self.name(pat[2][0][1])
            out = self.with_pre(ind, lambda: f"match {self.ex(scrut)} with")
            out.append((ind, f"| some {v} =>"))
            out += self.stmts(th, ind + 1, result)
            out.append((ind, "| none =>"))
            out += (self.stmts(el, ind + 1, result) if el is not None else [(ind + 1, "pure ()")])
            return out
        if k == 'match':
            sv = self.fresh()
            out = self.with_pre(ind, lambda: f"let {sv} := {self.ex(e[1])}")
            first = True
            for pats, guard, body in e[2]:
                def cond():
                    c = " || ".join(self.ptest(sv, p) for p in pats)
                    if len(pats) > 1: c = f"({c})"
                    if guard is not None: c = f"({c} && {self.ex(guard)})"
                    return c
                out += self.with_pre(ind, lambda: ("if " if first else "else if ") + cond() + " then")
                out += self.value(body, ind + 1, result) or [(ind + 1, "pure ()")]
                first = False
            out.append((ind, "else"))
            out.append((ind + 1, "throw \"non-exhaustive match\""))
            return out
        if k == 'ret':
            return self.value(e[1], ind, 'ret')
        if k == 'macro':
            return self.macro(e, ind)
        # plain expression
        if result == 'ret':
            return self.with_pre(ind, lambda: f"return {self.ex(e)}")
        if result == 'unit':
            if e == ('tuple', []): return [(ind, "pure ()")]
            if e[0] == 'mcall' and e[2].startswith('set_'): return self.stmt(('expr', e), ind)
            raise TranslateError(f"entry: value {e[0]} in statement position")
        if result[0] == 'assign':
            return self.with_pre(ind, lambda: f"{result[1]} := {self.ex(e)}")
        raise TranslateError("entry: result kind")

def parse_fn(src, name, within):
    params, body = extract_fn(src, name, within=within)
    toks = tokenize_str(body)
    ast = P(toks).block()
    return params, ast

STR = re.compile(r'"((?:[^"\\]|\\.)*)"')
def tokenize_str(src):
    """tokenizer of rs2lean plus string literals (kept as ('str', text))"""
    out = []; pos = 0
    for m in STR.finditer(src):
        out += tokenize(src[pos:m.start()])[:-1]
        out.append(('str', m.group(1)))
        pos = m.end()
    out += tokenize(src[pos:])
    return out

def bitfield_layout(src, struct):
    m = re.search(r"struct\s+" + struct + r"\s*\{(.*?)\n\}", src, re.S)
    if not m: raise TranslateError(f"struct {struct} not found")
    fields = []; bits = None
    for line in m.group(1).splitlines():
        line = line.strip()
        b = re.match(r"#\[bits\((\d+)\)\]", line)
        if b: bits = int(b.group(1)); continue
        f = re.match(r"(?:pub\s+)?([a-z_]+)\s*:\s*([A-Za-z0-9_]+)\s*,", line)
        if f:
            ty = f.group(2)
            fields.append((f.group(1), bits if bits is not None else (1 if ty == 'bool' else None), ty))
            bits = None
    return fields

# `if let` support: patch the parser's primary for `if let PAT = EXPR { } else { }`
_old_primary = P.primary
def _primary(self, nostruct):
    if self.peek() == ('id', 'if') and self.peek(1) == ('id', 'let'):
        self.next(); self.next()
        pat = self.pattern()
        self.expect('op', '=')
        scrut = self.expr(nostruct=True)
        th = self.block()
        el = None
        if self.accept('id', 'else'): el = self.block()
        return ('iflet', pat, scrut, th, el)
    if self.peek()[0] == 'str':
        return ('str', self.next()[1])
    return _old_primary(self, nostruct)
P.primary = _primary
# `(policy)(a, b, c)`: a parenthesised callee
_old_postfix = P.postfix
def _postfix(self, nostruct):
    e = self.primary(nostruct)
    while True:
        if self.accept('op', '.'):
            k, v = self.next()
            if k == 'num':
                e = ('field', e, str(v)); continue
            if self.accept('op', '('):
                e = ('mcall', e, v, self.args())
            else:
                e = ('field', e, v)
        elif self.accept('op', '?'):
            e = ('try', e)
        elif self.peek() == ('op', '(') and e[0] == 'path':
            self.next()
            e = ('call', e[1], self.args())
        elif self.peek() == ('op', '['):
            # `a[i]`, `a[..hi]`, `a[lo..hi]`, `a[lo..=hi]`
            self.next()
            def dots():
                if self.peek() == ('op', '..='):
                    self.next(); return 'incl'
                if self.peek() == ('op', '.') and self.peek(1) == ('op', '.'):
                    self.next(); self.next(); return 'excl'
                return None
            d = dots()
            if d:
                idx = ('range', None, self.expr(), d == 'incl')
            else:
                lo = self.expr(7)     # operands of `..` bind tighter than comparison, looser than arithmetic
                d = dots()
                idx = ('range', lo, self.expr(7), d == 'incl') if d else lo
            self.expect('op', ']')
            e = ('index', e, idx)
        else:
            return e
P.postfix = _postfix
def _block(self):
    self.expect('op', '{')
    stmts = []
    while True:
        if self.accept('op', '}'):
            return ('block', stmts, None)
        if self.peek() == ('id', 'let'):
            self.next()
            mut = self.accept('id', 'mut')
            name = self.pattern()
            if self.accept('op', ':'):
                self.type_()
            self.expect('op', '=')
            e = self.expr()
            if self.accept('id', 'else'):
                els = self.block()
                self.expect('op', ';')
                stmts.append(('letelse', name, e, els))
                continue
            self.expect('op', ';')
            stmts.append(('let', name, e, mut))
            continue
        if self.peek() == ('id', 'return'):
            self.next()
            e = self.expr()
            self.accept('op', ';')
            stmts.append(('return', e))
            continue
        e = self.expr()
        if self.peek() == ('op', '=') and e[0] in ('index', 'path', 'field'):
            self.next()
            rhs = self.expr()
            self.expect('op', ';')
            stmts.append(('assign', e, rhs)); continue
        if self.accept('op', ';'):
            stmts.append(('expr', e)); continue
        if self.accept('op', '}'):
            return ('block', stmts, e)
        if e[0] in ('if', 'iflet', 'match', 'block'):
            stmts.append(('expr', e)); continue
        raise TranslateError(f"unexpected token after expression: {self.peek()}")
P.block = _block

def emit_fn(em, lean_name, sig, ret, ast, mut_self):
    em.tmp = 0
    lines = [f"def {lean_name} {sig} : R {ret} := do"]
    if mut_self: lines.append("  let mut self := self")
    for ind, l in em.stmts(ast, 1, 'ret'):
        lines.append("  " * ind + l)
    return "\n".join(lines) + "\n"

def gen_tree(repo):
    src = read(repo + '/core/src/trees.rs')
    lay = bitfield_layout(src, 'Tree')
    if [f[0] for f in lay] != ['free', 'reserved', 'class']: raise TranslateError(f"Tree fields {lay}")
    out = ["/- GENERATED by tools/rs2lean.py from core/src/trees.rs (`impl Tree`) — do not edit. -/",
           "import LLFreeV.Model.Prog", "namespace LLFree.Gen.T", "open LLFree", "",
           "/-- a panic of the source is `throw msg` -/", "abbrev R := Except String", "",
           "def isMatch : Policy → Bool", "  | .match _ => true", "  | _ => false", "",
           "def Tree.zero : Tree := ⟨0, false, 0⟩", ""]
    fields = {}
    for name, bits, ty in lay:
        lean = {'class': 'cls'}.get(name, name)
        fields[name] = (lean, bits, ty)
        setter = 'with' + name.capitalize()
        if ty == 'bool':
            out.append(f"def {setter} (self : Tree) (v : Bool) : R Tree := pure {{ self with {lean} := v }}")
        else:
            out.append(f"/-- bit-field setter ({bits} bits): the generated setter asserts the range -/")
            out.append(f"def {setter} (self : Tree) (v : Nat) : R Tree :=\n  if v < 2 ^ {bits} then pure {{ self with {lean} := v }} else throw \"value out of bounds\"")
    out.append("")
    em = EntryEmit('Tree', fields, {'TREE_FRAMES': 'tf'})
    within = 'impl Tree {'
    def fn(name, lean_name, sig, ret, mut_self=False):
        params, ast = parse_fn(src, name, within)
        out.append(f"/-- `Tree::{name}({' '.join(params.split())})` -/")
        out.append(emit_fn(em, lean_name, sig, ret, ast, mut_self))
    fn('with', "with'", "(tf free : Nat) (reserved : Bool) (cls : Nat)", "Tree")
    fn('put', "put", "(tf : Nat) (self : Tree) (free : Nat) (policy : PolicyFn) (dflt : Nat)", "Tree", True)
    fn('steal', "steal", "(self : Tree) (cls free : Nat) (policy : PolicyFn)", "(Option Tree)")
    fn('reserve_or_steal', "reserveOrSteal", "(tf : Nat) (self : Tree) (free : Nat) (policy : PolicyFn) (cls : Nat)", "(Option Tree)")
    fn('unreserve_add', "unreserveAdd", "(tf : Nat) (self : Tree) (free cls : Nat) (policy : PolicyFn) (dflt : Nat)", "(Option Tree)")
    fn('sync_steal', "syncSteal", "(self : Tree) (min : Nat)", "(Option Tree)")
    lib = read(repo + '/core/src/lib.rs')
    m = re.search(r"pub enum TreeOperation\s*\{(.*?)\}", lib, re.S)
    if not m: raise TranslateError("enum TreeOperation not found")
    variants = re.findall(r"^\s*([A-Z][A-Za-z]*)\s*,", m.group(1), re.M)
    if sorted(variants) != ['Offline', 'Online']: raise TranslateError(f"TreeOperation variants {variants}")
    m = re.search(r"pub struct TreeChange\s*\{(.*?)\}", lib, re.S)
    tc = re.findall(r"pub\s+([a-z_]+)\s*:\s*([A-Za-z<>]+)\s*,", m.group(1)) if m else []
    if tc != [('class', 'Option<Class>'), ('operation', 'Option<TreeOperation>')]: raise TranslateError(f"TreeChange fields {tc}")
    out.append("/-- `TreeOperation` -/\ninductive Op where\n" + "\n".join(f"  | {v.lower()}" for v in variants) + "\nderiving Repr, DecidableEq\n")
    out.append("/-- `TreeChange` -/\nstructure Change where\n  cls : Option Nat\n  op : Option Op\n")
    fn('change', "change", "(self : Tree) (cls : Option Nat) (free : Nat) (change : Change) (fetchFree : Nat)", "(Option Tree)", True)
    out.append("end LLFree.Gen.T")
    return "\n".join(out) + "\n"

def gen_local(repo):
    src = read(repo + '/core/src/local.rs')
    lay = bitfield_layout(src, 'LocalTree')
    if [f[0] for f in lay] != ['row', 'free', 'present']: raise TranslateError(f"LocalTree fields {lay}")
    out = ["/- GENERATED by tools/rs2lean.py from core/src/local.rs (`impl LocalTree`) — do not edit. -/",
           "import LLFreeV.Model.Prog", "namespace LLFree.Gen.L", "open LLFree", "",
           "/-- a panic of the source is `throw msg` -/", "abbrev R := Except String", "",
           "def LTree.zero : LTree := ⟨0, 0, false⟩", ""]
    fields = {}
    for name, bits, ty in lay:
        fields[name] = (name, bits, ty)
        setter = 'with' + name.capitalize()
        if ty == 'bool':
            out.append(f"def {setter} (self : LTree) (v : Bool) : R LTree := pure {{ self with {name} := v }}")
        else:
            out.append(f"/-- bit-field setter ({bits} bits): the generated setter asserts the range -/")
            out.append(f"def {setter} (self : LTree) (v : Nat) : R LTree :=\n  if v < 2 ^ {bits} then pure {{ self with {name} := v }} else throw \"value out of bounds\"")
    out.append("")
    em = EntryEmit('LTree', fields, {'TREE_FRAMES': 'tf'})
    within = 'impl LocalTree {'
    def fn(name, lean_name, sig, ret):
        params, ast = parse_fn(src, name, within)
        out.append(f"/-- `LocalTree::{name}({' '.join(params.split())})`; `tr` = rows per tree (`RowId::as_tree`) -/")
        out.append(emit_fn(em, lean_name, sig, ret, ast, False))
    fn('with', "with'", "(row free : Nat)", "LTree")
    fn('none', "none'", "", "LTree")
    fn('get', "get", "(tr : Nat) (self : LTree) (tree : Option Nat) (free : Nat)", "(Option LTree)")
    fn('put', "put", "(tr tf : Nat) (self : LTree) (tree free : Nat)", "(Option LTree)")
    fn('set_start', "setStart", "(tr : Nat) (self : LTree) (row : Nat)", "(Option LTree)")
    out.append("end LLFree.Gen.L")
    return "\n".join(out) + "\n"


class PolicyEmit:
    """pure translation of the built-in policy functions (`fn policy(requested, target, free) -> Policy`):
    if / else-if chains of `return`s, a final `match free { f if guard => …, _ => … }` or expression"""
    def ex(self, e):
        k = e[0]
        if k == 'num': return str(e[1])
        if k == 'path':
            n = e[1]
            if n == 'TREE_FRAMES': return 'tf'
            if n == 'u8::MAX': return '255'
            if n.startswith('Policy::'):
                return '.' + {'Steal': 'steal', 'Demote': 'demote', 'Invalid': 'invalid'}[n.split('::')[1]]
            if re.fullmatch(r"[a-z_][a-z0-9_]*", n): return n
            raise TranslateError(f"policy: path {n}")
        if k == 'field' and e[2] == '0': return self.ex(e[1])          # `Class.0`
        if k == 'call' and e[1] == 'Policy::Match': return f"(.match {self.ex(e[2][0])})"
        if k == 'bin':
            a, b = self.ex(e[2]), self.ex(e[3])
            m = {'>': '>', '<': '<', '>=': '≥', '<=': '≤'}
            if e[1] in m: return f"(decide ({a} {m[e[1]]} {b}))"
            if e[1] in ('/', '+', '-', '*', '&&', '||', '=='): return f"({a} {e[1]} {b})"
            raise TranslateError(f"policy: operator {e[1]}")
        if k == 'mcall' and e[2] == 'contains' and e[1][0] == 'mcall' and e[1][2] == 'load' and e[1][1][0] == 'path':
            rng = {'PERFECT': 'p', 'GOOD': 'g'}.get(e[1][1][1])
            if rng is None: raise TranslateError(f"policy: range {e[1][1][1]}")
            v = self.ex(e[3][0])
            return f"(decide ({rng}min ≤ {v}) && decide ({v} ≤ {rng}max))"
        raise TranslateError(f"policy: expression {k}")

    def returns(self, block):
        """value of a block that consists of `return e;`"""
        if len(block[1]) == 1 and block[1][0][0] == 'return' and block[2] is None: return self.ex(block[1][0][1])
        if not block[1] and block[2] is not None and block[2][0] == 'ret': return self.ex(block[2][1])
        raise TranslateError("policy: branch is not a single return")

    def body(self, stmts, tail):
        if not stmts:
            return self.tail(tail)
        s = stmts[0]
        if s[0] == 'expr' and s[1][0] == 'if':
            return self.ifchain(s[1], lambda: self.body(stmts[1:], tail))
        if s[0] == 'expr' and s[1] == ('tuple', []):
            return self.body(stmts[1:], tail)
        raise TranslateError(f"policy: statement {s[0]} {s[1][0] if len(s) > 1 else ''}")

    def ifchain(self, e, rest):
        c = self.ex(e[1]); th = self.returns(e[2])
        if e[3] is None: el = rest()
        elif e[3][0] == 'if': el = self.ifchain(e[3], rest)
        else: raise TranslateError("policy: else block")
        return f"if {c} then {th} else {el}"

    def tail(self, e):
        if e is None: raise TranslateError("policy: no result")
        if e[0] == 'match':
            scrut = self.ex(e[1]); out = ""; n = 0
            for pats, guard, body in e[2]:
                if len(pats) != 1: raise TranslateError("policy: or-pattern")
                p = pats[0]
                if p[0] == 'pvar' and guard is not None:
                    out += f"if (let {p[1]} := {scrut}; {self.ex(guard)}) then {self.ex(body)} else "; n += 1
                elif p[0] == 'pwild' and guard is None:
                    return out + self.ex(body)
                else: raise TranslateError(f"policy: arm {p}")
            raise TranslateError("policy: match without a default arm")
        return self.ex(e)

def gen_policy(repo):
    """the built-in policies: `Classing::simple`, `Classing::movable` (lib.rs), `ClassingConfig::classing` (eval)"""
    lib = read(repo + '/core/src/lib.rs'); ev = read(repo + '/eval/src/classes.rs')
    out = ["/- GENERATED by tools/rs2lean.py from core/src/lib.rs and eval/src/classes.rs (`fn policy`) — do not edit. -/",
           "import LLFreeV.Model.Base", "namespace LLFree.Gen.P", "open LLFree", ""]
    em = PolicyEmit()
    def one(src, within, lean, params, doc):
        sig, body = extract_fn(src, 'policy', within=within)
        if ' '.join(sig.split()) != 'requested: Class, target: Class, free: usize':
            raise TranslateError(f"policy signature {sig!r}")
        ast = P(tokenize(body)).block()
        out.append(f"/-- {doc} -/")
        out.append(f"def {lean} {params}: PolicyFn := fun requested target free =>\n  {em.body(ast[1], ast[2])}\n")
    one(lib, 'pub fn simple(', 'simple', '(tf : Nat) ', '`Classing::simple`: `fn policy`')
    one(lib, 'pub fn movable(', 'movable', '(tf : Nat) ', '`Classing::movable`: `fn policy`')
    one(ev, 'pub fn classing(', 'eval', '(pmin pmax gmin gmax : Nat) ', '`ClassingConfig::classing`: `fn policy` (`PERFECT` = (pmin, pmax), `GOOD` = (gmin, gmax))')
    out.append("end LLFree.Gen.P")
    return "\n".join(out) + "\n"

def block_after(src, marker, start=0):
    """the balanced `{ … }` block that follows `marker` (first occurrence after `start`)"""
    a = src.find(marker, start)
    if a < 0: raise TranslateError(f"marker {marker!r} not found")
    b = src.index('{', a + len(marker) - 1)
    depth = 0; k = b
    while True:
        c = src[k]
        if c == '{': depth += 1
        elif c == '}':
            depth -= 1
            if depth == 0: return src[b:k + 1]
        k += 1

def gen_toggle(repo):
    """`Bitfield::toggle`, arm `0..=2` (updates within one row): the mask and the update closure;
    `Bitfield::is_zero`: the single-row mask test"""
    src = read(os.path.join(repo, 'core/src/bitfield.rs'))
    params, body = extract_fn(src, 'toggle')
    if re.sub(r"\s+", "", params) != "&self,i:FrameId,order:usize,expected:bool":
        raise TranslateError(f"toggle: unexpected signature ({params})")
    if not re.search(r"let\s+num_bits\s*=\s*1\s*<<\s*order\s*;", body): raise TranslateError("toggle: expected `let num_bits = 1 << order;`")
    if not re.search(r"match\s+order\s*\{\s*0\.\.=2\s*=>\s*\{", body): raise TranslateError("toggle: first arm is not `0..=2 => {`")
    blk = P(tokenize_str(block_after(body, '0..=2 => {'))).block()
    if len(blk[1]) != 1 or blk[1][0][0] != 'let' or blk[1][0][1] != ('pvar', 'mask'):
        raise TranslateError("toggle: arm 0..=2 does not start with `let mask = ..;`")
    em = Emit('bv', paths={'Self::ROW_BITS': '64#64', 'u64::MAX': '(BitVec.allOnes 64)', 'num_bits': 'numBits'},
              methods={'row_bit_idx': lambda R, a: 'bit'})
    mask = em.ex(blk[1][0][2])
    tail = blk[2]
    if tail is None or tail[0] != 'match' or tail[1][0] != 'mcall' or tail[1][2] != 'try_update':
        raise TranslateError("toggle: arm 0..=2 is not `match self.row(..).try_update(|e| ..) {..}`")
    clo = tail[1][3][0]
    if clo[0] != 'closure' or clo[1] != [('pvar', 'e')]: raise TranslateError("toggle: closure")
    upd = em.ex(clo[2])
    # is_zero: the branch for at most one row
    params, body = extract_fn(src, 'is_zero')
    if not re.search(r"let\s+num_bits\s*=\s*1\s*<<\s*order\s*;", body): raise TranslateError("is_zero: expected `let num_bits = 1 << order;`")
    if not re.search(r"if\s+num_bits\s*>\s*Self::ROW_BITS\s*\{", body): raise TranslateError("is_zero: expected `if num_bits > Self::ROW_BITS {`")
    first = block_after(body, 'if num_bits > Self::ROW_BITS {')
    eb = P(tokenize_str(block_after(body, 'else {', body.index(first) + len(first) - 1))).block()
    names = [s[1] for s in eb[1] if s[0] == 'let']
    if names != [('pvar', 'row'), ('pvar', 'mask')]: raise TranslateError(f"is_zero: else branch lets {names}")
    em2 = Emit('bv', paths={'u64::BITS': '64#64', 'u64::MAX': '(BitVec.allOnes 64)', 'num_bits': 'numBits'},
               methods={'row_bit_idx': lambda R, a: 'bit'})
    zmask = em2.ex(eb[1][1][2]); ztest = em2.ex(eb[2])
    out = ["/- GENERATED by tools/rs2lean.py from core/src/bitfield.rs (`Bitfield::toggle` arm 0..=2, `Bitfield::is_zero`) — do not edit. -/",
           "namespace LLFree.Gen.B", "",
           "/-- `toggle`, arm `0..=2`: `let mask = …` (`num_bits = 1 << order`, `bit = i.row_bit_idx()`) -/",
           f"def toggleMask (numBits bit : BitVec 64) : BitVec 64 :=\n  {mask}\n",
           "/-- `toggle`, arm `0..=2`: the closure given to `try_update` -/",
           f"def toggleSmall (e mask : BitVec 64) (expected : Bool) : Option (BitVec 64) :=\n  {upd}\n",
           "/-- `is_zero`, at most one row: `let mask = …` -/",
           f"def isZeroMask (numBits bit : BitVec 64) : BitVec 64 :=\n  {zmask}\n",
           "/-- `is_zero`, at most one row: the test -/",
           f"def isZeroRow (row mask : BitVec 64) : Bool :=\n  {ztest}\n",
           "end LLFree.Gen.B"]
    return "\n".join(out) + "\n"

class CheckEmit:
    """conditions of the `ensure!` lines of `LLFree::check` (usize arithmetic as `Nat` with the explicit 2^64 bound
    of `checked_add`)"""
    def ex(self, e):
        k = e[0]
        if k == 'num': return str(e[1])
        if k == 'path':
            n = e[1]
            if n == 'TREE_ORDER': return 'treeOrder'
            if n == 'end': return 'end_'
            if n == 'frame': return 'frame'
            raise TranslateError(f"check: path {n}")
        if k == 'field':
            if e[1] == ('path', 'frame') and e[2] == '0': return 'frame'
            if e[1] == ('path', 'request') and e[2] == 'order': return 'order'
            raise TranslateError(f"check: field {e}")
        if k == 'bin':
            a, b = self.ex(e[2]), self.ex(e[3])
            if e[1] == '<<': return f"({a} <<< {b})"
            if e[1] == '<=': return f"(decide ({a} ≤ {b}))"
            if e[1] == '<': return f"(decide ({a} < {b}))"
            raise TranslateError(f"check: operator {e[1]}")
        if k == 'mcall':
            recv, name, args = e[1], e[2], e[3]
            if name == 'frames' and recv == ('field', ('path', 'self'), 'lower') and not args: return 'frames'
            if name == 'is_some_and' and recv[0] == 'mcall' and recv[2] == 'checked_add':
                c = args[0]
                if c[0] != 'closure' or len(c[1]) != 1 or c[1][0][0] != 'pvar': raise TranslateError("check: is_some_and closure")
                v = 'end_' if c[1][0][1] == 'end' else c[1][0][1]
                s = f"({self.ex(recv[1])} + {self.ex(recv[3][0])})"
                body = self.ex(c[2]) if v == 'end_' else None
                if body is None: raise TranslateError("check: closure variable")
                return f"(decide ({s} < 2 ^ 64) && (let end_ := {s}; {body}))"
            if name == 'is_multiple_of': return f"({self.ex(recv)} % {self.ex(args[0])} == 0)"
            if name == 'is_some' and recv[0] == 'mcall' and recv[2] == 'class_locals' and \
                    recv[3] == [('field', ('path', 'request'), 'class')]:
                return "classLocals.isSome"
            raise TranslateError(f"check: method .{name}()")
        raise TranslateError(f"check: expression {k}")

def gen_check(repo):
    """`LLFree::check` (llfree.rs): the conjunction of its `ensure!` conditions"""
    src = read(os.path.join(repo, 'core/src/llfree.rs'))
    mac = block_after(src, 'macro_rules! ensure {')
    norm = re.sub(r"\s+", "", mac)
    if not norm.startswith("{($cond:expr,$($args:expr),*)=>{if!($cond){log::error!($($args),*);returnErr(Error::Argument);}};"):
        raise TranslateError("macro ensure!: the plain form must return Err(Error::Argument) when the condition fails")
    params, body = extract_fn(src, 'check')
    if re.sub(r"\s+", "", params) != "&self,frame:FrameId,request:&Request":
        raise TranslateError(f"check: unexpected signature ({params})")
    ast = P(tokenize_str(body)).block()
    if ast[2] != ('call', 'Ok', [('tuple', [])]): raise TranslateError(f"check: result {ast[2]}")
    em = CheckEmit(); conds = []
    for st in ast[1]:
        if st[0] != 'expr' or st[1][0] != 'macro' or st[1][1] != 'ensure': raise TranslateError(f"check: statement {st[0]}")
        toks = st[1][2]; depth = 0; cut = None
        for i, (k, v) in enumerate(toks):
            if k == 'op' and v in '([{': depth += 1
            elif k == 'op' and v in ')]}': depth -= 1
            elif k == 'op' and v == ';' and depth == 0: raise TranslateError("check: ensure! with an explicit error")
            elif k == 'op' and v == ',' and depth == 0 and cut is None: cut = i
        if cut is None: raise TranslateError("check: ensure! without message")
        conds.append(em.ex(P(toks[:cut] + [('eof', None)]).expr()))
    out = ["/- GENERATED by tools/rs2lean.py from core/src/llfree.rs (`LLFree::check`) — do not edit. -/",
           "namespace LLFree.Gen.C", "",
           "/-- the `ensure!` conditions of `LLFree::check`, in order; a failing one returns `Error::Argument`",
           "    (`frames` = `self.lower.frames()`, `classLocals` = `self.locals.class_locals(request.class)`) -/",
           "def checkConds (treeOrder frames frame order : Nat) (classLocals : Option Nat) : List Bool :=",
           "  [" + ",\n   ".join(conds) + "]", "",
           "def check (treeOrder frames frame order : Nat) (classLocals : Option Nat) : Bool :=",
           "  (checkConds treeOrder frames frame order classLocals).all id", "",
           "end LLFree.Gen.C"]
    return "\n".join(out) + "\n"

def unturbofish(src):
    """rewrite `f::<T>(args)` into `f__g("T", args)` (balanced angle brackets), so that the expression parser sees a call"""
    out = []; i = 0
    while True:
        j = src.find('::<', i)
        if j < 0: out.append(src[i:]); break
        depth = 1; k = j + 3
        while depth:
            if src[k] == '<': depth += 1
            elif src[k] == '>': depth -= 1
            k += 1
        ty = re.sub(r"\s+", "", src[j + 3:k - 1])
        m = re.match(r"\s*\(\s*(\))?", src[k:])
        if not m: raise TranslateError(f"turbofish without call near {src[j:k]!r}")
        out.append(src[i:j] + '__g("' + ty + '"' + (')' if m.group(1) else ', '))
        i = k + m.end()
    return "".join(out)

class MetaEmit:
    """size computations (`const fn`, usize as Nat): div_ceil, next_multiple_of, size_of/align_of of named types"""
    def __init__(self, tvar=None):
        self.tvar = tvar
    def ty(self, t):
        return 't' if t == self.tvar else '"' + t + '"'
    def ex(self, e):
        k = e[0]
        if k == 'num': return str(e[1])
        if k == 'path':
            n = e[1]
            if n == 'TREE_FRAMES': return 'tf'
            if n == 'Bitfield::LEN': return 'hf'
            if re.fullmatch(r"[a-z_][a-z0-9_]*", n): return n
            raise TranslateError(f"meta: path {n}")
        if k == 'field' and e[1] == ('path', 'm'): return 'm_' + e[2]
        if k == 'bin' and e[1] in ('+', '*'): return f"({self.ex(e[2])} {e[1]} {self.ex(e[3])})"
        if k == 'call':
            f, a = e[1], e[2]
            if f in ('size_of__g', 'align_of__g') and len(a) == 1 and a[0][0] == 'str':
                return f"(ty.{'size' if f == 'size_of__g' else 'align'} {self.ty(a[0][1])})"
            if f == 'size_of_slice__g' and len(a) == 2 and a[0][0] == 'str':
                return f"(sizeOfSlice ty {self.ty(a[0][1])} {self.ex(a[1])})"
            raise TranslateError(f"meta: call {f}")
        if k == 'mcall':
            r, name, a = self.ex(e[1]), e[2], e[3]
            if name == 'div_ceil': return f"(divCeil {r} {self.ex(a[0])})"
            if name == 'next_multiple_of': return f"(nextMultipleOf {r} {self.ex(a[0])})"
            raise TranslateError(f"meta: method .{name}()")
        raise TranslateError(f"meta: expression {k}")

def gen_meta(repo):
    """sizes of the three metadata buffers: `size_of_slice` (util.rs), `Trees::metadata_size`, `Metadata::new` +
    `Lower::metadata_size` (lower.rs), `Locals::metadata_size` (local.rs)"""
    out = ["/- GENERATED by tools/rs2lean.py from core/src/{util,trees,lower,local}.rs (metadata sizes) — do not edit. -/",
           "namespace LLFree.Gen.M", "",
           "/-- `size_of::<T>()` / `align_of::<T>()` of the types named in the size computations (by their source text) -/",
           "structure TyInfo where\n  size : String → Nat\n  align : String → Nat", "",
           "/-- `usize::div_ceil` -/", "def divCeil (a b : Nat) : Nat := (a + b - 1) / b",
           "/-- `usize::next_multiple_of` -/", "def nextMultipleOf (a b : Nat) : Nat := divCeil a b * b", ""]
    util = read(os.path.join(repo, 'core/src/util.rs'))
    m = re.search(r"pub const fn size_of_slice<T>\(len: usize\) -> usize\s*\{(.*?)\n\}", util, re.S)
    if not m: raise TranslateError("size_of_slice not found")
    e = P(tokenize_str(unturbofish(m.group(1))) ).expr()
    out += ["/-- `util::size_of_slice::<T>(len)` -/",
            f"def sizeOfSlice (ty : TyInfo) (t : String) (len : Nat) : Nat :=\n  {MetaEmit('T').ex(e)}\n"]
    em = MetaEmit()
    trees = read(os.path.join(repo, 'core/src/trees.rs'))
    params, body = extract_fn(trees, 'metadata_size')
    if re.sub(r"\s+", "", params) != "frames:usize": raise TranslateError(f"Trees::metadata_size({params})")
    ast = P(tokenize_str(unturbofish(re.sub(r"//[^\n]*", "", body)))).block()
    if ast[1] or ast[2] is None: raise TranslateError("Trees::metadata_size: body")
    out += ["/-- `Trees::metadata_size(frames)` -/",
            f"def treesSize (ty : TyInfo) (tf frames : Nat) : Nat :=\n  {em.ex(ast[2])}\n"]
    lower = read(os.path.join(repo, 'core/src/lower.rs'))
    params, body = extract_fn(lower, 'new', within='impl Metadata {')
    if re.sub(r"\s+", "", params) != "frames:usize": raise TranslateError(f"Metadata::new({params})")
    body = re.sub(r"//[^\n]*", "", body)
    cut = body.index('Self {')
    lets = P(tokenize_str(unturbofish(body[:cut] + '}'))).block()
    names = [(s_[1][1], em.ex(s_[2])) for s_ in lets[1] if s_[0] == 'let']
    if [n for n, _ in names] != ['bitfield_len', 'table_len']: raise TranslateError(f"Metadata::new lets {names}")
    struct = block_after(body, 'Self {')[1:-1]
    fields = {}
    depth = 0; cur = ''
    for ch in struct + ',':
        if ch in '([{<': depth += 1
        elif ch in ')]}>': depth -= 1
        if ch == ',' and depth == 0:
            item = cur.strip(); cur = ''
            if not item: continue
            if ':' in item.split('::')[0]:
                n, ex_ = item.split(':', 1)
                fields[n.strip()] = em.ex(P(tokenize_str(unturbofish(ex_))).expr())
            else: fields[item] = item
        else: cur += ch
    if sorted(fields) != ['bitfield_len', 'bitfield_size', 'table_len', 'table_size']: raise TranslateError(f"Metadata fields {sorted(fields)}")
    params, body = extract_fn(lower, 'metadata_size', within="impl<'a> Lower<'a> {")
    ast = P(tokenize_str(unturbofish(body))).block()
    if len(ast[1]) != 1 or ast[1][0][0] != 'let' or ast[1][0][1] != ('pvar', 'm') or \
            ast[1][0][2] != ('call', 'Metadata::new', [('path', 'frames')]):
        raise TranslateError("Lower::metadata_size: expected `let m = Metadata::new(frames);`")
    out += ["/-- `Metadata::new(frames)` (bitfield_size, table_size) followed by `Lower::metadata_size(frames)` -/",
            "def lowerSize (ty : TyInfo) (hf tf frames : Nat) : Nat :=",
            f"  let bitfield_len := {names[0][1]}", f"  let table_len := {names[1][1]}",
            f"  let m_bitfield_size := {fields['bitfield_size']}", f"  let m_table_size := {fields['table_size']}",
            f"  {em.ex(ast[2])}\n"]
    local = read(os.path.join(repo, 'core/src/local.rs'))
    params, body = extract_fn(local, 'metadata_size')
    norm = re.sub(r"\s+", "", body)
    if norm != "{size_of_slice::<Local>(classing.classes().iter().map(|&(_,count)|count).sum())}":
        raise TranslateError(f"Locals::metadata_size: {norm}")
    out += ["/-- `Locals::metadata_size(classing)`; `slots` = the sum of the slot counts of `classing.classes()` -/",
            "def localsSize (ty : TyInfo) (slots : Nat) : Nat :=\n  (sizeOfSlice ty \"Local\" slots)\n",
            "end LLFree.Gen.M"]
    return "\n".join(out) + "\n"

class SbufEmit:
    """`SortedBuffer::add`: iterator searches on (a prefix of) the array, `rotate_left/right(1)` of a sub-slice,
    assignment of one element; the array is a Lean list of options, statements rebind it"""
    BUF = ('field', ('path', 'self'), 'buffer')
    def ex(self, e):
        k = e[0]
        if k == 'num': return str(e[1])
        if k == 'path':
            if e[1] == 'N': return 'n'
            if e[1] in ('len', 'pos', 'value'): return e[1]
            raise TranslateError(f"sbuf: path {e[1]}")
        if k == 'bin':
            a, b = self.ex(e[2]), self.ex(e[3])
            if e[1] in ('<', '>'): return f"(decide ({a} {e[1]} {b}))"
            if e[1] in ('-', '+'): return f"({a} {e[1]} {b})"
            raise TranslateError(f"sbuf: operator {e[1]}")
        if k == 'call' and e[1] == 'Some' and len(e[2]) == 1: return f"(some {self.ex(e[2][0])})"
        if k == 'mcall' and e[2] == 'unwrap_or' and e[1][0] == 'mcall' and e[1][2] == 'position' and \
                e[1][1][0] == 'mcall' and e[1][1][2] == 'iter' and not e[1][1][3]:
            return f"((position {self.pred(e[1][3][0])} {self.slice(e[1][1][1])}).getD {self.ex(e[3][0])})"
        raise TranslateError(f"sbuf: expression {k}")
    def slice(self, e):
        if e == self.BUF: return 'buffer'
        if e[0] == 'index' and e[1] == self.BUF and e[2][0] == 'range' and e[2][1] is None and not e[2][3]:
            return f"(buffer.take {self.ex(e[2][2])})"
        raise TranslateError(f"sbuf: slice {e}")
    def pred(self, c):
        if c[0] != 'closure' or c[1] != [('pvar', 'e')]: raise TranslateError("sbuf: closure")
        b = c[2]
        if b == ('mcall', ('path', 'e'), 'is_none', []): return "(fun e => e.isNone)"
        if b[0] == 'mcall' and b[2] == 'is_some_and' and b[1] == ('mcall', ('path', 'e'), 'as_ref', []) and \
                b[3][0][0] == 'closure' and b[3][0][1] == [('pvar', 'v')] and \
                b[3][0][2] == ('bin', '<=', ('path', 'value'), ('path', 'v')):
            return "(fun e => Option.any (fun v => le value v) e)"
        raise TranslateError(f"sbuf: predicate {b}")
    def stmts(self, block):
        """statements that rebind `buffer`; returns a Lean term for the final buffer"""
        if block[2] is not None: raise TranslateError("sbuf: value block")
        out = ""
        for st in block[1]:
            if st[0] == 'expr' and st[1][0] == 'mcall' and st[1][2] in ('rotate_right', 'rotate_left') and st[1][3] == [('num', 1)]:
                tgt = st[1][1]
                if tgt[0] != 'index' or tgt[1] != self.BUF or tgt[2][0] != 'range': raise TranslateError("sbuf: rotate target")
                _, lo, hi, incl = tgt[2]
                lo_ = '0' if lo is None else self.ex(lo)
                hi_ = f"({self.ex(hi)} + 1)" if incl else self.ex(hi)
                f = 'rotateRight1' if st[1][2] == 'rotate_right' else 'rotateLeft1'
                out += f"let buffer := {f} buffer {lo_} {hi_}; "
            elif st[0] == 'assign' and st[1][0] == 'index' and st[1][1] == self.BUF and st[1][2][0] != 'range':
                out += f"let buffer := buffer.set {self.ex(st[1][2])} {self.ex(st[2])}; "
            else:
                raise TranslateError(f"sbuf: statement {st[0]}")
        return "(" + out + "buffer)"
    def ifs(self, e):
        if e is None: return "buffer"
        if e[0] == 'block': return self.stmts(e)
        if e[0] == 'if': return f"if {self.ex(e[1])} then {self.stmts(e[2])} else {self.ifs(e[3])}"
        raise TranslateError("sbuf: if chain")

def gen_sbuf(repo):
    """`SortedBuffer::add` (util.rs)"""
    src = read(os.path.join(repo, 'core/src/util.rs'))
    params, body = extract_fn(src, 'add', within='SortedBuffer<N, T> {')
    if re.sub(r"\s+", "", params) != "&mutself,value:T": raise TranslateError(f"SortedBuffer::add({params})")
    if not re.search(r"buffer:\s*\[Option<T>;\s*N\]", src): raise TranslateError("SortedBuffer: field `buffer: [Option<T>; N]`")
    ast = P(tokenize_str(re.sub(r"//[^\n]*", "", body).replace("&value", "value"))).block()
    em = SbufEmit()
    lets = ""
    stm = list(ast[1]) + ([('expr', ast[2])] if ast[2] is not None else [])
    if len(stm) != 3: raise TranslateError("SortedBuffer::add: expected two lets and an if chain")
    ast = ('block', stm, None)
    for st in ast[1][:2]:
        if st[0] != 'let' or st[1][0] != 'pvar': raise TranslateError("SortedBuffer::add: let")
        lets += f"  let {st[1][1]} := {em.ex(st[2])}\n"
    if ast[1][2][0] != 'expr' or ast[1][2][1][0] != 'if': raise TranslateError("SortedBuffer::add: if chain")
    out = ["/- GENERATED by tools/rs2lean.py from core/src/util.rs (`SortedBuffer::add`) — do not edit. -/",
           "namespace LLFree.Gen.S", "",
           "/-- `Iterator::position` -/",
           "def position {α : Type} (p : α → Bool) : List α → Option Nat",
           "  | [] => none", "  | x :: xs => if p x then some 0 else (position p xs).map (· + 1)", "",
           "/-- `slice[a..b].rotate_right(1)` -/",
           "def rotateRight1 {α : Type} (l : List α) (a b : Nat) : List α :=",
           "  let mid := (l.drop a).take (b - a)",
           "  l.take a ++ (match mid.getLast? with | none => [] | some x => x :: mid.dropLast) ++ l.drop b", "",
           "/-- `slice[a..b].rotate_left(1)` -/",
           "def rotateLeft1 {α : Type} (l : List α) (a b : Nat) : List α :=",
           "  let mid := (l.drop a).take (b - a)",
           "  l.take a ++ (match mid with | [] => [] | x :: xs => xs ++ [x]) ++ l.drop b", "",
           "/-- `SortedBuffer::<N, T>::add(&mut self, value)`; `le a b` is `a <= b` of `T`, `buffer` the array `[Option<T>; N]` -/",
           "def add {τ : Type} (le : τ → τ → Bool) (n : Nat) (buffer : List (Option τ)) (value : τ) : List (Option τ) :=",
           lets + "  " + em.ifs(ast[1][2][1]), "",
           "end LLFree.Gen.S"]
    return "\n".join(out) + "\n"

class IdxEmit:
    """the index computation of `Trees::search` / `Trees::search_best` (usize / isize arithmetic with casts):
    usize values are `Nat`, `as isize` / `.cast_signed()` gives an `Int`, `as usize` / `.cast_unsigned()` reduces it
    modulo 2^64 (two's complement), `%` on usize is `Nat` remainder"""
    def ex(self, e):
        """returns (term, type) with type in {'nat', 'int', 'bool'}"""
        k = e[0]
        if k == 'num': return str(e[1]), 'nat'
        if k == 'path':
            if e[1] in ('i', 'off', 's'): return e[1], {'i': 'nat', 'off': 'int', 's': 'int'}[e[1]]
            raise TranslateError(f"idx: path {e[1]}")
        if k == 'field' and e == ('field', ('path', 'start'), '0'): return 'start', 'nat'
        if k == 'tuple' and len(e[1]) == 1: return self.ex(e[1][0])
        if k == 'neg':
            t, ty = self.ex(e[1])
            if ty != 'int': raise TranslateError("idx: negation of an unsigned value")
            return f"(-{t})", 'int'
        if k == 'cast':
            t, ty = self.ex(e[1])
            if e[2] == 'isize' and ty == 'nat': return f"(({t} : Nat) : Int)", 'int'
            if e[2] == 'usize' and ty == 'int': return f"(({t}) % (2 ^ 64 : Int)).toNat", 'nat'
            raise TranslateError(f"idx: cast {ty} as {e[2]}")
        if k == 'mcall':
            r, name, a = e[1], e[2], e[3]
            if name == 'cast_signed' and not a:
                t, ty = self.ex(r)
                if ty != 'nat': raise TranslateError("idx: cast_signed")
                return f"(({t} : Nat) : Int)", 'int'
            if name == 'cast_unsigned' and not a:
                t, ty = self.ex(r)
                if ty != 'int': raise TranslateError("idx: cast_unsigned")
                return f"(({t}) % (2 ^ 64 : Int)).toNat", 'nat'
            if name == 'is_multiple_of' and len(a) == 1:
                t, ty = self.ex(r); u, _ = self.ex(a[0])
                return f"({t} % {u} == 0)", 'bool'
            if name == 'div_ceil' and len(a) == 1:
                t, ty = self.ex(r); u, _ = self.ex(a[0])
                return f"(({t} + {u} - 1) / {u})", 'nat'
            if name == 'len' and r == ('field', ('path', 'self'), 'entries') and not a: return 'n', 'nat'
            raise TranslateError(f"idx: method .{name}()")
        if k == 'bin':
            (a, ta), (b, tb) = self.ex(e[2]), self.ex(e[3])
            if ta != tb: raise TranslateError(f"idx: mixed operands of {e[1]}")
            if e[1] in ('+', '/', '%'): return f"({a} {e[1]} {b})", ta
            raise TranslateError(f"idx: operator {e[1]}")
        if k == 'if':
            c, tc = self.ex(e[1])
            (a, ta), (b, tb) = self.blk(e[2]), self.blk(e[3])
            if tc != 'bool' or ta != tb: raise TranslateError("idx: if")
            return f"(if {c} then {a} else {b})", ta
        if k == 'call' and e[1] == 'TreeId' and len(e[2]) == 1: return self.ex(e[2][0])
        raise TranslateError(f"idx: expression {k}")
    def blk(self, b):
        if b is None or b[0] != 'block' or b[1] or b[2] is None: raise TranslateError("idx: block")
        return self.ex(b[2])

def gen_idx(repo):
    """the candidate index of `Trees::search` and `Trees::search_best` (alternating before and after `start`)"""
    src = read(os.path.join(repo, 'core/src/trees.rs'))
    out = ["/- GENERATED by tools/rs2lean.py from core/src/trees.rs (`Trees::search`, `Trees::search_best`: candidate index) — do not edit. -/",
           "namespace LLFree.Gen.I", ""]
    for fn, lean in (('search', 'searchIdx'), ('search_best', 'searchBestIdx')):
        params, body = extract_fn(src, fn, within='impl<\'a> Trees<\'a> {')
        m = re.search(r"for\s+i\s+in\s+offset\.\.len\s*\{", body)
        if not m: raise TranslateError(f"{fn}: expected `for i in offset..len {{`")
        loop = block_after(body, m.group(0))
        # the three lets at the head of the loop body
        head = re.sub(r"//[^\n]*", "", loop)
        cut = head.index(';', head.index('let i ='))
        blk = P(tokenize_str(head[:cut + 1] + '}')).block()
        names = [st[1][1] for st in blk[1] if st[0] == 'let']
        if names != ['off', 's', 'i'] or len(blk[1]) != 3: raise TranslateError(f"{fn}: loop head lets {names}")
        em = IdxEmit()
        terms = [em.ex(st[2]) for st in blk[1]]
        if [t for _, t in terms] != ['int', 'int', 'nat']: raise TranslateError(f"{fn}: types {[t for _, t in terms]}")
        out += [f"/-- `Trees::{fn}`: the tree visited in iteration `i` (`n = self.entries.len()`) -/",
                f"def {lean} (start n i : Nat) : Nat :=",
                f"  let off : Int := {terms[0][0]}", f"  let s : Int := {terms[1][0]}", f"  {terms[2][0]}", ""]
    out.append("end LLFree.Gen.I")
    return "\n".join(out) + "\n"

def gen_huge(repo):
    """`impl HugeEntry` (lower.rs): a u16 counter with `u16::MAX` as the marker of a huge allocation"""
    src = read(repo + '/core/src/lower.rs')
    lay = bitfield_layout(src, 'HugeEntry')
    if [(f[0], f[2]) for f in lay] != [('count', 'u16')]: raise TranslateError(f"HugeEntry fields {lay}")
    out = ["/- GENERATED by tools/rs2lean.py from core/src/lower.rs (`impl HugeEntry`) — do not edit. -/",
           "namespace LLFree.Gen.H", "",
           "/-- a panic of the source is `throw msg` -/", "abbrev R := Except String", "",
           "/-- `usize` subtraction (traps on underflow in the checked build) -/",
           "def csub (a b : Nat) : R Nat := if b ≤ a then pure (a - b) else throw \"attempt to subtract with overflow\"", "",
           "/-- `Self::new().with_count(v)`: the 16-bit field takes the value (a wider value was cast with `as`) -/",
           "def withCount (v : Nat) : R Nat := if v < 2 ^ 16 then pure v else throw \"value out of bounds\"", ""]
    em = EntryEmit('Nat', {}, {'Bitfield::LEN': 'len'})
    em.checked_sub = True
    within = 'impl HugeEntry {'
    def fn(name, lean_name, sig, ret):
        params, ast = parse_fn(src, name, within)
        out.append(f"/-- `HugeEntry::{name}({' '.join(params.split())})` -/")
        txt = emit_fn(em, lean_name, sig, ret, ast, False)
        # `x as _` into the 16-bit field truncates
        txt = re.sub(r"withCount ([^()]+?)/-as-/", r"withCount (\1 % 2 ^ 16)", txt).replace("/-as-/", "")
        out.append(txt)
    # `Self::new()` is the zero entry: `Self::new().with_count(v)` is `withCount v`
    em_new = em.ex
    def ex(e, _old=em_new):
        if e[0] == 'mcall' and e[2] == 'with_count' and e[1] == ('call', 'Self::new', []):
            return f"(← withCount {_old(e[3][0])})"
        return _old(e)
    em.ex = ex
    fn('new_huge', 'newHuge', "", "Nat")
    fn('new_with', 'newWith', "(free : Nat)", "Nat")
    fn('huge', 'huge', "(self : Nat)", "Bool")
    fn('free', 'free', "(self : Nat)", "Nat")
    fn('dec', 'dec', "(self numFrames : Nat)", "(Option Nat)")
    fn('inc', 'inc', "(len self numFrames : Nat)", "(Option Nat)")
    out.append("end LLFree.Gen.H")
    return "\n".join(out) + "\n"

# ------------------------------------------------------------------ wrapper.rs: ZoneAlloc / NvmAlloc argument translation
class ZoneEmit:
    """the Option/Result combinator subset of `ZoneAlloc::{get, put, stats_at, create}` and the size arithmetic of
    `NvmAlloc::create`: `FrameId(x)` / `.0` are transparent (newtype), `Error::X` is `Err.x`, `e?` is a monadic bind in
    `Except Err`, a call of the wrapped allocator is the parameter `inner`"""
    def __init__(self, names): self.names = names
    def err(self, e):
        if e[0] == 'path' and e[1].startswith('Error::'): return '.' + camel(e[1].split('::')[1])
        raise TranslateError(f"zone: error value {e}")
    def fn(self, e):
        """a function argument of map / and_then"""
        if e == ('path', 'FrameId'): return 'id'
        if e[0] == 'closure' and len(e[1]) == 1 and e[1][0][0] == 'pvar':
            v = e[1][0][1]
            sub = ZoneEmit(dict(self.names, **{v: v}))
            return f"(fun {v} => {sub.ex(e[2])})"
        raise TranslateError(f"zone: function argument {e[0]}")
    def ex(self, e):
        k = e[0]
        if k == 'num': return str(e[1])
        if k == 'path':
            if e[1] in self.names: return self.names[e[1]]
            if e[1] == 'TREE_ORDER': return 'treeOrder'
            if e[1] == 'Frame::SIZE': return 'frameSize'
            if e[1] == 'Meta::MAGIC': return 'metaMagicC'
            raise TranslateError(f"zone: name {e[1]}")
        if k == 'field':
            if e[2] == '0': return self.ex(e[1])
            if e[1] == ('path', 'self') and e[2] == 'offset': return 'offset'
            if e[1] == ('path', 'm') and e[2] == 'lower': return 'mLower'
            raise TranslateError(f"zone: field {e[2]}")
        if k == 'tuple':
            if len(e[1]) == 1: return self.ex(e[1][0])
            return "(" + ", ".join(self.ex(x) for x in e[1]) + ")"
        if k == 'not': return f"(!{self.ex(e[1])})"
        if k == 'call':
            if e[1] == 'FrameId' and len(e[2]) == 1: return self.ex(e[2][0])
            if e[1] == 'Ok' and len(e[2]) == 1: return f"(Except.ok {self.ex(e[2][0])})"
            if e[1] == 'Err' and len(e[2]) == 1: return f"(Except.error {self.err(e[2][0])})"
            if e[1] == 'size_of_val' and e[2] == [('path', 'zone')]: return "(zoneLen * frameSize)"
            if e[1] == 'Stats::default' and not e[2]: return 'none'
            raise TranslateError(f"zone: call {e[1]}")
        if k == 'try': return f"(← {self.ex(e[1])})"
        if k == 'block' and not e[1] and e[2] is not None: return self.ex(e[2])
        if k == 'bin':
            a, b = self.ex(e[2]), self.ex(e[3])
            if e[1] in ('+', '-', '<', '<=', '>', '>=', '||', '&&'): return f"({a} {e[1]} {b})"
            if e[1] == '<<': return f"({a} <<< {b})"
            if e[1] in ('==', '!='): return f"({a} {e[1]} {b})"
            raise TranslateError(f"zone: operator {e[1]}")
        if k == 'mcall':
            r, name, a = e[1], e[2], e[3]
            if r == ('field', ('path', 'self'), 'alloc') and name in ('get', 'put', 'stats_at'):
                return "(inner " + " ".join(self.ex(x) for x in a[:1]) + ")"
            if name == 'checked_sub' and len(a) == 1: return f"(checkedSub {self.ex(r)} {self.ex(a[0])})"
            if name == 'map' and len(a) == 1: return f"(Option.map {self.fn(a[0])} {self.ex(r)})"
            if name == 'and_then' and len(a) == 1: return f"(Option.bind {self.ex(r)} {self.fn(a[0])})"
            if name == 'ok_or' and len(a) == 1: return f"(okOr {self.ex(r)} {self.err(a[0])})"
            if name == 'transpose' and not a: return f"(transpose {self.ex(r)})"
            if name == 'is_multiple_of' and len(a) == 1: return f"({self.ex(r)} % {self.ex(a[0])} == 0)"
            if name == 'div_ceil' and len(a) == 1: return f"(({self.ex(r)} + {self.ex(a[0])} - 1) / {self.ex(a[0])})"
            if name == 'len' and r == ('path', 'zone') and not a: return self.names['zone.len']
            if name == 'load' and r[0] == 'field' and r[1] == ('path', 'meta'): return 'header' + r[2].capitalize()
            raise TranslateError(f"zone: method .{name}()")
        raise TranslateError(f"zone: expression {k}")

def gen_zone(repo):
    """`ZoneAlloc::{get, put, stats_at, create}` (frame translation by the zone offset) and the size / header conditions
    of `NvmAlloc::create` (wrapper.rs)"""
    src = read(repo + '/core/src/wrapper.rs')
    Z = "impl<'a, A: Alloc<'a>> Alloc<'a> for ZoneAlloc<'a, A> {"
    ZC = "impl<'a, A: Alloc<'a>> ZoneAlloc<'a, A> {"
    NC = "impl<'a, A: Alloc<'a>> NvmAlloc<'a, A> {"
    out = ["/- GENERATED by tools/rs2lean.py from core/src/wrapper.rs (`ZoneAlloc`, `NvmAlloc::create`) — do not edit. -/",
           "namespace LLFree.Gen.Z", "",
           "/-- `enum Error` values used by the wrappers -/",
           "inductive Err | argument | initialization | memory | address | retry", "  deriving DecidableEq, Repr", "",
           "/-- `usize::checked_sub` -/",
           "def checkedSub (a b : Nat) : Option Nat := if b ≤ a then some (a - b) else none",
           "/-- `Option::ok_or` -/",
           "def okOr {α : Type} (o : Option α) (e : Err) : Except Err α := match o with | some x => .ok x | none => .error e",
           "/-- `Option<Result<T, E>>::transpose` -/",
           "def transpose {α : Type} : Option (Except Err α) → Except Err (Option α)",
           "  | none => .ok none", "  | some (.ok x) => .ok (some x)", "  | some (.error e) => .error e", ""]
    def stmts(em, ast, ind="  "):
        """a straight-line body: lets (also `let (a, b) = e?;`), let-else with an early return, a tail value"""
        lines = []
        for st in ast[1]:
            if st[0] == 'let':
                pat = st[1]
                rhs_em = ZoneEmit(dict(em.names))    # the right-hand side does not see the new binding
                if pat[0] == 'pvar': lhs = pat[1]; em.names[pat[1]] = pat[1]
                elif pat[0] == 'ptuple' and all(x[0] == 'pvar' for x in pat[1]):
                    nm = lambda v: 'cls' if v == 'class' else camel_id(v)
                    for x in pat[1]: em.names[x[1]] = nm(x[1])
                    lhs = "(" + ", ".join(nm(x[1]) for x in pat[1]) + ")"
                else: raise TranslateError(f"zone: let pattern {pat}")
                rhs = st[2]
                if rhs[0] == 'try': lines.append(f"{ind}let {lhs} ← {rhs_em.ex(rhs[1])}")
                else: lines.append(f"{ind}let {lhs} := {rhs_em.ex(rhs)}")
            elif st[0] == 'letelse':
                pat, rhs, els = st[1], st[2], st[3]
                if not (pat[0] == 'pctor' and pat[1] == 'Some' and len(pat[2]) == 1 and pat[2][0][0] == 'pvar'):
                    raise TranslateError("zone: let-else pattern")
                if els[1] != [('return', ('call', 'Stats::default', []))] and not (els[1] == [] and els[2] == ('ret', ('call', 'Stats::default', []))):
                    raise TranslateError(f"zone: let-else branch {els}")
                v = pat[2][0][1]
                lines.append(f"{ind}match {em.ex(rhs)} with")
                lines.append(f"{ind}| none => none")
                lines.append(f"{ind}| some {v} =>")
                em.names[v] = v
                ind += "  "
            else:
                raise TranslateError(f"zone: statement {st[0]}")
        if ast[2] is None: raise TranslateError("zone: no tail value")
        return lines, ind
    # --- get
    params, ast = parse_fn(src, 'get', Z)
    em = ZoneEmit({'frame': 'frame', 'flags': 'flags'})
    lines, ind = stmts(em, ast)
    out += [f"/-- `ZoneAlloc::get({' '.join(params.split())})`; `inner` is `self.alloc.get(·, flags)` -/",
            "def get (inner : Option Nat → Except Err (Nat × Nat)) (offset : Nat) (frame : Option Nat) : Except Err (Nat × Nat) := do"]
    out += lines + [f"{ind}{em.ex(ast[2])}", ""]
    # --- put
    params, ast = parse_fn(src, 'put', Z)
    em = ZoneEmit({'frame': 'frame', 'flags': 'flags'})
    lines, ind = stmts(em, ast)
    out += [f"/-- `ZoneAlloc::put({' '.join(params.split())})`; `inner` is `self.alloc.put(·, flags)` -/",
            "def put (inner : Nat → Except Err Unit) (offset : Nat) (frame : Nat) : Except Err Unit := do"]
    out += lines + [f"{ind}{em.ex(ast[2])}", ""]
    # --- stats_at
    params, ast = parse_fn(src, 'stats_at', Z)
    em = ZoneEmit({'frame': 'frame', 'order': 'order'})
    lines, ind = stmts(em, ast)
    out += [f"/-- `ZoneAlloc::stats_at({' '.join(params.split())})`: `none` is `Stats::default()`, `inner` is `self.alloc.stats_at(·, order)` -/",
            "def statsAt {σ : Type} (inner : Nat → σ) (offset : Nat) (frame : Nat) : Option σ :="]
    out += lines + [f"{ind}some {em.ex(ast[2])}", ""]
    # --- create: the alignment condition
    params, body = extract_fn(src, 'create', within=ZC)
    body = re.sub(r"//[^\n]*", "", body)
    m = re.match(r"\{\s*if\s+(.*?)\s*\{(.*?)\}\s*Ok\(Self\s*\{(.*?)\}\)\s*\}\s*$", body, re.S)
    if not m: raise TranslateError("zone: ZoneAlloc::create is not `if cond { .. return Err(..); } Ok(Self {..})`")
    cond = P(tokenize_str(m.group(1) + ' }')).expr(nostruct=True)
    th = P(tokenize_str('{' + m.group(2) + '}')).block()
    rets = [x for x in th[1] if x[0] == 'return']
    if len(rets) != 1 or th[2] is not None: raise TranslateError("zone: create early return")
    fields = re.sub(r"\s+", " ", m.group(3)).strip()
    if not re.match(r"alloc: A::new\(frames, init, classing, meta\)\?, offset, _p: PhantomData,?$", fields):
        raise TranslateError(f"zone: ZoneAlloc::create fields {fields}")
    em = ZoneEmit({'offset': 'offset'})
    out += [f"/-- `ZoneAlloc::create`: the condition under which the offset is rejected, and the error -/",
            f"def createRejects (treeOrder offset : Nat) : Bool :=\n  {em.ex(cond)}",
            f"def createError : Except Err Unit := {em.ex(rets[0][1])}", ""]
    # --- NvmAlloc::create: size condition, header condition, split point
    params, body = extract_fn(src, 'create', within=NC)
    body_nc = re.sub(r"//[^\n]*", "", body)
    m = re.search(r"if\s+(size_of_val\(zone\)[^|{]*?)\s*\|\|", body_nc, re.S)
    if not m: raise TranslateError("zone: NvmAlloc::create size condition")
    size_cond = P(tokenize_str(m.group(1) + ' }')).expr()
    m = re.search(r"let\s+frames\s*=\s*meta\.frames\.load\(Acquire\);\s*if\s+(.*?)\s*\{", body_nc, re.S)
    if not m: raise TranslateError("zone: NvmAlloc::create header condition")
    hdr_cond = P(tokenize_str(m.group(1) + ' }')).expr(nostruct=True)
    m = re.search(r"zone\.split_at_mut\((.*?)\);", body_nc, re.S)
    if not m: raise TranslateError("zone: NvmAlloc::create split point")
    split = P(tokenize_str(m.group(1) + ' }')).expr()
    # the order of the statements that decide what `zone.len()` means: the header page is split off first
    i_split_last = body_nc.find('zone.split_last_mut()'); i_hdr = body_nc.find('meta.frames.load'); i_store = body_nc.find('meta.frames.store(zone.len()'); i_at = body_nc.find('zone.split_at_mut(')
    if not (0 < body_nc.find('size_of_val(zone)') < i_split_last < i_hdr < i_store < i_at):
        raise TranslateError("zone: NvmAlloc::create statement order")
    if not re.search(r"A::metadata_size\(classing,\s*zone\.len\(\)\)", body_nc[:i_split_last]):
        raise TranslateError("zone: NvmAlloc::create metadata size argument")
    em0 = ZoneEmit({'zone.len': 'zoneLen'})
    em1 = ZoneEmit({'zone.len': '(zoneLen - 1)', 'frames': 'headerFrames'})
    out += ["/-- `NvmAlloc::create`: the region of `zoneLen` frames is too small (`mLower = metadata_size(classing, zone.len()).lower`) -/",
            f"def nvmTooSmall (frameSize mLower zoneLen : Nat) : Bool :=\n  {em0.ex(size_cond)}",
            "/-- `NvmAlloc::create(recover = true)`: the header is rejected (after the header page was split off the zone) -/",
            f"def nvmHeaderRejects (metaMagicC headerMagic headerFrames zoneLen : Nat) : Bool :=\n  {em1.ex(hdr_cond)}",
            "/-- `NvmAlloc::create`: number of frames handed to the inner allocator (split point of the remaining zone) -/",
            f"def nvmManaged (frameSize mLower zoneLen : Nat) : Nat :=\n  {em1.ex(split)}", ""]
    out.append("end LLFree.Gen.Z")
    return "\n".join(out) + "\n"

GENERATORS = {'Consts': gen_consts, 'Fza': gen_fza, 'Leaf': gen_leaf, 'Tree': gen_tree, 'Local': gen_local, 'Huge': gen_huge, 'Policy': gen_policy, 'Toggle': gen_toggle, 'Check': gen_check, 'Meta': gen_meta, 'Sbuf': gen_sbuf, 'Idx': gen_idx, 'Zone': gen_zone}

def write_if_changed(path, txt):
    if os.path.exists(path) and read(path) == txt: return False
    os.makedirs(os.path.dirname(path), exist_ok=True)
    with open(path, 'w') as f: f.write(txt)
    return True

def main():
    repo = sys.argv[1] if len(sys.argv) > 1 else '/repo'
    outdir = sys.argv[2] if len(sys.argv) > 2 else '/verif/lean/LLFreeV/Gen'
    only = sys.argv[3:] or list(GENERATORS)
    rc = 0
    for name in only:
        try:
            txt = GENERATORS[name](repo)
            ch = write_if_changed(os.path.join(outdir, name + '.lean'), txt)
            print(f"rs2lean: {name}: {'updated' if ch else 'unchanged'}")
        except TranslateError as ex:
            print(f"rs2lean: {name}: TRANSLATE-ERROR: {ex}")
            rc = 2
    sys.exit(rc)

if __name__ == '__main__':
    main()
