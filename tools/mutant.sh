#!/bin/sh
# usage: mutant.sh <patch-file> <property>...   — apply a patch to /repo, run the quick checks, undo.
patch=$1; shift
git -C /repo apply "$patch" || { echo "patch does not apply"; exit 2; }
for p in "$@"; do
  python3 /verif/check.py "$p" --tier quick > /tmp/mutant_$p.log 2>&1
  echo "$p: exit $? : $(grep -E '^VIOLATION|^OK|^KNOWN' /tmp/mutant_$p.log | head -3 | tr '\n' ' ')"
done
git -C /repo checkout -- .
