#!/usr/bin/env python3
"""Regenerate the `checks` / `not_applicable` parts of MANIFEST.json from tools/claims.py."""
import json, os, sys
ROOT = os.path.dirname(os.path.dirname(os.path.abspath(__file__)))
sys.path.insert(0, os.path.join(ROOT, 'tools'))
from claims import CLAIMS, NOT_APPLICABLE
m = json.load(open(os.path.join(ROOT, 'MANIFEST.json')))
m['checks'] = []
for pid in sorted(CLAIMS):
    c = CLAIMS[pid]
    m['checks'].append({
        'property_id': pid,
        'quick_cmd': f'python3 /verif/check.py {pid} --tier quick',
        'thorough_cmd': f'python3 /verif/check.py {pid} --tier thorough',
        'evidence_file': f'/verif/evidence/{pid}.json',
        'replay_cmd_template': f'python3 /verif/check.py {pid} --replay {{path}}',
        'engine': 'lean-proofs + harness',
        'level_claimed': {'category': 'proof', 'text': c['text'], 'design_ref': c.get('design_ref', 'DESIGN.md §7 ' + pid)},
        'level_note': c['note'],
        'technique': c['technique'],
    })
m['not_applicable'] = [{'property_id': k, 'reason': v} for k, v in sorted(NOT_APPLICABLE.items())]
for e in m['engines']:
    e['serves_properties'] = sorted(CLAIMS)
json.dump(m, open(os.path.join(ROOT, 'MANIFEST.json'), 'w'), indent=1)
print('claimed:', ' '.join(sorted(CLAIMS)), '| not claimed:', ' '.join(sorted(NOT_APPLICABLE)))
