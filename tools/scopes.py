"""Per-property scope of the correspondence runs and oracles (see DESIGN.md §7)."""

GEOMS = {
    'default': {'features': []},                 # HUGE_ORDER 9, TREE_HUGE 4
    'th1': {'features': ['tree_huge_1']},
    'th2': {'features': ['tree_huge_2']},
    'th8': {'features': ['tree_huge_8']},
    'k16': {'features': ['k16']},                # HUGE_ORDER 11
}
ALLG = ['default', 'th1', 'th2', 'th8', 'k16']

def seq(flavor, histories, length, extra=()):
    return {'args': ['seq', '--seed', '{seed}', '--flavor', flavor, '--histories', str(histories), '--len', str(length)] + list(extra)}

def conc(scenarios, dfs, randoms, freezes, crash_every=0, kind=None, bound=2):
    a = ['conc', '--seed', '{seed}', '--scenarios', str(scenarios), '--dfs', str(dfs), '--random', str(randoms),
         '--freeze', str(freezes), '--bound', str(bound), '--crash-every', str(crash_every)]
    if kind is not None: a += ['--kind', str(kind)]
    return {'args': a}

T_RULE = ('concurrent scenarios (2-3 real threads, 1-3 calls each, 1-3 trees: multi-row allocations racing in one huge '
          'frame, frees of parts of one whole huge frame, lower-level calls, nearly full allocators with drains and targeted '
          'gets, random mixes incl. tree changes) run under a deterministic scheduler that decides before every atomic '
          'access which thread proceeds: preemption-bounded DFS over schedules, seeded random schedules, and freeze '
          'experiments; the per-access event trace and every call result are replayed on the Lean interleaving semantics. ')

def unit(what, n):
    return {'args': ['unit', what, '--seed', '{seed}', '--n', str(n)]}

S_RULE = ('sequential histories generated from the state of the real allocator (seeded splitmix64): boundary-dense frame '
          'counts over 1-4 trees, free-all/allocate-all, simple/movable/zeroed/zero-slot/custom-invalid classings, '
          'gets of every order with/without target and slot, frees of held/partial/super/foreign blocks, drains, tree '
          'changes, malformed calls; every answer, statistic and a digest of all three metadata buffers is compared '
          'with the Lean model after every call. distinct_nontrivial counts distinct (operation, result, order/shape) '
          'signatures summed over runs.')

PROPS = {
    'C23': {
        'oracles': ['C23'], 'bv_decide': True,
        'geoms': {'quick': ['default'], 'thorough': ['default']},
        'runs': {'quick': [unit('fza', 3000)], 'thorough': [unit('fza', 300000)]},
        'rule': ('rows: saturated/empty, every single free aligned block, misaligned holes, borrow chains, and seeded '
                 'random rows (dense/sparse/per-block structured) for each order 0..6; the compiled '
                 'first_zeros_aligned is compared with the regenerated Lean function and with a naive reference. '
                 'distinct_nontrivial = distinct (order, result kind, zero-density bucket) signatures.'),
        'assumptions': ['bv_decide: LRAT certificates checked by the compiled checker (axioms *.bv_decide.ax_*)',
                        'rs2lean renders the whitelisted expression subset faithfully (cross-checked by the unit run)'],
    },
    'C16': {
        'oracles': ['C16'],
        'geoms': {'quick': ['default'], 'thorough': ['default', 'th1', 'k16']},
        'runs': {'quick': [{'args': ['unit', 'sbuf', '--seed', '{seed}', '--n', '3000', '--exhaustive', '5']}, unit('sbest', 3000)],
                 'thorough': [{'args': ['unit', 'sbuf', '--seed', '{seed}', '--n', '200000', '--exhaustive', '8']}, unit('sbest', 200000)]},
        'rule': ('SortedBuffer: bounded-exhaustive insertion sequences (length <= 5 quick / 8 thorough) over 4 ratings for '
                 'capacities 0..8 plus seeded random long sequences (ties tracked by insertion index); search_best over '
                 'random tree-counter/class/reserved arrays of 1..24 trees with the three rating closures of llfree.rs and '
                 'a recording access callback; implementation vs model, plus the top-N / best-first oracle. '
                 'distinct_nontrivial = distinct (capacity, length/kept or rating-shape) signatures.'),
        'assumptions': ['"rating" is the order the source defines for (Policy, entirely_free): derive(Ord) Match(u8) < Demote < Steal'],
    },
    'C19': {
        'oracles': ['C19'],
        'geoms': {'quick': ['default'], 'thorough': ['default']},
        'runs': {'quick': [unit('req', 300)], 'thorough': [unit('req', 30000)]},
        'rule': ('class configurations rendered as JSON and parsed by the evaluation crate itself: all combinations of the 5 '
                 'slot-count kinds for 1-3 classes, random 4-class ones, repeated ids, random order ranges and GFP matcher '
                 'trees (depth <= 3), plus the shipped results/classes*.json; requests for cores 1..16, core/pid 0..64, '
                 'orders 0..10, GFP flag subsets; (class, slot, slot count) compared with the Lean model and checked against '
                 'the oracle slot < slots(class). distinct_nontrivial = distinct (source, slot present, #classes) signatures.'),
        'assumptions': ['JSON parsing (facet) is outside the model: configurations enter the model in a rendered syntax'],
    },
    'C13': {
        'oracles': ['C13'],
        'geoms': {'quick': ['default', 'th1'], 'thorough': ALLG},
        'runs': {'quick': [seq('mixed', 30, 150), seq('change', 10, 150)],
                 'thorough': [seq('mixed', 600, 300), seq('change', 200, 300), seq('drain', 200, 300)]},
        'rule': S_RULE + ' Oracle: every successful get reports the requested class or one the configured policy rates Match/Steal.',
        'assumptions': ['policy functions are pure (fn pointers without state)'],
    },
    'C08': {
        'oracles': ['C08'],
        'geoms': {'quick': ['default', 'th1'], 'thorough': ALLG},
        'runs': {'quick': [seq('malformed', 30, 150), unit('meta', 400)],
                 'thorough': [seq('malformed', 600, 300), seq('mixed', 200, 300), unit('meta', 40000)]},
        'rule': S_RULE + (' Malformed stream: orders up to TREE_ORDER+3, frames at/around the range end, misaligned by 1..2^k-1, '
                          'beyond the range and near usize::MAX, classes 0..7 against 1-3 configured; every rejected call must '
                          'leave the digest of all three buffers unchanged. unit meta: LLFree::new over buffers carved from one '
                          'arena: exact size, one byte short, offset by 1..63, overlapping pairs.'),
        'assumptions': ['class ids are 0..7 (a larger id indexes the 8-entry class table out of bounds in the source)'],
    },
    'C20': {
        'oracles': ['C20'], 'replay_bin': True,
        'geoms': {'quick': ['default'], 'thorough': ['default']},
        'runs': {'quick': [unit('replay', 150)], 'thorough': [unit('replay', 5000)]},
        'rule': ('synthetic trace files (header page + per-cpu trace pages, the binary format of replay.rs) with allocations '
                 'of orders 0..10, whole/first/middle/last-part frees, and (in ill-formed traces) frees of unknown pfns, '
                 're-allocations and extra cpus, over 1-4 cores; the built `replay` binary is run on each file and its '
                 'free_frames / number of failed frees compared with the Lean replay loop over the allocator model; for '
                 'well-formed traces the oracle requires 0 failed frees and free = managed - frames the trace still holds. '
                 'distinct_nontrivial = distinct (well-formed, failed, size bucket) signatures.'),
        'assumptions': ['trace parsing (mmap, bit-field unpacking, sort by f32 time) is exercised through the binary but not modelled',
                        'the replay binary is built from /repo by cargo into harness/target-replay'],
    },
    'C07': {
        'oracles': ['C07'],
        'geoms': {'quick': ['default', 'th2'], 'thorough': ALLG},
        'runs': {'quick': [seq('handoff', 30, 150)], 'thorough': [seq('handoff', 600, 300), seq('mixed', 200, 300)]},
        'rule': S_RULE + (' Handoff: at random quiescent points a second allocator is constructed with Init::None over byte copies '
                          'of the three buffers; both are driven with the identical continuation and compared (results, digest of '
                          'all buffers, stats, tree_stats) after every call; the primary is also rebuilt in place from its own buffers.'),
        'assumptions': ['the implementation keeps no state outside (configuration, three buffers): exactly what the twin run measures'],
    },
    'C17': {
        'oracles': ['C17', 'C08'],
        'geoms': {'quick': ['default', 'th1'], 'thorough': ALLG},
        'runs': {'quick': [seq('zone', 30, 150), unit('nvm', 40)], 'thorough': [seq('zone', 600, 300), unit('nvm', 2000)]},
        'rule': ('zone wrapper: histories through ZoneAlloc with offsets k*TREE_FRAMES (and misaligned offsets, which must be refused), '
                 'targets/frees below, at and above the offset, frees that forgot the offset, stats_at through the wrapper; persistent '
                 'wrapper: anonymous memory regions of 1..3 trees plus odd remainders and tiny regions at several aligned bases: '
                 'recover of the untouched region (must be refused), create, random history through NvmAlloc (every returned block must '
                 'lie inside the managed frames), forget + recover (same statistics, every held block freeable), recover with a '
                 'different size (must be refused); layout and all results compared with the Lean model. '
                 'distinct_nontrivial = distinct (operation, result, shape) signatures.'),
        'assumptions': ['the header page accesses (two AtomicUsize stores/loads) are run, not modelled beyond nvmHeaderOk'],
    },
    'C12': {
        'oracles': ['C12', 'C02'], 'bv_decide': True,
        'geoms': {'quick': ['default', 'th1'], 'thorough': ALLG},
        'runs': {'quick': [seq('lower', 40, 150)], 'thorough': [seq('lower', 1500, 300), conc(20, 100, 50, 0, kind=2)]},
        'rule': ('crafted lower metadata satisfying the invariant (per huge frame: allocated whole / empty / full / aligned '
                 'sub-blocks of a random order each empty, full, single-bit or random; partial last huge frames and trees), then '
                 'Lower::get with every hint row and order 0..TREE_ORDER, directed get_at, frees of held blocks, is_free; results '
                 'and a digest of the metadata compared with the Lean model after every call; oracle: a failing search implies no '
                 'aligned free block of the order in the tree, a success marks exactly the block. '
                 'distinct_nontrivial = distinct (operation, result, order) signatures.'),
        'assumptions': [],
    },
}
