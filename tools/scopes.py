"""Per-property scope of the correspondence runs and oracles (see DESIGN.md §7)."""

GEOMS = {
    'default': {'features': []},                 # HUGE_ORDER 9, TREE_HUGE 4
    'th1': {'features': ['tree_huge_1']},
    'th2': {'features': ['tree_huge_2']},
    'th8': {'features': ['tree_huge_8']},
    'k16': {'features': ['k16']},                # HUGE_ORDER 11
}
ALLG = ['default', 'th1', 'th2', 'th8', 'k16']

def seq(flavor, histories, length, extra=()):
    return {'args': ['seq', '--seed', '{seed}', '--flavor', flavor, '--histories', str(histories), '--len', str(length)] + list(extra)}

def conc(scenarios, dfs, randoms, freezes, crash_every=0, kind=None, bound=2):
    a = ['conc', '--seed', '{seed}', '--scenarios', str(scenarios), '--dfs', str(dfs), '--random', str(randoms),
         '--freeze', str(freezes), '--bound', str(bound), '--crash-every', str(crash_every)]
    if kind is not None: a += ['--kind', str(kind)]
    return {'args': a}

T_RULE = ('concurrent scenarios (2-3 real threads, 1-3 calls each, 1-3 trees: multi-row allocations racing in one huge '
          'frame, frees of parts of one whole huge frame, lower-level calls, nearly full allocators with drains and targeted '
          'gets, random mixes incl. tree changes) run under a deterministic scheduler that decides before every atomic '
          'access which thread proceeds: preemption-bounded DFS over schedules, seeded random schedules, and freeze '
          'experiments; the per-access event trace and every call result are replayed on the Lean interleaving semantics. ')

def unit(what, n):
    return {'args': ['unit', what, '--seed', '{seed}', '--n', str(n)]}

S_RULE = ('sequential histories generated from the state of the real allocator (seeded splitmix64): boundary-dense frame '
          'counts over 1-4 trees, free-all/allocate-all, simple/movable/zeroed/zero-slot/custom-invalid classings, '
          'gets of every order with/without target and slot, frees of held/partial/super/foreign blocks, drains, tree '
          'changes, malformed calls; every answer, statistic and a digest of all three metadata buffers is compared '
          'with the Lean model after every call. distinct_nontrivial counts distinct (operation, result, order/shape) '
          'signatures summed over runs.')

E_RULE = (' unit ent: every pure transition of the packed entries (Tree::with/put/steal/reserve_or_steal/unreserve_add/'
          'sync_steal/change, LocalTree::with/get/put/set_start, HugeEntry::new_with/dec/inc/free) is called on raw bits through '
          'the verif hooks for the full product of boundary counter values (0,1,2,63..65, 1/64, 1/8, 1/4, 1/2 +-1, TREE_FRAMES-64..TREE_FRAMES) x '
          'reserved x class x every power-of-two amount (and 0, 3, TREE_FRAMES +-1) x 5 policies (simple, movable, zeroed, two with Invalid pairs) x class '
          'arguments, plus seeded random entries; each result (new bits / None / panic) is compared with the Lean function the Prog model applies inside its '
          'atomic update, and checked against conservation / payability / class oracles.')

PROPS = {
    'C23': {
        'oracles': ['C23'], 'bv_decide': True,
        'geoms': {'quick': ['default'], 'thorough': ['default']},
        'runs': {'quick': [unit('fza', 3000)], 'thorough': [unit('fza', 300000)]},
        'rule': ('rows: saturated/empty, every single free aligned block, misaligned holes, borrow chains, and seeded '
                 'random rows (dense/sparse/per-block structured) for each order 0..6; the compiled '
                 'first_zeros_aligned is compared with the regenerated Lean function and with a naive reference. '
                 'distinct_nontrivial = distinct (order, result kind, zero-density bucket) signatures.'),
        'assumptions': ['bv_decide: LRAT certificates checked by the compiled checker (axioms *.bv_decide.ax_*)',
                        'rs2lean renders the whitelisted expression subset faithfully (cross-checked by the unit run)'],
    },
    'C16': {
        'oracles': ['C16'],
        'geoms': {'quick': ['default'], 'thorough': ['default', 'th1', 'k16']},
        'runs': {'quick': [{'args': ['unit', 'sbuf', '--seed', '{seed}', '--n', '3000', '--exhaustive', '5']}, unit('sbest', 3000)],
                 'thorough': [{'args': ['unit', 'sbuf', '--seed', '{seed}', '--n', '200000', '--exhaustive', '8']}, unit('sbest', 200000)]},
        'rule': ('SortedBuffer: bounded-exhaustive insertion sequences (length <= 5 quick / 8 thorough) over 4 ratings for '
                 'capacities 0..8 plus seeded random long sequences (ties tracked by insertion index); search_best over '
                 'random tree-counter/class/reserved arrays of 1..24 trees with the three rating closures of llfree.rs and '
                 'a recording access callback; implementation vs model, plus the top-N / best-first oracle. '
                 'distinct_nontrivial = distinct (capacity, length/kept or rating-shape) signatures.'),
        'assumptions': ['"rating" is the order the source defines for (Policy, entirely_free): derive(Ord) Match(u8) < Demote < Steal'],
    },
    'C19': {
        'oracles': ['C19'],
        'geoms': {'quick': ['default'], 'thorough': ['default']},
        'runs': {'quick': [unit('req', 300)], 'thorough': [unit('req', 30000)]},
        'rule': ('class configurations rendered as JSON and parsed by the evaluation crate itself: all combinations of the 5 '
                 'slot-count kinds for 1-3 classes, random 4-class ones, repeated ids, random order ranges and GFP matcher '
                 'trees (depth <= 3), plus the shipped results/classes*.json; requests for cores 1..16, core/pid 0..64, '
                 'orders 0..10, GFP flag subsets; (class, slot, slot count) compared with the Lean model and checked against '
                 'the oracle slot < slots(class). distinct_nontrivial = distinct (source, slot present, #classes) signatures.'),
        'assumptions': ['JSON parsing (facet) is outside the model: configurations enter the model in a rendered syntax'],
    },
    'C13': {
        'oracles': ['C13'],
        'geoms': {'quick': ['default', 'th1'], 'thorough': ALLG},
        'runs': {'quick': [unit('ent', 2000), seq('mixed', 30, 150), seq('change', 10, 150)],
                 'thorough': [unit('ent', 200000), seq('mixed', 600, 300), seq('change', 200, 300), seq('drain', 200, 300)]},
        'rule': S_RULE + ' Oracle: every successful get reports the requested class or one the configured policy rates Match/Steal.' + E_RULE,
        'assumptions': ['policy functions are pure (fn pointers without state)'],
    },
    'C08': {
        'oracles': ['C08'],
        'geoms': {'quick': ['default', 'th1'], 'thorough': ALLG},
        'runs': {'quick': [seq('malformed', 30, 150), seq('zone', 15, 150), unit('meta', 400)],
                 'thorough': [seq('malformed', 600, 300), seq('mixed', 200, 300), seq('zone', 300, 300), unit('meta', 40000)]},
        'rule': S_RULE + (' Malformed stream: orders up to TREE_ORDER+3, frames at/around the range end, misaligned by 1..2^k-1, '
                          'beyond the range and near usize::MAX, classes 0..7 against 1-3 configured; every rejected call must '
                          'leave the digest of all three buffers unchanged. unit meta: LLFree::new over buffers carved from one '
                          'arena: exact size, one byte short, offset by 1..63, overlapping pairs. Zone flavor: targets and frees below, at and '
                          'above the zone offset; a call below the offset must answer Argument and change nothing.'),
        'assumptions': ['class ids are 0..7 (a larger id indexes the 8-entry class table out of bounds in the source)'],
    },
    'C20': {
        'oracles': ['C20'], 'replay_bin': True,
        'geoms': {'quick': ['default'], 'thorough': ['default']},
        'runs': {'quick': [unit('replay', 150)], 'thorough': [unit('replay', 5000)]},
        'rule': ('synthetic trace files (header page + per-cpu trace pages, the binary format of replay.rs) with allocations '
                 'of orders 0..10, whole/first/middle/last-part frees, and (in ill-formed traces) frees of unknown pfns, '
                 're-allocations and extra cpus, over 1-4 cores; the built `replay` binary is run on each file and its '
                 'free_frames / number of failed frees compared with the Lean replay loop over the allocator model; for '
                 'well-formed traces the oracle requires 0 failed frees and free = managed - frames the trace still holds. Traces of 24 or more events carry time stamps '
                 'around 100 s, where consecutive events of one CPU share their f32 sort key (the replayer sorts on f32 seconds), and a third of the frees release '
                 'the block allocated by the immediately preceding event of the same CPU: the merge of the per-CPU pages must be stable. '
                 'distinct_nontrivial = distinct (well-formed, failed, size bucket) signatures.'),
        'assumptions': ['trace parsing (mmap, bit-field unpacking, sort by f32 time) is exercised through the binary but not modelled',
                        'the replay binary is built from /repo by cargo into harness/target-replay'],
    },
    'C07': {
        'oracles': ['C07'],
        'geoms': {'quick': ['default', 'th2'], 'thorough': ALLG},
        'runs': {'quick': [seq('handoff', 30, 150)], 'thorough': [seq('handoff', 600, 300), seq('mixed', 200, 300)]},
        'rule': S_RULE + (' Handoff: at random quiescent points a second allocator is constructed with Init::None over byte copies '
                          'of the three buffers; both are driven with the identical continuation and compared (results, digest of '
                          'all buffers, stats, tree_stats) after every call; the primary is also rebuilt in place from its own buffers.'),
        'assumptions': ['the implementation keeps no state outside (configuration, three buffers): exactly what the twin run measures'],
    },
    'C17': {
        'oracles': ['C17', 'C08'],
        'geoms': {'quick': ['default', 'th1'], 'thorough': ALLG},
        'runs': {'quick': [seq('zone', 30, 150), unit('nvm', 60)], 'thorough': [seq('zone', 600, 300), unit('nvm', 2000)]},
        'rule': ('zone wrapper: histories through ZoneAlloc with offsets k*TREE_FRAMES (and misaligned offsets, which must be refused), '
                 'targets/frees below, at and above the offset, frees that forgot the offset, stats_at through the wrapper; persistent '
                 'wrapper: anonymous memory regions of 1..3 trees plus odd remainders and tiny regions at several aligned bases: '
                 'recover of the untouched region (must be refused), create, random history through NvmAlloc (every returned block must '
                 'lie inside the managed frames), forget + recover (same statistics, every held block freeable), recover with a '
                 'different size (must be refused); layout and all results compared with the Lean model. '
                 'distinct_nontrivial = distinct (operation, result, shape) signatures.'),
        'assumptions': ['the header page accesses (two AtomicUsize stores/loads) are run, not modelled beyond nvmHeaderOk'],
    },
    'C12': {
        'oracles': ['C12', 'C02'], 'bv_decide': True,
        'geoms': {'quick': ['default', 'th1'], 'thorough': ALLG},
        'runs': {'quick': [seq('lower', 40, 150)], 'thorough': [seq('lower', 1500, 300), conc(20, 100, 50, 0, kind=2)]},
        'rule': ('crafted lower metadata satisfying the invariant (per huge frame: allocated whole / empty / full / aligned '
                 'sub-blocks of a random order each empty, full, single-bit or random; partial last huge frames and trees), then '
                 'Lower::get with every hint row and order 0..TREE_ORDER, directed get_at, frees of held blocks, is_free; results '
                 'and a digest of the metadata compared with the Lean model after every call; oracle: a failing search implies no '
                 'aligned free block of the order in the tree, a success marks exactly the block. '
                 'distinct_nontrivial = distinct (operation, result, order) signatures.'),
        'assumptions': [],
    },
    'C01': {
        'oracles': ['C01'], 'bv_decide': True,
        'geoms': {'quick': ['default', 'th1'], 'thorough': ALLG},
        'runs': {'quick': [conc(12, 60, 30, 0), seq('mixed', 20, 150), seq('lower', 30, 150)],
                 'thorough': [conc(150, 400, 200, 0, bound=3), seq('mixed', 300, 300), seq('lower', 300, 300)]},
        'rule': T_RULE + ('Oracle: every block returned by any thread is aligned, in range, equal to the target if one was given, and '
                          'disjoint from every block held by any thread at that moment; at the quiescent end the metadata equals the '
                          'blocks handed out. Sequential part: ' + S_RULE),
        'partial': ('all sequential histories proved at the public interface; every interleaving of any number of threads proved at the public interface '
                    '(LLFree::get every path, LLFree::put at allocation order, drain; disjoint, aligned, in range, allocated); partial frees under interleavings explored by scheduler-controlled runs'),
        'assumptions': ['hooked atomics: a yield point before every Atom access; compare_exchange never fails spuriously (x86-64/strong CAS)'],
    },
    'C02': {
        'oracles': ['C02', 'C09'], 'bv_decide': True,
        'geoms': {'quick': ['default', 'th1'], 'thorough': ALLG},
        'runs': {'quick': [seq('mixed', 30, 150), seq('lower', 15, 150)],
                 'thorough': [seq('mixed', 800, 300), seq('single', 100, 300), seq('drain', 200, 300), seq('lower', 400, 300), seq('init', 200, 100)]},
        'rule': S_RULE + (' Ownership oracle: a get succeeds only with an aligned in-range block all of whose frames were free and marks exactly '
                          'them; a put succeeds iff the shadow model allows it (all frames allocated, whole-huge-frame rule) and frees exactly '
                          'them; a failing call changes no frame.'),
        'partial': ('sequentially proved at full strength for get/put/drain/change_tree in every state reachable from a free-all / allocate-all construction '
                    '(any frame count); for Init::Recover/None the invariant of the handed-over state is assumed (C05/C07); the state after any concurrent history of public calls (all returned) satisfies it too (conc_then_history_keeps_invariant)'),
        'assumptions': [],
    },
    'C03': {
        # a sequential history is an interleaving: panics (C09 oracle) and failed frees of held blocks (C02 oracle)
        # of the sequential engine count for C03 as well
        'oracles': ['C03', 'C09', 'C02'], 'bv_decide': True,
        'geoms': {'quick': ['default', 'th1'], 'thorough': ALLG},
        'runs': {'quick': [conc(12, 60, 30, 4), conc(2, 60, 20, 0, kind=6), seq('mixed', 20, 150), seq('lower', 20, 150), seq('change', 20, 200)],
                 'thorough': [conc(150, 400, 200, 20, bound=3), conc(10, 200, 100, 0, kind=6, bound=3), seq('mixed', 300, 300), seq('lower', 300, 300), seq('change', 300, 300)]},
        'rule': T_RULE + ('Oracle: no call panics (panic capture per thread) and every free of a block the thread holds returns Ok. '
                          'The known finding K1 (spin in partial_put_huge exhausts RETRIES) is matched by its panic message. '
                          'Scenario kind 6: a free into an offline tree racing with change_tree(Online) (oracles only: a concurrent Online is outside the '
                          'interleaving model); the known finding K2 (counter assertion of Tree::put) is matched by its message. '
                          'Sequential histories (a special case of interleavings) with panic capture and the ownership oracle: ' + S_RULE),
        'partial': ('refuted for the unchanged code by a kernel-checked schedule (K1, known finding); sequential half proved for every history; every '
                    'interleaving proved for the whole lower allocator and for the whole public interface (get every path, put at allocation order, drain; valid parameters): no call panics (conc_public_api_no_panic), every free of a held block returns Ok (conc_public_put_of_held_succeeds), also with concurrent change_tree calls that change classes or take trees offline (conc_public_api_no_panic_with_tree_changes); partial frees of huge allocations are the refuted case K1, change_tree(Online) racing with a free the refuted case K2'),
        'assumptions': ['hooked atomics: a yield point before every Atom access; compare_exchange never fails spuriously'],
    },
    'C04': {
        'oracles': ['C04'], 'bv_decide': True,
        'geoms': {'quick': ['default', 'th1'], 'thorough': ALLG},
        'runs': {'quick': [unit('ent', 2000), seq('mixed', 30, 150), seq('change', 10, 150), conc(8, 40, 20, 0), conc(2, 60, 20, 0, kind=7)],
                 'thorough': [unit('ent', 200000), seq('mixed', 800, 300), seq('change', 200, 300), seq('drain', 200, 300), seq('init', 200, 100), conc(100, 300, 150, 0),
                              conc(10, 200, 100, 0, kind=7, bound=3)]},
        'rule': S_RULE + (' Scenario kind 7: a free into an offline tree (with another allocated frame) racing with change_tree(Online), oracles only; '
                          'the known finding K3 (tree counter over-reports, validate() fails at the quiescent end) is matched by its message.'
                          ' Accounting oracle after every call: stats() = (free frames, entirely free huge frames, entirely free trees) of the '
                          'shadow allocation state; tree_stats().free_frames = that minus the frames hidden by offline trees; per-class sums; '
                          'stats_at / is_free probes; validate() must not panic while no tree is offline. Concurrent: the same at the quiescent '
                          'end of every explored schedule. ' + T_RULE) + E_RULE,
        'partial': ('exact views (stats, stats_at huge/tree), the per-tree identity fast + hidden = exact, the tree_stats program (no panic, read-only, total = tree counters + reservations) '
                    'validate(), stats_at(frame, 0), is_free (all orders) proved; at the quiescent end of EVERY interleaving of public calls (get, put at allocation order, drain) in which every call returned the whole sequential invariant holds again (conc_quiescent_upper_invariant): fast = exact - offline and validate() there are theorems; the same with concurrent change_tree calls that change classes or take trees offline (conc_quiescent_with_tree_changes); interleavings with a trapped call and partial frees of huge allocations (K1) are carried by the correspondence; change_tree(Online) racing with a free is the refuted case K3'),
        'assumptions': [],
    },
    'C05': {
        'oracles': ['C05'], 'bv_decide': True,
        'geoms': {'quick': ['default', 'th1'], 'thorough': ALLG},
        'runs': {'quick': [conc(10, 40, 20, 0, crash_every=3), seq('mixed', 15, 150), seq('recov', 30, 200), unit('nvm', 40)],
                 'thorough': [conc(120, 300, 150, 0, crash_every=1, bound=3), seq('mixed', 300, 300), seq('recov', 600, 300), unit('nvm', 500)]},
        'rule': T_RULE + ('Crash oracle: before every crash_every-th atomic write to the lower (persistent) buffer of every explored schedule the '
                          'buffer is copied; the copy is recovered by the real LLFree::new(Init::Recover) with zeroed volatile buffers; every block '
                          'held by a completed call must be allocated and freeable at its order, stats/tree_stats must agree (validate), and at most '
                          'the frames of the calls in flight may be missing. Sequential: recover at quiescent points compared with the model and with the allocation status the callers held before (flavor recov: frequent recoveries, targeted multi-row allocations); whenever ownership model and lower metadata disagree, a copy of the metadata is recovered by the real code and compared frame by frame.'),
        'partial': ('recovery proved from every state satisfying the weak invariant (re-establishes both invariants, keeps the allocation status of every '
                    'frame); every state of every interleaving of public-interface calls (frees at allocation order) proved to be such a state with all holdings recorded; '
                    'crash states of sequences with partial frees of huge allocations explored, not proved'),
        'assumptions': ['crash = loss of everything but the lower buffer at an atomic-access boundary (no torn 64-bit writes, no reordering of persisted stores)'],
    },
    'C06': {
        'oracles': ['C02', 'C04', 'C09', 'C10'],
        'geoms': {'quick': ['default', 'th1', 'k16'], 'thorough': ALLG},
        'runs': {'quick': [unit('ent', 2000), seq('init', 40, 30)], 'thorough': [unit('ent', 200000), seq('init', 1500, 60), seq('mixed', 200, 300)]},
        'rule': ('boundary-dense frame counts (1..130, multiples of 64 / huge frame / tree -1,0,+1, random up to 4 trees), free-all and '
                 'allocate-all 50/50, every classing; after construction the digest of all three buffers, stats, tree_stats, validate, '
                 'stats_at of every huge frame and tree, is_free probes at the end of the range are compared with the Lean model; then '
                 'free-all: exhaust with a random order then with base frames (every further get must fail, C10 oracle), free everything; '
                 'allocate-all: gets must fail, everything is freed piecewise (tree/huge/small orders), then the cycle repeats; ownership '
                 'and accounting oracles after every call. ' + S_RULE) + E_RULE,
        'partial': ('none for free-all / allocate-all: the init programs are proved to establish both invariants and the stated allocation state for every '
                    'frame count; the dynamic clauses are C02/C04 theorems. (Tie of the model to the source: byte-level correspondence.)'),
        'assumptions': [],
    },
    'C09': {
        'oracles': ['C09'], 'bv_decide': True,
        'geoms': {'quick': ['default', 'th1'], 'thorough': ALLG},
        'runs': {'quick': [seq('mixed', 30, 150), seq('malformed', 10, 150), seq('init', 10, 30)],
                 'thorough': [seq('mixed', 800, 300), seq('malformed', 200, 300), seq('change', 200, 300), seq('drain', 200, 300), seq('init', 300, 60), seq('zone', 100, 300)]},
        'rule': S_RULE + ' Oracle: no public call (new, get, put, drain, change_tree, stats, tree_stats, stats_at, is_free, validate while online) panics; every call runs under catch_unwind.',
        'partial': ('proved: construction (free-all/allocate-all, every frame count incl. 0; recovery from every weak-invariant state: C05) and every sequential history of '
                    'get/put/drain/change_tree/stats/tree_stats/validate/stats_at/is_free never panic, for configurations satisfying CfgOk (all of the repository); configurations outside CfgOk are only explored'),
        'assumptions': ['harness built with overflow-checks on, debug-assertions off (assertions of the release configuration)'],
    },
    'C10': {
        'oracles': ['C10'], 'bv_decide': True,
        'geoms': {'quick': ['default', 'th1'], 'thorough': ALLG},
        'runs': {'quick': [unit('ent', 2000), seq('drain', 30, 150), seq('mixed', 15, 150)],
                 'thorough': [unit('ent', 200000), seq('drain', 800, 300), seq('mixed', 400, 300), seq('init', 200, 60), seq('single', 100, 300)]},
        'rule': S_RULE + (' Oracle (policies that never rate Invalid): directly after drain() a base-order get fails with Memory only if no tree outside '
                          'offline trees has a free frame in the shadow state; a targeted get fails only if its block is not entirely free or lies in '
                          'an offline tree (and succeeds only on free blocks: ownership oracle). Drain flavor: a drain precedes most probes.') + E_RULE,
        'partial': ('proved: drain clears all reservations; after a drain a base-order get succeeds whenever a tree has a positive counter (= a free frame '
                    'outside offline trees); targeted gets are exact (C02) and complete (a free block in a tree that is not hidden is always obtained); the quiescent end of every interleaving of public calls satisfies the invariant these theorems start from (conc_quiescent_then_drain_get)'),
        'assumptions': [],
    },
    'C11': {
        'oracles': ['C11'], 'bv_decide': True,
        'geoms': {'quick': ['default', 'th1'], 'thorough': ALLG},
        'runs': {'quick': [unit('ent', 2000), seq('single', 20, 150)], 'thorough': [unit('ent', 200000), seq('single', 150, 300), seq('mixed', 200, 300)]},
        'rule': S_RULE + ('single-slot histories: the requesting class with one slot, alone or with further classes above it (trees then start in the default class and are demoted on the way; ordered repository policies); ' + ' Single-slot flavor: one class with one slot, base-order gets through the slot, frees with and without the slot, exhaust '
                          'phases; oracle: with one slot a get fails only when the shadow state has no free frame (frees counted globally are '
                          'synchronised back into the slot).') + E_RULE,
        'partial': ('proved end to end for every invariant state of a one-class one-slot allocator with more trees than slots and no offline trees; '
                    'the relation "every state of a history satisfies the invariant" is C02/C06 (constructed allocators)'),
        'assumptions': [],
    },
    'C14': {
        'oracles': ['C14', 'C04'], 'bv_decide': True,
        'geoms': {'quick': ['default', 'th1'], 'thorough': ALLG},
        'runs': {'quick': [seq('mixed', 30, 150), seq('change', 10, 150)], 'thorough': [seq('mixed', 800, 300), seq('change', 300, 300), seq('drain', 200, 300)]},
        'rule': S_RULE + ' Oracle: the per-class rows of tree_stats() partition its totals (sum of class free = free_frames, sum of class trees = trees) and no row is negative/wrapped.',
        'partial': ('proved for every invariant state of every sequential history of a constructed allocator (whole tree_stats program, both sums); '
                    'and for the quiescent end of every interleaving of public calls in which every call returned (conc_quiescent_partition); interleavings with tree changes are explored'),
        'assumptions': [],
    },
    'C15': {
        'oracles': ['C15', 'C04'], 'bv_decide': True,
        'geoms': {'quick': ['default', 'th1'], 'thorough': ALLG},
        'runs': {'quick': [unit('ent', 2000), seq('change', 30, 150)], 'thorough': [unit('ent', 200000), seq('change', 800, 300), seq('mixed', 300, 300)]},
        'rule': S_RULE + (' Change flavor: change_tree with/without id, class/free matchers, class changes, Offline/Online, ids beyond the table; '
                          'oracle: an offline tree hands out nothing (targeted and untargeted gets, all slots), its frames vanish from tree_stats '
                          'but not from stats, Online restores the counter to the lower free count exactly, validate after the last Online.') + E_RULE,
        'partial': ('proved for every sequential history of a constructed allocator: change_tree (no panic, only matching unreserved trees, Online exact, allocation state '
                    'untouched) and "an offline tree is never allocated from" (exact accounting of hidden frames); concurrent interleavings with tree changes are explored'),
        'assumptions': ['model deviation: Online reads the lower counters before the tree update (the source inside the update closure); equivalent sequentially'],
    },
    'C21': {
        'oracles': ['C21'],
        'geoms': {'quick': ['default'], 'thorough': ['default', 'th1', 'k16']},
        'runs': {'quick': [conc(10, 20, 20, 40), seq('mixed', 15, 150), seq('lower', 10, 150), seq('malformed', 10, 100)],
                 'thorough': [conc(120, 100, 100, 600, bound=3), seq('mixed', 300, 300), seq('lower', 200, 300), seq('malformed', 200, 300), seq('change', 100, 300)]},
        'rule': T_RULE + ('Freeze experiments: at sampled scheduling points of explored schedules all threads but one are frozen and the remaining '
                          'call must complete within a fixed budget of atomic accesses (solo_bound of the configuration); the measured count of every freeze run is also sent to the Lean driver (`solocheck n`), which compares it with the proved bound apiB of the configuration; K1 panics end a call. '
                          'Sequential histories (every call runs without interference) under a watchdog: a call of the real allocator that makes no '
                          'progress for 20 s ends the run with exit 78 and is reported with the call as C21 violation (also for failing calls: '
                          'targeted gets on partly allocated chunks, frees with a wrong order, malformed calls).'),
        'assumptions': ['hooked atomics: a yield point before every Atom access; compare_exchange never fails spuriously'],
    },
    'C18': {
        'oracles': ['C18'], 'bv_decide': True,
        'geoms': {'quick': ['default', 'th1', 'k16'], 'thorough': ALLG},
        'runs': {'quick': [seq('init', 20, 40), seq('mixed', 20, 150), seq('lower', 10, 150), seq('malformed', 10, 100), conc(6, 30, 15, 0, crash_every=5), unit('meta', 200)],
                 'thorough': [seq('init', 600, 60), seq('mixed', 400, 300), seq('change', 100, 300), seq('drain', 100, 300), seq('lower', 200, 300),
                              seq('malformed', 200, 300), seq('handoff', 100, 300), conc(80, 200, 100, 10, crash_every=2), unit('meta', 20000)]},
        'rule': ('every metadata buffer (local, trees, lower) of every allocator constructed by the correspondence runs - boundary-dense frame counts '
                 'incl. 0 frames and zero-slot classes, all init modes, handoff copies, recovered copies at crash points - is an anonymous mapping of '
                 'exactly the size metadata_size requests, ending directly in front of an inaccessible guard page and preceded by a canary: any access '
                 'past the end kills the run (exit 77, reported as C18 violation with the command as replay), a write in front is found when the buffer '
                 'is dropped; coverage.concurrent_exploration.guarded_buffers counts the buffers. ' + S_RULE),
        'partial': ('proved: no modelled access of any sequential history leaves the typed arrays, and every logical index lies inside the byte buffers of '
                    'exactly the requested sizes; not modelled: narrow-atomic punning, non_atomic fills, pointer arithmetic of overlap, data races / UB of '
                    'the Rust abstract machine - explored only by the guard-page runs (no sanitizer is used by this technique)'),
        'assumptions': ['the correspondence validates the byte layout used by the theorems (digest of logical words read at these offsets after every call)',
                        'an out-of-bounds access of at most 64 bytes in front of a buffer that only reads is not detected (canary catches writes only)'],
    },
}
