"""Per-property scope of the correspondence runs and oracles (see DESIGN.md §7)."""

GEOMS = {
    'default': {'features': []},                 # HUGE_ORDER 9, TREE_HUGE 4
    'th1': {'features': ['tree_huge_1']},
    'th2': {'features': ['tree_huge_2']},
    'th8': {'features': ['tree_huge_8']},
    'k16': {'features': ['k16']},                # HUGE_ORDER 11
}
ALLG = ['default', 'th1', 'th2', 'th8', 'k16']

def seq(flavor, histories, length, extra=()):
    return {'args': ['seq', '--seed', '{seed}', '--flavor', flavor, '--histories', str(histories), '--len', str(length)] + list(extra)}

def unit(what, n):
    return {'args': ['unit', what, '--seed', '{seed}', '--n', str(n)]}

S_RULE = ('sequential histories generated from the state of the real allocator (seeded splitmix64): boundary-dense frame '
          'counts over 1-4 trees, free-all/allocate-all, simple/movable/zeroed/zero-slot/custom-invalid classings, '
          'gets of every order with/without target and slot, frees of held/partial/super/foreign blocks, drains, tree '
          'changes, malformed calls; every answer, statistic and a digest of all three metadata buffers is compared '
          'with the Lean model after every call. distinct_nontrivial counts distinct (operation, result, order/shape) '
          'signatures summed over runs.')

PROPS = {
    'C23': {
        'oracles': ['C23'], 'bv_decide': True,
        'geoms': {'quick': ['default'], 'thorough': ['default']},
        'runs': {'quick': [unit('fza', 3000)], 'thorough': [unit('fza', 300000)]},
        'rule': ('rows: saturated/empty, every single free aligned block, misaligned holes, borrow chains, and seeded '
                 'random rows (dense/sparse/per-block structured) for each order 0..6; the compiled '
                 'first_zeros_aligned is compared with the regenerated Lean function and with a naive reference. '
                 'distinct_nontrivial = distinct (order, result kind, zero-density bucket) signatures.'),
        'assumptions': ['bv_decide: LRAT certificates checked by the compiled checker (axioms *.bv_decide.ax_*)',
                        'rs2lean renders the whitelisted expression subset faithfully (cross-checked by the unit run)'],
    },
}
