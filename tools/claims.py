"""What MANIFEST.json claims per property (kept next to the scopes; tools/manifest.py renders it)."""

TB = ('Trusted: Lean 4.33 kernel + axioms propext/Classical.choice/Quot.sound; the hand-written model is tied to /repo '
      'by the differential correspondence (harness runs the real code in-process, Lean driver runs the same executable '
      'definitions the theorems are about); regenerated leaf code by tools/rs2lean.py. Modelled, not verified: '
      'sequentially consistent interleavings of single atomic accesses; u64/usize as Nat under range bounds.')

CLAIMS = {
    'C23': {
        'text': ('Theorem fza_spec: for all 2^64 rows and every order 0..6 the row search regenerated from '
                 'first_zeros_aligned returns none iff no aligned all-zero block exists, else the lowest one and the row '
                 'with exactly its bits set. Proof = 14 closed 64-bit facts by bv_decide + kernel-checked assembly; '
                 'the compiled Rust function is compared with the regenerated Lean function on structured/random rows.'),
        'note': TB + ' C23 additionally trusts bv_decide (LRAT checker run natively: axioms LLFree.FzaBv.*._native.bv_decide.ax_*).',
        'technique': 'Lean 4 theorem over translator-regenerated code (bv_decide + kernel assembly) + unit differential',
    },
}
CLAIMS['C16'] = {
    'text': ('Theorems sorted_buffer_top_n / tried_best_first: for every capacity and every insertion sequence the model of '
             'SortedBuffer::add keeps min(N, len) candidates, ascending, every dropped candidate rated no higher than every '
             'kept one, and candidates are tried in descending order; searchBest_fallback: the tree search of the model is '
             'exactly "remember scan candidates in that buffer, then access them best first" (perfect matches are accessed '
             'immediately by construction). Model tied to util.rs/trees.rs by bounded-exhaustive + random differential runs.'),
    'note': TB,
    'technique': 'Lean 4 invariant proof by induction over insertion sequences + characterisation theorem of the search; unit differential vs the compiled SortedBuffer/search_best',
}
CLAIMS['C19'] = {
    'text': ('Theorem request_valid: for every non-empty class list (ids may repeat), every outcome of the order/GFP matchers '
             '(an arbitrary predicate), every core, pid and core count >= 1, the generated request names a configured class '
             'and no slot or a slot index below that class\'s slot count; Count::{to_count,to_local} are regenerated from '
             'classes.rs by the translator on every run; request() is tied by a differential run through the real JSON parser.'),
    'note': TB,
    'technique': 'Lean 4 theorem over translator-regenerated Count + hand model of request(); unit differential through facet-json',
}
CLAIMS['C13'] = {
    'text': ('Theorems get_class_admissible / get_class_admissible_conc: for every policy function, configuration, memory '
             'contents and request, a get that returns ok (frame, cls) has cls = requested or the policy rates (requested, cls) '
             'Match/Steal; proved by structural induction over the get program with adversarial memory (every value observed by '
             'an atomic access universally quantified), hence for sequential runs and for every interleaving at single-access '
             'granularity. Model tied to llfree.rs/trees.rs/local.rs by byte-level sequential differential runs.'),
    'note': TB,
    'technique': 'Lean 4 structural induction with adversarial memory (Always predicate, sound for runSolo and single-access thread steps) + sequential differential',
}
CLAIMS['C08'] = {
    'text': ('Theorems get_invalid_rejected / put_invalid_rejected: for every configuration and memory, a call whose order exceeds '
             'the tree order, whose block extends past the managed range, whose frame is misaligned or whose class (0..7) is not '
             'configured returns Argument with the whole memory unchanged (check precedes every access); zone_*_below_offset; '
             'new_rejects_small/misaligned/overlap for MetaData::valid with overlap_iff (the source predicate is interval '
             'intersection for non-empty ranges). Differential: malformed call stream + construction over carved buffers.'),
    'note': TB,
    'technique': 'Lean 4 theorems by symbolic execution of check/get/put in the sequential semantics + differential (malformed stream, buffer layouts)',
}
CLAIMS['C20'] = {
    'text': ('Theorem free_event_exact: for every table state, every free event (pfn, k) covered by a recorded allocation '
             '(ap -> (frame, K)), k <= K, pfn a 2^k-aligned part of it, with the recorded pfn blocks disjoint: the replayer calls '
             'put(frame + (pfn - ap), k), which are exactly the frames the table maps pfn..pfn+2^k to, and afterwards the table '
             'maps exactly the remaining pfns to the same frames (Maps st\' q f <-> Maps st q f and q outside the freed part); '
             'findCover_spec. The final free count is then the allocator\'s own accounting (C02/C04). The replay loop over the '
             'allocator model is compared with the built replay binary on synthetic trace files.'),
    'note': TB + ' The replay binary itself (argument parsing, mmap of the trace, logging) is run, not modelled.',
    'technique': 'Lean 4 theorem about the replayer bookkeeping (list/arith induction) + differential run of the built replay binary on synthetic traces',
}
CLAIMS['C07'] = {
    'text': ('Theorems init_none_roundtrip / handoff_bisim: decoding the encoding of any memory whose entries fit their bit fields '
             'gives the memory back (pack/unpack round trips for the 28|1|3-bit tree entry and the 44|19|1-bit slot), hence the '
             'allocator rebuilt with Init::None is the same model state and answers every continuation identically. That the '
             'implementation has no other state is measured by the handoff correspondence (twin allocator over byte copies, '
             'identical continuations, results + buffers + statistics compared after every call).'),
    'note': TB,
    'technique': 'Lean 4 codec round-trip theorems + twin-allocator differential over byte copies',
}
CLAIMS['C17'] = {
    'text': ('Theorems zone_get_translate / zone_get_any_translate / zone_put_forward / zone_stats_at_forward / zone_result_ge (the zone '
             'wrapper is the inner call on frame - offset with the result shifted by the offset; below the offset see C08); nvm_layout '
             '(for every geometry, frame size and accepted region size z: managed + metadata pages + header page tile the region and '
             'the metadata of the managed frames fits into its pages; with the range theorem of C01/C02 no block overlaps them); '
             'nvm_recover_rejects/accepts. "Recovers with the same allocation state" is carried by the correspondence (create, history, '
             'forget, recover: same statistics, every held block freeable) and by C05.'),
    'note': TB,
    'technique': 'Lean 4 theorems (symbolic execution of the wrapper, layout arithmetic) + differential runs through ZoneAlloc and NvmAlloc over real memory regions',
}
CLAIMS['C12'] = {
    'text': ('Theorems lower_get_complete / lower_get_sound / lower_get_at_iff: for every geometry (HUGE_ORDER 6..15, TREE_HUGE a '
             'power of two), frame count, allocation pattern satisfying the lower invariant, hint row and order 0..TREE_ORDER, the '
             'model of Lower::get fails only if the tree holds no aligned entirely free block of the order (and then changes nothing), '
             'never panics, and a success returns such a block of the searched tree, inside the managed range, marking exactly it and '
             'preserving the invariant. Built from proved specifications of toggle (all orders, with roll-back), set_first_zeros '
             '(row search via the C23 theorem; chunk search), compare_exchange_all, put_small, partial_put_huge.'),
    'note': TB + ' Depends on the C23 theorem, hence also on the bv_decide axioms LLFree.FzaBv.*._native.bv_decide.ax_*.',
    'technique': 'Lean 4 refinement proof of the lower allocator (sequential semantics, invariant + per-function specifications by induction over the loops) + differential runs on crafted tree patterns',
}

_PENDING = 'claimed by DESIGN.md; theorem module not yet landed in this revision (work in progress, see DESIGN.md §10 staging)'
NOT_APPLICABLE = {
    'C22': ('the C implementation is not in this tree (llc/ is an empty `update = none` submodule, no network); '
            'eval/src/llc.rs cannot be compiled without llc/include/llfree.h — there is no code to model, translate or run'),
}
for _p in ['C%02d' % i for i in range(1, 24)]:
    if _p not in CLAIMS and _p not in NOT_APPLICABLE:
        NOT_APPLICABLE[_p] = _PENDING
