"""What MANIFEST.json claims per property (kept next to the scopes; tools/manifest.py renders it)."""

TB = ('Trusted: Lean 4.33 kernel + axioms propext/Classical.choice/Quot.sound; the hand-written model is tied to /repo '
      'by the differential correspondence (harness runs the real code in-process, Lean driver runs the same executable '
      'definitions the theorems are about); regenerated leaf code by tools/rs2lean.py. Modelled, not verified: '
      'sequentially consistent interleavings of single atomic accesses; u64/usize as Nat under range bounds.')

CLAIMS = {
    'C23': {
        'text': ('Theorem fza_spec: for all 2^64 rows and every order 0..6 the row search regenerated from '
                 'first_zeros_aligned returns none iff no aligned all-zero block exists, else the lowest one and the row '
                 'with exactly its bits set. Proof = 14 closed 64-bit facts by bv_decide + kernel-checked assembly; '
                 'the compiled Rust function is compared with the regenerated Lean function on structured/random rows.'),
        'note': TB + ' C23 additionally trusts bv_decide (LRAT checker run natively: axioms LLFree.FzaBv.*._native.bv_decide.ax_*).',
        'technique': 'Lean 4 theorem over translator-regenerated code (bv_decide + kernel assembly) + unit differential',
    },
}
CLAIMS['C16'] = {
    'text': ('Theorems sorted_buffer_top_n / tried_best_first: for every capacity and every insertion sequence the model of '
             'SortedBuffer::add keeps min(N, len) candidates, ascending, every dropped candidate rated no higher than every '
             'kept one, and candidates are tried in descending order; searchBest_fallback: the tree search of the model is '
             'exactly "remember scan candidates in that buffer, then access them best first" (perfect matches are accessed '
             'immediately by construction). Model tied to util.rs/trees.rs by bounded-exhaustive + random differential runs.'
             ' Theorem sorted_buffer_add_matches_source: the array code of SortedBuffer::add (the two position searches, rotate_right(1)/rotate_left(1) of the sub-slices, the element assignments) is regenerated from core/src/util.rs on every run by the translator (Gen/Sbuf.lean) and proved to compute, on every buffer reachable from SortedBuffer::new(), exactly the list operation of the model (Proofs/GenSbuf.lean).'
             ' Theorem search_index_matches_source: the candidate index of Trees::search / Trees::search_best (alternating after and before the start tree) is regenerated from core/src/trees.rs on every run (Gen/Idx.lean) and equals searchIdx of the model.'),
    'note': TB,
    'technique': 'Lean 4 invariant proof by induction over insertion sequences + characterisation theorem of the search; unit differential vs the compiled SortedBuffer/search_best',
}
CLAIMS['C19'] = {
    'text': ('Theorem request_valid: for every non-empty class list (ids may repeat), every outcome of the order/GFP matchers '
             '(an arbitrary predicate), every core, pid and core count >= 1, the generated request names a configured class '
             'and no slot or a slot index below that class\'s slot count; Count::{to_count,to_local} are regenerated from '
             'classes.rs by the translator on every run; request() is tied by a differential run through the real JSON parser.'),
    'note': TB,
    'technique': 'Lean 4 theorem over translator-regenerated Count + hand model of request(); unit differential through facet-json',
}
CLAIMS['C13'] = {
    'text': ('Theorems get_class_admissible / get_class_admissible_conc: for every policy function, configuration, memory '
             'contents and request, a get that returns ok (frame, cls) has cls = requested or the policy rates (requested, cls) '
             'Match/Steal; proved by structural induction over the get program with adversarial memory (every value observed by '
             'an atomic access universally quantified), hence for sequential runs and for every interleaving at single-access '
             'granularity. Model tied to llfree.rs/trees.rs/local.rs by byte-level sequential differential runs.'
             ' Theorem class_decisions_match_source: the entry transitions that decide classes (Tree::steal, reserve_or_steal, unreserve_add) are regenerated from core/src/trees.rs on every run by the translator (Gen/Tree.lean) and proved equal to the model\'s transitions for every entry, class, amount and policy (Proofs/GenTree.lean).'
             ' Theorem repo_policies_match_source: the built-in policies (Classing::simple, Classing::movable, the policy of ClassingConfig::classing) are regenerated from the source on every run (Gen/Policy.lean) and equal the policy functions of the model.'),
    'note': TB,
    'technique': 'Lean 4 structural induction with adversarial memory (Always predicate, sound for runSolo and single-access thread steps) + sequential differential',
}
CLAIMS['C08'] = {
    'text': ('Theorems get_invalid_rejected / put_invalid_rejected: for every configuration and memory, a call whose order exceeds '
             'the tree order, whose block extends past the managed range, whose frame is misaligned or whose class (0..7) is not '
             'configured returns Argument with the whole memory unchanged (check precedes every access); zone_*_below_offset; '
             'new_rejects_small/misaligned/overlap for MetaData::valid with overlap_iff (the source predicate is interval '
             'intersection for non-empty ranges). Differential: malformed call stream + construction over carved buffers.'
             ' Theorem check_matches_source: the ensure! conditions of LLFree::check are regenerated from core/src/llfree.rs on every run by the translator (Gen/Check.lean; it also checks that a failing ensure! returns Error::Argument) and their conjunction is exactly ArgsValid, the predicate the model check is proved to decide.'
             ' Theorem metadata_sizes_match_source: Trees::metadata_size, Lower::metadata_size (through Metadata::new) and Locals::metadata_size are regenerated from the source on every run by the translator (Gen/Meta.lean: div_ceil, next_multiple_of, size_of_slice as written) and equal the buffer sizes of the model for the listed size_of/align_of values of the five element types (trusted, cross-checked by the unit differential meta).'
             ' Theorem zone_below_offset_matches_source: ZoneAlloc::get / put / stats_at as regenerated from core/src/wrapper.rs (Gen/Zone.lean) answer Error::Argument (default statistics) for a frame below the offset for every wrapped allocator, which is never called.'),
    'note': TB,
    'technique': 'Lean 4 theorems by symbolic execution of check/get/put in the sequential semantics + differential (malformed stream, buffer layouts)',
}
CLAIMS['C20'] = {
    'text': ('Theorem free_event_exact: for every table state, every free event (pfn, k) covered by a recorded allocation '
             '(ap -> (frame, K)), k <= K, pfn a 2^k-aligned part of it, with the recorded pfn blocks disjoint: the replayer calls '
             'put(frame + (pfn - ap), k), which are exactly the frames the table maps pfn..pfn+2^k to, and afterwards the table '
             'maps exactly the remaining pfns to the same frames (Maps st\' q f <-> Maps st q f and q outside the freed part); '
             'findCover_spec. The final free count is then the allocator\'s own accounting (C02/C04). The replay loop over the '
             'allocator model is compared with the built replay binary on synthetic trace files.'),
    'note': TB + ' The replay binary itself (argument parsing, mmap of the trace, logging) is run, not modelled.',
    'technique': 'Lean 4 theorem about the replayer bookkeeping (list/arith induction) + differential run of the built replay binary on synthetic traces',
}
CLAIMS['C07'] = {
    'text': ('Theorems init_none_roundtrip / handoff_bisim: decoding the encoding of any memory whose entries fit their bit fields '
             'gives the memory back (pack/unpack round trips for the 28|1|3-bit tree entry and the 44|19|1-bit slot), hence the '
             'allocator rebuilt with Init::None is the same model state and answers every continuation identically. That the '
             'implementation has no other state is measured by the handoff correspondence (twin allocator over byte copies, '
             'identical continuations, results + buffers + statistics compared after every call).'),
    'note': TB,
    'technique': 'Lean 4 codec round-trip theorems + twin-allocator differential over byte copies',
}
CLAIMS['C17'] = {
    'text': ('Theorems zone_get_translate / zone_get_any_translate / zone_put_forward / zone_stats_at_forward / zone_result_ge (the zone '
             'wrapper is the inner call on frame - offset with the result shifted by the offset; below the offset see C08); nvm_layout '
             '(for every geometry, frame size and accepted region size z: managed + metadata pages + header page tile the region and '
             'the metadata of the managed frames fits into its pages; with the range theorem of C01/C02 no block overlaps them); '
             'nvm_recover_rejects/accepts. "Recovers with the same allocation state" is carried by the correspondence (create, history, '
             'forget, recover: same statistics, every held block freeable) and by C05.'
             ' Theorem wrappers_match_source: ZoneAlloc::{get, put, stats_at}, the alignment condition of ZoneAlloc::create and the size / header / split arithmetic of NvmAlloc::create are regenerated from core/src/wrapper.rs on every run by the translator (Gen/Zone.lean: checked_sub, map, ok_or, transpose, ?, div_ceil as written; the wrapped call is a parameter) and proved equal, for every wrapped allocator, offset and frame, to the frame translation and the layout functions of the model (Proofs/GenZone.lean).'),
    'note': TB,
    'technique': 'Lean 4 theorems (symbolic execution of the wrapper, layout arithmetic) + differential runs through ZoneAlloc and NvmAlloc over real memory regions',
}
CLAIMS['C12'] = {
    'text': ('Theorems lower_get_complete / lower_get_sound / lower_get_at_iff: for every geometry (HUGE_ORDER 6..15, TREE_HUGE a '
             'power of two), frame count, allocation pattern satisfying the lower invariant, hint row and order 0..TREE_ORDER, the '
             'model of Lower::get fails only if the tree holds no aligned entirely free block of the order (and then changes nothing), '
             'never panics, and a success returns such a block of the searched tree, inside the managed range, marking exactly it and '
             'preserving the invariant. Built from proved specifications of toggle (all orders, with roll-back), set_first_zeros '
             '(row search via the C23 theorem; chunk search), compare_exchange_all, put_small, partial_put_huge.'
             ' Theorem huge_entry_transitions_match_source: impl HugeEntry (new_huge, new_with, huge, free, dec, inc - the counters and the huge marker of the lower allocator) is regenerated from core/src/lower.rs on every run by the translator (Gen/Huge.lean) and proved equal to the model\'s transitions for every entry value and amount.'),
    'note': TB + ' Depends on the C23 theorem, hence also on the bv_decide axioms LLFree.FzaBv.*._native.bv_decide.ax_*.',
    'technique': 'Lean 4 refinement proof of the lower allocator (sequential semantics, invariant + per-function specifications by induction over the loops) + differential runs on crafted tree patterns',
}

PART = ' PARTIAL (see evidence.partial and DESIGN.md): '
CLAIMS['C01'] = {
    'text': ('Theorems seq_get_fresh / seq_block_fresh / seq_targeted_exact / fresh_disjoint_from_allocated / fresh_in_range: in every sequential history, '
             'a block returned by LLFree::get (any path) is aligned, consists of frames that were all free and inside the managed range (hence disjoint '
             'from every block handed out and not freed), is the target if one was given, and exactly its frames become allocated. '
             'Theorems conc_bitfield_blocks_disjoint / conc_invariant_all_schedules: for ANY number of threads and EVERY schedule of single atomic '
             'accesses (unbounded), targeted allocations (Bitfield::toggle), searches (set_first_zeros / set_first_zero_rows) and frees of held blocks '
             '(all orders up to the huge order: single-word update, narrow compare-exchange, multi-row with roll-back) never hand out overlapping blocks - an ownership (rely/guarantee) invariant '
             'preserved by every atomic step. Theorems conc_lower_blocks_disjoint / conc_lower_invariant_all_schedules: the same for the WHOLE LOWER '
             'ALLOCATOR - Lower::get (search, every order up to the tree order), Lower::get_at and Lower::put of held blocks, with the huge-entry counters '
             'and whole-huge markers: from any quiescent state, for any number of threads, any command lists and every schedule, small blocks of different '
             'threads never overlap, huge blocks never overlap, and no frame is held both inside a small and a huge block; blocks are aligned. The invariant '
             '(LInv) is counter + open accounts of the threads = zero bits of the bitfield, and a marked huge frame has an empty bitfield. Theorems '
             'conc_public_api_blocks_disjoint / conc_get_returns_unheld_block: the same at the PUBLIC INTERFACE - LLFree::get with any request (with or '
             'without target; every path: own reservation with sync, search_and_reserve, reserve_or_steal, steal_global, stealing and demoting other slots) '
             'and LLFree::put of held blocks at their allocation order, started from ANY contents of the tree array and the local slots: the upper level only '
             'writes these volatile arrays and calls Lower::get / Lower::put, so blocks held by any number of threads under any schedule are pairwise '
             'disjoint, aligned and marked allocated (upper-level panics are tolerated in this statement; they are C03/C09).' + PART +
             'callers that free only a part of a block under interleavings (K1 lives there) are outside the all-interleavings theorems (held blocks are '
             'also proved to lie inside the managed range, and drain may be interleaved); explored by scheduler-controlled runs of the real threads (preemption-bounded DFS '
             '+ random schedules) whose event traces are replayed on the Lean interleaving semantics.'
             ' Theorem single_row_updates_match_source: the mask and the update closure of Bitfield::toggle for orders 0..2 (the step that claims/releases the bits of a block inside one row, e.g. for a targeted allocation) and the mask test of Bitfield::is_zero are regenerated from core/src/bitfield.rs on every run by the translator (Gen/Toggle.lean) and proved equal to the model\'s.'
             ' Theorem conc_blocks_disjoint_with_tree_changes: the disjointness/alignment/range statement for every interleaving also when the threads call change_tree (class changes, Offline) among their other calls.'),
    'note': TB + ' Upper-level theorems hold for configurations satisfying CfgOk (class ids < 8, ordered policy, tree size < 2^19: every configuration of the repository; derived from elementary checks by CfgOk.of_checks); they depend on the C23 theorem (bv_decide axioms) through the lower search.',
    'technique': 'Lean 4 refinement proof (all sequential histories) + rely/guarantee ownership invariants over the single-access interleaving semantics (bitfields and the whole lower allocator, all schedules, any number of threads) + trace co-simulation of real threads with an ownership oracle',
}
CLAIMS['C02'] = {
    'text': ('Theorems put_refines / get_refines / drain_keeps_allocation / change_keeps_allocation / history_keeps_invariant (+ the lower-level '
             'lower_put_refines / lower_getAt_refines / lower_get_refines): in every state satisfying the upper invariant (established by Trees::new, '
             'preserved by every call, hence every sequential history), LLFree::put succeeds iff the ownership specification allows the free, frees '
             'exactly the block (splitting a whole huge frame on a partial free) and a refused free changes nothing; LLFree::get on every path '
             '(own reservation with sync, search_and_reserve/search_best, reserve_or_steal, steal_global, steal/demote of other slots) returns only '
             'blocks that were entirely free, the target if given, allocates exactly them, and every failure is Memory with the allocation state '
             'unchanged; drains and tree changes never change the allocation state; new_then_history: free-all / allocate-all construction (every frame '
             'count, arbitrary buffer contents) establishes the invariant, so this covers every call of every history of a constructed allocator. '
             'For Init::Recover/None the invariant of the handed-over state is an assumption (C05/C07).'
             ' Theorem single_row_updates_match_source: the mask and the update closure of Bitfield::toggle for orders 0..2 (the step that claims/releases the bits of a block inside one row, e.g. for a targeted allocation) and the mask test of Bitfield::is_zero are regenerated from core/src/bitfield.rs on every run by the translator (Gen/Toggle.lean) and proved equal to the model\'s.'
             ' Theorem conc_with_tree_changes_then_history_keeps_invariant: the same when the concurrent phase also changed trees (class changes, Offline).'),
    'note': TB + ' Upper-level theorems hold for configurations satisfying CfgOk (class ids < 8, ordered policy, tree size < 2^19: every configuration of the repository; derived from elementary checks by CfgOk.of_checks); they depend on the C23 theorem (bv_decide axioms) through the lower search.',
    'technique': 'Lean 4 refinement proof of the whole sequential allocator (Hoare-style program logic over the model, upper invariant with ghost state, induction over call histories) + byte-level sequential differential with shadow ownership model',
}
CLAIMS['C03'] = {
    'text': ('Theorem k1_spin_panics REFUTES the property for the unchanged code: a kernel-evaluated schedule of the interleaving semantics in '
             'which two threads free parts of one whole huge frame and the loser exhausts RETRIES and panics "Exceeding retries" (known finding K1, '
             'replayed on the real threads by the co-simulation). Theorems seq_history_never_panics / held_free_succeeds_upper / seq_no_panic_lower: '
             'sequentially no call of any history panics and every free of a held block succeeds. Theorems conc_bitfield_no_panic / '
             'conc_free_of_held_succeeds: under EVERY interleaving of any number of threads, at the bitfield level (Bitfield::toggle, all orders), '
             'no access panics, the roll-back \"Failed undo toggle\" cannot fail and frees of held blocks succeed. Theorems conc_lower_no_panic / '
             'conc_lower_put_of_held_succeeds: for the WHOLE LOWER ALLOCATOR (Lower::get / get_at / put with counters and markers), for callers that free '
             'blocks at the order they were allocated with, under every interleaving of any number of threads no call panics (Undo failed, undo failed, '
             'Inc failed, Failed undo search are unreachable; partial_put_huge, where K1 lives, is never entered) and every free of a held block returns Ok.'
             ' Theorem conc_successful_get_allowed: the last clause of the property for the public LLFree::get, every path, every interleaving: a '
             'successful allocation returns an aligned block none of whose frames was held.'
             ' Theorem conc_public_api_no_panic: for the WHOLE PUBLIC INTERFACE - any number of threads running any lists of valid public calls (LLFree::get '
             'of any order/class/slot, targeted or not, on every path incl. sync, reserve-or-steal search, global steal, steal/demote of other slots; LLFree::put of held '
             'blocks at their allocation order; drain) from any state satisfying the upper invariant - in EVERY state of EVERY schedule no thread has trapped: Unreserve '
             'failed, unreserve invalid class, the counter assertions of Tree::put / LocalTree::put, bit-field setter bounds, No locals for class, Invalid class, the unwraps, '
             'the subtraction in reserve_or_steal, the zero divisor of the tree search and all lower roll-back sites are unreachable; a thread of the model can only die by an '
             'index outside the buffers (C18).'
             ' Theorem conc_public_put_of_held_succeeds: the SECOND CLAUSE at the public interface under every interleaving - threads of a strict runner that ends at the first '
             'LLFree::put returning an error (flag set) never finish with the flag set and never trap: a put of a held block can fail only in its argument check (put_LS, thread-local against '
             'arbitrary interference), and by the global invariant every block in a thread\'s hands lies in the managed range, is aligned to its order (multi-huge orders: aligned search '
             'positions of Lower::get, now part of the post-condition of every get) and has a valid order, so the check passes (Proofs/ConcPutOk.lean; put_failure_is_reported: the flag is not vacuous).'
             ' Theorem conc_public_put_of_held_succeeds_with_tree_changes: the same (no finished thread reports a failed free, no thread traps) with change_tree calls (class change and/or Offline) among the concurrent calls (Proofs/ConcPutOkChange.lean).'
             ' Theorem conc_public_api_no_panic_with_tree_changes: the same panic freedom when change_tree calls (class change and/or Offline, by id or by search) run among the '
             'other calls of any number of threads (Proofs/ConcChange.lean: such a change is a legal transition whose frames move to the ghost of the caller; a frame rule lets the existing per-call proofs run below the hidden frames).'
             ' Theorem k2_online_race_panics is a SECOND REFUTATION (known finding K2): a kernel-evaluated schedule in which a free of a held frame into an offline tree is '
             'preempted between lower.put and trees.put while change_tree(Online) fetches the lower counters; the resuming free makes Tree::put assert free <= TREE_FRAMES '
             '(k2_sequential_ok: the same two calls in sequence are fine); replayed on the real code (findings/K2-online-race.txt, conc scenario kind 6 of every run).'
             + PART + 'partial frees of huge allocations under interleavings are REFUTED (K1), change_tree(Online) concurrent with frees is REFUTED (K2); the rest of change_tree under interleavings is explored '
             '(DFS/random schedules with panic capture and the held-free oracle), not proved; K1 shows that the restriction to frees at allocation order is necessary.'),
    'note': TB + ' Upper-level theorems hold for configurations satisfying CfgOk (class ids < 8, ordered policy, tree size < 2^19: every configuration of the repository; derived from elementary checks by CfgOk.of_checks); they depend on the C23 theorem (bv_decide axioms) through the lower search.',
    'technique': 'Lean 4: refutation by a kernel-checked schedule (decide) + sequential panic-freedom theorems over all histories + rely/guarantee proofs of panic-freedom of the lower allocator and of the whole public interface under all interleavings (two ghost protocols, each strict about the other level); trace co-simulation with known-finding matching',
}
CLAIMS['C04'] = {
    'text': ('Theorems stats_exact / stats_at_tree_exact / stats_at_huge_exact / huge_free_exact / huge_entirely_free_iff / fast_counters_exact: under the '
             'lower invariant stats() returns exactly the number of free frames, entirely free huge frames and entirely free trees of the allocation '
             'state, the per-huge-frame and per-tree queries are exact and read-only; in every reachable state (upper invariant) the fast counters of a '
             'tree (entry + reservations on it) plus the frames hidden by Offline (H i) equal its free frames EXACTLY (fast = exact - offline, tree by tree).'
             ' Theorem conc_quiescent_counters_exact: at the quiescent end of EVERY interleaving of any number of threads using the lower allocator every '
             'huge-entry counter equals the number of free frames of its bitfield again (and is never above it in between).'
             ' Theorems tree_stats_total / fast_total_exact: the program tree_stats() never panics, reads only, and its free total plus the frames hidden by '
             'Offline equals the exact total that stats() reports - fast = exact - offline as program outputs, in every invariant state (partition argument over '
             'the slot ranges). Theorem validate_passes: all assertions of validate() hold (it runs to the end without panic, reading only) in every invariant state '
             'without offline trees. Theorems stats_at_frame_exact / is_free_exact: the per-frame query reports one free frame exactly if the frame is not allocated and is_free(frame, order) answers exactly whether every frame of the aligned in-range block is free, for every order 0..TREE_ORDER (counter shortcuts, single-row mask test, whole-row loop, table-entry loop), reading only. Theorems conc_quiescent_upper_invariant / conc_quiescent_fast_total / conc_quiescent_validate_passes: from any state satisfying the upper invariant, ANY number of threads running ANY lists of public calls (get with any request on every path, put of held blocks at their allocation order, drain) under ANY schedule: whenever all calls have returned the sequential upper invariant holds again (tree counter + reservations + hidden = free frames of every tree, reserved entries exactly those named by a slot, lower counters exact), so tree_stats + hidden = stats and validate() passes at every such quiescent end (upper ghost state per thread, legal transitions of tree entries and slots, invariance of the free-or-held count under every lower step; DESIGN 11.10). Theorems conc_quiescent_with_tree_changes / conc_quiescent_with_tree_changes_fast_total: the same with change_tree calls (class changes, Offline; by id or by search) among the concurrent calls: '
             'every quiescent state satisfies the sequential invariant for hidden frames H\' >= H, so tree_stats + hidden = stats there too. Theorem k3_online_race_overreports REFUTES the property for interleavings with a concurrent change_tree(Online) (known finding K3): a kernel-evaluated schedule '
             'ending quiescent with tree counter 64 although only 63 frames of the tree are free (the frames of a free that raced with the Online fetch are counted twice); on the real code '
             'tree_stats().free_frames exceeds the exact count and validate() fails (findings/K3-online-race.txt, conc scenario kind 7 of every run).' + PART + 'interleavings in which a call trapped, partial frees of huge allocations (K1) and change_tree under interleavings (K3: false for Online racing with a free) are carried by '
             'the accounting oracle of the sequential and concurrent correspondence.'
             ' Theorem counter_transitions_match_source: the entry transitions that move counters (Tree::with, Tree::put, and impl LocalTree: with, none, get, put, set_start) are regenerated from core/src/trees.rs and core/src/local.rs on every run by the translator (Gen/Tree.lean, Gen/Local.lean) and proved equal to the model\'s transitions for every argument.'
             ' Theorem huge_entry_transitions_match_source: impl HugeEntry (new_huge, new_with, huge, free, dec, inc - the counters and the huge marker of the lower allocator) is regenerated from core/src/lower.rs on every run by the translator (Gen/Huge.lean) and proved equal to the model\'s transitions for every entry value and amount.'),
    'note': TB + ' Upper-level theorems hold for configurations satisfying CfgOk (class ids < 8, ordered policy, tree size < 2^19: every configuration of the repository; derived from elementary checks by CfgOk.of_checks); they depend on the C23 theorem (bv_decide axioms) through the lower search.',
    'technique': 'Lean 4 theorems from the lower and upper invariants + accounting oracle in the sequential differential and at quiescent ends of co-simulated interleavings',
}
CLAIMS['C05'] = {
    'text': ('Theorems recover_reestablishes / lower_recover_spec / recover_then_history / quiescent_is_crash_state (+ recover_marker / recover_counter / '
             'recover_fixpoint_act): from ANY persistent state satisfying the weak invariant CrashInv (sizes, no free frame outside the managed range, '
             'whole-huge markers only inside it; counters arbitrary, a split half done, bitfields of whole huge frames partly filled) and zeroed '
             'volatile buffers, new(Init::Recover) - count_zeros, fill, both loops, Trees::new - never panics, re-establishes the lower and upper '
             'invariants with nothing hidden (fast = exact, C04) and keeps the allocation status of EVERY frame exactly as recorded by markers and bits; '
             'any history may follow. Theorems conc_crash_anywhere_recovers / conc_counters_never_over_report: a crash at ANY instant of ANY interleaving of '
             'any number of threads using the lower allocator (Lower::get / get_at / put at allocation order) leaves a state satisfying CrashInv; recovery '
             'from it re-establishes the full lower invariant and everything any thread held at the crash - completed allocations and the holdings of calls '
             'in flight - is still allocated afterwards (so it can be freed at its order); counters never over-report in between. Theorem '
             'conc_crash_anywhere_public_api: the same for threads at the public interface (LLFree::get on every path, LLFree::put at allocation order), '
             'from any contents of the volatile arrays.' + PART +
             'call sequences that free part of a huge allocation (partial_put_huge, K1) are outside the theorems: crash points '
             'before atomic writes of explored schedules are recovered with the real code and checked (held blocks allocated and freeable, frames '
             'allocated by the setup still allocated, accounting consistent).'
             ' Theorem conc_crash_anywhere_with_tree_changes: a crash at any instant of any interleaving of public calls and change_tree calls (class changes, Offline) leaves a legal crash image; recovery keeps every holding allocated (tree changes touch only volatile state).'),
    'note': TB + ' A crash is modelled as loss of everything but the lower buffer at an atomic-access boundary.',
    'technique': 'Lean 4 proof of the recovery program from every weak-invariant state + rely/guarantee invariant showing every state of every interleaving of lower-level calls is such a state + crash-point oracle inside the trace co-simulation + sequential differential of recover',
}
CLAIMS['C06'] = {
    'text': ('Theorems free_all_establishes / alloc_all_establishes / lower_free_all_inv / lower_reserve_all_inv: for EVERY frame count (incl. 0) and geometry, from '
             'arbitrary buffer contents, the programs Lower::free_all / Lower::reserve_all (store loops, Bitfield::fill, Bitfield::set on the partial bitfield) '
             'followed by Trees::new establish the lower and upper invariants with nothing hidden and the allocation state "allocated iff at or beyond the '
             'managed count" resp. "everything allocated, huge frames inside the range as whole huge frames (freeable once at huge order), the rest freeable '
             'at base order"; with C02/C04 this is the property. Also trees_new_establishes / free_all_sum / free_all_entry_le / free_all_full_iff / reserve_all_split / tiny_lower_inv: Trees::new over a lower '
             'allocator satisfying its invariant and empty slots establishes the upper invariant with every tree counter exactly the free frames of its '
             'tree (so a fresh allocator reports exactly the free managed frames and, by C02, lets exactly free frames be allocated; frames at or beyond '
             'the managed count are allocated by the invariant); for every frame count the counters free_all writes add up to the managed frames, never '
             'exceed a huge frame, allocate-all marks exactly the huge frames inside the range. The model is tied to the source by the byte-level '
             'correspondence over boundary-dense frame counts in 5 geometries with full exhaust/free cycles.'),
    'note': TB + ' Upper-level theorems hold for configurations satisfying CfgOk (class ids < 8, ordered policy, tree size < 2^19: every configuration of the repository; derived from elementary checks by CfgOk.of_checks); they depend on the C23 theorem (bv_decide axioms) through the lower search.',
    'technique': 'Lean 4 theorems (Trees::new loop, arithmetic for all frame counts) + init-cycle differential over boundary-dense frame counts',
}
CLAIMS['C09'] = {
    'text': ('Theorems history_never_panics / history_outcome_ok (+ lower_*_total, check_total): from a lower allocator satisfying its invariant with '
             'empty slots, Trees::new followed by ANY list of valid-parameter calls (get of any order/target/slot, put, drain, change_tree naming any '
             'tree, stats) runs to completion in the sequential semantics with outcome ok: every panic site of lower.rs, bitfield.rs, trees.rs, '
             'local.rs and llfree.rs on these paths (asserts, unwrap/expect, slice indexing, checked arithmetic, bit-field setter bounds) is an '
             'explicit panic outcome of the model and is unreachable; new_then_history_never_panics includes the free-all / allocate-all construction for '
             'every frame count incl. 0.' ' tree_stats_never_panics: the statistics program never panics and reads only; Init::Recover from every weak-invariant state: C05 '
             '(recover_then_history); validate_never_panics: all assertions of validate() hold in every invariant state without offline trees; queries_never_panic: stats_at(frame, 0) and is_free(frame, order) return a value and read only for every in-range frame / aligned in-range block of order <= TREE_ORDER (the arguments the source asserts). Every public call is thereby covered for configurations satisfying CfgOk; the correspondence (every call under catch_unwind in an overflow-checked build) ties the model to the source.'),
    'note': TB + ' Upper-level theorems hold for configurations satisfying CfgOk (class ids < 8, ordered policy, tree size < 2^19: every configuration of the repository; derived from elementary checks by CfgOk.of_checks); they depend on the C23 theorem (bv_decide axioms) through the lower search.',
    'technique': 'Lean 4 total-correctness proof over all call histories (no-panic = Outcome.ok in the sequential semantics) + sequential differential with panic capture',
}
CLAIMS['C10'] = {
    'text': ('Theorems get_after_drain_complete / usable_of_free / drain_clears / targeted_exact / search_visits_all / best_nonempty / steal_succeeds: drain() '
             'never panics and leaves no reservation and no reserved tree; in a drained state a base-order get (any class, slot or none, both search '
             'configurations) SUCCEEDS whenever some tree is unreserved with a positive counter - in particular whenever a frame outside hidden (offline) '
             'trees is free, because there the counter is exactly the number of free frames; a targeted get succeeds only on an entirely free block and '
             'returns it (C02), and - get_at_after_drain_complete - a targeted get of a block that is entirely free and lies in a tree that is not hidden '
             'ALWAYS returns it: both clauses of the property hold in every drained state satisfying the upper invariant (every state after a drain in '
             'every sequential history of a constructed allocator).'
             ' Theorem conc_quiescent_then_drain_get_with_tree_changes: the same after interleavings in which trees were also changed (class changes, Offline): the quiescent state satisfies the invariant for hidden frames H\' >= H and the completeness theorem applies.'),
    'note': TB + ' Upper-level theorems hold for configurations satisfying CfgOk (class ids < 8, ordered policy, tree size < 2^19: every configuration of the repository; derived from elementary checks by CfgOk.of_checks); they depend on the C23 theorem (bv_decide axioms) through the lower search.',
    'technique': 'Lean 4 completeness proof of the tree search (progress lemma for search_best, visiting order, lower search completeness C12) + drain-probe differential with shadow oracle',
}
CLAIMS['C11'] = {
    'text': ('Theorem single_slot_complete (end to end): in every state satisfying the upper invariant (every state of every sequential history of a '
             'constructed allocator) in which only the caller\'s slot can hold a reservation (one class, one slot), with no offline trees and more '
             'trees than slots, get(order 0) through the slot returns a frame whenever ANY frame is free - from the reservation, else by synchronising '
             'with the global counter of its tree (frames freed without naming the slot), else by search_and_reserve over the other trees; no drain '
             'needed. Built from the complete case analysis of get_local (getLocal_cases: exact results of Locals::get / Trees::sync / Locals::put) and '
             'the counting argument that a failing get_local leaves an unreserved tree with a positive counter. Theorems sync_exact / sync_boundary / '
             'sync_then_get: Tree::sync_steal succeeds iff the tree is reserved and holds at least the minimum (the boundary free = min of F8 included).'
             ' Theorem sync_steal_matches_source: Tree::sync_steal (the boundary free >= min of F8) is regenerated from core/src/trees.rs on every run by the translator and proved equal to the model\'s transition.'),
    'note': TB + ' Holds for configurations satisfying CfgOk; depends on the C23 theorem (bv_decide axioms) through the lower search.',
    'technique': 'Lean 4 completeness proof over the sequential semantics (program logic + exact-result lemmas) + single-slot differential',
}
CLAIMS['C14'] = {
    'text': ('Theorem tree_stats_partition: the WHOLE program LLFree::tree_stats (tree pass + both passes over the local slots with the saturating slot '
             'correction of F9), in every state satisfying the upper invariant (every quiescent state of every sequential history of a constructed '
             'allocator), never panics, reads only, and returns per-class rows with sum over the classes of free+allocated = trees*TREE_FRAMES and sum of '
             'the per-class free counts = the fast total free count - all three sentences of the property. The correction never saturates because every '
             'class covers the reservations on its trees (need_le_alloc: distinct reserved trees, reservation <= TREE_FRAMES - tree counter by exact '
             'accounting, and the slots visited class by class are exactly the present slots: partition argument). Theorems tree_table_partition / '
             'tree_stats_free_sum / fold_slots_is_list_fold / class_table_add are the parts (tree table; Locals::foldSlots is the left fold over the '
             'present slots in class order).'
             ' Theorem conc_quiescent_partition_with_tree_changes: the partition statement at every quiescent end also when the threads changed trees (class changes, Offline) concurrently.'),
    'note': TB + ' Holds for configurations satisfying CfgOk.',
    'technique': 'Lean 4 induction over the tree table and over the slot fold (program logic), partition/counting argument for non-saturation + sequential differential with partition oracle',
}
CLAIMS['C15'] = {
    'text': ('Theorems change_tree_spec / offline_no_slot / change_only_matching / change_reserved_never / offline_succeeds / offline_free_tree / online_restores / '
             'online_nonempty_skips / offline_blocks_steal / offline_blocks_reserve / offline_blocks_sync: change_tree (by id and by search), in every reachable '
             'state, never panics, touches only one unreserved matching tree, keeps allocation state and invariant, a refused change changes nothing; Offline '
             'leaves counter 0 (frames hidden from the fast count); a successful Online restores the counter to exactly the free frames of the tree; a tree '
             'with counter 0 is refused by steal, reserve and sync and named by no slot. Theorems offline_never_allocated / allocation_paid_by_tree: in EVERY '
             'state satisfying the upper invariant (every state of every sequential history of a constructed allocator) a tree with counter 0 that is not reserved '
             '- a tree taken offline and not yet online again - is never allocated from: no get, with or without target, through any slot, on any path, returns '
             'one of its frames. This follows from exact accounting in the invariant (tree counter + reservations + hidden frames H i = free frames of the tree, '
             'with the same hidden amounts before and after an allocation): the counters of the tree of a returned block covered the block before the call. '
             'Offline moves the counter into H i, Online sets H i = 0, nothing else changes H; the fast free count excludes exactly H (C04). '
             'Theorem conc_hidden_frames_stay_free: under EVERY interleaving of any number of threads that allocate, free, drain and change trees (class change and/or Offline, by id or by search) '
             'every quiescent end satisfies the invariant with hidden frames H\' >= H and, tree by tree, counter + reservations + H\' i = free frames: nothing was allocated from the frames an Offline call hid, whatever raced with it. '
             'Online under interleavings is refuted (C04.k3_online_race_overreports: the restoration is not exact when a free is in flight; known finding K3).'
             ' Theorem change_matches_source: Tree::change is regenerated from core/src/trees.rs on every run by the translator (Gen/Tree.lean) and proved equal to the model\'s transition for every entry, matcher, change and fetched count.'),
    'note': TB + ' Upper-level theorems hold for configurations satisfying CfgOk (class ids < 8, ordered policy, tree size < 2^19: every configuration of the repository; derived from elementary checks by CfgOk.of_checks); they depend on the C23 theorem (bv_decide axioms) through the lower search.' + ' Model deviation recorded in DESIGN.md: Online reads the lower counters before the update closure.',
    'technique': 'Lean 4 proof of change_tree against the upper invariant with exact accounting of hidden frames (from which "never allocated from" follows for every history) + theorems about the tree steps + change-heavy sequential differential',
}
CLAIMS['C21'] = {
    'text': ('Theorems solo_terminates (+ per call): from every intermediate thread state and every memory, a call of the model that runs alone finishes '
             '(programs are finite trees of accesses; the only waiting loop has a retry budget). Theorems get_within / put_within / drain_within / '
             'change_tree_within / api_within: an EXPLICIT UNIFORM BOUND - every path of every public call (get on every path, put incl. the bounded spin wait, drain, '
             'change_tree, stats, tree_stats, stats_at, is_free) performs at most getB c / putB c / ... / apiB c atomic accesses, numbers computed from the configuration '
             'alone (geometry, trees, slots, retry constant; 37346 for the default geometry with 4 trees and 6 slots), for every argument and every value a load may return '
             '(all loops of bitfield.rs, lower.rs, trees.rs, local.rs, llfree.rs bounded by induction). bound_kept_under_interference: a step of the thread '
             'under arbitrary interference keeps the bound (a failed compare-exchange inside try_update does not lower it but never raises it). '
             'frozen_completion / api_frozen_completion: after ANY schedule of ANY number of threads each inside a public call, from ANY memory, freezing all threads '
             'but one lets that thread finish within the bound of its call. The step counts measured in the freeze experiments on the real threads are compared '
             'with apiB by the model driver.'),
    'note': TB,
    'technique': 'Lean 4 proof of an explicit step bound for every public call (inductive predicate over program trees, preserved under interference) + termination theorem + freeze experiments under the deterministic scheduler checked against the proved bound',
}

CLAIMS['C18'] = {
    'text': ('Theorems history_accesses_in_bounds / row_in_buffer / entry_in_buffer / tree_in_buffer / slot_in_buffer / sizes_zero: in the model an '
             'out-of-bounds index is the panic outcome "index out of bounds"; for every sequential history of valid-parameter calls after Trees::new '
             'no access of get/put/drain/change_tree/stats leaves the typed arrays, and every logical index inside them lies with its full width '
             'inside the byte buffer of exactly the size metadata_size requests (incl. empty buffers for empty configurations).' + PART +
             'undefined behaviour of the Rust abstract machine (narrow-atomic punning of bitfield rows, non_atomic table fills, aligned_buf, pointer '
             'arithmetic of overlap, data races) cannot be expressed in the model; it is explored at run time only: all metadata buffers of all '
             'correspondence runs are exactly sized and end in front of a guard page. No sanitizer/Miri run is part of this technique.'
             ' Theorem metadata_sizes_match_source: Trees::metadata_size, Lower::metadata_size (through Metadata::new) and Locals::metadata_size are regenerated from the source on every run by the translator (Gen/Meta.lean: div_ceil, next_multiple_of, size_of_slice as written) and equal the buffer sizes of the model for the listed size_of/align_of values of the five element types (trusted, cross-checked by the unit differential meta).'),
    'note': TB + ' Depends on the C23 theorem (bv_decide axioms) through C09.',
    'technique': 'Lean 4 theorems (in-bounds accesses for all histories + buffer layout arithmetic) + guard-paged exactly-sized metadata buffers in every correspondence run',
}

_PENDING = 'claimed by DESIGN.md; theorem module not yet landed in this revision (work in progress, see DESIGN.md §10 staging)'
NOT_APPLICABLE = {
    'C22': ('the C implementation is not in this tree (llc/ is an empty `update = none` submodule, no network); '
            'eval/src/llc.rs cannot be compiled without llc/include/llfree.h — there is no code to model, translate or run'),
}
for _p in ['C%02d' % i for i in range(1, 24)]:
    if _p not in CLAIMS and _p not in NOT_APPLICABLE:
        NOT_APPLICABLE[_p] = _PENDING
