"""What MANIFEST.json claims per property (kept next to the scopes; tools/manifest.py renders it)."""

TB = ('Trusted: Lean 4.33 kernel + axioms propext/Classical.choice/Quot.sound; the hand-written model is tied to /repo '
      'by the differential correspondence (harness runs the real code in-process, Lean driver runs the same executable '
      'definitions the theorems are about); regenerated leaf code by tools/rs2lean.py. Modelled, not verified: '
      'sequentially consistent interleavings of single atomic accesses; u64/usize as Nat under range bounds.')

CLAIMS = {
    'C23': {
        'text': ('Theorem fza_spec: for all 2^64 rows and every order 0..6 the row search regenerated from '
                 'first_zeros_aligned returns none iff no aligned all-zero block exists, else the lowest one and the row '
                 'with exactly its bits set. Proof = 14 closed 64-bit facts by bv_decide + kernel-checked assembly; '
                 'the compiled Rust function is compared with the regenerated Lean function on structured/random rows.'),
        'note': TB + ' C23 additionally trusts bv_decide (LRAT checker run natively: axioms LLFree.FzaBv.*._native.bv_decide.ax_*).',
        'technique': 'Lean 4 theorem over translator-regenerated code (bv_decide + kernel assembly) + unit differential',
    },
}
CLAIMS['C16'] = {
    'text': ('Theorems sorted_buffer_top_n / tried_best_first: for every capacity and every insertion sequence the model of '
             'SortedBuffer::add keeps min(N, len) candidates, ascending, every dropped candidate rated no higher than every '
             'kept one, and candidates are tried in descending order; searchBest_fallback: the tree search of the model is '
             'exactly "remember scan candidates in that buffer, then access them best first" (perfect matches are accessed '
             'immediately by construction). Model tied to util.rs/trees.rs by bounded-exhaustive + random differential runs.'),
    'note': TB,
    'technique': 'Lean 4 invariant proof by induction over insertion sequences + characterisation theorem of the search; unit differential vs the compiled SortedBuffer/search_best',
}
CLAIMS['C19'] = {
    'text': ('Theorem request_valid: for every non-empty class list (ids may repeat), every outcome of the order/GFP matchers '
             '(an arbitrary predicate), every core, pid and core count >= 1, the generated request names a configured class '
             'and no slot or a slot index below that class\'s slot count; Count::{to_count,to_local} are regenerated from '
             'classes.rs by the translator on every run; request() is tied by a differential run through the real JSON parser.'),
    'note': TB,
    'technique': 'Lean 4 theorem over translator-regenerated Count + hand model of request(); unit differential through facet-json',
}
CLAIMS['C13'] = {
    'text': ('Theorems get_class_admissible / get_class_admissible_conc: for every policy function, configuration, memory '
             'contents and request, a get that returns ok (frame, cls) has cls = requested or the policy rates (requested, cls) '
             'Match/Steal; proved by structural induction over the get program with adversarial memory (every value observed by '
             'an atomic access universally quantified), hence for sequential runs and for every interleaving at single-access '
             'granularity. Model tied to llfree.rs/trees.rs/local.rs by byte-level sequential differential runs.'),
    'note': TB,
    'technique': 'Lean 4 structural induction with adversarial memory (Always predicate, sound for runSolo and single-access thread steps) + sequential differential',
}
CLAIMS['C08'] = {
    'text': ('Theorems get_invalid_rejected / put_invalid_rejected: for every configuration and memory, a call whose order exceeds '
             'the tree order, whose block extends past the managed range, whose frame is misaligned or whose class (0..7) is not '
             'configured returns Argument with the whole memory unchanged (check precedes every access); zone_*_below_offset; '
             'new_rejects_small/misaligned/overlap for MetaData::valid with overlap_iff (the source predicate is interval '
             'intersection for non-empty ranges). Differential: malformed call stream + construction over carved buffers.'),
    'note': TB,
    'technique': 'Lean 4 theorems by symbolic execution of check/get/put in the sequential semantics + differential (malformed stream, buffer layouts)',
}
CLAIMS['C20'] = {
    'text': ('Theorem free_event_exact: for every table state, every free event (pfn, k) covered by a recorded allocation '
             '(ap -> (frame, K)), k <= K, pfn a 2^k-aligned part of it, with the recorded pfn blocks disjoint: the replayer calls '
             'put(frame + (pfn - ap), k), which are exactly the frames the table maps pfn..pfn+2^k to, and afterwards the table '
             'maps exactly the remaining pfns to the same frames (Maps st\' q f <-> Maps st q f and q outside the freed part); '
             'findCover_spec. The final free count is then the allocator\'s own accounting (C02/C04). The replay loop over the '
             'allocator model is compared with the built replay binary on synthetic trace files.'),
    'note': TB + ' The replay binary itself (argument parsing, mmap of the trace, logging) is run, not modelled.',
    'technique': 'Lean 4 theorem about the replayer bookkeeping (list/arith induction) + differential run of the built replay binary on synthetic traces',
}
CLAIMS['C07'] = {
    'text': ('Theorems init_none_roundtrip / handoff_bisim: decoding the encoding of any memory whose entries fit their bit fields '
             'gives the memory back (pack/unpack round trips for the 28|1|3-bit tree entry and the 44|19|1-bit slot), hence the '
             'allocator rebuilt with Init::None is the same model state and answers every continuation identically. That the '
             'implementation has no other state is measured by the handoff correspondence (twin allocator over byte copies, '
             'identical continuations, results + buffers + statistics compared after every call).'),
    'note': TB,
    'technique': 'Lean 4 codec round-trip theorems + twin-allocator differential over byte copies',
}
CLAIMS['C17'] = {
    'text': ('Theorems zone_get_translate / zone_get_any_translate / zone_put_forward / zone_stats_at_forward / zone_result_ge (the zone '
             'wrapper is the inner call on frame - offset with the result shifted by the offset; below the offset see C08); nvm_layout '
             '(for every geometry, frame size and accepted region size z: managed + metadata pages + header page tile the region and '
             'the metadata of the managed frames fits into its pages; with the range theorem of C01/C02 no block overlaps them); '
             'nvm_recover_rejects/accepts. "Recovers with the same allocation state" is carried by the correspondence (create, history, '
             'forget, recover: same statistics, every held block freeable) and by C05.'),
    'note': TB,
    'technique': 'Lean 4 theorems (symbolic execution of the wrapper, layout arithmetic) + differential runs through ZoneAlloc and NvmAlloc over real memory regions',
}
CLAIMS['C12'] = {
    'text': ('Theorems lower_get_complete / lower_get_sound / lower_get_at_iff: for every geometry (HUGE_ORDER 6..15, TREE_HUGE a '
             'power of two), frame count, allocation pattern satisfying the lower invariant, hint row and order 0..TREE_ORDER, the '
             'model of Lower::get fails only if the tree holds no aligned entirely free block of the order (and then changes nothing), '
             'never panics, and a success returns such a block of the searched tree, inside the managed range, marking exactly it and '
             'preserving the invariant. Built from proved specifications of toggle (all orders, with roll-back), set_first_zeros '
             '(row search via the C23 theorem; chunk search), compare_exchange_all, put_small, partial_put_huge.'),
    'note': TB + ' Depends on the C23 theorem, hence also on the bv_decide axioms LLFree.FzaBv.*._native.bv_decide.ax_*.',
    'technique': 'Lean 4 refinement proof of the lower allocator (sequential semantics, invariant + per-function specifications by induction over the loops) + differential runs on crafted tree patterns',
}

PART = ' PARTIAL (see evidence.partial and DESIGN.md): '
CLAIMS['C01'] = {
    'text': ('Theorems seq_block_fresh / seq_targeted_exact / fresh_disjoint_from_allocated: in every sequential history a successful '
             'allocation returns an aligned in-range block none of whose frames was allocated (hence disjoint from every block handed out '
             'and not freed), a targeted one exactly the requested frame, and afterwards exactly its frames are additionally allocated.'
             + PART + 'the statement over all interleavings is not a theorem; the concurrent part is explored by scheduler-controlled runs of the '
             'real threads (preemption-bounded DFS + random schedules) whose event traces are replayed on the Lean interleaving semantics.'),
    'note': TB,
    'technique': 'Lean 4 refinement proof (sequential) + trace co-simulation of real threads against the Lean single-access interleaving semantics with an ownership oracle',
}
CLAIMS['C02'] = {
    'text': ('Theorems lower_put_refines / lower_getAt_refines / lower_get_refines / put_frees_exactly / get_allocates_exactly: for every '
             'geometry, frame count and memory satisfying the lower invariant, Lower::put succeeds iff the ownership specification allows the '
             'free and then frees exactly those frames (splitting a whole huge frame), Lower::get_at succeeds iff the block is entirely free, '
             'the search allocates an entirely free aligned block or changes nothing; failures leave the whole memory unchanged; the invariant '
             'is preserved; nothing panics.' + PART + 'the upper-level wrappers (tree/slot counters) are carried by the byte-level correspondence '
             'with its ownership oracle, not yet by a theorem.'),
    'note': TB + ' Depends on the C23 theorem (bv_decide axioms).',
    'technique': 'Lean 4 refinement proof of the lower allocator against a frame-ownership specification + sequential differential with shadow ownership model',
}
CLAIMS['C03'] = {
    'text': ('Theorem k1_spin_panics REFUTES the property for the unchanged code: a kernel-evaluated schedule of the interleaving semantics in '
             'which two threads free parts of one whole huge frame and the loser exhausts RETRIES and panics "Exceeding retries" (known finding K1, '
             'replayed on the real threads by the co-simulation). Theorems seq_no_panic_lower / held_free_succeeds_seq: sequentially no lower-level '
             'site panics and frees of held blocks succeed.' + PART + 'panic-freedom of the other sites under all interleavings is explored '
             '(DFS/random schedules with panic capture and the held-free oracle), not proved.'),
    'note': TB + ' Depends on the C23 theorem (bv_decide axioms).',
    'technique': 'Lean 4: refutation by a kernel-checked schedule (decide) + sequential panic-freedom theorems; trace co-simulation with known-finding matching',
}
CLAIMS['C04'] = {
    'text': ('Theorems huge_free_exact / huge_entirely_free_iff / stats_at_huge_exact: under the lower invariant the counter an entry reports is '
             'the number of free frames of its huge frame in the allocation state, it is the full counter iff every frame is free, and '
             'stats_at(frame, HUGE_ORDER) returns exactly these numbers without modifying anything.' + PART + 'fast count = exact - offline and '
             'validate() need the upper invariant; the end-of-interleaving statement needs the concurrent invariants: both are carried by the '
             'accounting oracle of the sequential and concurrent correspondence.'),
    'note': TB + ' Depends on the C23 theorem (bv_decide axioms).',
    'technique': 'Lean 4 theorems from the lower invariant + accounting oracle in the sequential differential and at quiescent ends of co-simulated interleavings',
}
CLAIMS['C05'] = {
    'text': ('Theorems recover_marker / recover_counter / recover_fixpoint_act about the per-entry decision of Lower::recover (the model of recover '
             'is written over this pure function): a whole-huge marker survives and its bitfield is cleared; every other entry is set to the '
             'number of zero bits of its bitfield; consistent entries are not written.' + PART + 'the lift to the recover loop and to every crash '
             'point of every interleaving is not a theorem; crash points before atomic writes of explored schedules are recovered with the real '
             'code and checked (held blocks allocated and freeable, accounting consistent, only in-flight frames missing).'),
    'note': TB + ' A crash is modelled as loss of everything but the lower buffer at an atomic-access boundary.',
    'technique': 'Lean 4 theorems about the recovery decision logic + crash-point oracle inside the trace co-simulation + sequential differential of recover',
}
CLAIMS['C06'] = {
    'text': ('Theorems free_all_sum / free_all_entry_le / free_all_full_iff / reserve_all_split: for every frame count and huge-frame size the '
             'counters free_all writes never exceed a huge frame, add up to exactly the managed frames, are full iff the huge frame lies inside '
             'the range; allocate-all marks exactly the huge frames inside the range.' + PART + 'that the init programs write these values and the '
             'matching bitfields (establishing the lower invariant) is carried by the byte-level correspondence over boundary-dense frame counts '
             'in 5 geometries with full exhaust/free cycles.'),
    'note': TB,
    'technique': 'Lean 4 arithmetic theorems (all frame counts) + init-cycle differential over boundary-dense frame counts',
}
CLAIMS['C09'] = {
    'text': ('Theorems lower_put_total / lower_getAt_total / lower_get_total / check_total: under the lower invariant no lower-level call panics '
             '(roll-back sites, asserts, index bounds, retry exhaustion are unreachable sequentially) for any order, frame and geometry, and the '
             'argument check is total.' + PART + 'upper-level counter arithmetic and construction are carried by the correspondence (every call under '
             'catch_unwind in an overflow-checked build, model comparison of every answer).'),
    'note': TB + ' Depends on the C23 theorem (bv_decide axioms).',
    'technique': 'Lean 4 totality theorems for the lower allocator + sequential differential with panic capture',
}
CLAIMS['C10'] = {
    'text': ('Theorems search_visits_all / searchIdx_nat / best_nonempty / steal_succeeds / steal_takes: the tree search order is a permutation '
             'that reaches every tree for every start, a remembered candidate is returned, and stealing from an unreserved tree with enough '
             'frames succeeds and takes exactly that many.' + PART + 'the composition through search_and_reserve / steal / get_fallback is carried by '
             'the drain oracle of the correspondence.'),
    'note': TB,
    'technique': 'Lean 4 theorems about the search order and tree steps + drain-probe differential with shadow oracle',
}
CLAIMS['C11'] = {
    'text': ('Theorems sync_exact / sync_boundary / sync_then_get: Tree::sync_steal succeeds iff the tree is reserved and holds at least the '
             'minimum, takes exactly the whole counter, and succeeds at the boundary free = min; after a sync the slot holds its own plus the '
             'tree frames.' + PART + 'the retry composition inside get_local is carried by the single-slot differential with the "fails only '
             'when nothing is free" oracle.'),
    'note': TB,
    'technique': 'Lean 4 theorems about the synchronisation step + single-slot differential',
}
CLAIMS['C14'] = {
    'text': ('Theorems trees_stats_partition / trees_stats_go / class_sum_addClass: for every tree table (classes < 8, counters within a tree) the '
             'per-class rows produced by Trees::stats sum to trees*TREE_FRAMES (free+allocated) and their free counts to the total.' + PART +
             'the slot correction of tree_stats and the relation to the allocation state are carried by the correspondence (per-class sums checked '
             'after every call).'),
    'note': TB,
    'technique': 'Lean 4 induction over the tree table + sequential differential with partition oracle',
}
CLAIMS['C15'] = {
    'text': ('Theorems change_only_matching / change_reserved_never / offline_succeeds / offline_free_tree / online_restores / online_nonempty_skips / '
             'offline_blocks_steal / offline_blocks_reserve / offline_blocks_sync: a change touches only an unreserved tree that matches, Offline '
             'sets the counter to 0, Online sets it to exactly the fetched lower count and only on a tree with counter 0, and a tree with counter 0 '
             'is skipped by steal, reserve and sync.' + PART + 'allocator-level statements (which count is fetched, statistics) are carried by the '
             'change-heavy differential with the offline oracle.'),
    'note': TB + ' Model deviation recorded in DESIGN.md: Online reads the lower counters before the update closure.',
    'technique': 'Lean 4 theorems about Tree::change and the tree steps + change-heavy sequential differential',
}
CLAIMS['C21'] = {
    'text': ('Theorems solo_terminates / get_solo_terminates / put_solo_terminates / drain_solo_terminates / solo_step_bound_upd: from every '
             'intermediate thread state and every memory, a call of the model that runs alone finishes (programs are finite trees of accesses; the '
             'only waiting loop has a retry budget) and an update loop needs at most two further accesses.' + PART + 'an explicit uniform numeric step '
             'bound is measured by freeze experiments on the real threads, not proved.'),
    'note': TB,
    'technique': 'Lean 4 termination theorem over the interleaving semantics + freeze experiments under the deterministic scheduler',
}

_PENDING = 'claimed by DESIGN.md; theorem module not yet landed in this revision (work in progress, see DESIGN.md §10 staging)'
NOT_APPLICABLE = {
    'C22': ('the C implementation is not in this tree (llc/ is an empty `update = none` submodule, no network); '
            'eval/src/llc.rs cannot be compiled without llc/include/llfree.h — there is no code to model, translate or run'),
}
for _p in ['C%02d' % i for i in range(1, 24)]:
    if _p not in CLAIMS and _p not in NOT_APPLICABLE:
        NOT_APPLICABLE[_p] = _PENDING
