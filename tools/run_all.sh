#!/bin/sh
# run every claimed check (quick tier) and report
cd /verif
for p in $(python3 -c "import json;print(' '.join(c['property_id'] for c in json.load(open('MANIFEST.json'))['checks']))"); do
  out=$(python3 check.py $p --tier ${1:-quick} 2>&1 | grep -E "^OK|^VIOLATION|^KNOWN" | head -3 | tr '\n' ' ')
  echo "$p: $out"
done
