/-
  `LLFree::validate`: in every state satisfying the upper invariant with nothing hidden (no tree
  offline) all its assertions hold — the program never panics. The assertions are: fast total =
  exact total; the counter of every unreserved tree = its free frames; every reservation names a
  reserved tree and reservation + tree counter = free frames of the tree; the number of reserved
  trees = the number of reservations.
-/
import LLFreeV.Proofs.ClassPartition
namespace LLFree
open Prog C14

section
variable {σ : Type} (c : Cfg) (m : Mem) (f : σ → Nat → LTree → Prog σ) (g : σ → Nat → LTree → σ)

/-- `foldSlots` with an invariant relating the accumulator to the slots still to be visited -/
theorem foldSlots_slots_inv (J : σ → List (Nat × LTree) → Prop)
    (hf : ∀ acc cls t rest, J acc ((cls, t) :: rest) → Runs m (f acc cls t) (fun acc' m' => m = m' ∧ J acc' rest))
    (cls base : Nat) : ∀ (cnt j : Nat) (acc : σ) (tail : List (Nat × LTree)), base + j + cnt ≤ m.slots.size →
      J acc (slotsFrom m cls base cnt j ++ tail) →
      Runs m (Locals.foldSlots.slots f cls base cnt j acc) (fun acc' m' => m = m' ∧ J acc' tail) := by
  intro cnt
  induction cnt with
  | zero => intro j acc tail _ hJ; unfold Locals.foldSlots.slots; exact Runs.pure ⟨rfl, by simpa [slotsFrom] using hJ⟩
  | succ cnt ih =>
    intro j acc tail hsz hJ
    unfold Locals.foldSlots.slots
    have hlt : base + j < m.slots.size := by omega
    have hE : m.slots[base + j]? = some m.slots[base + j] := Array.getElem?_eq_getElem hlt
    apply Runs.bind (Runs.load (k := .slot) (Q := fun t m' => t = m.slots[base + j] ∧ m = m') (v := m.slots[base + j]) (by rw [Mem.get?_slot]; exact hE) ⟨rfl, rfl⟩)
    rintro _ _ ⟨rfl, rfl⟩
    show Runs m (if m.slots[base + j].present = true then _ else _) _
    unfold slotsFrom at hJ
    rw [hE] at hJ
    by_cases hp : m.slots[base + j].present = true
    · rw [if_pos hp]
      simp only [hp, if_true, List.cons_append, List.nil_append] at hJ
      apply Runs.bind (hf acc cls _ _ hJ)
      rintro acc1 _ ⟨rfl, hJ1⟩
      exact ih (j + 1) acc1 tail (by omega) hJ1
    · rw [if_neg hp]
      simp only [hp, Bool.false_eq_true, if_false, List.nil_append] at hJ
      apply Runs.bind (Runs.pure (Q := fun a m' => acc = a ∧ m = m') ⟨rfl, rfl⟩)
      rintro _ _ ⟨rfl, rfl⟩
      exact ih (j + 1) acc tail (by omega) hJ

theorem foldSlots_classes_inv (J : σ → List (Nat × LTree) → Prop)
    (hf : ∀ acc cls t rest, J acc ((cls, t) :: rest) → Runs m (f acc cls t) (fun acc' m' => m = m' ∧ J acc' rest))
    (hrange : ∀ k rng, c.slotRange k = some rng → rng.1 + rng.2 ≤ m.slots.size) :
    ∀ (cnt i : Nat) (acc : σ), J acc (slotsOfFrom c m cnt i) →
      Runs m (Locals.foldSlots.classes c f cnt i acc) (fun acc' m' => m = m' ∧ J acc' []) := by
  intro cnt
  induction cnt with
  | zero => intro i acc hJ; unfold Locals.foldSlots.classes; exact Runs.pure ⟨rfl, by simpa [slotsOfFrom] using hJ⟩
  | succ cnt ih =>
    intro i acc hJ
    unfold Locals.foldSlots.classes
    show Runs m (match c.slotRange i with | some rng => _ | none => _) _
    unfold slotsOfFrom at hJ
    cases hr : c.slotRange i with
    | none =>
      rw [hr] at hJ
      simp only [List.nil_append] at hJ
      simp only
      apply Runs.bind (Runs.pure (Q := fun a m' => acc = a ∧ m = m') ⟨rfl, rfl⟩)
      rintro _ _ ⟨rfl, rfl⟩
      exact ih (i + 1) acc hJ
    | some rng =>
      rw [hr] at hJ
      simp only at hJ ⊢
      have hsz := hrange i rng hr
      apply Runs.bind (foldSlots_slots_inv m f J hf i rng.1 rng.2 0 acc _ (by omega) hJ)
      rintro acc1 _ ⟨rfl, hJ1⟩
      exact ih (i + 1) acc1 hJ1

theorem foldSlots_inv (J : σ → List (Nat × LTree) → Prop)
    (hf : ∀ acc cls t rest, J acc ((cls, t) :: rest) → Runs m (f acc cls t) (fun acc' m' => m = m' ∧ J acc' rest))
    (hrange : ∀ k rng, c.slotRange k = some rng → rng.1 + rng.2 ≤ m.slots.size) (init : σ) (h0 : J init (slotsOf c m)) :
    Runs m (Locals.foldSlots c f init) (fun acc' m' => m = m' ∧ J acc' []) := by
  unfold Locals.foldSlots
  exact foldSlots_classes_inv c m f J hf hrange 8 0 init h0


end

section
variable (c : Cfg) (m : Mem)

/-- a tree held by a slot: the reservations on it are exactly that slot's counter -/
theorem slotFree_of_slot {H : Nat → Nat} (inv : UpperInv0 c H m) (s : Nat) (l : LTree) (hl : m.slots[s]? = some l)
    (hp : l.present = true) : m.slotFree c.geom.treeRows (l.row / c.geom.treeRows) = l.free := by
  have hs : s < m.slots.size := (Array.getElem?_eq_some_iff.1 hl).1
  have e1 : m.slotFree c.geom.treeRows (l.row / c.geom.treeRows) =
      blockSum (fun s' => LTree.freeFor c.geom.treeRows (l.row / c.geom.treeRows) (m.slots[s']?.getD default)) m.slots.size := by
    unfold Mem.slotFree
    rw [list_sum_eq_blockSum]
    simp
  rw [e1]
  have key := blockSum_point (fun _ => 0)
    (fun s' => LTree.freeFor c.geom.treeRows (l.row / c.geom.treeRows) (m.slots[s']?.getD default)) m.slots.size s hs (by
      intro j hj
      by_cases hjs : j < m.slots.size
      · have hE : m.slots[j]? = some m.slots[j] := Array.getElem?_eq_getElem hjs
        rw [hE]
        simp only [Option.getD_some]
        unfold LTree.freeFor
        by_cases hc : (m.slots[j].present && m.slots[j].row / c.geom.treeRows == l.row / c.geom.treeRows) = true
        · simp only [Bool.and_eq_true, beq_iff_eq] at hc
          exact absurd (inv.slotInj j s _ l hE hl hc.1 hp hc.2) hj
        · rw [if_neg hc]
      · rw [Array.getElem?_eq_none (by omega)]; rfl)
  rw [blockSum_zero' (fun _ => 0) _ (fun _ _ => rfl)] at key
  rw [hl] at key
  have : LTree.freeFor c.geom.treeRows (l.row / c.geom.treeRows) l = l.free := by unfold LTree.freeFor; simp [hp]
  simp only [Option.getD_some] at key
  omega

/-- the slot value with counter 1 (to count reservations with the sums for counters) -/
def LTree.one (l : LTree) : LTree := ⟨l.row, 1, l.present⟩

theorem freeFor_one (tr i : Nat) (l : LTree) :
    LTree.freeFor tr i l.one = if (l.present && l.row / tr == i) = true then 1 else 0 := rfl

/-- **as many reserved trees as reservations** -/
theorem reserved_count_eq {H : Nat → Nat} (ok : CfgOk c) (inv : UpperInv0 c H m) :
    blockSum (fun i => if (m.trees[i]?.getD default).reserved then 1 else 0) c.ntrees = (slotsOf c m).length := by
  have htree : ∀ (s : Nat) (l : LTree), m.slots[s]? = some l → l.present = true → l.row / c.geom.treeRows < c.ntrees := by
    intro s l hl hp
    obtain ⟨k', hk'⟩ := inv.slotCls s l hl hp
    obtain ⟨t, ht, _, _⟩ := inv.slotTree s l k' hl hp hk'
    exact inv.tree_lt _ t ht
  have hlen : (slotsOf c m).length = ((slotsOf c m).map (fun p => (fun _ : LTree => 1) p.2)).sum := by
    generalize slotsOf c m = L
    induction L with
    | nil => rfl
    | cons a L ih => simp only [List.length_cons, List.map_cons, List.sum_cons, ih]; omega
  rw [hlen, slotsOf_sumW c m (fun _ => 1), ← slot_partitionW c m ok inv]
  -- a slot with the constant weight 1, as a sum over the trees
  have hS : ∀ s, s < m.slots.size → slotW m (fun _ => 1) s =
      blockSum (fun i => LTree.freeFor c.geom.treeRows i (m.slots[s]?.getD default).one) c.ntrees := by
    intro s hs
    have hE : m.slots[s]? = some m.slots[s] := Array.getElem?_eq_getElem hs
    have := freeFor_sum c.geom.treeRows c.ntrees m.slots[s].one (fun hp => htree s m.slots[s] hE hp)
    rw [hE]
    simp only [Option.getD_some]
    rw [this]
    show presW (fun _ => 1) (m.slots[s]?.getD default) = presW (fun l => l.free) m.slots[s].one
    rw [hE]
    rfl
  rw [blockSum_congr _ _ _ hS, blockSum_swap]
  apply blockSum_congr
  intro i hi
  obtain ⟨t, ht⟩ := inv.tree_get i hi
  have hval : (m.trees[i]?.getD default).reserved = t.reserved := by rw [ht]; rfl
  rw [hval]
  cases hr : t.reserved with
  | true =>
    simp only [if_true]
    rcases inv.resSlot i t ht hr with h | ⟨s0, l0, hl0, hp0, hrow0⟩
    · exact h.elim
    · have hs0 : s0 < m.slots.size := (Array.getElem?_eq_some_iff.1 hl0).1
      have key := blockSum_point (fun _ => 0)
        (fun s' => LTree.freeFor c.geom.treeRows i (m.slots[s']?.getD default).one) m.slots.size s0 hs0 (by
          intro j hj
          by_cases hjs : j < m.slots.size
          · have hE : m.slots[j]? = some m.slots[j] := Array.getElem?_eq_getElem hjs
            rw [hE]
            simp only [Option.getD_some]
            rw [freeFor_one]
            by_cases hc : (m.slots[j].present && m.slots[j].row / c.geom.treeRows == i) = true
            · simp only [Bool.and_eq_true, beq_iff_eq] at hc
              exact absurd (inv.slotInj j s0 _ l0 hE hl0 hc.1 hp0 (by rw [hc.2, hrow0])) hj
            · rw [if_neg hc]
          · rw [Array.getElem?_eq_none (by omega)]; rfl)
      rw [blockSum_zero' (fun _ => 0) _ (fun _ _ => rfl)] at key
      rw [hl0] at key
      simp only [Option.getD_some] at key
      have : LTree.freeFor c.geom.treeRows i l0.one = 1 := by rw [freeFor_one]; simp [hp0, hrow0]
      omega
  | false =>
    simp only [Bool.false_eq_true, if_false]
    symm
    apply blockSum_zero'
    intro s hs
    have hE : m.slots[s]? = some m.slots[s] := Array.getElem?_eq_getElem hs
    rw [hE]
    simp only [Option.getD_some]
    rw [freeFor_one]
    by_cases hc : (m.slots[s].present && m.slots[s].row / c.geom.treeRows == i) = true
    · simp only [Bool.and_eq_true, beq_iff_eq] at hc
      obtain ⟨k', hk'⟩ := inv.slotCls s _ hE hc.1
      obtain ⟨x, hx, hxr, _⟩ := inv.slotTree s _ k' hE hc.1 hk'
      rw [hc.2, ht] at hx; cases hx
      rw [hr] at hxr; cases hxr
    · rw [if_neg hc]


/-- the loop of `validate` over the tree table: counts the reserved trees; the counter of every
    unreserved tree equals its free frames (nothing hidden) -/
theorem validate_trees_spec (ok : CfgOk c) (inv : UpperInv0 c (fun _ => 0) m) :
    ∀ (cnt i r : Nat), i + cnt ≤ c.ntrees →
      Runs m (validate.trees c cnt i r) (fun r' m' => m = m' ∧
        r' = r + blockSum (fun x => if (m.trees[i + x]?.getD default).reserved then 1 else 0) cnt) := by
  have okg := ok.geom.toGeomOk
  intro cnt
  induction cnt with
  | zero => intro i r _; unfold validate.trees; exact Runs.pure ⟨rfl, rfl⟩
  | succ cnt ih =>
    intro i r hsz
    unfold validate.trees
    have hi : i < c.ntrees := by omega
    obtain ⟨t, ht⟩ := inv.tree_get i hi
    apply Runs.bind (Runs.load (k := .tree) (v := t) (Q := fun x m' => t = x ∧ m = m') (by rw [Mem.get?_tree]; exact ht) ⟨rfl, rfl⟩)
    rintro _ _ ⟨rfl, rfl⟩
    have hfront : blockSum (fun x => if (m.trees[i + x]?.getD default).reserved then 1 else 0) (cnt + 1) =
        (if t.reserved then 1 else 0) + blockSum (fun x => if (m.trees[i + 1 + x]?.getD default).reserved then 1 else 0) cnt := by
      rw [blockSum_front]
      congr 1
      · have : (m.trees[i + 0]?.getD default).reserved = t.reserved := by simp only [Nat.add_zero]; rw [ht]; rfl
        simp only [this]
      · apply blockSum_congr; intro x _; rw [show i + (x + 1) = i + 1 + x by omega]
    show Runs m (if t.reserved = true then _ else _) _
    by_cases hr : t.reserved = true
    · rw [if_pos hr]
      apply Runs.mono (ih (i + 1) (r + 1) (by omega))
      rintro r' _ ⟨rfl, hr'⟩
      refine ⟨rfl, ?_⟩
      rw [hr', hfront, if_pos hr]; omega
    · rw [if_neg hr]
      have hr' : t.reserved = false := by cases h : t.reserved <;> simp_all
      apply Runs.bind (statsAt_tree_spec okg m inv.lower i hi)
      rintro st _ ⟨rfl, hst⟩
      have hcnt := inv.counterEq i t ht rfl
      have hsf := inv.slotFree_unreserved i t ht hr'
      have : ¬ t.free ≠ st.freeFrames := by rw [hst]; omega
      rw [if_neg this]
      apply Runs.mono (ih (i + 1) r (by omega))
      rintro r' _ ⟨rfl, hr''⟩
      refine ⟨rfl, ?_⟩
      rw [hr'', hfront, if_neg hr]; omega

/-- **`LLFree::validate` never panics** in a state satisfying the upper invariant with nothing
    hidden: all its assertions hold. -/
theorem validate_spec (ok : CfgOk c) (inv : UpperInv0 c (fun _ => 0) m) :
    Runs m (validate c) (fun _ m' => m = m') := by
  have okg := ok.geom.toGeomOk
  have hrange : ∀ k rng, c.slotRange k = some rng → rng.1 + rng.2 ≤ m.slots.size := by
    intro k rng hk; rw [inv.slotsSize]; exact ok.rangeIn k rng hk
  unfold validate
  apply Runs.bind (fast_total_exact c m ok inv)
  rintro fast _ ⟨rfl, hfast⟩
  rw [blockSum_zero' (fun _ => 0) _ (fun _ _ => rfl), Nat.add_zero] at hfast
  apply Runs.bind (lower_stats_spec okg m inv.lower)
  rintro full _ ⟨rfl, hfull, _, _⟩
  have : ¬ fast.freeFrames ≠ full.freeFrames := by rw [hfast, hfull]; exact fun h => h rfl
  rw [if_neg this]
  apply Runs.bind (validate_trees_spec c m ok inv c.ntrees 0 0 (by omega))
  rintro reserved _ ⟨rfl, hres⟩
  have hcount : reserved = (slotsOf c m).length := by
    rw [hres, Nat.zero_add, ← reserved_count_eq c m ok inv]
    apply blockSum_congr; intro x _; rw [Nat.zero_add]
  apply Runs.bind (foldSlots_inv c m _
    (fun acc rem => acc = rem.length ∧ ∀ p ∈ rem, p.2.present = true ∧ ∃ s : Nat, m.slots[s]? = some p.2)
    (by
      rintro acc cls t rest ⟨hacc, hmem⟩
      obtain ⟨hp, s, hs⟩ := hmem (cls, t) List.mem_cons_self
      obtain ⟨k, hk⟩ := inv.slotCls s t hs hp
      obtain ⟨e, he, her, _⟩ := inv.slotTree s t k hs hp hk
      have hi := inv.tree_lt _ e he
      apply Runs.bind (Runs.load (k := .tree) (v := e) (Q := fun x m' => e = x ∧ m = m') (by rw [Mem.get?_tree]; exact he) ⟨rfl, rfl⟩)
      rintro _ _ ⟨rfl, rfl⟩
      have h1 : ¬ (!e.reserved) = true := by rw [her]; simp
      rw [if_neg h1]
      apply Runs.bind (statsAt_tree_spec' okg m inv.lower (t.row / c.geom.treeRows) hi (t.row * 64) (row_tree okg t.row))
      rintro st _ ⟨rfl, hst⟩
      have hcnt := inv.counter _ e he
      have hsf := slotFree_of_slot c m inv s t hs hp
      have h2 : ¬ t.free + e.free ≠ st.freeFrames := by rw [hst]; omega
      rw [if_neg h2]
      have h3 : ¬ acc = 0 := by rw [hacc]; simp
      rw [if_neg h3]
      apply Runs.pure
      refine ⟨rfl, by rw [hacc]; simp, fun p hp' => hmem p (List.mem_cons_of_mem _ hp')⟩)
    hrange reserved ⟨hcount, fun p hp => (slotsOf_mem c m p hp).2⟩)
  rintro left _ ⟨rfl, hleft, _⟩
  have : ¬ left ≠ 0 := by rw [hleft]; simp
  rw [if_neg this]
  exact Runs.pure rfl

end
end LLFree

