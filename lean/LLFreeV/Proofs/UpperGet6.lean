/-
  `LLFree::get` / `get_at`: the complete allocation paths against the upper invariant and the
  ownership specification.
-/
import LLFreeV.Proofs.UpperGet5
namespace LLFree
open Prog

section
variable {c : Cfg} {H : Nat → Nat} {m : Mem}

/-- out-of-memory fallback: steal from, then demote, other slots -/
theorem getFallback_spec (ok : CfgOk c) (inv : UpperInv0 c H m) (r : Request) (frame : Option Nat) (hcls : r.cls < 8)
    (hloc : r.locOk c) (hto : r.order ≤ c.geom.treeOrder) (hframe : ∀ x, frame = some x → BlockOk c x r.order) :
    Runs m (getFallback c r frame) (fun res m' => UpperInv0 c H m' ∧ GetOutcome c m r.order frame res m') := by
  unfold getFallback
  apply Runs.bind (stealLocal_spec ok inv r frame hto hframe)
  rintro s m1 ⟨inv1, out1⟩
  cases s with
  | ok v => exact Runs.pure ⟨inv1, out1⟩
  | error e =>
    obtain ⟨rfl, same1⟩ := out1
    apply Runs.mono (demoteLocal_spec ok inv1 r frame hcls hloc hto hframe)
    rintro res m2 ⟨inv2, out2⟩
    exact ⟨inv2, out2.trans_same same1⟩

/-- the attempt of `get_at` through the caller's own reservation -/
theorem getAtLocal_spec (ok : CfgOk c) (inv : UpperInv0 c H m) (frame : Nat) (r : Request) (hcls : r.cls < 8)
    (hloc : r.locOk c) (hb : BlockOk c frame r.order) (rng : Nat × Nat) (hr : c.slotRange r.cls = some rng) :
    Runs m (getAtLocal c frame r) (fun res m' => UpperInv0 c H m' ∧ match res with
      | none => SameAlloc m m'
      | some x => GetOutcome c m r.order (some frame) x m') := by
  unfold getAtLocal
  cases hl : r.loc with
  | none => exact Runs.pure ⟨inv, SameAlloc.refl _⟩
  | some l =>
    simp only
    apply Runs.bind (getLocal_spec ok inv r.order r.cls l (some frame) hcls rng hr (hloc l rng hl hr) hb.ord
      (fun x hx => by cases hx; exact hb))
    rintro lr m1 ⟨inv1, out1⟩
    match lr, out1 with
    | .ok x, out1 => exact Runs.pure ⟨inv1, out1⟩
    | .error (e, st), out1 =>
      obtain ⟨rfl, same1, _⟩ := out1
      exact Runs.pure ⟨inv1, same1⟩

/-- **`LLFree::get_at`** -/
theorem getAt_spec (ok : CfgOk c) (inv : UpperInv0 c H m) (frame : Nat) (r : Request) (hcls : r.cls < 8)
    (hloc : r.locOk c) (hb : BlockOk c frame r.order) (rng : Nat × Nat) (hr : c.slotRange r.cls = some rng) :
    Runs m (getAt c frame r) (fun res m' => UpperInv0 c H m' ∧ GetOutcome c m r.order (some frame) res m') := by
  have okg := ok.geom.toGeomOk
  have hpos : 0 < 2 ^ r.order := Nat.pos_of_ne_zero (by simp)
  have hi : frame / c.geom.treeFrames < c.ntrees := tree_lt_of_block okg frame (2 ^ r.order) hpos hb.inRange
  unfold getAt
  apply Runs.bind (getAtLocal_spec ok inv frame r hcls hloc hb rng hr)
  rintro v m1 ⟨inv1, out1⟩
  cases v with
  | some x => exact Runs.pure ⟨inv1, out1⟩
  | none =>
    simp only
    have same1 : SameAlloc m m1 := out1
    apply Runs.bind (stealGlobal_spec ok inv1 (frame / c.tf) r.cls r.order (some frame) hi hcls hb.ord
      (fun x hx => by cases hx; exact ⟨hb, rfl⟩))
    rintro g m2 ⟨inv2, out2⟩
    cases g with
    | ok v => exact Runs.pure ⟨inv2, out2.trans_same same1⟩
    | error e =>
      obtain ⟨rfl, same2⟩ := out2
      apply Runs.mono (getFallback_spec ok inv2 r (some frame) hcls hloc hb.ord (fun x hx => by cases hx; exact hb))
      rintro res m3 ⟨inv3, out3⟩
      exact ⟨inv3, out3.trans_same (same1.trans same2)⟩

/-- `get` without target: own reservation / reserve a tree, or the global search -/
theorem getFirst_spec (ok : CfgOk c) (inv : UpperInv0 c H m) (r : Request) (hcls : r.cls < 8)
    (hloc : r.locOk c) (hto : r.order ≤ c.geom.treeOrder) (rng : Nat × Nat) (hr : c.slotRange r.cls = some rng) :
    Runs m (getFirst c r (some rng.2)) (fun res m' => UpperInv0 c H m' ∧ GetOutcome c m r.order none res m') := by
  have hglobal : ∀ startIdx, Runs m (Trees.searchBest c.tf c.ntrees 8 startIdx 0 c.ntrees
      (fun t free => if free < 2 ^ r.order then .invalid else c.policy r.cls t free)
      (fun i => stealGlobal c i r.cls r.order none))
      (fun res m' => UpperInv0 c H m' ∧ GetOutcome c m r.order none res m') := by
    intro startIdx
    have hacc := access_fits (H := H) (m := m) r.order none (fun i => stealGlobal c i r.cls r.order none) c.ntrees
      (fun j m1 hj inv1 => stealGlobal_spec ok inv1 j r.cls r.order none hj hcls hto (fun x hx => by cases hx))
    exact searchBest_spec c.tf c.ntrees 8 _ _ _ _ _ 0 c.ntrees hacc (search_end (H := H) r.order none) (search_load (H := H))
      m ⟨inv, SameAlloc.refl _⟩ (by rcases Nat.eq_zero_or_pos c.ntrees with h | h; left; omega; right; exact h)
  unfold getFirst
  simp only [Option.getD_some]
  cases hl : r.loc with
  | none => exact hglobal _
  | some l =>
    simp only
    by_cases hcond : (decide (rng.2 > 0) && decide (rng.2 < c.ntrees)) = true
    · rw [if_pos hcond]
      simp only [Bool.and_eq_true, decide_eq_true_eq] at hcond
      apply Runs.bind (getLocal_spec ok inv r.order r.cls l none hcls rng hr (hloc l rng hl hr) hto (fun x hx => by cases hx))
      rintro lr m1 ⟨inv1, out1⟩
      match lr, out1 with
      | .ok x, out1 => exact Runs.pure ⟨inv1, out1⟩
      | .error (e, st), out1 =>
        obtain ⟨rfl, same1, _⟩ := out1
        simp only
        apply Runs.mono (searchAndReserve_spec ok inv1 r.order r.cls l _ hcls hto rng hr hcond.1 (by omega))
        rintro res m2 ⟨inv2, out2⟩
        exact ⟨inv2, out2.trans_same same1⟩
    · rw [if_neg hcond]
      exact hglobal _

/-- **`LLFree::get`** (sequential, every reachable state): with valid arguments the call never
    panics, re-establishes the upper invariant, and either returns a block that was entirely free
    (aligned, the target if one was given, of a configured class id) whose frames are exactly
    the ones that became allocated, or fails with `Memory` leaving the allocation state unchanged. -/
theorem upper_get_spec (ok : CfgOk c) (inv : UpperInv0 c H m) (frame : Option Nat) (r : Request) (hcls : r.cls < 8)
    (hloc : r.locOk c) (hv : C08.ArgsValid c (frame.getD 0) r) :
    Runs m (get c frame r) (fun res m' => UpperInv0 c H m' ∧ GetOutcome c m r.order frame res m') := by
  have hchk := C08.check_valid c m (frame.getD 0) r hcls hv
  obtain ⟨rng, hrng⟩ := Option.isSome_iff_exists.1 hv.2.2.2.2
  unfold get
  apply Runs.bind (Runs.of_eq hchk (Q := fun x m' => x = .ok () ∧ m = m') ⟨rfl, rfl⟩)
  rintro _ _ ⟨rfl, rfl⟩
  simp only
  cases frame with
  | some f =>
    simp only
    have hb : BlockOk c f r.order := ⟨hv.1, hv.2.2.2.1, hv.2.2.1⟩
    exact getAt_spec ok inv f r hcls hloc hb rng hrng
  | none =>
    simp only
    apply Runs.bind (classLocals_runs m r.cls hcls (fun x m' => x = some rng.2 ∧ m = m') (by rw [hrng]; exact ⟨rfl, rfl⟩))
    rintro _ _ ⟨rfl, rfl⟩
    apply Runs.bind (getFirst_spec ok inv r hcls hloc hv.1 rng hrng)
    rintro first m1 ⟨inv1, out1⟩
    cases first with
    | ok v => exact Runs.pure ⟨inv1, out1⟩
    | error e =>
      obtain ⟨rfl, same1⟩ := out1
      apply Runs.mono (getFallback_spec ok inv1 r none hcls hloc hv.1 (fun x hx => by cases hx))
      rintro res m2 ⟨inv2, out2⟩
      exact ⟨inv2, out2.trans_same same1⟩

end
end LLFree
