/-
  `Bitfield::set_first_zeros` for orders up to 6 (search inside the rows of one bitfield) under
  arbitrary interleavings: a success claims exactly an aligned block whose bits were free at the
  instant of the successful compare-exchange of the update loop.
-/
import LLFreeV.Proofs.OwnToggle2
import LLFreeV.Props.C23
namespace LLFree
open Prog

/-- result of a search in ownership terms (`off` is the frame offset inside bitfield `h`) -/
def SearchPost (g : Geom) (own : Owned) (h order : Nat) : Res Nat → Owned → Prop
  | .ok off, own' => off % 2 ^ order = 0 ∧ off + 2 ^ order ≤ g.hugeFrames ∧
      own' = addBlock own (h * g.hugeFrames + off) (2 ^ order) ∧
      ∀ f, inBlockF (h * g.hugeFrames + off) (2 ^ order) f = true → own f = false
  | .error e, own' => e = .memory ∧ own' = own

section
variable {g : Geom} (G : Owned → Prop)

theorem setFirstZeros_go_safe (okg : GeomOk g) (own : Owned) (h startRow order : Nat) (ho : order ≤ 6)
    (hG : ∀ off o, off + 2 ^ order ≤ g.hugeFrames → Between own (addBlock own (h * g.hugeFrames + off) (2 ^ order)) o → G o) (cnt i : Nat) :
    SafeR G (SearchPost g own h order) own (Bitfield.setFirstZeros.go g h startRow order cnt i) := by
  induction cnt generalizing i with
  | zero =>
    unfold Bitfield.setFirstZeros.go
    exact ⟨rfl, rfl⟩
  | succ cnt ih =>
    unfold Bitfield.setFirstZeros.go
    simp only
    have hrpos := okg.rows_pos
    have hidx : (i + startRow % g.rows) % g.rows < g.rows := Nat.mod_lt _ hrpos
    generalize (i + startRow % g.rows) % g.rows = idx at hidx
    show SafeR G _ own (Prog.upd .row (rowIdx g h idx) _ _)
    intro cur hkn
    have hspec := C23.fza_spec cur order ho
    simp only [Upd.ofOption]
    cases hf : Gen.fza cur order with
    | none =>
      simp only [Option.map_none]
      exact ih (i + 1)
    | some res =>
      obtain ⟨new, off⟩ := res
      rw [hf] at hspec
      obtain ⟨hoff, hal, hfree, _, hbits⟩ := hspec
      simp only [Option.map_some]
      obtain ⟨hfit, _⟩ := fits_word off order ho hal
      have hoffm : off % 64 = off := Nat.mod_eq_of_lt hoff
      rw [hoffm] at hfit
      -- the bits of the block were free and are not ours
      have hnone : ∀ b, b < 64 → off ≤ b → b < off + 2 ^ order → own (rowIdx g h idx * 64 + b) = false := by
        intro b hb h1 h2
        cases hown : own (rowIdx g h idx * 64 + b) with
        | false => rfl
        | true =>
          have h3 := hkn b hb hown
          have h4 := hfree (b - off) (by omega)
          rw [show off + (b - off) = b by omega, h3] at h4; cases h4
      have hF : h * g.hugeFrames + (idx * 64 + off) = rowIdx g h idx * 64 + off := by
        simp only [rowIdx]; rw [← okg.rows_mul]; rw [Nat.add_mul, Nat.mul_assoc]; omega
      have hFrow : (h * g.hugeFrames + (idx * 64 + off)) / 64 = rowIdx g h idx := by rw [hF]; omega
      have hFbit : (h * g.hugeFrames + (idx * 64 + off)) % 64 = off := by rw [hF]; omega
      have hin : idx * 64 + off + 2 ^ order ≤ g.hugeFrames := by
        have : (idx + 1) * 64 ≤ g.rows * 64 := Nat.mul_le_mul_right _ hidx
        rw [okg.rows_mul, Nat.add_mul, Nat.one_mul] at this
        omega
      have hGo : G (addBits own (rowIdx g h idx) off (2 ^ order)) := by
        have := hG _ _ hin (Between.addBlock_top own (h * g.hugeFrames + (idx * 64 + off)) (2 ^ order))
        rw [← addBits_eq_block own _ _ (by rw [hFbit]; exact hfit), hFrow, hFbit] at this
        exact this
      refine ⟨addBits own (rowIdx g h idx) off (2 ^ order), ?_, hGo, ?_⟩
      · apply Trans.claim_range own _ off (2 ^ order) cur new
        · intro b hb
          rw [hbits b]
          by_cases hr : off ≤ b ∧ b < off + 2 ^ order
          · simp [hr.1, hr.2, hb]
          · have : (decide (off ≤ b) && decide (b < off + 2 ^ order) && decide (b < 64)) = false := by
              by_cases a : off ≤ b <;> by_cases c : b < off + 2 ^ order <;> simp [a, c] <;> exact (hr ⟨a, c⟩).elim
            rw [this, if_neg hr]; simp
        · intro b hb h1 h2
          have := hfree (b - off) (by omega)
          rw [show off + (b - off) = b by omega] at this
          exact this
      · -- the continuation returns the offset
        simp only [Prog.bind, hf]
        show SearchPost g own h order (.ok (idx * 64 + off)) _
        refine ⟨?_, ?_, ?_, ?_⟩
        · -- aligned: 64 is a multiple of 2^order
          have hd : 2 ^ order ∣ 64 := ⟨2 ^ (6 - order), by
            have e64 : (64 : Nat) = 2 ^ 6 := rfl
            rw [e64, ← Nat.pow_add]; congr 1; omega⟩
          have : 2 ^ order ∣ idx * 64 := Nat.dvd_mul_left_of_dvd hd idx
          rw [Nat.add_mod, Nat.mod_eq_zero_of_dvd this, hal]; simp
        · exact hin
        · rw [← addBits_eq_block own _ _ (by rw [hFbit]; exact hfit), hFrow, hFbit]
        · exact block_none_of_bits own _ _ (by rw [hFbit]; exact hfit) (by rw [hFrow, hFbit]; exact hnone)

/-- **`set_first_zeros` (orders 0..6) in any interleaving** -/
theorem setFirstZeros_small_safe (okg : GeomOk g) (own : Owned) (h startRow order : Nat) (ho : order ≤ 6)
    (hG : ∀ off o, off + 2 ^ order ≤ g.hugeFrames → Between own (addBlock own (h * g.hugeFrames + off) (2 ^ order)) o → G o) :
    SafeR G (SearchPost g own h order) own (Bitfield.setFirstZeros g h startRow order) := by
  unfold Bitfield.setFirstZeros
  have : ¬ order > 6 := by omega
  simp only [this, if_false]
  exact setFirstZeros_go_safe G okg own h startRow order ho hG g.rows 0

end

/-! ### whole rows (orders 7 .. huge order): `set_first_zero_rows` -/

/-- the roll-back of `casRange` over rows never panics and returns what was claimed -/
theorem casRangeUndo_rows_safe (G : Owned → Prop) (own0 : Owned) (R0 : Nat) (msg : String) (k : Nat)
    (hdis : ∀ x, x < k → ∀ b, b < 64 → own0 ((R0 + x) * 64 + b) = false)
    (hG : ∀ j, j ≤ k → G (addRows own0 R0 j)) :
    SafeR G (fun (_ : Unit) o => o = own0) (addRows own0 R0 k) (casRangeUndo .row R0 (0 : BitVec 64) rowMax msg k k) := by
  induction k with
  | zero =>
    unfold casRangeUndo
    show addRows own0 _ 0 = own0
    exact addRows_zero own0 _
  | succ k ih =>
    unfold casRangeUndo
    rw [show k + 1 - 1 = k by omega]
    show SafeR G _ _ (Prog.cas .row _ _ _ _)
    intro cur hk
    have hcur : cur = rowMax := by
      apply known_all _ _ cur hk
      intro b hb
      unfold addRows inRows
      have e1 : ((R0 + k) * 64 + b) / 64 = R0 + k := by omega
      simp [e1]
    refine ⟨fun _ => ?_, fun hne => absurd hcur hne⟩
    refine ⟨addRows own0 R0 k, Trans.unclaim_row own0 _ k (hdis k (by omega)), hG k (by omega), ?_⟩
    simp only
    exact ih (fun x hx => hdis x (by omega)) (fun j hj => hG j (by omega))

/-- `casRange` claiming all-zero rows: all of them, or none (after the roll-back) -/
theorem casRange_rows_safe (G : Owned → Prop) (own0 : Owned) (R0 : Nat) (msg : String) (K cnt k : Nat) (hk : k + cnt = K)
    (hdis : ∀ x, x < k → ∀ b, b < 64 → own0 ((R0 + x) * 64 + b) = false)
    (hG : ∀ j, j ≤ K → G (addRows own0 R0 j)) :
    SafeR G (fun (ok : Bool) own' => if ok then own' = addRows own0 R0 K ∧
        (∀ x, x < K → ∀ b, b < 64 → own0 ((R0 + x) * 64 + b) = false) else own' = own0)
      (addRows own0 R0 k) (casRange .row R0 (0 : BitVec 64) rowMax msg cnt k) := by
  induction cnt generalizing k with
  | zero =>
    unfold casRange
    have : k = K := by omega
    subst this
    exact ⟨rfl, hdis⟩
  | succ cnt ih =>
    unfold casRange
    show SafeR G _ _ (Prog.cas .row _ _ _ _)
    intro cur hkn
    refine ⟨fun he => ?_, fun _ => ?_⟩
    · subst he
      have hnone : ∀ b, b < 64 → own0 ((R0 + k) * 64 + b) = false := by
        intro b hb
        have := none_owned_of_zero _ _ hkn b hb
        unfold addRows at this
        cases ho : own0 ((R0 + k) * 64 + b) with
        | false => rfl
        | true => rw [ho] at this; simp at this
      refine ⟨addRows own0 R0 (k + 1), Trans.claim_row own0 _ k, hG (k + 1) (by omega), ?_⟩
      simp only
      apply ih (k + 1) (by omega)
      intro x hx b hb
      by_cases e : x = k
      · subst e; exact hnone b hb
      · exact hdis x (by omega) b hb
    · simp only
      apply SafeR.bind _ _ _ (casRangeUndo_rows_safe G own0 R0 msg k hdis (fun j hj => hG j (by omega)))
      rintro _ o rfl
      show SafeR G _ _ (Prog.ret false)
      simp only [SafeR, Bool.false_eq_true, if_false]

section
variable {g : Geom} (G : Owned → Prop)

theorem allZero_safe (own : Owned) (h cnt r : Nat) :
    SafeR G (fun (_ : Bool) o => o = own) own (Bitfield.setFirstZeroRows.allZero g h cnt r) := by
  induction cnt generalizing r with
  | zero => unfold Bitfield.setFirstZeroRows.allZero; rfl
  | succ cnt ih =>
    unfold Bitfield.setFirstZeroRows.allZero
    show SafeR G _ own (Prog.load .row _ _)
    intro v _
    show SafeR G _ own (if v = 0 then _ else _)
    by_cases hv : v = 0
    · rw [if_pos hv]; exact ih (r + 1)
    · rw [if_neg hv]; rfl

theorem chunks_safe (own : Owned) (h n q : Nat) (hn : 0 < n) (hrows : g.rows = q * n) (cnt ci : Nat) (hci : ci + cnt = q)
    (hG : ∀ c j, c + n ≤ g.rows → j ≤ n → G (addRows own (h * g.rows + c) j)) :
    SafeR G (fun r own' => match r with
        | .ok c => c % n = 0 ∧ c + n ≤ g.rows ∧ own' = addRows own (h * g.rows + c) n ∧
            (∀ x, x < n → ∀ b, b < 64 → own ((h * g.rows + c + x) * 64 + b) = false)
        | .error e => e = .memory ∧ own' = own) own
      (Bitfield.setFirstZeroRows.chunks g h n cnt ci) := by
  induction cnt generalizing ci with
  | zero =>
    unfold Bitfield.setFirstZeroRows.chunks
    exact ⟨rfl, rfl⟩
  | succ cnt ih =>
    unfold Bitfield.setFirstZeroRows.chunks
    simp only
    apply SafeR.bind _ _ _ (allZero_safe G own h _ _)
    rintro z o rfl
    cases z with
    | false => simp only [Bool.false_eq_true, if_false]; exact ih (ci + 1) (by omega)
    | true =>
      simp only [if_true]
      have hfit : ci * n + n ≤ g.rows := by
        rw [hrows]
        have : (ci + 1) * n ≤ q * n := Nat.mul_le_mul_right _ (by omega)
        rw [Nat.add_mul, Nat.one_mul] at this; exact this
      have hlen : min n (g.rows - ci * n) = n := by omega
      rw [hlen]
      have key := casRange_rows_safe G o (rowIdx g h (ci * n)) "Failed undo search" n n 0 (by omega) (fun x hx => by omega)
        (fun j hj => hG (ci * n) j hfit hj)
      rw [addRows_zero] at key
      apply SafeR.bind _ _ _ key
      intro b o' hb
      cases b with
      | true =>
        simp only [if_true] at hb ⊢
        obtain ⟨h1, h2⟩ := hb
        exact ⟨Nat.mul_mod_left ci n, hfit, h1, h2⟩
      | false =>
        simp only [Bool.false_eq_true, if_false] at hb ⊢
        rw [hb]; exact ih (ci + 1) (by omega)

/-- **`set_first_zeros` (orders 7 .. huge order) in any interleaving**: a success claims exactly
    the rows of an aligned block that were all zero at the instants of their compare-exchanges;
    a lost race rolls back (without panic) and the search goes on. -/
theorem setFirstZeros_rows_safe (okg : GeomOk g) (own : Owned) (h startRow order : Nat) (h6 : 6 < order) (hoh : order ≤ g.hugeOrder)
    (hG : ∀ off o, off + 2 ^ order ≤ g.hugeFrames → Between own (addBlock own (h * g.hugeFrames + off) (2 ^ order)) o → G o) :
    SafeR G (SearchPost g own h order) own (Bitfield.setFirstZeros g h startRow order) := by
  unfold Bitfield.setFirstZeros
  have : order > 6 := h6
  simp only [this, if_true]
  unfold Bitfield.setFirstZeroRows
  simp only
  have hrows := okg.rows_eq
  have hmul : g.rows = 2 ^ (g.hugeOrder - order) * 2 ^ (order - 6) := by
    rw [hrows, ← Nat.pow_add]; congr 1; omega
  have hn : 0 < 2 ^ (order - 6) := Nat.pos_of_ne_zero (by simp)
  have hcnt : (g.rows + 2 ^ (order - 6) - 1) / 2 ^ (order - 6) = 2 ^ (g.hugeOrder - order) := by
    rw [hmul]
    have : 2 ^ (g.hugeOrder - order) * 2 ^ (order - 6) + 2 ^ (order - 6) - 1 =
        2 ^ (order - 6) * 2 ^ (g.hugeOrder - order) + (2 ^ (order - 6) - 1) := by rw [Nat.mul_comm]; omega
    rw [this, Nat.mul_add_div hn, Nat.div_eq_of_lt (by omega), Nat.add_zero]
  rw [hcnt]
  have e64 : (64 : Nat) = 2 ^ 6 := rfl
  have hsplit : 2 ^ order = 2 ^ (order - 6) * 64 := by rw [e64, ← Nat.pow_add]; congr 1; omega
  have hGc : ∀ c j, c + 2 ^ (order - 6) ≤ g.rows → j ≤ 2 ^ (order - 6) → G (addRows own (h * g.rows + c) j) := by
    intro c j hc hj
    have hF : h * g.hugeFrames + c * 64 = (h * g.rows + c) * 64 := by
      rw [← okg.rows_mul, Nat.add_mul, Nat.mul_assoc]
    have hF64 : (h * g.hugeFrames + c * 64) % 64 = 0 := by rw [hF]; exact Nat.mul_mod_left _ _
    have hFrow : (h * g.hugeFrames + c * 64) / 64 = h * g.rows + c := by rw [hF]; exact Nat.mul_div_cancel _ (by decide)
    apply hG (c * 64)
    · rw [hsplit, ← okg.rows_mul]
      have : (c + 2 ^ (order - 6)) * 64 ≤ g.rows * 64 := Nat.mul_le_mul_right _ hc
      rw [Nat.add_mul] at this; exact this
    · rw [hsplit, ← addRows_eq_block own _ _ hF64, hFrow]
      exact Between.addRows own _ j _ hj
  apply SafeR.bind _ _ _ (chunks_safe G own h (2 ^ (order - 6)) (2 ^ (g.hugeOrder - order)) hn hmul _ 0 (by omega) hGc)
  intro r o hr
  cases r with
  | error e => exact hr
  | ok c =>
    obtain ⟨hal, hfit, hown, hnone⟩ := hr
    show SearchPost g own h order (.ok (c * 64)) o
    have hF : h * g.hugeFrames + c * 64 = (h * g.rows + c) * 64 := by
      rw [← okg.rows_mul, Nat.add_mul, Nat.mul_assoc]
    have hF64 : (h * g.hugeFrames + c * 64) % 64 = 0 := by rw [hF]; exact Nat.mul_mod_left _ _
    have hFrow : (h * g.hugeFrames + c * 64) / 64 = h * g.rows + c := by rw [hF]; exact Nat.mul_div_cancel _ (by decide)
    refine ⟨?_, ?_, ?_, ?_⟩
    · rw [hsplit]
      obtain ⟨k, hk⟩ := Nat.dvd_of_mod_eq_zero hal
      rw [hk, Nat.mul_assoc, Nat.mul_comm k 64, ← Nat.mul_assoc]
      exact Nat.mul_mod_right _ _
    · rw [hsplit, ← okg.rows_mul]
      have : (c + 2 ^ (order - 6)) * 64 ≤ g.rows * 64 := Nat.mul_le_mul_right _ hfit
      rw [Nat.add_mul] at this; exact this
    · rw [hsplit, ← addRows_eq_block own _ _ hF64, hFrow]; exact hown
    · intro f hf
      rw [hsplit, ← inRows_eq_block _ _ hF64, hFrow] at hf
      unfold inRows at hf
      simp only [Bool.and_eq_true, decide_eq_true_eq] at hf
      have := hnone (f / 64 - (h * g.rows + c)) (by omega) (f % 64) (Nat.mod_lt _ (by decide))
      rw [show (h * g.rows + c + (f / 64 - (h * g.rows + c))) * 64 + f % 64 = f by
        have := Nat.div_add_mod f 64; omega] at this
      exact this

/-- **`set_first_zeros`, every order up to the huge order, in any interleaving** -/
theorem setFirstZeros_safe (okg : GeomOk g) (own : Owned) (h startRow order : Nat) (hoh : order ≤ g.hugeOrder)
    (hG : ∀ off o, off + 2 ^ order ≤ g.hugeFrames → Between own (addBlock own (h * g.hugeFrames + off) (2 ^ order)) o → G o) :
    SafeR G (SearchPost g own h order) own (Bitfield.setFirstZeros g h startRow order) := by
  by_cases h6 : order ≤ 6
  · exact setFirstZeros_small_safe G okg own h startRow order h6 hG
  · exact setFirstZeros_rows_safe G okg own h startRow order (by omega) hoh hG

end
end LLFree
