/-
  A small total-correctness program logic over the sequential semantics:
  `Runs m p Q` — run from `m`, the program `p` finishes without panic in a state and with a
  result satisfying `Q`.
-/
import LLFreeV.Proofs.MemLemmas
namespace LLFree
open Prog

def Runs {α : Type} (m : Mem) (p : Prog α) (Q : α → Mem → Prop) : Prop :=
  ∃ m' a, runSolo p m = (m', .ok a) ∧ Q a m'

namespace Runs
variable {α β : Type} {m : Mem}

theorem of_eq {p : Prog α} {Q : α → Mem → Prop} {m' : Mem} {a : α} (h : runSolo p m = (m', .ok a)) (q : Q a m') :
    Runs m p Q := ⟨m', a, h, q⟩

theorem pure {a : α} {Q : α → Mem → Prop} (q : Q a m) : Runs m (Pure.pure a : Prog α) Q := ⟨m, a, rfl, q⟩

theorem ret {a : α} {Q : α → Mem → Prop} (q : Q a m) : Runs m (Prog.ret a) Q := ⟨m, a, rfl, q⟩

theorem mono {p : Prog α} {Q R : α → Mem → Prop} (h : Runs m p Q) (hq : ∀ a m', Q a m' → R a m') : Runs m p R := by
  obtain ⟨m', a, e, q⟩ := h
  exact ⟨m', a, e, hq a m' q⟩

theorem bind {p : Prog α} {f : α → Prog β} {R : α → Mem → Prop} {Q : β → Mem → Prop}
    (h : Runs m p R) (hf : ∀ a m', R a m' → Runs m' (f a) Q) : Runs m (p >>= f) Q := by
  obtain ⟨m', a, e, r⟩ := h
  obtain ⟨m'', b, e2, q⟩ := hf a m' r
  refine ⟨m'', b, ?_, q⟩
  rw [runSolo_bind, e]; exact e2

theorem load {k : Kind} {i : Nat} {v : k.Val} {Q : k.Val → Mem → Prop} (h : m.get? k i = some v) (q : Q v m) :
    Runs m (loadK k i) Q := ⟨m, v, runSolo_loadK_some h, q⟩

theorem store {k : Kind} {i : Nat} {o : k.Val} (v : k.Val) {Q : Unit → Mem → Prop} (h : m.get? k i = some o)
    (q : Q () (m.set k i v)) : Runs m (storeK k i v) Q := ⟨_, (), runSolo_storeK_some v h, q⟩

theorem swap {k : Kind} {i : Nat} {o : k.Val} (v : k.Val) {Q : k.Val → Mem → Prop} (h : m.get? k i = some o)
    (q : Q o (m.set k i v)) : Runs m (swapK k i v) Q := ⟨_, o, runSolo_swapK_some v h, q⟩

/-- `upd` with a closure that stores -/
theorem upd_set {k : Kind} {i : Nat} {o v : k.Val} {f : k.Val → Upd k.Val} {Q : Except k.Val k.Val → Mem → Prop}
    (h : m.get? k i = some o) (hf : f o = .set v) (q : Q (.ok o) (m.set k i v)) : Runs m (updK k i f) Q := by
  refine ⟨m.set k i v, .ok o, ?_, q⟩
  simp only [updK, runSolo, h, hf]

/-- `upd` with a closure that declines -/
theorem upd_skip {k : Kind} {i : Nat} {o : k.Val} {f : k.Val → Upd k.Val} {Q : Except k.Val k.Val → Mem → Prop}
    (h : m.get? k i = some o) (hf : f o = .skip) (q : Q (.error o) m) : Runs m (updK k i f) Q := by
  refine ⟨m, .error o, ?_, q⟩
  simp only [updK, runSolo, h, hf]

theorem tryUpdate_some {k : Kind} {i : Nat} {o v : k.Val} {f : k.Val → Option k.Val} {Q : Except k.Val k.Val → Mem → Prop}
    (h : m.get? k i = some o) (hf : f o = some v) (q : Q (.ok o) (m.set k i v)) : Runs m (tryUpdate k i f) Q := by
  refine ⟨m.set k i v, .ok o, ?_, q⟩
  simp only [tryUpdate, runSolo, h, hf, Upd.ofOption]

theorem tryUpdate_none {k : Kind} {i : Nat} {o : k.Val} {f : k.Val → Option k.Val} {Q : Except k.Val k.Val → Mem → Prop}
    (h : m.get? k i = some o) (hf : f o = none) (q : Q (.error o) m) : Runs m (tryUpdate k i f) Q := by
  refine ⟨m, .error o, ?_, q⟩
  simp only [tryUpdate, runSolo, h, hf, Upd.ofOption]

theorem assoc {γ : Type} {p : Prog α} {f : α → Prog β} {g : β → Prog γ} {Q : γ → Mem → Prop}
    (h : Runs m ((p >>= f) >>= g) Q) : Runs m (p >>= fun a => f a >>= g) Q := by
  obtain ⟨m', a, e, q⟩ := h
  refine ⟨m', a, ?_, q⟩
  rw [← e]
  simp only [runSolo_bind]
  cases runSolo p m with
  | mk m1 o => cases o <;> rfl

/-- the shape the `do` notation gives an `if … then action` followed by more code -/
theorem ite_jp {p : Prog α} {b : α → Bool} {t : α → Prog Unit} {k : Unit → Prog β} {R : Unit → Mem → Prop}
    {Q : β → Mem → Prop}
    (h : Runs m (p >>= fun a => if b a = true then t a else Pure.pure ()) R)
    (hk : ∀ u m', R u m' → Runs m' (k u) Q) :
    Runs m (p >>= fun a => if b a = true then t a >>= k else k ()) Q := by
  obtain ⟨m', u, e, r⟩ := h
  rw [runSolo_bind] at e
  cases hp : runSolo p m with
  | mk m1 o =>
    rw [hp] at e
    cases o with
    | panic s => simp at e
    | ok a =>
      simp only [andThen_ok] at e
      by_cases hb : b a = true
      · simp only [hb, if_true] at e
        obtain ⟨m2, x, e2, q⟩ := hk u m' r
        refine ⟨m2, x, ?_, q⟩
        rw [runSolo_bind, hp]
        simp only [andThen_ok, hb, if_true, runSolo_bind, e]
        exact e2
      · simp only [hb, if_false] at e
        have e' : (m1, Outcome.ok ()) = (m', Outcome.ok u) := e
        have em : m1 = m' := congrArg Prod.fst e'
        subst em
        obtain ⟨m2, x, e2, q⟩ := hk u m1 r
        refine ⟨m2, x, ?_, q⟩
        rw [runSolo_bind, hp]
        simp only [andThen_ok, hb, if_false]
        exact e2

/-- the run as an equation (to feed existing `runSolo` specifications) -/
theorem elim {p : Prog α} {Q : α → Mem → Prop} (h : Runs m p Q) : ∃ m' a, runSolo p m = (m', .ok a) ∧ Q a m' := h

end Runs
end LLFree
