/-
  `Bitfield::toggle` as a whole (all orders up to the huge order) in ownership terms.
-/
import LLFreeV.Proofs.OwnToggle
namespace LLFree
open Prog

/-- frames `[F, F+n)` -/
def inBlockF (F n f : Nat) : Bool := decide (F ≤ f) && decide (f < F + n)
def addBlock (own : Owned) (F n : Nat) : Owned := fun f => own f || inBlockF F n f
def subBlock (own : Owned) (F n : Nat) : Owned := fun f => own f && !inBlockF F n f

theorem inBits_eq_block (F n : Nat) (hfit : F % 64 + n ≤ 64) : inBits (F / 64) (F % 64) n = inBlockF F n := by
  funext f
  unfold inBits inBlockF
  have h1 := Nat.div_add_mod F 64
  have h2 := Nat.div_add_mod f 64
  have h3 := Nat.mod_lt F (show 0 < 64 by decide)
  have h4 := Nat.mod_lt f (show 0 < 64 by decide)
  by_cases a : f / 64 = F / 64
  · by_cases b : F % 64 ≤ f % 64 <;> by_cases c : f % 64 < F % 64 + n <;>
      by_cases d : F ≤ f <;> by_cases e : f < F + n <;> simp [a, b, c, d, e] <;> omega
  · by_cases d : F ≤ f <;> by_cases e : f < F + n <;> simp [a, d, e] <;> omega

theorem inRows_eq_block (F K : Nat) (hal : F % 64 = 0) : inRows (F / 64) K = inBlockF F (K * 64) := by
  funext f
  unfold inRows inBlockF
  have h1 := Nat.div_add_mod F 64
  have h2 := Nat.div_add_mod f 64
  have h4 := Nat.mod_lt f (show 0 < 64 by decide)
  by_cases a : F / 64 ≤ f / 64 <;> by_cases b : f / 64 < F / 64 + K <;>
    by_cases d : F ≤ f <;> by_cases e : f < F + K * 64 <;> simp [a, b, d, e] <;> omega

def AllocPost (own : Owned) (F n : Nat) : Res Unit → Owned → Prop
  | .ok _, own' => own' = addBlock own F n ∧ ∀ f, inBlockF F n f = true → own f = false
  | .error e, own' => e = .memory ∧ own' = own

def FreePost (own : Owned) (F n : Nat) : Res Unit → Owned → Prop
  | .ok _, own' => own' = subBlock own F n
  | .error _, _ => False

/-- an aligned block of at most 64 frames lies inside one word -/
theorem fits_word (o order : Nat) (ho : order ≤ 6) (hal : o % 2 ^ order = 0) :
    o % 64 + 2 ^ order ≤ 64 ∧ (o % 64) % 2 ^ order = 0 := by
  have hd : 2 ^ order ∣ 64 := ⟨2 ^ (6 - order), by
    have e64 : (64 : Nat) = 2 ^ 6 := rfl
    rw [e64, ← Nat.pow_add]; congr 1; omega⟩
  have hmm : (o % 64) % 2 ^ order = 0 := by rw [Nat.mod_mod_of_dvd _ hd]; exact hal
  refine ⟨?_, hmm⟩
  obtain ⟨q, hq⟩ := hd
  have : o % 64 < 64 := Nat.mod_lt _ (by decide)
  have h5 := Nat.div_add_mod (o % 64) (2 ^ order)
  rw [hmm] at h5
  have hpos : 0 < 2 ^ order := Nat.pos_of_ne_zero (by simp)
  have : (o % 64) / 2 ^ order < q := by
    apply (Nat.div_lt_iff_lt_mul hpos).2; rw [Nat.mul_comm, ← hq]; omega
  have : 2 ^ order * ((o % 64) / 2 ^ order + 1) ≤ 2 ^ order * q := Nat.mul_le_mul_left _ (by omega)
  rw [Nat.mul_add, Nat.mul_one, ← hq] at this
  omega

/-- an aligned block of whole rows lies inside the bitfield -/
theorem fits_rows {g : Geom} (okg : GeomOk g) (o order : Nat) (h6 : 6 < order) (hoh : order ≤ g.hugeOrder) (holt : o < g.hugeFrames)
    (hal : o % 2 ^ order = 0) : o % 64 = 0 ∧ 2 ^ order / 64 = 2 ^ (order - 6) ∧ o / 64 + 2 ^ (order - 6) ≤ g.rows ∧
      2 ^ (order - 6) * 64 = 2 ^ order := by
  have e64 : (64 : Nat) = 2 ^ 6 := rfl
  have hsplit : 2 ^ order = 2 ^ (order - 6) * 64 := by rw [e64, ← Nat.pow_add]; congr 1; omega
  have hd64 : 64 ∣ 2 ^ order := ⟨2 ^ (order - 6), by rw [hsplit, Nat.mul_comm]⟩
  have ho64 : o % 64 = 0 := by
    have : 2 ^ order ∣ o := Nat.dvd_of_mod_eq_zero hal
    exact Nat.mod_eq_zero_of_dvd (Nat.dvd_trans hd64 this)
  have hdiv : 2 ^ order / 64 = 2 ^ (order - 6) := by rw [hsplit]; exact Nat.mul_div_cancel _ (by decide)
  -- o + 2^order ≤ HF
  have hHF : g.hugeFrames = 2 ^ (g.hugeOrder - order) * 2 ^ order := by
    show 2 ^ g.hugeOrder = _; rw [← Nat.pow_add]; congr 1; omega
  have hfit : o + 2 ^ order ≤ g.hugeFrames := by
    have hpos : 0 < 2 ^ order := Nat.pos_of_ne_zero (by simp)
    have h5 := Nat.div_add_mod o (2 ^ order)
    rw [hal] at h5
    have : o / 2 ^ order < 2 ^ (g.hugeOrder - order) := by
      apply (Nat.div_lt_iff_lt_mul hpos).2; rw [← hHF]; exact holt
    have : 2 ^ order * (o / 2 ^ order + 1) ≤ 2 ^ order * 2 ^ (g.hugeOrder - order) := Nat.mul_le_mul_left _ (by omega)
    rw [Nat.mul_add, Nat.mul_one, Nat.mul_comm (2 ^ order) (2 ^ (g.hugeOrder - order)), ← hHF] at this
    omega
  refine ⟨ho64, hdiv, ?_, hsplit.symm⟩
  have hrm := okg.rows_mul
  have h7 := Nat.div_add_mod o 64
  rw [ho64] at h7
  -- 64 * (o/64) + 64 * 2^(order-6) ≤ 64 * rows
  have : 64 * (o / 64 + 2 ^ (order - 6)) ≤ 64 * g.rows := by
    rw [Nat.mul_add, Nat.mul_comm 64 (2 ^ (order - 6)), ← hsplit, Nat.mul_comm 64 g.rows, hrm]; omega
  exact Nat.le_of_mul_le_mul_left this (by decide)

section
variable {g : Geom} (G : Owned → Prop)

theorem addBits_eq_block (own : Owned) (F n : Nat) (hfit : F % 64 + n ≤ 64) : addBits own (F / 64) (F % 64) n = addBlock own F n := by
  unfold addBits addBlock; rw [inBits_eq_block F n hfit]
theorem subBits_eq_block (own : Owned) (F n : Nat) (hfit : F % 64 + n ≤ 64) : subBits own (F / 64) (F % 64) n = subBlock own F n := by
  unfold subBits subBlock; rw [inBits_eq_block F n hfit]
/-- no bit of the block was owned -/
theorem block_none_of_bits (own : Owned) (F n : Nat) (hfit : F % 64 + n ≤ 64)
    (h : ∀ b, b < 64 → F % 64 ≤ b → b < F % 64 + n → own (F / 64 * 64 + b) = false) :
    ∀ f, inBlockF F n f = true → own f = false := by
  intro f hf
  rw [← inBits_eq_block F n hfit] at hf
  unfold inBits at hf
  simp only [Bool.and_eq_true, decide_eq_true_eq] at hf
  have := h (f % 64) (Nat.mod_lt _ (by decide)) hf.1.2 hf.2
  rw [← hf.1.1, show f / 64 * 64 + f % 64 = f by have := Nat.div_add_mod f 64; omega] at this
  exact this

theorem addRows_eq_block (own : Owned) (F K : Nat) (hal : F % 64 = 0) : addRows own (F / 64) K = addBlock own F (K * 64) := by
  unfold addRows addBlock; rw [inRows_eq_block F K hal]
theorem subRows_eq_block (own : Owned) (F K : Nat) (hal : F % 64 = 0) : subRows own (F / 64) K = subBlock own F (K * 64) := by
  unfold subRows subBlock; rw [inRows_eq_block F K hal]


/-- `o` lies between `lo` and `hi` -/
def Between (lo hi o : Owned) : Prop := (∀ f, lo f = true → o f = true) ∧ (∀ f, o f = true → hi f = true)

theorem Between.addBlock_top (own : Owned) (F n : Nat) : Between own (addBlock own F n) (addBlock own F n) :=
  ⟨fun f hf => by unfold addBlock; simp [hf], fun _ hf => hf⟩

theorem Between.subBlock_bot (own : Owned) (F n : Nat) : Between (subBlock own F n) own (subBlock own F n) :=
  ⟨fun _ hf => hf, fun f hf => by unfold subBlock at hf; simp at hf; exact hf.1⟩

theorem Between.addRows (own : Owned) (R j K : Nat) (hj : j ≤ K) : Between own (addRows own R K) (addRows own R j) := by
  refine ⟨fun f hf => by unfold LLFree.addRows; simp [hf], fun f hf => ?_⟩
  unfold LLFree.addRows inRows at *
  simp only [Bool.or_eq_true, Bool.and_eq_true, decide_eq_true_eq] at *
  rcases hf with hf | hf
  · exact Or.inl hf
  · exact Or.inr ⟨hf.1, by omega⟩

theorem Between.subRows (own : Owned) (R j K : Nat) (hj : j ≤ K) : Between (subRows own R K) own (subRows own R j) := by
  refine ⟨fun f hf => ?_, fun f hf => by unfold LLFree.subRows at hf; simp at hf; exact hf.1⟩
  unfold LLFree.subRows inRows at *
  simp only [Bool.and_eq_true, Bool.not_eq_true', Bool.and_eq_false_iff, decide_eq_true_eq, decide_eq_false_iff_not] at *
  refine ⟨hf.1, ?_⟩
  rcases hf.2 with h | h
  · exact Or.inl h
  · exact Or.inr (by omega)

/-- **Allocation by `toggle` in any interleaving**: a success claims exactly the block (whose
    bits were all free at that instant), a failure is `Memory` and claims nothing; no panic
    (the roll-back of a multi-row allocation cannot fail). -/
theorem toggle_alloc_safe (okg : GeomOk g) (own : Owned) (h i order : Nat) (hoh : order ≤ g.hugeOrder)
    (hal : (i % g.hugeFrames) % 2 ^ order = 0)
    (hG : ∀ o, Between own (addBlock own (h * g.hugeFrames + i % g.hugeFrames) (2 ^ order)) o → G o) :
    SafeR G (AllocPost own (h * g.hugeFrames + i % g.hugeFrames) (2 ^ order)) own (Bitfield.toggle g h i order false) := by
  have hHF := okg.hf_pos
  generalize hO : i % g.hugeFrames = o at *
  have holt : o < g.hugeFrames := by rw [← hO]; exact Nat.mod_lt _ hHF
  have hFrow : (h * g.hugeFrames + o) / 64 = h * g.rows + o / 64 := okg.frame_row h o
  have hFbit : (h * g.hugeFrames + o) % 64 = o % 64 := okg.frame_bit h o
  have hrow1 : (i / 64) % g.rows = o / 64 := by rw [← hO]; exact (okg.mod_hf_div i).symm
  have hbit1 : i % 64 = o % 64 := by rw [← hO]; exact (okg.mod_hf_mod i).symm
  unfold Bitfield.toggle
  by_cases h2 : order ≤ 2
  · simp only [h2, if_true]
    rw [hrow1, hbit1]
    obtain ⟨hfit, _⟩ := fits_word o order (by omega) hal
    have hn : 2 ^ order ≤ 64 := by omega
    have key := toggle_small_alloc_safe G own (h * g.rows + o / 64) (o % 64) (2 ^ order) hfit hn
      (by rw [← hFrow, ← hFbit, addBits_eq_block own _ _ (by rw [hFbit]; exact hfit)]; exact hG _ (Between.addBlock_top _ _ _))
    have hpost : ∀ r o', ToggleAllocPost own (h * g.rows + o / 64) (o % 64) (2 ^ order) r o' →
        AllocPost own (h * g.hugeFrames + o) (2 ^ order) r o' := by
      intro r o' hr
      cases r with
      | ok u =>
        obtain ⟨hr1, hr2⟩ := hr
        refine ⟨by rw [← addBits_eq_block own _ _ (by rw [hFbit]; exact hfit), hFrow, hFbit]; exact hr1, ?_⟩
        exact block_none_of_bits own _ _ (by rw [hFbit]; exact hfit) (by rw [hFrow, hFbit]; exact hr2)
      | error e => exact hr
    have := SafeR.mono hpost _ own key
    simp only [Bool.false_eq_true, if_false] at this
    exact this
  · simp only [h2, if_false]
    by_cases h6 : order ≤ 6
    · simp only [h6, if_true]
      rw [hO]
      obtain ⟨hfit, hmm⟩ := fits_word o order h6 hal
      have hsh : o % 64 / 2 ^ order * 2 ^ order = o % 64 := by
        have := Nat.div_add_mod (o % 64) (2 ^ order)
        rw [hmm, Nat.mul_comm] at this; omega
      rw [hsh]
      have key := toggle_int_alloc_safe G own (h * g.rows + o / 64) (o % 64) (2 ^ order) (by omega) hfit
        (by rw [← hFrow, ← hFbit, addBits_eq_block own _ _ (by rw [hFbit]; exact hfit)]; exact hG _ (Between.addBlock_top _ _ _))
      have hpost : ∀ r o', ToggleAllocPost own (h * g.rows + o / 64) (o % 64) (2 ^ order) r o' →
          AllocPost own (h * g.hugeFrames + o) (2 ^ order) r o' := by
        intro r o' hr
        cases r with
        | ok u =>
          obtain ⟨hr1, hr2⟩ := hr
          refine ⟨by rw [← addBits_eq_block own _ _ (by rw [hFbit]; exact hfit), hFrow, hFbit]; exact hr1, ?_⟩
          exact block_none_of_bits own _ _ (by rw [hFbit]; exact hfit) (by rw [hFrow, hFbit]; exact hr2)
        | error e => exact hr
      have := SafeR.mono hpost _ own key
      simp only [Bool.false_eq_true, if_false]
      exact this
    · simp only [h6, if_false]
      obtain ⟨ho64, hdiv, hrows, hmul⟩ := fits_rows okg o order (by omega) hoh holt hal
      rw [hrow1, hdiv]
      simp only [Bool.false_eq_true, if_false]
      have hF64 : (h * g.hugeFrames + o) % 64 = 0 := by rw [hFbit]; exact ho64
      have key := toggle_go_alloc_safe g G own h (o / 64) (2 ^ (order - 6)) hrows (2 ^ (order - 6)) 0 (by omega)
        (fun x hx => by omega)
        (fun j hj => hG _ (by rw [← hmul, ← addRows_eq_block own _ _ hF64, hFrow]; exact Between.addRows own _ j _ hj))
      simp only [Nat.add_zero] at key
      have hpost : ∀ r o', AllocRowsPost own (h * g.rows + o / 64) (2 ^ (order - 6)) r o' →
          AllocPost own (h * g.hugeFrames + o) (2 ^ order) r o' := by
        intro r o' hr
        cases r with
        | ok u =>
          obtain ⟨hr1, hr2⟩ := hr
          refine ⟨by rw [← hmul, ← addRows_eq_block own _ _ hF64, hFrow]; exact hr1, ?_⟩
          intro f hf
          rw [← hmul, ← inRows_eq_block _ _ hF64, hFrow] at hf
          unfold inRows at hf
          simp only [Bool.and_eq_true, decide_eq_true_eq] at hf
          have := hr2 (f / 64 - (h * g.rows + o / 64)) (by omega) (f % 64) (Nat.mod_lt _ (by decide))
          rw [show (h * g.rows + o / 64 + (f / 64 - (h * g.rows + o / 64))) * 64 + f % 64 = f by
            have := Nat.div_add_mod f 64; omega] at this
          exact this
        | error e => exact hr
      rw [addRows_zero] at key
      exact SafeR.mono hpost _ own key

/-- **Free by `toggle` of a block the thread holds, in any interleaving**: always succeeds and
    releases exactly the block; no other thread can have touched its bits. -/
theorem toggle_free_safe (okg : GeomOk g) (own : Owned) (h i order : Nat) (hoh : order ≤ g.hugeOrder)
    (hal : (i % g.hugeFrames) % 2 ^ order = 0)
    (hown : ∀ f, inBlockF (h * g.hugeFrames + i % g.hugeFrames) (2 ^ order) f = true → own f = true)
    (hG : ∀ o, Between (subBlock own (h * g.hugeFrames + i % g.hugeFrames) (2 ^ order)) own o → G o) :
    SafeR G (FreePost own (h * g.hugeFrames + i % g.hugeFrames) (2 ^ order)) own (Bitfield.toggle g h i order true) := by
  have hHF := okg.hf_pos
  generalize hO : i % g.hugeFrames = o at *
  have holt : o < g.hugeFrames := by rw [← hO]; exact Nat.mod_lt _ hHF
  have hFrow : (h * g.hugeFrames + o) / 64 = h * g.rows + o / 64 := okg.frame_row h o
  have hFbit : (h * g.hugeFrames + o) % 64 = o % 64 := okg.frame_bit h o
  have hrow1 : (i / 64) % g.rows = o / 64 := by rw [← hO]; exact (okg.mod_hf_div i).symm
  have hbit1 : i % 64 = o % 64 := by rw [← hO]; exact (okg.mod_hf_mod i).symm
  unfold Bitfield.toggle
  by_cases h2 : order ≤ 2
  · simp only [h2, if_true]
    rw [hrow1, hbit1]
    obtain ⟨hfit, _⟩ := fits_word o order (by omega) hal
    have hn : 2 ^ order ≤ 64 := by omega
    have hown' : ∀ b, b < 64 → o % 64 ≤ b → b < o % 64 + 2 ^ order → own ((h * g.rows + o / 64) * 64 + b) = true := by
      intro b hb h1 h3
      apply hown
      rw [← inBits_eq_block _ _ (by rw [hFbit]; exact hfit), hFrow, hFbit, inBits_row _ _ _ b hb]
      simp [h1, h3]
    have key := toggle_small_free_safe G own (h * g.rows + o / 64) (o % 64) (2 ^ order) hfit hn hown'
      (by rw [← hFrow, ← hFbit, subBits_eq_block own _ _ (by rw [hFbit]; exact hfit)]; exact hG _ (Between.subBlock_bot _ _ _))
    have hpost : ∀ r o', ToggleFreePost own (h * g.rows + o / 64) (o % 64) (2 ^ order) r o' →
        FreePost own (h * g.hugeFrames + o) (2 ^ order) r o' := by
      intro r o' hr
      cases r with
      | ok u =>
        show o' = subBlock own _ _
        rw [← subBits_eq_block own _ _ (by rw [hFbit]; exact hfit), hFrow, hFbit]; exact hr
      | error e => exact hr
    have := SafeR.mono hpost _ own key
    simp only [if_true] at this
    exact this
  · simp only [h2, if_false]
    by_cases h6 : order ≤ 6
    · simp only [h6, if_true]
      rw [hO]
      obtain ⟨hfit, hmm⟩ := fits_word o order h6 hal
      have hsh : o % 64 / 2 ^ order * 2 ^ order = o % 64 := by
        have := Nat.div_add_mod (o % 64) (2 ^ order)
        rw [hmm, Nat.mul_comm] at this; omega
      rw [hsh]
      have hown' : ∀ b, b < 64 → o % 64 ≤ b → b < o % 64 + 2 ^ order → own ((h * g.rows + o / 64) * 64 + b) = true := by
        intro b hb h1 h3
        apply hown
        rw [← inBits_eq_block _ _ (by rw [hFbit]; exact hfit), hFrow, hFbit, inBits_row _ _ _ b hb]
        simp [h1, h3]
      have key := toggle_int_free_safe G own (h * g.rows + o / 64) (o % 64) (2 ^ order) (by omega) hfit hown'
        (by rw [← hFrow, ← hFbit, subBits_eq_block own _ _ (by rw [hFbit]; exact hfit)]; exact hG _ (Between.subBlock_bot _ _ _))
      have hpost : ∀ r o', ToggleFreePost own (h * g.rows + o / 64) (o % 64) (2 ^ order) r o' →
          FreePost own (h * g.hugeFrames + o) (2 ^ order) r o' := by
        intro r o' hr
        cases r with
        | ok u =>
          show o' = subBlock own _ _
          rw [← subBits_eq_block own _ _ (by rw [hFbit]; exact hfit), hFrow, hFbit]; exact hr
        | error e => exact hr
      have := SafeR.mono hpost _ own key
      exact this
    · simp only [h6, if_false]
      obtain ⟨ho64, hdiv, hrows, hmul⟩ := fits_rows okg o order (by omega) hoh holt hal
      rw [hrow1, hdiv]
      simp only [if_true]
      have hF64 : (h * g.hugeFrames + o) % 64 = 0 := by rw [hFbit]; exact ho64
      have hown' : ∀ x, x < 2 ^ (order - 6) → ∀ b, b < 64 → own ((h * g.rows + o / 64 + x) * 64 + b) = true := by
        intro x hx b hb
        apply hown
        rw [← hmul, ← inRows_eq_block _ _ hF64, hFrow]
        unfold inRows
        have e1 : ((h * g.rows + o / 64 + x) * 64 + b) / 64 = h * g.rows + o / 64 + x := by omega
        simp [e1]; omega
      have key := toggle_go_free_safe g G own h (o / 64) (2 ^ (order - 6)) hrows hown' (2 ^ (order - 6)) 0 (by omega)
        (fun j hj => hG _ (by rw [← hmul, ← subRows_eq_block own _ _ hF64, hFrow]; exact Between.subRows own _ j _ hj))
      simp only [Nat.add_zero] at key
      have hsub0 : subRows own (h * g.rows + o / 64) 0 = own := by
        funext f; unfold subRows inRows
        by_cases a : h * g.rows + o / 64 ≤ f / 64 <;> simp [a]
      rw [hsub0] at key
      have hpost : ∀ r o', FreeRowsPost own (h * g.rows + o / 64) (2 ^ (order - 6)) r o' →
          FreePost own (h * g.hugeFrames + o) (2 ^ order) r o' := by
        intro r o' hr
        cases r with
        | ok u =>
          show o' = subBlock own _ _
          rw [← hmul, ← subRows_eq_block own _ _ hF64, hFrow]; exact hr
        | error e => exact hr
      exact SafeR.mono hpost _ own key

end
end LLFree
