/-
  Sequential specification of `Bitfield::set_first_zero_rows` (orders above 6) and the
  combined `set_first_zeros`.
-/
import LLFreeV.Proofs.RowSearch
import LLFreeV.Proofs.CasRange
namespace LLFree
open Prog

section
variable {g : Geom}

/-- the short-circuiting test "these rows are all zero" -/
theorem allZero_spec (m : Mem) (h : Nat) :
    ∀ (cnt r : Nat), h * g.rows + r + cnt ≤ m.rows.size →
      ((∀ j, j < cnt → m.rows[h * g.rows + (r + j)]? = some 0#64) →
        runSolo (Bitfield.setFirstZeroRows.allZero g h cnt r) m = (m, .ok true)) ∧
      ((¬ ∀ j, j < cnt → m.rows[h * g.rows + (r + j)]? = some 0#64) →
        runSolo (Bitfield.setFirstZeroRows.allZero g h cnt r) m = (m, .ok false)) := by
  intro cnt
  induction cnt with
  | zero =>
    intro r _
    exact ⟨fun _ => by rw [Bitfield.setFirstZeroRows.allZero]; rfl, fun hn => absurd (fun j hj => by omega) hn⟩
  | succ cnt ih =>
    intro r hsz
    rw [Bitfield.setFirstZeroRows.allZero]
    obtain ⟨v, hv⟩ : ∃ v, m.rows[h * g.rows + r]? = some v := ⟨_, Array.getElem?_eq_getElem (by omega)⟩
    have hload : runSolo (loadK .row (rowIdx g h r)) m = (m, .ok v) := runSolo_loadK_some (by simpa [rowIdx] using hv)
    simp only [runSolo_bind, hload, andThen_ok]
    by_cases hz : v = (0 : BitVec 64)
    · simp only [hz, if_true]
      have hv0 : m.rows[h * g.rows + r]? = some 0#64 := by rw [hv, hz]; rfl
      have hnext := ih (r + 1) (by omega)
      constructor
      · intro hall
        apply hnext.1
        intro j hj
        have := hall (j + 1) (by omega)
        rwa [show r + (j + 1) = r + 1 + j by omega] at this
      · intro hnall
        apply hnext.2
        intro hh
        apply hnall
        intro j hj
        cases j with
        | zero => simpa using hv0
        | succ j =>
          have := hh j (by omega)
          rwa [show r + 1 + j = r + (j + 1) by omega] at this
    · simp only [hz, if_false]
      refine ⟨fun hall => ?_, fun _ => rfl⟩
      have := hall 0 (by omega)
      rw [Nat.add_zero, hv] at this
      injection this with this
      exact absurd this hz

variable (ok : GeomOk g)
include ok

/-- the chunk loop of `set_first_zero_rows`; `nr = 2^(order-6)` rows per chunk -/
theorem chunks_spec (m : Mem) (h order : Nat) (ho : 6 < order) (hoh : order ≤ g.hugeOrder)
    (hrows : h * g.rows + g.rows ≤ m.rows.size) :
    ∀ (cnt ci : Nat), (ci + cnt) * 2 ^ (order - 6) = g.rows →
      (∀ k, k < ci → ¬ blockAll m (h * g.hugeFrames + k * 2 ^ order) (2 ^ order) false) →
      ∃ m' r, runSolo (Bitfield.setFirstZeroRows.chunks g h (2 ^ (order - 6)) cnt ci) m = (m', .ok r) ∧
        SearchRes m (h * g.hugeFrames) g.hugeFrames order m' (r.map (· * 64)) := by
  have hnr64 : 2 ^ (order - 6) * 64 = 2 ^ order := by
    rw [show (64 : Nat) = 2 ^ 6 from rfl, ← Nat.pow_add]; congr 1; omega
  have hnrpos : 0 < 2 ^ (order - 6) := Nat.pos_of_ne_zero (by simp)
  intro cnt
  induction cnt with
  | zero =>
    intro ci hci hvis
    refine ⟨m, .error .memory, by rw [Bitfield.setFirstZeroRows.chunks]; rfl, ?_⟩
    apply SearchRes.none
    intro off hlt hal hfree
    -- off = k * 2^order with k < ci
    obtain ⟨k, hk⟩ := Nat.dvd_of_mod_eq_zero hal
    have hkci : k < ci := by
      have h1 : g.hugeFrames = ci * 2 ^ order := by
        rw [← ok.rows_mul, ← hci, Nat.add_zero, Nat.mul_assoc, hnr64]
      rw [hk, h1] at hlt
      have : 2 ^ order * k < ci * 2 ^ order := by
        have hp : 0 < 2 ^ order := Nat.pos_of_ne_zero (by simp); omega
      rw [Nat.mul_comm] at this
      exact Nat.lt_of_mul_lt_mul_right this
    apply hvis k hkci
    rw [Nat.mul_comm k, ← hk]; exact hfree
  | succ cnt ih =>
    intro ci hci hvis
    rw [Bitfield.setFirstZeroRows.chunks]
    have hbase : ci * 2 ^ (order - 6) + 2 ^ (order - 6) ≤ g.rows := by
      rw [← hci]
      have : (ci + 1) * 2 ^ (order - 6) ≤ (ci + (cnt + 1)) * 2 ^ (order - 6) := Nat.mul_le_mul_right _ (by omega)
      rw [Nat.add_mul, Nat.one_mul] at this; exact this
    have hlen : min (2 ^ (order - 6)) (g.rows - ci * 2 ^ (order - 6)) = 2 ^ (order - 6) := by omega
    simp only [hlen, runSolo_bind]
    -- frames of the chunk
    have hF : (h * g.rows + ci * 2 ^ (order - 6)) * 64 = h * g.hugeFrames + ci * 2 ^ order := by
      rw [Nat.add_mul, Nat.mul_assoc, ok.rows_mul, Nat.mul_assoc, hnr64]
    have haz := allZero_spec (g := g) m h (2 ^ (order - 6)) (ci * 2 ^ (order - 6)) (by omega)
    have hblock : (∀ j, j < 2 ^ (order - 6) → m.rows[h * g.rows + (ci * 2 ^ (order - 6) + j)]? = some 0#64) ↔
        blockAll m (h * g.hugeFrames + ci * 2 ^ order) (2 ^ order) false := by
      rw [← hF, ← hnr64]
      rw [← rows_const_iff m (h * g.rows + ci * 2 ^ (order - 6)) (2 ^ (order - 6)) false (by omega)]
      constructor
      · intro hh r h1 h2
        have := hh (r - (h * g.rows + ci * 2 ^ (order - 6))) (by omega)
        rw [show h * g.rows + (ci * 2 ^ (order - 6) + (r - (h * g.rows + ci * 2 ^ (order - 6)))) = r by omega] at this
        simpa using this
      · intro hh j hj
        have := hh (h * g.rows + ci * 2 ^ (order - 6) + j) (by omega) (by omega)
        rw [show h * g.rows + ci * 2 ^ (order - 6) + j = h * g.rows + (ci * 2 ^ (order - 6) + j) by omega] at this
        simpa using this
    by_cases hall : blockAll m (h * g.hugeFrames + ci * 2 ^ order) (2 ^ order) false
    · rw [haz.1 (hblock.2 hall)]
      simp only [andThen_ok, if_true, runSolo_bind]
      -- fill the rows
      have hcr := casRange_spec .row (rowIdx g h (ci * 2 ^ (order - 6))) (0 : BitVec 64) rowMax "Failed undo search" m
        (2 ^ (order - 6)) m 0 (by simpa using RangeAre.empty .row m _ _) (fun i hi => by omega)
        (by intro i hi
            simp only [Nat.zero_add] at hi
            simp only [Mem.get?_row, rowIdx]
            rw [Array.getElem?_eq_getElem (by omega)]; rfl)
      obtain ⟨m', hm', hra⟩ := hcr.1 (by
        intro i _ hi
        simp only [Nat.zero_add] at hi
        simp only [Mem.get?_row, rowIdx]
        have := hblock.2 hall i hi
        rw [show h * g.rows + ci * 2 ^ (order - 6) + i = h * g.rows + (ci * 2 ^ (order - 6) + i) by omega]
        exact this)
      rw [hm']
      simp only [andThen_ok, if_true, runSolo_pure]
      refine ⟨m', _, rfl, ?_⟩
      simp only [Except.map, Nat.add_zero, rowIdx] at hra ⊢
      have hoff : ci * 2 ^ (order - 6) * 64 = ci * 2 ^ order := by rw [Nat.mul_assoc, hnr64]
      rw [hoff]
      -- translate the row range into frames
      have hrows' : ∀ r, m'.rows[r]? = if h * g.rows + ci * 2 ^ (order - 6) ≤ r ∧ r < h * g.rows + ci * 2 ^ (order - 6) + 2 ^ (order - 6) ∧ r < m.rows.size
          then some rowMax else m.rows[r]? := by
        intro r
        have := hra.same r
        simp only [Mem.get?_row] at this
        rw [this]
        by_cases hin : h * g.rows + ci * 2 ^ (order - 6) ≤ r ∧ r < h * g.rows + ci * 2 ^ (order - 6) + 2 ^ (order - 6)
        · have hlt : r < m.rows.size := by omega
          simp [hin, hlt, Array.getElem?_eq_getElem hlt]
        · have : ¬ (h * g.rows + ci * 2 ^ (order - 6) ≤ r ∧ r < h * g.rows + ci * 2 ^ (order - 6) + 2 ^ (order - 6) ∧ r < m.rows.size) :=
            fun hh => hin ⟨hh.1, hh.2.1⟩
          simp [hin, this]
      have hsame : SameButBits m m' := by
        refine ⟨Array.ext_getElem? (fun j => hra.other .huge (by decide) j),
          Array.ext_getElem? (fun j => hra.other .tree (by decide) j),
          Array.ext_getElem? (fun j => hra.other .slot (by decide) j), ?_⟩
        -- row array sizes agree: compare definedness
        apply Nat.le_antisymm
        · apply Nat.le_of_not_lt; intro hlt
          have h1 : m'.rows[m.rows.size]? ≠ none := by rw [Ne, Array.getElem?_eq_none_iff]; omega
          rw [hrows'] at h1
          have : ¬ (h * g.rows + ci * 2 ^ (order - 6) ≤ m.rows.size ∧ m.rows.size < h * g.rows + ci * 2 ^ (order - 6) + 2 ^ (order - 6) ∧ m.rows.size < m.rows.size) := by omega
          simp [this] at h1
        · apply Nat.le_of_not_lt; intro hlt
          have h1 : m'.rows[m'.rows.size]? = none := Array.getElem?_eq_none (Nat.le_refl _)
          rw [hrows'] at h1
          have hdef : m.rows[m'.rows.size]? ≠ none := by rw [Ne, Array.getElem?_eq_none_iff]; omega
          split at h1
          · cases h1
          · exact hdef h1
      have hra' : RowsAre m m' (h * g.rows + ci * 2 ^ (order - 6)) (h * g.rows + ci * 2 ^ (order - 6) + 2 ^ (order - 6)) (if true then rowMax else 0) :=
        ⟨hsame, fun r => by simpa using hrows' r⟩
      apply SearchRes.found
      · -- fits
        have : (ci * 2 ^ (order - 6) + 2 ^ (order - 6)) * 64 ≤ g.rows * 64 := Nat.mul_le_mul_right _ hbase
        rw [Nat.add_mul, hoff, hnr64, ok.rows_mul] at this; exact this
      · exact Nat.mul_mod_left _ _
      · exact hall
      · have := RowsAre.bitsSet hra' (by omega)
        rwa [hF, hnr64] at this
      · exact hsame
    · rw [haz.2 (fun hh => hall (hblock.1 hh))]
      simp only [andThen_ok, Bool.false_eq_true, if_false]
      apply ih (ci + 1) (by rw [← hci]; congr 1; omega)
      intro k hk
      by_cases e : k = ci
      · subst e; exact hall
      · exact hvis k (by omega)

/-- **`Bitfield::set_first_zeros`** for every order up to the huge order. -/
theorem setFirstZeros_spec (m : Mem) (h startRow order : Nat) (hoh : order ≤ g.hugeOrder)
    (hrows : h * g.rows + g.rows ≤ m.rows.size) :
    ∃ m' r, runSolo (Bitfield.setFirstZeros g h startRow order) m = (m', .ok r) ∧
      SearchRes m (h * g.hugeFrames) g.hugeFrames order m' r := by
  by_cases ho : order ≤ 6
  · exact setFirstZeros_small_spec ok m h startRow order ho hrows
  · have ho' : 6 < order := by omega
    unfold Bitfield.setFirstZeros Bitfield.setFirstZeroRows
    simp only [show order > 6 from ho', if_true, runSolo_bind]
    have hnr64 : 2 ^ (order - 6) * 64 = 2 ^ order := by
      rw [show (64 : Nat) = 2 ^ 6 from rfl, ← Nat.pow_add]; congr 1; omega
    have hnrpos : 0 < 2 ^ (order - 6) := Nat.pos_of_ne_zero (by simp)
    -- rows is a multiple of the chunk size
    have hrowsEq : g.rows = 2 ^ (g.hugeOrder - order) * 2 ^ (order - 6) := by
      rw [ok.rows_eq, ← Nat.pow_add]; congr 1; omega
    have hcnt : (g.rows + 2 ^ (order - 6) - 1) / 2 ^ (order - 6) = 2 ^ (g.hugeOrder - order) := by
      rw [hrowsEq]
      have : 2 ^ (g.hugeOrder - order) * 2 ^ (order - 6) + 2 ^ (order - 6) - 1 =
          2 ^ (order - 6) * 2 ^ (g.hugeOrder - order) + (2 ^ (order - 6) - 1) := by
        rw [Nat.mul_comm]; omega
      rw [this, Nat.mul_add_div hnrpos, Nat.div_eq_of_lt (by omega), Nat.add_zero]
    rw [hcnt]
    obtain ⟨m', r, hrun, hres⟩ := chunks_spec ok m h order ho' hoh hrows (2 ^ (g.hugeOrder - order)) 0
      (by rw [Nat.zero_add]; exact hrowsEq.symm) (fun k hk => by omega)
    rw [hrun]
    exact ⟨m', _, rfl, hres⟩

end
end LLFree
