/-
  C14, second sentence for the whole program: after `tree_stats` (tree pass, slot pass, slot
  correction of F9) the per-class free + allocated counts add up to #trees · TREE_FRAMES.
  The point is that the saturating subtraction of the correction never saturates: for every
  class the allocated count collected from the trees of that class covers the reservations on
  those trees (distinct reserved trees; reservation ≤ TREE_FRAMES − tree counter).
-/
import LLFreeV.Proofs.FastTotal
namespace LLFree
open Prog C14

/-- allocated part of class row `k` -/
def classAlloc (s : TreeStats) (k : Nat) : Nat := (s.classes[k]?.getD (0, 0)).2

theorem classAlloc_addClass (s : TreeStats) (j k : Nat) (f : Nat × Nat → Nat × Nat) :
    classAlloc (s.addClass j f) k = if j = k then ((fun p => (f p).2) <$> s.classes[k]?).getD 0 else classAlloc s k := by
  unfold classAlloc TreeStats.addClass
  simp only [List.getElem?_modify]
  by_cases e : j = k
  · subst e
    simp only [if_true]
    cases s.classes[j]? <;> rfl
  · simp only [e, if_false]
    cases s.classes[k]? <;> rfl

theorem classAlloc_addClass_snd (s : TreeStats) (j k : Nat) (f : Nat × Nat → Nat × Nat) (h : ∀ p, (f p).2 = p.2) :
    classAlloc (s.addClass j f) k = classAlloc s k := by
  rw [classAlloc_addClass]
  by_cases e : j = k
  · subst e
    rw [if_pos rfl]
    unfold classAlloc
    cases s.classes[j]? with
    | none => rfl
    | some p => simp [h p]
  · rw [if_neg e]

theorem blockSum_le (f g : Nat → Nat) (n : Nat) (h : ∀ k, k < n → f k ≤ g k) : blockSum f n ≤ blockSum g n := by
  induction n with
  | zero => exact Nat.le_refl _
  | succ n ih =>
    rw [blockSum, blockSum]
    have := ih (fun k hk => h k (by omega))
    have := h n (by omega)
    omega

section
variable (c : Cfg) (m : Mem)

/-- class of tree `i` in the table -/
def treeClsAt (i : Nat) : Nat := (m.trees[i]?.getD default).cls
def treeFreeAt (i : Nat) : Nat := (m.trees[i]?.getD default).free

/-- the allocated counts that the tree pass collects, class by class -/
theorem trees_stats_go_alloc (hcls : ∀ t ∈ m.trees.toList, t.cls < 8 ∧ t.free ≤ c.tf) :
    ∀ (cnt i : Nat) (s : TreeStats), i + cnt ≤ m.trees.size → s.classes.length = 8 →
      ∀ s', runSolo (Trees.stats.go c cnt i s) m = (m, .ok s') → ∀ k, k < 8 →
        classAlloc s' k = classAlloc s k +
          blockSum (fun x => if treeClsAt m (i + x) = k then c.tf - treeFreeAt m (i + x) else 0) cnt := by
  intro cnt
  induction cnt with
  | zero =>
    intro i s _ _ s' hrun k _
    rw [Trees.stats.go] at hrun
    have : (m, Outcome.ok s) = (m, Outcome.ok s') := hrun
    injection this with _ h2; injection h2 with h3; subst h3; rfl
  | succ cnt ih =>
    intro i s hsz hl s' hrun k hk
    rw [Trees.stats.go] at hrun
    have hlt : i < m.trees.size := by omega
    have hE : m.get? .tree i = some m.trees[i] := by simp only [Mem.get?_tree]; exact Array.getElem?_eq_getElem hlt
    obtain ⟨hc8, hfree⟩ := hcls m.trees[i] (by simp [Array.mem_toList_iff])
    simp only [runSolo_bind, runSolo_loadK_some hE, andThen_ok] at hrun
    have hnot : ¬ m.trees[i].free > c.tf := by omega
    simp only [hnot, if_false] at hrun
    have := ih (i + 1) _ (by omega) (by rw [length_addClass]; exact hl) s' hrun k hk
    rw [this, blockSum_front]
    have e0 : treeClsAt m (i + 0) = m.trees[i].cls ∧ treeFreeAt m (i + 0) = m.trees[i].free := by
      unfold treeClsAt treeFreeAt
      simp only [Nat.add_zero]; rw [Array.getElem?_eq_getElem hlt]; exact ⟨rfl, rfl⟩
    rw [e0.1, e0.2]
    have e1 : blockSum (fun x => if treeClsAt m (i + 1 + x) = k then c.tf - treeFreeAt m (i + 1 + x) else 0) cnt =
        blockSum (fun x => if treeClsAt m (i + (x + 1)) = k then c.tf - treeFreeAt m (i + (x + 1)) else 0) cnt := by
      apply blockSum_congr; intro x _
      rw [show i + 1 + x = i + (x + 1) by omega]
    rw [e1, classAlloc_addClass]
    have hk8 : k < s.classes.length := by omega
    by_cases e : m.trees[i].cls = k
    · rw [if_pos e, if_pos e]
      have : s.classes[k]? = some s.classes[k] := List.getElem?_eq_getElem hk8
      unfold classAlloc
      rw [this]
      simp only [Option.map_eq_map, Option.map_some, Option.getD_some]
      omega
    · rw [if_neg e, if_neg e]
      show classAlloc s k + _ = classAlloc s k + (0 + _)
      omega


/-- class of the reserved tree a slot value names -/
def slotTreeCls (tr : Nat) (l : LTree) : Nat := treeClsAt m (l.row / tr)

/-- what the reservations on trees of class `k` subtract in the third pass -/
def needK (tr k : Nat) (L : List (Nat × LTree)) : Nat :=
  (L.map (fun p => if slotTreeCls m tr p.2 = k then p.2.free else 0)).sum

theorem sum_modify_sub (l : List (Nat × Nat)) (i : Nat) (hi : i < l.length) (f : Nat × Nat → Nat × Nat) (g : Nat × Nat → Nat)
    (d : Nat) (h : ∀ p, p = l[i]?.getD (0, 0) → g (f p) + d = g p) : ((l.modify i f).map g).sum + d = (l.map g).sum := by
  induction l generalizing i with
  | nil => simp at hi
  | cons x xs ih =>
    cases i with
    | zero =>
      have := h x (by simp)
      simp [List.modify]; omega
    | succ i =>
      simp only [List.modify_succ_cons, List.map_cons, List.sum_cons]
      have := ih i (by simpa using hi) (fun p hp => h p (by simpa using hp))
      omega

/-- the second pass: the class rows gain the reservations in their free parts -/
theorem fold2_classSum (tf : Nat) : ∀ (L : List (Nat × LTree)) (s : TreeStats), (∀ p ∈ L, p.1 < 8) → s.classes.length = 8 →
    let s' := L.foldl (fun a p => stats2 tf a p.1 p.2) s
    classSum s'.classes = classSum s.classes + (L.map (fun p => p.2.free)).sum ∧ ∀ k, classAlloc s' k = classAlloc s k
  | [], s, _, _ => by simp
  | p :: L, s, hc, hl => by
    have h8 := hc p List.mem_cons_self
    have hl1 : (stats2 tf s p.1 p.2).classes.length = 8 := by unfold stats2; rw [length_addClass]; exact hl
    obtain ⟨a1, a2⟩ := fold2_classSum tf L (stats2 tf s p.1 p.2) (fun q hq => hc q (List.mem_cons_of_mem _ hq)) hl1
    simp only [List.foldl_cons, List.map_cons, List.sum_cons]
    refine ⟨?_, ?_⟩
    · rw [a1]
      have : classSum (stats2 tf s p.1 p.2).classes = classSum s.classes + p.2.free := by
        unfold stats2 TreeStats.addClass classSum
        exact sum_modify _ _ (by show p.1 < s.classes.length; omega) _ _ _ (fun q => by simp; omega)
      omega
    · intro k
      rw [a2 k]
      unfold stats2
      exact classAlloc_addClass_snd _ _ _ _ (fun q => rfl)

/-- the third pass never saturates when every class covers the reservations on its trees -/
theorem fold3_classSum (tr : Nat) : ∀ (L : List (Nat × LTree)) (s : TreeStats), s.classes.length = 8 →
    (∀ p ∈ L, slotTreeCls m tr p.2 < 8) → (∀ k, k < 8 → needK m tr k L ≤ classAlloc s k) →
    let s' := L.foldl (fun a p => stats3 m tr a p.2) s
    classSum s'.classes + (L.map (fun p => p.2.free)).sum = classSum s.classes
  | [], s, _, _, _ => by simp
  | p :: L, s, hl, hc, hneed => by
    have hk0 := hc p List.mem_cons_self
    have hl1 : (stats3 m tr s p.2).classes.length = 8 := by unfold stats3; rw [length_addClass]; exact hl
    have hcover := hneed _ hk0
    have hge : p.2.free ≤ classAlloc s (slotTreeCls m tr p.2) := by
      unfold needK at hcover
      simp only [List.map_cons, List.sum_cons, if_true] at hcover
      omega
    have hk8 : slotTreeCls m tr p.2 < s.classes.length := by omega
    have hrow : s.classes[slotTreeCls m tr p.2]? = some s.classes[slotTreeCls m tr p.2] := List.getElem?_eq_getElem hk8
    have hstep : classSum (stats3 m tr s p.2).classes + p.2.free = classSum s.classes := by
      unfold stats3 TreeStats.addClass classSum
      apply sum_modify_sub _ _ hk8
      intro q hq
      rw [hrow] at hq
      simp only [Option.getD_some] at hq
      have : q.2 = classAlloc s (slotTreeCls m tr p.2) := by unfold classAlloc; rw [hrow, hq]; rfl
      show q.1 + (q.2 - p.2.free) + p.2.free = q.1 + q.2
      omega
    have hst : stats3 m tr s p.2 = s.addClass (slotTreeCls m tr p.2) (fun (f, a) => (f, a - p.2.free)) := rfl
    have hneed' : ∀ k, k < 8 → needK m tr k L ≤ classAlloc (stats3 m tr s p.2) k := by
      intro k hk
      have hcov := hneed k hk
      unfold needK at hcov ⊢
      simp only [List.map_cons, List.sum_cons] at hcov
      rw [hst, classAlloc_addClass]
      by_cases e : slotTreeCls m tr p.2 = k
      · rw [if_pos e]
        rw [if_pos e] at hcov
        rw [← e, hrow]
        simp only [Option.map_eq_map, Option.map_some, Option.getD_some]
        have h2 : (s.classes[slotTreeCls m tr p.2]).2 = classAlloc s (slotTreeCls m tr p.2) := by unfold classAlloc; rw [hrow]; rfl
        rw [← e] at hcov
        show _ ≤ (s.classes[slotTreeCls m tr p.2]).2 - p.2.free
        omega
      · rw [if_neg e]
        rw [if_neg e] at hcov
        omega
    have ih := fold3_classSum tr L (stats3 m tr s p.2) hl1 (fun q hq => hc q (List.mem_cons_of_mem _ hq)) hneed'
    simp only [List.foldl_cons, List.map_cons, List.sum_cons]
    omega


/-- a reservation counts, for class `k`, on the tree it names if that tree has class `k` -/
theorem freeForK_sum (tr nt k : Nat) (l : LTree) (h : l.present = true → l.row / tr < nt) :
    blockSum (fun i => if treeClsAt m i = k then LTree.freeFor tr i l else 0) nt =
      presW (fun l => if slotTreeCls m tr l = k then l.free else 0) l := by
  show _ = (if l.present then (if slotTreeCls m tr l = k then l.free else 0) else 0)
  by_cases hp : l.present = true
  · rw [if_pos hp]
    have := blockSum_interval (fun i => if treeClsAt m i = k then l.free else 0) (l.row / tr) 1 nt (by have := h hp; omega)
    rw [blockSum_one] at this
    simp only [Nat.add_zero] at this
    show _ = (if treeClsAt m (l.row / tr) = k then l.free else 0)
    rw [← this]
    apply blockSum_congr
    intro i _
    unfold LTree.freeFor
    by_cases e : l.row / tr = i
    · subst e
      have : (l.row / tr ≤ l.row / tr ∧ l.row / tr < l.row / tr + 1) := by omega
      rw [if_pos this]; simp [hp]
    · have : ¬ (l.row / tr ≤ i ∧ i < l.row / tr + 1) := by omega
      rw [if_neg this]
      simp [hp, e]
  · rw [if_neg hp]
    apply blockSum_zero'
    intro i _
    unfold LTree.freeFor
    simp [hp]

/-- **each class covers the reservations on its trees** -/
theorem need_le_alloc {H : Nat → Nat} (ok : CfgOk c) (inv : UpperInv0 c H m) (k : Nat) :
    needK m c.geom.treeRows k (slotsOf c m) ≤
      blockSum (fun i => if treeClsAt m i = k then c.tf - treeFreeAt m i else 0) c.ntrees := by
  have htree : ∀ (s : Nat) (l : LTree), m.slots[s]? = some l → l.present = true → l.row / c.geom.treeRows < c.ntrees := by
    intro s l hl hp
    obtain ⟨k', hk'⟩ := inv.slotCls s l hl hp
    obtain ⟨t, ht, _, _⟩ := inv.slotTree s l k' hl hp hk'
    exact inv.tree_lt _ t ht
  unfold needK
  rw [slotsOf_sumW c m (fun l => if slotTreeCls m c.geom.treeRows l = k then l.free else 0),
    ← slot_partitionW c m ok inv]
  -- every slot as a sum over the trees, then exchange the sums
  have hS : ∀ s, s < m.slots.size → slotW m (fun l => if slotTreeCls m c.geom.treeRows l = k then l.free else 0) s =
      blockSum (fun i => if treeClsAt m i = k then LTree.freeFor c.geom.treeRows i (m.slots[s]?.getD default) else 0) c.ntrees := by
    intro s hs
    have hE : m.slots[s]? = some m.slots[s] := Array.getElem?_eq_getElem hs
    show presW _ (m.slots[s]?.getD default) = _
    rw [hE]
    exact (freeForK_sum m c.geom.treeRows c.ntrees k _ (htree s _ hE)).symm
  rw [blockSum_congr _ _ _ hS, blockSum_swap]
  apply blockSum_le
  intro i hi
  by_cases e : treeClsAt m i = k
  · simp only [e, if_true]
    have e1 : blockSum (fun s => LTree.freeFor c.geom.treeRows i (m.slots[s]?.getD default)) m.slots.size = m.slotFree c.geom.treeRows i := by
      unfold Mem.slotFree
      rw [list_sum_eq_blockSum]
      simp
    rw [e1]
    obtain ⟨t, ht⟩ := inv.tree_get i hi
    have h1 := inv.counterLe i t ht
    have h2 := Mem.freeInTree_le m c.geom i
    have h3 : treeFreeAt m i = t.free := by unfold treeFreeAt; rw [ht]; rfl
    rw [h3]
    show _ ≤ c.geom.treeFrames - t.free
    omega
  · simp only [e, if_false]
    rw [blockSum_zero' _ _ (fun _ _ => rfl)]
    exact Nat.le_refl _

/-- **C14, the whole program**: after `tree_stats` the per-class free + allocated counts sum to
    #trees · TREE_FRAMES and the per-class free counts to the fast total. -/
theorem treeStats_partition {H : Nat → Nat} (ok : CfgOk c) (inv : UpperInv0 c H m) :
    Runs m (treeStats c) (fun s m' => m = m' ∧ classSum s.classes = c.ntrees * c.tf ∧ classFree s.classes = s.freeFrames) := by
  have hcls : ∀ t ∈ m.trees.toList, t.cls < 8 ∧ t.free ≤ c.tf := by
    intro t ht
    obtain ⟨i, hi, rfl⟩ := List.getElem_of_mem ht
    have hi' : i < m.trees.size := by simpa using hi
    have hE : m.trees[i]? = some m.trees[i] := Array.getElem?_eq_getElem hi'
    have e : m.trees.toList[i] = m.trees[i] := by simp
    rw [e]
    refine ⟨inv.treeCls i _ hE, ?_⟩
    have h1 := inv.counterLe i _ hE
    have h2 := Mem.freeInTree_le m c.geom i
    show m.trees[i].free ≤ c.geom.treeFrames
    omega
  obtain ⟨s0, hrun0, hsum0, hfree0⟩ := trees_stats_partition c m inv.treesSize hcls
  have hlen0 : s0.classes.length = 8 := by
    unfold Trees.stats at hrun0
    obtain ⟨s', hr', hl', _, _⟩ := trees_stats_go c m hcls c.ntrees 0 {} (by rw [inv.treesSize]; omega) (by simp)
    rw [hr'] at hrun0
    injection hrun0 with _ h2; injection h2 with h3; subst h3; exact hl'
  have halloc0 : ∀ k, k < 8 → classAlloc s0 k = blockSum (fun i => if treeClsAt m i = k then c.tf - treeFreeAt m i else 0) c.ntrees := by
    intro k hk
    unfold Trees.stats at hrun0
    have := trees_stats_go_alloc c m hcls c.ntrees 0 {} (by rw [inv.treesSize]; omega) (by simp) s0 hrun0 k hk
    rw [this]
    have h0 : classAlloc ({} : TreeStats) k = 0 := by
      unfold classAlloc
      show ((List.replicate 8 ((0 : Nat), (0 : Nat)))[k]?.getD (0, 0)).2 = 0
      rw [List.getElem?_replicate]
      simp [hk]
    rw [h0, Nat.zero_add]
    apply blockSum_congr; intro x _
    rw [Nat.zero_add]
  have hrange : ∀ k rng, c.slotRange k = some rng → rng.1 + rng.2 ≤ m.slots.size := by
    intro k rng hk; rw [inv.slotsSize]; exact ok.rangeIn k rng hk
  have hP3 : ∀ p ∈ slotsOf c m, ∃ e : Tree, m.trees[p.2.row / c.g.treeRows]? = some e := by
    intro p hp
    obtain ⟨_, hpres, s, hs⟩ := slotsOf_mem c m p hp
    obtain ⟨k, hk⟩ := inv.slotCls s p.2 hs hpres
    obtain ⟨t, ht, _, _⟩ := inv.slotTree s p.2 k hs hpres hk
    exact ⟨t, ht⟩
  unfold treeStats
  apply Runs.bind (Runs.of_eq hrun0 (Q := fun s m' => s0 = s ∧ m = m') ⟨rfl, rfl⟩)
  rintro _ _ ⟨rfl, rfl⟩
  apply Runs.bind (foldSlots_runs c m _ (stats2 c.tf) (fun _ _ => True) (fun acc cls t _ => Runs.pure ⟨rfl, rfl⟩) hrange s0 (fun _ _ => trivial))
  rintro s1 _ ⟨rfl, rfl⟩
  obtain ⟨l1, f1, c1⟩ := fold2_spec c.tf (slotsOf c m) s0 (fun p hp => (slotsOf_mem c m p hp).1) hlen0
  obtain ⟨cs1, ca1⟩ := fold2_classSum c.tf (slotsOf c m) s0 (fun p hp => (slotsOf_mem c m p hp).1) hlen0
  apply Runs.mono (foldSlots_runs c m _ (fun a _ t => stats3 m c.g.treeRows a t)
    (fun _ t => ∃ e : Tree, m.trees[t.row / c.g.treeRows]? = some e)
    (fun acc cls t ⟨e, he⟩ => by
      apply Runs.bind (Runs.load (k := .tree) (v := e) (Q := fun x m' => x = e ∧ m = m') (by rw [Mem.get?_tree]; exact he) ⟨rfl, rfl⟩)
      rintro _ _ ⟨rfl, rfl⟩
      apply Runs.pure
      refine ⟨rfl, ?_⟩
      unfold stats3
      rw [he]; rfl)
    hrange _ (fun p hp => hP3 p hp))
  rintro s2 _ ⟨rfl, rfl⟩
  obtain ⟨l2, f2, c2⟩ := fold3_spec m c.g.treeRows (slotsOf c m) _ l1
  have hcov : ∀ k, k < 8 → needK m c.g.treeRows k (slotsOf c m) ≤
      classAlloc (List.foldl (fun a p => stats2 c.tf a p.1 p.2) s0 (slotsOf c m)) k := by
    intro k hk
    rw [ca1 k, halloc0 k hk]
    exact need_le_alloc c m ok inv k
  have hcls3 : ∀ p ∈ slotsOf c m, slotTreeCls m c.g.treeRows p.2 < 8 := by
    intro p hp
    obtain ⟨e, he⟩ := hP3 p hp
    unfold slotTreeCls treeClsAt
    rw [he]
    exact inv.treeCls _ e he
  have cs2 := fold3_classSum m c.g.treeRows (slotsOf c m) _ l1 hcls3 hcov
  refine ⟨rfl, ?_, ?_⟩
  · simp only at cs2
    omega
  · rw [c2, c1, f2, f1, hfree0]

end
end LLFree

