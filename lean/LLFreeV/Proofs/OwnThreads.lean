/-
  Any number of threads, each running any sequence of targeted bitfield allocations and frees of
  blocks it holds, in any interleaving: no panic, every free of a held block succeeds, and the
  blocks held by the threads (and by one thread) never overlap.
-/
import LLFreeV.Proofs.OwnSearch
namespace LLFree
open Prog

/-- a block: bitfield, frame offset, order -/
structure Blk where
  h : Nat
  i : Nat
  order : Nat
deriving DecidableEq, Repr

def Blk.start (g : Geom) (b : Blk) : Nat := b.h * g.hugeFrames + b.i % g.hugeFrames
def Blk.ok (g : Geom) (b : Blk) : Prop := b.order ≤ g.hugeOrder ∧ (b.i % g.hugeFrames) % 2 ^ b.order = 0
instance (g : Geom) (b : Blk) : Decidable (b.ok g) := by unfold Blk.ok; infer_instance

def Blk.has (g : Geom) (b : Blk) (f : Nat) : Bool := inBlockF (b.start g) (2 ^ b.order) f

/-- frames of a list of held blocks -/
def ownedBy (g : Geom) (held : List Blk) : Owned := fun f => held.any (fun b => b.has g f)

/-- the held blocks are valid and pairwise disjoint -/
def HeldOk (g : Geom) : List Blk → Prop
  | [] => True
  | b :: rest => b.ok g ∧ (∀ f, b.has g f = true → ownedBy g rest f = false) ∧ HeldOk g rest

/-- commands of a well-behaved thread: allocate a block at a position; free the `idx`-th held block -/
inductive BCmd where
  | alloc (b : Blk)
  | search (h startRow order : Nat)
  | free (idx : Nat)

/-- the thread program; a failing free of a held block is a panic (it must never happen) -/
def runCmds (g : Geom) : List BCmd → List Blk → Prog (List Blk)
  | [], held => pure held
  | .alloc b :: rest, held =>
    if b.ok g then do
      let r ← Bitfield.toggle g b.h b.i b.order false
      match r with
      | .ok _ => runCmds g rest (b :: held)
      | .error _ => runCmds g rest held
    else runCmds g rest held
  | .search h startRow order :: rest, held =>
    if order ≤ g.hugeOrder then do
      let r ← Bitfield.setFirstZeros g h startRow order
      match r with
      | .ok off => runCmds g rest (⟨h, off, order⟩ :: held)
      | .error _ => runCmds g rest held
    else runCmds g rest held
  | .free idx :: rest, held =>
    match held[idx]? with
    | some b => do
      let r ← Bitfield.toggle g b.h b.i b.order true
      match r with
      | .ok _ => runCmds g rest (held.eraseIdx idx)
      | .error _ => Prog.panic "free of a held block failed"
    | none => runCmds g rest held

theorem ownedBy_cons (g : Geom) (b : Blk) (held : List Blk) :
    ownedBy g (b :: held) = addBlock (ownedBy g held) (b.start g) (2 ^ b.order) := by
  funext f
  unfold ownedBy addBlock Blk.has
  simp only [List.any_cons]
  exact Bool.or_comm _ _

theorem HeldOk.mem {g : Geom} : ∀ {held : List Blk}, HeldOk g held → ∀ b ∈ held, b.ok g
  | [], _, b, hb => by cases hb
  | x :: rest, h, b, hb => by
    rcases List.mem_cons.1 hb with e | e
    · rw [e]; exact h.1
    · exact HeldOk.mem h.2.2 b e

theorem ownedBy_of_mem (g : Geom) (held : List Blk) (b : Blk) (hb : b ∈ held) (f : Nat) (hf : b.has g f = true) :
    ownedBy g held f = true := by
  unfold ownedBy
  exact List.any_eq_true.2 ⟨b, hb, hf⟩

/-- removing the `idx`-th block of a disjoint list removes exactly its frames -/
theorem ownedBy_eraseIdx (g : Geom) : ∀ (held : List Blk) (idx : Nat) (b : Blk), HeldOk g held → held[idx]? = some b →
    ownedBy g (held.eraseIdx idx) = subBlock (ownedBy g held) (b.start g) (2 ^ b.order) ∧ HeldOk g (held.eraseIdx idx)
  | [], idx, b, _, h => by simp at h
  | x :: rest, 0, b, hok, h => by
    simp only [List.getElem?_cons_zero] at h
    cases h
    simp only [List.eraseIdx_cons_zero]
    refine ⟨?_, hok.2.2⟩
    funext f
    rw [ownedBy_cons]
    unfold subBlock addBlock
    cases hin : inBlockF (x.start g) (2 ^ x.order) f with
    | true => simp [hok.2.1 f hin]
    | false => simp
  | x :: rest, idx + 1, b, hok, h => by
    simp only [List.getElem?_cons_succ] at h
    obtain ⟨ih1, ih2⟩ := ownedBy_eraseIdx g rest idx b hok.2.2 h
    simp only [List.eraseIdx_cons_succ]
    have hbmem : b ∈ rest := List.mem_of_getElem? h
    constructor
    · funext f
      rw [ownedBy_cons, ownedBy_cons, ih1]
      unfold subBlock addBlock
      -- `x` and `b` are disjoint
      show (ownedBy g rest f && !inBlockF (b.start g) (2 ^ b.order) f || inBlockF (x.start g) (2 ^ x.order) f) =
        ((ownedBy g rest f || inBlockF (x.start g) (2 ^ x.order) f) && !inBlockF (b.start g) (2 ^ b.order) f)
      cases hinb : inBlockF (b.start g) (2 ^ b.order) f with
      | false => simp
      | true =>
        have hx : inBlockF (x.start g) (2 ^ x.order) f = false := by
          cases hx : inBlockF (x.start g) (2 ^ x.order) f with
          | false => rfl
          | true =>
            have := hok.2.1 f hx
            rw [ownedBy_of_mem g rest b hbmem f hinb] at this; cases this
        rw [hx]; simp
    · refine ⟨hok.1, ?_, ih2⟩
      intro f hf
      have := hok.2.1 f hf
      rw [ih1]
      unfold subBlock
      rw [this]; rfl

/-- **A well-behaved thread is safe**: started with the ownership of its held blocks, every
    command sequence keeps "owned = frames of the held blocks, pairwise disjoint", never panics
    (in particular no free of a held block fails). -/
theorem runCmds_safe {g : Geom} (okg : GeomOk g) (cmds : List BCmd) :
    ∀ (held : List Blk), HeldOk g held →
      SafeR (fun _ => True) (fun held' own' => own' = ownedBy g held' ∧ HeldOk g held') (ownedBy g held) (runCmds g cmds held) := by
  induction cmds with
  | nil => intro held hok; exact ⟨rfl, hok⟩
  | cons cmd rest ih =>
    intro held hok
    cases cmd with
    | alloc b =>
      unfold runCmds
      by_cases hb : b.ok g
      · rw [if_pos hb]
        apply SafeR.bind _ _ _ (toggle_alloc_safe _ okg (ownedBy g held) b.h b.i b.order hb.1 hb.2 (fun _ _ => trivial))
        intro r o hr
        cases r with
        | ok u =>
          obtain ⟨h1, h2⟩ := hr
          have e : o = ownedBy g (b :: held) := by rw [h1, ownedBy_cons]; rfl
          rw [e]
          exact ih (b :: held) ⟨hb, h2, hok⟩
        | error e =>
          obtain ⟨_, h1⟩ := hr
          rw [h1]; exact ih held hok
      · rw [if_neg hb]; exact ih held hok
    | search h startRow order =>
      unfold runCmds
      by_cases ho : order ≤ g.hugeOrder
      · rw [if_pos ho]
        apply SafeR.bind _ _ _ (setFirstZeros_safe _ okg (ownedBy g held) h startRow order ho (fun _ _ _ _ => trivial))
        intro r o hr
        cases r with
        | ok off =>
          obtain ⟨hal, hfit, h1, h2⟩ := hr
          have hpos : 0 < 2 ^ order := Nat.pos_of_ne_zero (by simp)
          have hoff : off % g.hugeFrames = off := Nat.mod_eq_of_lt (by omega)
          have hstart : (⟨h, off, order⟩ : Blk).start g = h * g.hugeFrames + off := by
            simp only [Blk.start, hoff]
          have e : o = ownedBy g (⟨h, off, order⟩ :: held) := by rw [h1, ownedBy_cons, hstart]
          rw [e]
          refine ih (⟨h, off, order⟩ :: held) ⟨⟨ho, by simp only [hoff]; exact hal⟩, ?_, hok⟩
          intro f hf
          unfold Blk.has at hf
          rw [hstart] at hf
          exact h2 f hf
        | error e =>
          obtain ⟨_, h1⟩ := hr
          rw [h1]; exact ih held hok
      · rw [if_neg ho]; exact ih held hok
    | free idx =>
      unfold runCmds
      cases hg : held[idx]? with
      | none => exact ih held hok
      | some b =>
        simp only
        have hbm : b ∈ held := List.mem_of_getElem? hg
        have hbok := hok.mem b hbm
        apply SafeR.bind _ _ _ (toggle_free_safe _ okg (ownedBy g held) b.h b.i b.order hbok.1 hbok.2
          (fun f hf => ownedBy_of_mem g held b hbm f hf) (fun _ _ => trivial))
        intro r o hr
        cases r with
        | ok u =>
          obtain ⟨e1, e2⟩ := ownedBy_eraseIdx g held idx b hok hg
          have : o = subBlock (ownedBy g held) (b.start g) (2 ^ b.order) := hr
          rw [this, ← e1]
          exact ih _ e2
        | error e => exact hr.elim

/-- **C01 / C03 at the bitfield level, every interleaving.** Threads `k` run the command lists
    `cmds k` from no held blocks; after any schedule: no thread is about to panic, the frames
    held by different threads are disjoint, and a finished thread holds exactly the (pairwise
    disjoint, valid) blocks it reports. -/
theorem bitfield_threads_safe {g : Geom} (okg : GeomOk g) (cmds : Nat → List BCmd) (m : Mem) (sched : List Nat) :
    ∃ owns' : Nat → Owned, (∀ j k, j ≠ k → ∀ f, owns' j f = true → owns' k f = false) ∧
      ∀ k, match ((concRun sched (m, fun k => Th.at (runCmds g (cmds k) []))).2 k).step
            (concRun sched (m, fun k => Th.at (runCmds g (cmds k) []))).1 with
        | .done held => owns' k = ownedBy g held ∧ HeldOk g held
        | .dead s => s = oobMsg
        | .step _ _ _ => True := by
  have inv0 : ConcInv (fun _ => True) (fun held own' => own' = ownedBy g held ∧ HeldOk g held) m
      (fun k => Th.at (runCmds g (cmds k) [])) (fun _ => ownedBy g []) := by
    refine ⟨fun k => runCmds_safe okg (cmds k) [] trivial, ?_, ?_⟩
    · intro j k _ f hf; simp [ownedBy] at hf
    · intro k f hf; simp [ownedBy] at hf
  obtain ⟨owns', h1, h2⟩ := ConcInv.always sched m _ _ inv0
  refine ⟨owns', h1, fun k => ?_⟩
  have := h2 k
  cases hs : ((concRun sched (m, fun k => Th.at (runCmds g (cmds k) []))).2 k).step
      (concRun sched (m, fun k => Th.at (runCmds g (cmds k) []))).1 with
  | done a => rw [hs] at this; exact this
  | dead s => rw [hs] at this; exact this
  | step t' m' a => trivial

end LLFree
