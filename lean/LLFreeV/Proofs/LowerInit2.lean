/-
  `Lower::free_all` / `Lower::reserve_all` establish the lower invariant for every frame count
  (from arbitrary buffer contents of the right sizes).
-/
import LLFreeV.Proofs.LowerInit
import LLFreeV.Proofs.Hoare
import LLFreeV.Proofs.UpperOps
namespace LLFree
open Prog

/-- only rows were written -/
def RowsOnly (m m' : Mem) : Prop :=
  m'.rows.size = m.rows.size ∧ m'.huge = m.huge ∧ m'.trees = m.trees ∧ m'.slots = m.slots

/-- only table entries were written -/
def HugeOnly (m m' : Mem) : Prop :=
  m'.huge.size = m.huge.size ∧ m'.rows = m.rows ∧ m'.trees = m.trees ∧ m'.slots = m.slots

theorem RowsOnly.refl (m : Mem) : RowsOnly m m := ⟨rfl, rfl, rfl, rfl⟩
theorem RowsOnly.trans {a b d : Mem} (h1 : RowsOnly a b) (h2 : RowsOnly b d) : RowsOnly a d :=
  ⟨h2.1.trans h1.1, h2.2.1.trans h1.2.1, h2.2.2.1.trans h1.2.2.1, h2.2.2.2.trans h1.2.2.2⟩
theorem HugeOnly.refl (m : Mem) : HugeOnly m m := ⟨rfl, rfl, rfl, rfl⟩
theorem HugeOnly.trans {a b d : Mem} (h1 : HugeOnly a b) (h2 : HugeOnly b d) : HugeOnly a d :=
  ⟨h2.1.trans h1.1, h2.2.1.trans h1.2.1, h2.2.2.1.trans h1.2.2.1, h2.2.2.2.trans h1.2.2.2⟩

theorem size_of_get?_iff {τ : Type} (a b : Array τ) (h : ∀ j : Nat, (a[j]?).isSome = (b[j]?).isSome) : a.size = b.size := by
  apply Nat.le_antisymm
  · apply Nat.le_of_not_lt
    intro hlt
    have h1 := h b.size
    rw [Array.getElem?_eq_getElem hlt] at h1
    simp at h1
  · apply Nat.le_of_not_lt
    intro hlt
    have h1 := h a.size
    rw [Array.getElem?_eq_getElem hlt] at h1
    simp at h1

section
variable {g : Geom}

/-- consequences of a range write of table entries -/
theorem RangeAre.huge_facts {m m' : Mem} {lo hi v : Nat} (h : RangeAre .huge m m' lo hi v) (hhi : hi ≤ m.huge.size) :
    HugeOnly m m' ∧ ∀ j, m'.hugeE j = if lo ≤ j ∧ j < hi then v else m.hugeE j := by
  have hr : m'.rows = m.rows := Array.ext_getElem? (fun j => by have := h.other .row (by decide) j; simpa using this)
  have ht : m'.trees = m.trees := Array.ext_getElem? (fun j => by have := h.other .tree (by decide) j; simpa using this)
  have hs : m'.slots = m.slots := Array.ext_getElem? (fun j => by have := h.other .slot (by decide) j; simpa using this)
  have hsame : ∀ j, m'.huge[j]? = if lo ≤ j ∧ j < hi then (m.huge[j]?).map (fun _ => v) else m.huge[j]? := by
    intro j; have := h.same j; simpa using this
  refine ⟨⟨?_, hr, ht, hs⟩, ?_⟩
  · apply size_of_get?_iff
    intro j; rw [hsame j]; split <;> simp
  · intro j
    unfold Mem.hugeE
    rw [hsame j]
    by_cases hc : lo ≤ j ∧ j < hi
    · simp only [hc, and_self, if_true]
      rw [Array.getElem?_eq_getElem (by omega)]; rfl
    · simp only [hc, if_false]

/-- consequences of a range write of rows -/
theorem RangeAre.row_facts {m m' : Mem} {lo hi : Nat} {val : BitVec 64} (h : RangeAre .row m m' lo hi val) (hhi : hi ≤ m.rows.size) :
    RowsOnly m m' ∧ ∀ f, m'.bit f = if lo ≤ f / 64 ∧ f / 64 < hi then val.getLsbD (f % 64) else m.bit f := by
  have hh : m'.huge = m.huge := Array.ext_getElem? (fun j => by have := h.other .huge (by decide) j; simpa using this)
  have ht : m'.trees = m.trees := Array.ext_getElem? (fun j => by have := h.other .tree (by decide) j; simpa using this)
  have hs : m'.slots = m.slots := Array.ext_getElem? (fun j => by have := h.other .slot (by decide) j; simpa using this)
  have hsame : ∀ j, m'.rows[j]? = if lo ≤ j ∧ j < hi then (m.rows[j]?).map (fun _ => val) else m.rows[j]? := by
    intro j; have := h.same j; simpa using this
  refine ⟨⟨?_, hh, ht, hs⟩, ?_⟩
  · apply size_of_get?_iff
    intro j; rw [hsame j]; split <;> simp
  · intro f
    unfold Mem.bit
    rw [hsame (f / 64)]
    by_cases hc : lo ≤ f / 64 ∧ f / 64 < hi
    · simp only [hc, and_self, if_true]
      rw [Array.getElem?_eq_getElem (by omega)]; rfl
    · simp only [hc, if_false]

theorem div64_div_rows (okg : GeomOk g) (f : Nat) : f / 64 / g.rows = f / g.hugeFrames := by
  rw [Nat.div_div_eq_div_mul, Nat.mul_comm, okg.rows_mul]

/-- **`Bitfield::fill`** -/
theorem fill_spec (okg : GeomOk g) (m : Mem) (h : Nat) (v : Bool) (hh : (h + 1) * g.rows ≤ m.rows.size) :
    Runs m (Bitfield.fill g h v) (fun _ m' => RowsOnly m m' ∧ ∀ f, m'.bit f = if f / g.hugeFrames = h then v else m.bit f) := by
  unfold Bitfield.fill
  rw [Nat.add_mul, Nat.one_mul] at hh
  obtain ⟨m', hrun, hra⟩ := runSolo_fill_go (g := g) h (if v then rowMax else 0) g.rows 0 m (by omega)
  refine Runs.of_eq hrun ?_
  obtain ⟨hro, hbits⟩ := hra.row_facts (by omega)
  refine ⟨hro, ?_⟩
  intro f
  rw [hbits f]
  have hrpos := okg.rows_pos
  have hiff : (h * g.rows + 0 ≤ f / 64 ∧ f / 64 < h * g.rows + 0 + g.rows) ↔ f / g.hugeFrames = h := by
    rw [← div64_div_rows okg f]
    constructor
    · intro ⟨h1, h2⟩
      apply Nat.div_eq_of_lt_le
      · omega
      · rw [Nat.add_mul, Nat.one_mul]; omega
    · intro he
      have h1 := Nat.div_mul_le_self (f / 64) g.rows
      have h2 := Nat.lt_mul_div_succ (f / 64) hrpos
      rw [he] at h1 h2
      rw [Nat.mul_comm, Nat.add_mul, Nat.one_mul] at h2
      omega
  by_cases hc : f / g.hugeFrames = h
  · simp only [hiff.2 hc, and_self, if_true, hc]
    cases v with
    | true => simp only [if_true, rowMax_getLsbD]; simp; exact Nat.mod_lt _ (by decide)
    | false => simp
  · have : ¬ (h * g.rows + 0 ≤ f / 64 ∧ f / 64 < h * g.rows + 0 + g.rows) := fun x => hc (hiff.1 x)
    simp only [this, if_false, hc]

/-- `fill` of `n` consecutive bitfields -/
theorem fillBitfields_spec (okg : GeomOk g) (v : Bool) (n h : Nat) (m : Mem) (hh : (h + n) * g.rows ≤ m.rows.size) :
    Runs m (fillBitfields g v h n) (fun _ m' => RowsOnly m m' ∧
      ∀ f, m'.bit f = if h ≤ f / g.hugeFrames ∧ f / g.hugeFrames < h + n then v else m.bit f) := by
  induction n generalizing h m with
  | zero =>
    unfold fillBitfields
    apply Runs.pure
    refine ⟨RowsOnly.refl _, fun f => ?_⟩
    have : ¬ (h ≤ f / g.hugeFrames ∧ f / g.hugeFrames < h + 0) := by omega
    rw [if_neg this]
  | succ n ih =>
    unfold fillBitfields
    have h1 : (h + 1) * g.rows ≤ m.rows.size := by
      have : (h + 1) * g.rows ≤ (h + (n + 1)) * g.rows := Nat.mul_le_mul_right _ (by omega)
      omega
    apply Runs.bind (fill_spec okg m h v h1)
    rintro _ m1 ⟨ro1, hb1⟩
    apply Runs.mono (ih (h + 1) m1 (by rw [ro1.1]; rw [show h + 1 + n = h + (n + 1) by omega]; exact hh))
    rintro _ m2 ⟨ro2, hb2⟩
    refine ⟨ro1.trans ro2, fun f => ?_⟩
    rw [hb2 f, hb1 f]
    by_cases e : f / g.hugeFrames = h
    · have c1 : ¬ (h + 1 ≤ f / g.hugeFrames ∧ f / g.hugeFrames < h + 1 + n) := by omega
      have c2 : h ≤ f / g.hugeFrames ∧ f / g.hugeFrames < h + (n + 1) := by omega
      simp [c1, c2, e]
    · by_cases c1 : h + 1 ≤ f / g.hugeFrames ∧ f / g.hugeFrames < h + 1 + n
      · have c2 : h ≤ f / g.hugeFrames ∧ f / g.hugeFrames < h + (n + 1) := by omega
        simp [c1, c2]
      · have c2 : ¬ (h ≤ f / g.hugeFrames ∧ f / g.hugeFrames < h + (n + 1)) := by omega
        simp [c1, c2, e]

/-- the loop of `Bitfield::set` (`set_range`): rows `ei ..` of bitfield `h` -/
theorem setRange_go_spec (okg : GeomOk g) (h s e : Nat) (v : Bool) (hse : s < e) (he : e ≤ g.hugeFrames)
    (cnt ei : Nat) (hcnt : ei + cnt = (e - 1) / 64 + 1) (hei : s / 64 ≤ ei) (m : Mem) (hh : (h + 1) * g.rows ≤ m.rows.size) :
    Runs m (Bitfield.setRange.go g h s e v cnt ei) (fun _ m' => RowsOnly m m' ∧
      ∀ f, m'.bit f = if f / g.hugeFrames = h ∧ ei ≤ f % g.hugeFrames / 64 ∧ s ≤ f % g.hugeFrames ∧ f % g.hugeFrames < e
        then v else m.bit f) := by
  have hHF := okg.hf_pos
  have hrm := okg.rows_mul
  induction cnt generalizing ei m with
  | zero =>
    unfold Bitfield.setRange.go
    apply Runs.pure
    refine ⟨RowsOnly.refl _, fun f => ?_⟩
    have : ¬ (f / g.hugeFrames = h ∧ ei ≤ f % g.hugeFrames / 64 ∧ s ≤ f % g.hugeFrames ∧ f % g.hugeFrames < e) := by
      rintro ⟨_, h2, _, h4⟩
      have : f % g.hugeFrames / 64 ≤ (e - 1) / 64 := Nat.div_le_div_right (by omega)
      omega
    rw [if_neg this]
  | succ cnt ih =>
    unfold Bitfield.setRange.go
    simp only
    -- the row exists
    have heilt : ei < g.rows := by
      have h1 : (e - 1) / 64 < g.rows := by
        apply (Nat.div_lt_iff_lt_mul (by decide)).2; omega
      omega
    have hmod : ei % g.rows = ei := Nat.mod_eq_of_lt heilt
    rw [hmod]
    have hidx : h * g.rows + ei < m.rows.size := by
      rw [Nat.add_mul, Nat.one_mul] at hh; omega
    have hget : m.get? .row (rowIdx g h ei) = some (m.rows[h * g.rows + ei]) := by
      simp only [Mem.get?_row, rowIdx]; exact Array.getElem?_eq_getElem hidx
    generalize hold : m.rows[h * g.rows + ei] = old at hget
    generalize hmask : bitMask (min (e - ei * 64) 64 - (s - ei * 64)) (s - ei * 64) = mask
    apply Runs.bind (Runs.upd_set (k := .row) (i := rowIdx g h ei) (o := old)
      (v := if v then old ||| mask else old &&& ~~~mask)
      (f := fun (x : BitVec 64) => Upd.set (if v then x ||| mask else x &&& ~~~mask))
      (Q := fun _ m' => m.set .row (rowIdx g h ei) (if v then old ||| mask else old &&& ~~~mask) = m')
      hget rfl rfl)
    rintro _ _ rfl
    have hsz1 : (h + 1) * g.rows ≤ (m.set .row (rowIdx g h ei) (if v then old ||| mask else old &&& ~~~mask)).rows.size := by
      simp only [Mem.set_row_rows, Array.size_setIfInBounds]; exact hh
    apply Runs.mono (ih (ei + 1) (by omega) (by omega) _ hsz1)
    rintro _ m2 ⟨ro2, hb2⟩
    refine ⟨⟨by rw [ro2.1]; simp, ro2.2.1, ro2.2.2.1, ro2.2.2.2⟩, fun f => ?_⟩
    rw [hb2 f, Mem.bit_set_row m _ _ hidx f]
    -- which row does `f` live in
    have hfrow : f / 64 = f / g.hugeFrames * g.rows + f % g.hugeFrames / 64 := by
      have h1 := Nat.div_add_mod f g.hugeFrames
      have : f = (f / g.hugeFrames) * g.hugeFrames + f % g.hugeFrames := by rw [Nat.mul_comm]; omega
      conv => lhs; rw [this]
      exact okg.frame_row _ _
    have hfbit : f % 64 = f % g.hugeFrames % 64 := (okg.mod_hf_mod f).symm
    have hoff : f % g.hugeFrames / 64 < g.rows := by
      apply (Nat.div_lt_iff_lt_mul (by decide)).2
      rw [hrm]; exact Nat.mod_lt _ hHF
    generalize hF : f / g.hugeFrames = F at *
    generalize hO : f % g.hugeFrames = o at *
    have hrowiff : f / 64 = rowIdx g h ei ↔ (F = h ∧ o / 64 = ei) := by
      rw [hfrow]
      simp only [rowIdx]
      constructor
      · intro heq
        have : F = h := by
          rcases Nat.lt_trichotomy F h with h1 | h1 | h1
          · have : (F + 1) * g.rows ≤ h * g.rows := Nat.mul_le_mul_right _ h1
            rw [Nat.add_mul, Nat.one_mul] at this; omega
          · exact h1
          · have : (h + 1) * g.rows ≤ F * g.rows := Nat.mul_le_mul_right _ h1
            rw [Nat.add_mul, Nat.one_mul] at this; omega
        subst this
        exact ⟨rfl, by omega⟩
      · rintro ⟨rfl, rfl⟩; rfl
    by_cases hrow : F = h ∧ o / 64 = ei
    · obtain ⟨rfl, hoe⟩ := hrow
      have c1 : ¬ (F = F ∧ ei + 1 ≤ o / 64 ∧ s ≤ o ∧ o < e) := by omega
      rw [if_neg c1, if_pos (hrowiff.2 ⟨rfl, hoe⟩)]
      -- the bit of the updated row
      have hi64 : o % 64 < 64 := Nat.mod_lt _ (by decide)
      have hmbit : mask.getLsbD (f % 64) = (decide (s ≤ o) && decide (o < e)) := by
        rw [← hmask, hfbit, bitMask_getLsbD _ _ _ (by omega)]
        have ho : o = ei * 64 + o % 64 := by have := Nat.div_add_mod o 64; rw [hoe] at this; omega
        by_cases a1 : s ≤ o <;> by_cases a2 : o < e <;> simp [a1, a2, hi64] <;> omega
      have hold' : m.bit f = old.getLsbD (f % 64) := by
        unfold Mem.bit
        rw [hrowiff.2 ⟨rfl, hoe⟩]
        simp only [rowIdx, Array.getElem?_eq_getElem hidx, hold]
      by_cases a : s ≤ o ∧ o < e
      · have c2 : F = F ∧ ei ≤ o / 64 ∧ s ≤ o ∧ o < e := ⟨rfl, by omega, a.1, a.2⟩
        rw [if_pos c2]
        cases v with
        | true => simp [getLsbD_or', hmbit, a.1, a.2]
        | false => simp [getLsbD_and_not, hmbit, a.1, a.2]
      · have c2 : ¬ (F = F ∧ ei ≤ o / 64 ∧ s ≤ o ∧ o < e) := fun x => a ⟨x.2.2.1, x.2.2.2⟩
        rw [if_neg c2, hold']
        have hm0 : mask.getLsbD (f % 64) = false := by
          rw [hmbit]
          by_cases a1 : s ≤ o
          · have : ¬ o < e := fun x => a ⟨a1, x⟩
            simp [this]
          · simp [a1]
        cases v with
        | true => simp only [if_true]; rw [getLsbD_or', hm0, Bool.or_false]
        | false => simp only [Bool.false_eq_true, if_false]; rw [getLsbD_and_not, hm0]; simp
    · have hne : ¬ f / 64 = rowIdx g h ei := fun x => hrow (hrowiff.1 x)
      rw [if_neg hne]
      by_cases c1 : F = h ∧ ei + 1 ≤ o / 64 ∧ s ≤ o ∧ o < e
      · have c2 : F = h ∧ ei ≤ o / 64 ∧ s ≤ o ∧ o < e := ⟨c1.1, by omega, c1.2.2.1, c1.2.2.2⟩
        rw [if_pos c1, if_pos c2]
      · have c2 : ¬ (F = h ∧ ei ≤ o / 64 ∧ s ≤ o ∧ o < e) := by
          rintro ⟨x1, x2, x3, x4⟩
          by_cases x5 : o / 64 = ei
          · exact hrow ⟨x1, x5⟩
          · exact c1 ⟨x1, by omega, x3, x4⟩
        rw [if_neg c1, if_neg c2]

/-- **`Bitfield::set`** (`set_range`): the bits `[s, e)` of bitfield `h` become `v`, nothing else changes -/
theorem setRange_spec (okg : GeomOk g) (m : Mem) (h s e : Nat) (v : Bool) (hse : s ≤ e) (he : e ≤ g.hugeFrames)
    (hh : (h + 1) * g.rows ≤ m.rows.size) :
    Runs m (Bitfield.setRange g h s e v) (fun _ m' => RowsOnly m m' ∧
      ∀ f, m'.bit f = if f / g.hugeFrames = h ∧ s ≤ f % g.hugeFrames ∧ f % g.hugeFrames < e then v else m.bit f) := by
  have hHF := okg.hf_pos
  unfold Bitfield.setRange
  by_cases hs : s = e
  · simp only [hs, if_true]
    apply Runs.pure
    refine ⟨RowsOnly.refl _, fun f => ?_⟩
    have : ¬ (f / g.hugeFrames = h ∧ e ≤ f % g.hugeFrames ∧ f % g.hugeFrames < e) := by omega
    rw [if_neg this]
  · simp only [hs, if_false]
    have hlt : s < e := by omega
    have h1 : s / g.hugeFrames = 0 := Nat.div_eq_of_lt (by omega)
    have h2 : (e - 1) / g.hugeFrames = 0 := Nat.div_eq_of_lt (by omega)
    have hnp : ¬ (s / g.hugeFrames ≠ (e - 1) / g.hugeFrames) := by rw [h1, h2]; simp
    simp only [hnp, if_false]
    have hle : s / 64 ≤ (e - 1) / 64 := Nat.div_le_div_right (by omega)
    apply Runs.mono (setRange_go_spec okg h s e v hlt he ((e - 1) / 64 + 1 - s / 64) (s / 64) (by omega) (Nat.le_refl _) m hh)
    rintro _ m' ⟨ro, hb⟩
    refine ⟨ro, fun f => ?_⟩
    rw [hb f]
    by_cases c : f / g.hugeFrames = h ∧ s ≤ f % g.hugeFrames ∧ f % g.hugeFrames < e
    · have c2 : f / g.hugeFrames = h ∧ s / 64 ≤ f % g.hugeFrames / 64 ∧ s ≤ f % g.hugeFrames ∧ f % g.hugeFrames < e :=
        ⟨c.1, Nat.div_le_div_right c.2.1, c.2.1, c.2.2⟩
      rw [if_pos c, if_pos c2]
    · have c2 : ¬ (f / g.hugeFrames = h ∧ s / 64 ≤ f % g.hugeFrames / 64 ∧ s ≤ f % g.hugeFrames ∧ f % g.hugeFrames < e) :=
        fun x => c ⟨x.1, x.2.2.1, x.2.2.2⟩
      rw [if_neg c, if_neg c2]

/-- `storeHugeRange` on table entries -/
theorem storeHugeRange_spec (v n idx : Nat) (m : Mem) (h : idx + n ≤ m.huge.size) :
    Runs m (storeHugeRange idx v n) (fun _ m' => HugeOnly m m' ∧
      ∀ j, m'.hugeE j = if idx ≤ j ∧ j < idx + n then v else m.hugeE j) := by
  obtain ⟨m', hrun, hra⟩ := runSolo_storeHugeRange v n idx m h
  exact Runs.of_eq hrun (hra.huge_facts h)

/-- the loop over the entries of the last table in `free_all` -/
theorem freeAll_lastT_spec (frames tables cnt i : Nat) (m : Mem) (h : tables * g.treeHuge + i + cnt ≤ m.huge.size) :
    Runs m (Lower.freeAll.lastT g frames tables cnt i) (fun _ m' => HugeOnly m m' ∧
      ∀ j, m'.hugeE j = if tables * g.treeHuge + i ≤ j ∧ j < tables * g.treeHuge + i + cnt
        then Huge.newWith (min (frames - j * g.hugeFrames) g.hugeFrames) else m.hugeE j) := by
  induction cnt generalizing i m with
  | zero =>
    unfold Lower.freeAll.lastT
    apply Runs.pure
    refine ⟨HugeOnly.refl _, fun j => ?_⟩
    have : ¬ (tables * g.treeHuge + i ≤ j ∧ j < tables * g.treeHuge + i + 0) := by omega
    rw [if_neg this]
  | succ cnt ih =>
    unfold Lower.freeAll.lastT
    simp only
    have hidx : tables * g.treeHuge + i < m.huge.size := by omega
    have hget : m.get? .huge (hugeIdx g tables i) = some (m.huge[tables * g.treeHuge + i]) := by
      simp only [Mem.get?_huge, hugeIdx]; exact Array.getElem?_eq_getElem hidx
    have hframe : tables * g.treeFrames + i * g.hugeFrames = (tables * g.treeHuge + i) * g.hugeFrames := by
      show tables * (g.treeHuge * g.hugeFrames) + _ = _
      rw [Nat.add_mul, Nat.mul_assoc]
    rw [hframe]
    apply Runs.bind (Runs.store (k := .huge) (Q := fun _ m' => m.set .huge (hugeIdx g tables i)
      (Huge.newWith (min (frames - (tables * g.treeHuge + i) * g.hugeFrames) g.hugeFrames)) = m') _ hget rfl)
    rintro _ _ rfl
    apply Runs.mono (ih (i + 1) _ (by simp only [Mem.set_huge_huge, Array.size_setIfInBounds]; omega))
    rintro _ m2 ⟨ho2, hb2⟩
    refine ⟨⟨by rw [ho2.1]; simp, ho2.2.1, ho2.2.2.1, ho2.2.2.2⟩, fun j => ?_⟩
    rw [hb2 j, Mem.hugeE_set_huge _ _ _ hidx]
    by_cases e : j = tables * g.treeHuge + i
    · subst e
      have c1 : ¬ (tables * g.treeHuge + (i + 1) ≤ tables * g.treeHuge + i ∧ tables * g.treeHuge + i < tables * g.treeHuge + (i + 1) + cnt) := by omega
      have c2 : tables * g.treeHuge + i ≤ tables * g.treeHuge + i ∧ tables * g.treeHuge + i < tables * g.treeHuge + i + (cnt + 1) := by omega
      rw [if_neg c1, if_pos c2]; simp
    · by_cases c1 : tables * g.treeHuge + (i + 1) ≤ j ∧ j < tables * g.treeHuge + (i + 1) + cnt
      · have c2 : tables * g.treeHuge + i ≤ j ∧ j < tables * g.treeHuge + i + (cnt + 1) := by omega
        rw [if_pos c1, if_pos c2]
      · have c2 : ¬ (tables * g.treeHuge + i ≤ j ∧ j < tables * g.treeHuge + i + (cnt + 1)) := by omega
        rw [if_neg c1, if_neg c2]; simp [e]

end

theorem countP_range_lt (n k : Nat) : (List.range n).countP (fun o => decide (o < k)) = min k n := by
  induction n with
  | zero => simp
  | succ n ih =>
    rw [List.range_succ, List.countP_append, ih]
    by_cases h : n < k
    · simp [List.countP_cons, h]; omega
    · simp [List.countP_cons, h]; omega

section
variable {c : Cfg}

/-- the state `free_all` produces: every managed frame free, the counters exact -/
structure FreshFree (c : Cfg) (m m' : Mem) : Prop where
  rowsSize : m'.rows.size = m.rows.size
  hugeSize : m'.huge.size = m.huge.size
  trees : m'.trees = m.trees
  slots : m'.slots = m.slots
  entries : ∀ j, j < c.ntrees * c.geom.treeHuge → m'.hugeE j = min (c.frames - j * c.geom.hugeFrames) c.geom.hugeFrames
  bits : ∀ f, m'.bit f = decide (c.frames ≤ f)

theorem hugeE_beyond (m : Mem) (j : Nat) (h : m.huge.size ≤ j) : m.hugeE j = 0 := by
  unfold Mem.hugeE
  rw [Array.getElem?_eq_none h]; rfl

/-- a fresh free-all state satisfies the lower invariant -/
theorem FreshFree.lowerInv (ok : GeomOk16 c.geom) (m m' : Mem) (hs : ShapeOk c m) (h : FreshFree c m m') : LowerInv c m' := by
  have okg := ok.toGeomOk
  have hHF := okg.hf_pos
  have h16 := ok.hf_lt
  have hnh : c.nhuge ≤ c.ntrees * c.geom.treeHuge := okg.ceil_hf_le c.frames
  have hceil : c.frames ≤ c.nhuge * c.geom.hugeFrames := by
    unfold Cfg.nhuge
    have := Nat.div_add_mod (c.frames + c.geom.hugeFrames - 1) c.geom.hugeFrames
    have h2 := Nat.mod_lt (c.frames + c.geom.hugeFrames - 1) hHF
    rw [Nat.mul_comm] at this
    omega
  have hentry : ∀ j, m'.hugeE j ≤ c.geom.hugeFrames := by
    intro j
    by_cases hj : j < c.ntrees * c.geom.treeHuge
    · rw [h.entries j hj]; exact Nat.min_le_right _ _
    · rw [hugeE_beyond m' j (by rw [h.hugeSize, hs.huge]; omega)]; omega
  have hnot : ∀ j, Huge.isHuge (m'.hugeE j) = false := by
    intro j
    have := hentry j
    simp [Huge.isHuge, HugeMarker]; omega
  exact {
    rowsSize := by rw [h.rowsSize]; exact hs.rows
    hugeSize := by rw [h.hugeSize]; exact hs.huge
    beyond := by
      intro j hj
      by_cases hj2 : j < c.ntrees * c.geom.treeHuge
      · rw [h.entries j hj2]
        have : c.nhuge * c.geom.hugeFrames ≤ j * c.geom.hugeFrames := Nat.mul_le_mul_right _ hj
        have : c.frames - j * c.geom.hugeFrames = 0 := by omega
        rw [this]; simp
      · exact hugeE_beyond m' j (by rw [h.hugeSize, hs.huge]; omega)
    marker := by intro j _ hm; rw [hnot j] at hm; cases hm
    count := by
      intro j hj _
      rw [h.entries j (by omega)]
      unfold zerosIn
      have : (List.range c.geom.hugeFrames).countP (fun i => !m'.bit (j * c.geom.hugeFrames + i)) =
          (List.range c.geom.hugeFrames).countP (fun o => decide (o < c.frames - j * c.geom.hugeFrames)) := by
        apply countP_range_eq_of_eq
        intro i _
        rw [h.bits]
        by_cases a : c.frames ≤ j * c.geom.hugeFrames + i
        · have : ¬ i < c.frames - j * c.geom.hugeFrames := by omega
          simp [a, this]
        · have : i < c.frames - j * c.geom.hugeFrames := by omega
          simp [a, this]
      rw [this, countP_range_lt]
    outside := by intro f hf; rw [h.bits]; simp [hf] }

/-- **`Lower::free_all`** produces the fresh free state from any buffer contents, for every frame count -/
theorem freeAll_spec (ok : GeomOk16 c.geom) (m : Mem) (hs : ShapeOk c m) :
    Runs m (Lower.freeAll c.geom c.frames c.ntrees c.nhuge) (fun _ m' => FreshFree c m m') := by
  have okg := ok.toGeomOk
  have hHF := okg.hf_pos
  have hTH := okg.th_pos
  have h16 := ok.hf_lt
  have hnw : ∀ x, x ≤ c.geom.hugeFrames → Huge.newWith x = x := fun x hx => Nat.mod_eq_of_lt (by omega)
  have hnh : c.nhuge ≤ c.ntrees * c.geom.treeHuge := okg.ceil_hf_le c.frames
  have hceil : c.frames ≤ c.nhuge * c.geom.hugeFrames := by
    unfold Cfg.nhuge
    have := Nat.div_add_mod (c.frames + c.geom.hugeFrames - 1) c.geom.hugeFrames
    have h2 := Nat.mod_lt (c.frames + c.geom.hugeFrames - 1) hHF
    rw [Nat.mul_comm] at this
    omega
  have hfloor : c.frames / c.geom.hugeFrames ≤ c.nhuge := by
    unfold Cfg.nhuge
    exact Nat.div_le_div_right (by omega)
  have hnh1 : c.nhuge ≤ c.frames / c.geom.hugeFrames + 1 := by
    unfold Cfg.nhuge
    have h1 := Nat.div_add_mod c.frames c.geom.hugeFrames
    have h2 := Nat.mod_lt c.frames hHF
    apply Nat.le_of_lt_succ
    apply (Nat.div_lt_iff_lt_mul hHF).2
    have e : (c.frames / c.geom.hugeFrames + 1).succ * c.geom.hugeFrames =
        c.geom.hugeFrames * (c.frames / c.geom.hugeFrames) + c.geom.hugeFrames + c.geom.hugeFrames := by
      rw [Nat.succ_mul, Nat.add_mul, Nat.one_mul, Nat.mul_comm]
    rw [e]
    omega
  unfold Lower.freeAll
  by_cases hnt : c.ntrees = 0
  · simp only [hnt, if_true]
    apply Runs.pure
    have hf0 : c.frames = 0 := by
      have htf := okg.tf_pos
      unfold Cfg.ntrees at hnt
      have := (Nat.div_eq_zero_iff.1 hnt)
      rcases this with h | h
      · omega
      · omega
    have hr0 : m.rows.size = 0 := by
      rw [hs.rows]
      have : c.nhuge = 0 := by
        unfold Cfg.nhuge; rw [hf0]; exact Nat.div_eq_of_lt (by omega)
      rw [this]; simp
    refine ⟨rfl, rfl, rfl, rfl, ?_, ?_⟩
    · intro j hj; rw [hnt] at hj; simp at hj
    · intro f
      unfold Mem.bit
      rw [Array.getElem?_eq_none (by omega)]
      simp [hf0]
  · simp only [hnt, if_false]
    have hntpos : 0 < c.ntrees := by omega
    have hhsz : m.huge.size = c.ntrees * c.geom.treeHuge := hs.huge
    have hsplit : (c.ntrees - 1) * c.geom.treeHuge + c.geom.treeHuge = c.ntrees * c.geom.treeHuge := by
      have : c.ntrees = (c.ntrees - 1) + 1 := by omega
      conv => rhs; rw [this, Nat.add_mul, Nat.one_mul]
    -- the table entries
    apply Runs.bind (storeHugeRange_spec (Huge.newWith c.geom.hugeFrames) ((c.ntrees - 1) * c.geom.treeHuge) (hugeIdx c.geom 0 0) m
      (by simp only [hugeIdx]; omega))
    rintro _ m1 ⟨ho1, he1⟩
    apply Runs.bind (freeAll_lastT_spec c.frames (c.ntrees - 1) c.geom.treeHuge 0 m1 (by rw [ho1.1]; omega))
    rintro _ m2 ⟨ho2, he2⟩
    have hnp : ¬ (c.frames / c.geom.hugeFrames > c.nhuge) := by omega
    simp only [hnp, if_false]
    have hrsz2 : m2.rows.size = c.nhuge * c.geom.rows := by rw [ho2.2.1, ho1.2.1]; exact hs.rows
    -- the bitfields
    apply Runs.bind (fillBitfields_spec okg false (c.frames / c.geom.hugeFrames) 0 m2
      (by rw [hrsz2, Nat.zero_add]; exact Nat.mul_le_mul_right _ hfloor))
    rintro _ m3 ⟨ro3, hb3⟩
    have hentries : ∀ m' : Mem, m'.huge = m2.huge → ∀ j, j < c.ntrees * c.geom.treeHuge →
        m'.hugeE j = min (c.frames - j * c.geom.hugeFrames) c.geom.hugeFrames := by
      intro m' hm' j hj
      have : m'.hugeE j = m2.hugeE j := by unfold Mem.hugeE; rw [hm']
      rw [this, he2 j]
      by_cases a : (c.ntrees - 1) * c.geom.treeHuge + 0 ≤ j ∧ j < (c.ntrees - 1) * c.geom.treeHuge + 0 + c.geom.treeHuge
      · rw [if_pos a]; exact hnw _ (Nat.min_le_right _ _)
      · rw [if_neg a, he1 j]
        have a2 : hugeIdx c.geom 0 0 ≤ j ∧ j < hugeIdx c.geom 0 0 + (c.ntrees - 1) * c.geom.treeHuge := by
          simp only [hugeIdx]; omega
        rw [if_pos a2, hnw _ (Nat.le_refl _)]
        -- a full huge frame inside the range
        have : (j + 1) * c.geom.hugeFrames ≤ c.frames := by
          have hj2 : j + 1 ≤ (c.ntrees - 1) * c.geom.treeHuge := by omega
          have h1 : (j + 1) * c.geom.hugeFrames ≤ (c.ntrees - 1) * c.geom.treeHuge * c.geom.hugeFrames := Nat.mul_le_mul_right _ hj2
          have h2 : (c.ntrees - 1) * c.geom.treeFrames < c.frames := by
            have htf := okg.tf_pos
            have := Nat.lt_mul_div_succ (c.frames + c.geom.treeFrames - 1) okg.tf_pos
            have h3 : c.ntrees = (c.frames + c.geom.treeFrames - 1) / c.geom.treeFrames := rfl
            rw [← h3] at this
            have h4 := Nat.div_mul_le_self (c.frames + c.geom.treeFrames - 1) c.geom.treeFrames
            rw [← h3] at h4
            have h5 : (c.ntrees - 1) * c.geom.treeFrames + c.geom.treeFrames = c.ntrees * c.geom.treeFrames := by
              have : c.ntrees = (c.ntrees - 1) + 1 := by omega
              conv => rhs; rw [this, Nat.add_mul, Nat.one_mul]
            omega
          have h6 : (c.ntrees - 1) * c.geom.treeHuge * c.geom.hugeFrames = (c.ntrees - 1) * c.geom.treeFrames := by
            show _ = (c.ntrees - 1) * (c.geom.treeHuge * c.geom.hugeFrames); rw [Nat.mul_assoc]
          omega
        rw [Nat.add_mul, Nat.one_mul] at this
        omega
    have hsame3 : ∀ m' : Mem, RowsOnly m3 m' → (m'.rows.size = m.rows.size ∧ m'.huge.size = m.huge.size ∧ m'.trees = m.trees ∧
        m'.slots = m.slots ∧ m'.huge = m2.huge) := by
      intro m' ro
      refine ⟨by rw [ro.1, ro3.1, ho2.2.1, ho1.2.1], by rw [ro.2.1, ro3.2.1, ho2.1, ho1.1], by rw [ro.2.2.1, ro3.2.2.1, ho2.2.2.1, ho1.2.2.1],
        by rw [ro.2.2.2, ro3.2.2.2, ho2.2.2.2, ho1.2.2.2], by rw [ro.2.1, ro3.2.1]⟩
    -- bits beyond the rows read as set, before and after
    have hmiss : ∀ f, c.nhuge ≤ f / c.geom.hugeFrames → m2.bit f = true := by
      intro f hf
      unfold Mem.bit
      have : m2.rows.size ≤ f / 64 := by
        rw [hrsz2]
        have h1 : c.nhuge * c.geom.rows ≤ f / c.geom.hugeFrames * c.geom.rows := Nat.mul_le_mul_right _ hf
        have h2 := Nat.div_mul_le_self (f / 64) c.geom.rows
        rw [div64_div_rows okg f] at h2
        omega
      rw [Array.getElem?_eq_none this]
    by_cases hlast : c.frames / c.geom.hugeFrames < c.nhuge
    · simp only [hlast, if_true]
      have hrows3 : (c.frames / c.geom.hugeFrames + 1) * c.geom.rows ≤ m3.rows.size := by
        rw [ro3.1, hrsz2]; exact Nat.mul_le_mul_right _ hlast
      have he_le : c.frames - c.frames / c.geom.hugeFrames * c.geom.hugeFrames ≤ c.geom.hugeFrames := by
        have := Nat.div_add_mod c.frames c.geom.hugeFrames
        have h2 := Nat.mod_lt c.frames hHF
        rw [Nat.mul_comm] at this; omega
      apply Runs.bind (setRange_spec okg m3 (c.frames / c.geom.hugeFrames) 0 _ false (Nat.zero_le _) he_le hrows3)
      rintro _ m4 ⟨ro4, hb4⟩
      apply Runs.bind (setRange_spec okg m4 (c.frames / c.geom.hugeFrames) _ c.geom.hugeFrames true he_le (Nat.le_refl _)
        (by rw [ro4.1]; exact hrows3))
      rintro _ m5 ⟨ro5, hb5⟩
      have hz : c.nhuge - c.frames / c.geom.hugeFrames - 1 = 0 := by omega
      rw [hz]
      unfold fillBitfields
      apply Runs.pure
      obtain ⟨h1, h2, h3, h4, h5⟩ := hsame3 m5 (ro4.trans ro5)
      refine ⟨h1, h2, h3, h4, hentries m5 h5, ?_⟩
      intro f
      rw [hb5 f, hb4 f, hb3 f]
      have hdm := Nat.div_add_mod f c.geom.hugeFrames
      have hml := Nat.mod_lt f hHF
      have hfd := Nat.div_add_mod c.frames c.geom.hugeFrames
      have hfl := Nat.mod_lt c.frames hHF
      generalize hF : f / c.geom.hugeFrames = F at *
      generalize hO : f % c.geom.hugeFrames = o at *
      generalize hL : c.frames / c.geom.hugeFrames = L at *
      have hLmul : L * c.geom.hugeFrames = c.geom.hugeFrames * L := Nat.mul_comm _ _
      rcases Nat.lt_trichotomy F L with hlt | heq | hgt
      · have c1 : ¬ (F = L ∧ c.frames - L * c.geom.hugeFrames ≤ o ∧ o < c.geom.hugeFrames) := by omega
        have c2 : ¬ (F = L ∧ 0 ≤ o ∧ o < c.frames - L * c.geom.hugeFrames) := by omega
        have c3 : 0 ≤ F ∧ F < 0 + L := by omega
        rw [if_neg c1, if_neg c2, if_pos c3]
        have : (F + 1) * c.geom.hugeFrames ≤ L * c.geom.hugeFrames := Nat.mul_le_mul_right _ hlt
        rw [Nat.add_mul, Nat.one_mul] at this
        have : ¬ c.frames ≤ f := by
          have : F * c.geom.hugeFrames = c.geom.hugeFrames * F := Nat.mul_comm _ _
          omega
        simp [this]
      · subst heq
        by_cases a : c.frames - F * c.geom.hugeFrames ≤ o
        · have c1 : F = F ∧ c.frames - F * c.geom.hugeFrames ≤ o ∧ o < c.geom.hugeFrames := ⟨rfl, a, hml⟩
          rw [if_pos c1]
          have : c.frames ≤ f := by omega
          simp [this]
        · have c1 : ¬ (F = F ∧ c.frames - F * c.geom.hugeFrames ≤ o ∧ o < c.geom.hugeFrames) := fun x => a x.2.1
          have c2 : F = F ∧ 0 ≤ o ∧ o < c.frames - F * c.geom.hugeFrames := ⟨rfl, Nat.zero_le _, by omega⟩
          rw [if_neg c1, if_pos c2]
          have : ¬ c.frames ≤ f := by omega
          simp [this]
      · have c1 : ¬ (F = L ∧ c.frames - L * c.geom.hugeFrames ≤ o ∧ o < c.geom.hugeFrames) := by omega
        have c2 : ¬ (F = L ∧ 0 ≤ o ∧ o < c.frames - L * c.geom.hugeFrames) := by omega
        have c3 : ¬ (0 ≤ F ∧ F < 0 + L) := by omega
        rw [if_neg c1, if_neg c2, if_neg c3, hmiss f (by rw [hF]; omega)]
        have : (L + 1) * c.geom.hugeFrames ≤ F * c.geom.hugeFrames := Nat.mul_le_mul_right _ hgt
        rw [Nat.add_mul, Nat.one_mul] at this
        have : c.frames ≤ f := by
          have : F * c.geom.hugeFrames = c.geom.hugeFrames * F := Nat.mul_comm _ _
          omega
        simp [this]
    · simp only [hlast, if_false]
      apply Runs.pure
      obtain ⟨h1, h2, h3, h4, h5⟩ := hsame3 m3 (RowsOnly.refl _)
      refine ⟨h1, h2, h3, h4, hentries m3 h5, ?_⟩
      intro f
      rw [hb3 f]
      have heqn : c.frames / c.geom.hugeFrames = c.nhuge := by omega
      have hdm := Nat.div_add_mod f c.geom.hugeFrames
      have hml := Nat.mod_lt f hHF
      have hfd := Nat.div_add_mod c.frames c.geom.hugeFrames
      by_cases a : f / c.geom.hugeFrames < c.frames / c.geom.hugeFrames
      · have c3 : 0 ≤ f / c.geom.hugeFrames ∧ f / c.geom.hugeFrames < 0 + c.frames / c.geom.hugeFrames :=
          ⟨Nat.zero_le _, by rw [Nat.zero_add]; exact a⟩
        rw [if_pos c3]
        have : (f / c.geom.hugeFrames + 1) * c.geom.hugeFrames ≤ c.frames / c.geom.hugeFrames * c.geom.hugeFrames := Nat.mul_le_mul_right _ a
        rw [Nat.add_mul, Nat.one_mul] at this
        have h9 := Nat.div_mul_le_self c.frames c.geom.hugeFrames
        have : ¬ c.frames ≤ f := by
          have : f / c.geom.hugeFrames * c.geom.hugeFrames = c.geom.hugeFrames * (f / c.geom.hugeFrames) := Nat.mul_comm _ _
          omega
        simp [this]
      · have c3 : ¬ (0 ≤ f / c.geom.hugeFrames ∧ f / c.geom.hugeFrames < 0 + c.frames / c.geom.hugeFrames) := by
          rintro ⟨_, h2⟩; rw [Nat.zero_add] at h2; exact a h2
        have hge : c.nhuge ≤ f / c.geom.hugeFrames := by rw [← heqn]; exact Nat.le_of_not_lt a
        rw [if_neg c3, hmiss f hge]
        have : c.frames ≤ f := by
          have h1 : c.nhuge * c.geom.hugeFrames ≤ f / c.geom.hugeFrames * c.geom.hugeFrames := Nat.mul_le_mul_right _ hge
          have : f / c.geom.hugeFrames * c.geom.hugeFrames = c.geom.hugeFrames * (f / c.geom.hugeFrames) := Nat.mul_comm _ _
          omega
        simp [this]

/-- **`free_all` establishes the lower invariant**, for every frame count and geometry. -/
theorem freeAll_lowerInv (ok : GeomOk16 c.geom) (m : Mem) (hs : ShapeOk c m) :
    Runs m (Lower.freeAll c.geom c.frames c.ntrees c.nhuge) (fun _ m' => LowerInv c m' ∧ FreshFree c m m') :=
  (freeAll_spec ok m hs).mono (fun _ m' h => ⟨h.lowerInv ok m m' hs, h⟩)

/-- the state `reserve_all` produces: every huge frame inside the range allocated as a whole,
    the partial last one (if any) with all bits set and counter 0 -/
structure FreshAlloc (c : Cfg) (m m' : Mem) : Prop where
  rowsSize : m'.rows.size = m.rows.size
  hugeSize : m'.huge.size = m.huge.size
  trees : m'.trees = m.trees
  slots : m'.slots = m.slots
  entries : ∀ j, j < c.ntrees * c.geom.treeHuge →
    m'.hugeE j = if j < c.frames / c.geom.hugeFrames then HugeMarker else 0
  bits : ∀ f, m'.bit f = decide (c.frames / c.geom.hugeFrames ≤ f / c.geom.hugeFrames)

theorem FreshAlloc.lowerInv (ok : GeomOk16 c.geom) (m m' : Mem) (hs : ShapeOk c m) (h : FreshAlloc c m m') : LowerInv c m' := by
  have okg := ok.toGeomOk
  have hHF := okg.hf_pos
  have hnh : c.nhuge ≤ c.ntrees * c.geom.treeHuge := okg.ceil_hf_le c.frames
  have hfloor : c.frames / c.geom.hugeFrames ≤ c.nhuge := by
    unfold Cfg.nhuge; exact Nat.div_le_div_right (by omega)
  have hnh1 : c.nhuge ≤ c.frames / c.geom.hugeFrames + 1 := by
    unfold Cfg.nhuge
    have h1 := Nat.div_add_mod c.frames c.geom.hugeFrames
    have h2 := Nat.mod_lt c.frames hHF
    apply Nat.le_of_lt_succ
    apply (Nat.div_lt_iff_lt_mul hHF).2
    have e : (c.frames / c.geom.hugeFrames + 1).succ * c.geom.hugeFrames =
        c.geom.hugeFrames * (c.frames / c.geom.hugeFrames) + c.geom.hugeFrames + c.geom.hugeFrames := by
      rw [Nat.succ_mul, Nat.add_mul, Nat.one_mul, Nat.mul_comm]
    rw [e]; omega
  have hentry : ∀ j, m'.hugeE j = if j < c.frames / c.geom.hugeFrames then HugeMarker else 0 := by
    intro j
    by_cases hj : j < c.ntrees * c.geom.treeHuge
    · exact h.entries j hj
    · rw [hugeE_beyond m' j (by rw [h.hugeSize, hs.huge]; omega)]
      have : ¬ j < c.frames / c.geom.hugeFrames := by omega
      rw [if_neg this]
  exact {
    rowsSize := by rw [h.rowsSize]; exact hs.rows
    hugeSize := by rw [h.hugeSize]; exact hs.huge
    beyond := by
      intro j hj
      rw [hentry j]
      have : ¬ j < c.frames / c.geom.hugeFrames := by omega
      rw [if_neg this]
    marker := by
      intro j _ hm
      rw [hentry j] at hm
      by_cases a : j < c.frames / c.geom.hugeFrames
      · refine ⟨?_, ?_⟩
        · have h1 : (j + 1) * c.geom.hugeFrames ≤ c.frames / c.geom.hugeFrames * c.geom.hugeFrames := Nat.mul_le_mul_right _ a
          have h2 := Nat.div_mul_le_self c.frames c.geom.hugeFrames
          omega
        · intro i hi
          rw [h.bits, div_hf_mul_add c.geom hHF j i hi]
          simp; exact a
      · rw [if_neg a] at hm; simp [Huge.isHuge, HugeMarker] at hm
    count := by
      intro j hj hm
      rw [hentry j] at hm ⊢
      by_cases a : j < c.frames / c.geom.hugeFrames
      · rw [if_pos a] at hm; simp [Huge.isHuge, HugeMarker] at hm
      · rw [if_neg a]
        unfold zerosIn
        symm
        rw [List.countP_eq_zero]
        intro i hi
        have hi' := List.mem_range.1 hi
        rw [h.bits, div_hf_mul_add c.geom hHF j i hi']
        simp; omega
    outside := by
      intro f hf
      rw [h.bits]
      have : c.frames / c.geom.hugeFrames ≤ f / c.geom.hugeFrames := Nat.div_le_div_right hf
      simp [this] }

/-- **`Lower::reserve_all`** from any buffer contents, for every frame count -/
theorem reserveAll_spec (ok : GeomOk16 c.geom) (m : Mem) (hs : ShapeOk c m) :
    Runs m (Lower.reserveAll c.geom c.frames c.ntrees c.nhuge) (fun _ m' => FreshAlloc c m m') := by
  have okg := ok.toGeomOk
  have hHF := okg.hf_pos
  have hTH := okg.th_pos
  have hnh : c.nhuge ≤ c.ntrees * c.geom.treeHuge := okg.ceil_hf_le c.frames
  have hfloor : c.frames / c.geom.hugeFrames ≤ c.nhuge := by
    unfold Cfg.nhuge; exact Nat.div_le_div_right (by omega)
  unfold Lower.reserveAll
  by_cases hnt : c.ntrees = 0
  · simp only [hnt, if_true]
    apply Runs.pure
    have hf0 : c.frames = 0 := by
      have htf := okg.tf_pos
      unfold Cfg.ntrees at hnt
      rcases Nat.div_eq_zero_iff.1 hnt with h | h <;> omega
    have hr0 : m.rows.size = 0 := by
      rw [hs.rows]
      have : c.nhuge = 0 := by unfold Cfg.nhuge; rw [hf0]; exact Nat.div_eq_of_lt (by omega)
      rw [this]; simp
    refine ⟨rfl, rfl, rfl, rfl, ?_, ?_⟩
    · intro j hj; rw [hnt] at hj; simp at hj
    · intro f
      unfold Mem.bit
      rw [Array.getElem?_eq_none (by omega)]
      simp [hf0]
  · simp only [hnt, if_false]
    have hhsz : m.huge.size = c.ntrees * c.geom.treeHuge := hs.huge
    have hsplit : (c.ntrees - 1) * c.geom.treeHuge + c.geom.treeHuge = c.ntrees * c.geom.treeHuge := by
      have : c.ntrees = (c.ntrees - 1) + 1 := by omega
      conv => rhs; rw [this, Nat.add_mul, Nat.one_mul]
    -- frames lie in the last tree: (nt-1)*tf < frames ≤ nt*tf
    have htf := okg.tf_pos
    have h3 : c.ntrees = (c.frames + c.geom.treeFrames - 1) / c.geom.treeFrames := rfl
    have h4 := Nat.div_mul_le_self (c.frames + c.geom.treeFrames - 1) c.geom.treeFrames
    have h4' := Nat.lt_mul_div_succ (c.frames + c.geom.treeFrames - 1) htf
    rw [← h3] at h4 h4'
    have h5 : (c.ntrees - 1) * c.geom.treeFrames + c.geom.treeFrames = c.ntrees * c.geom.treeFrames := by
      have : c.ntrees = (c.ntrees - 1) + 1 := by omega
      conv => rhs; rw [this, Nat.add_mul, Nat.one_mul]
    have hlow : (c.ntrees - 1) * c.geom.treeFrames < c.frames := by omega
    have hhigh : c.frames ≤ c.ntrees * c.geom.treeFrames := by
      rw [Nat.mul_comm, Nat.add_mul, Nat.one_mul] at h4'
      omega
    have h6 : ∀ x, x * c.geom.treeHuge * c.geom.hugeFrames = x * c.geom.treeFrames := by
      intro x; show _ = x * (c.geom.treeHuge * c.geom.hugeFrames); rw [Nat.mul_assoc]
    have hL1 : (c.ntrees - 1) * c.geom.treeHuge ≤ c.frames / c.geom.hugeFrames := by
      apply (Nat.le_div_iff_mul_le hHF).2
      rw [h6]; omega
    have hL2 : c.frames / c.geom.hugeFrames ≤ c.ntrees * c.geom.treeHuge := by
      apply Nat.le_of_lt_succ
      apply (Nat.div_lt_iff_lt_mul hHF).2
      rw [Nat.succ_mul, h6]; omega
    apply Runs.bind (storeHugeRange_spec HugeMarker ((c.ntrees - 1) * c.geom.treeHuge) (hugeIdx c.geom 0 0) m
      (by simp only [hugeIdx]; omega))
    rintro _ m1 ⟨ho1, he1⟩
    have hnp1 : ¬ (c.frames / c.geom.hugeFrames < (c.ntrees - 1) * c.geom.treeHuge) := by omega
    simp only [hnp1, if_false]
    have hnp2 : ¬ (c.frames / c.geom.hugeFrames - (c.ntrees - 1) * c.geom.treeHuge > c.geom.treeHuge) := by omega
    simp only [hnp2, if_false]
    generalize hLI : c.frames / c.geom.hugeFrames - (c.ntrees - 1) * c.geom.treeHuge = lastI at *
    apply Runs.bind (storeHugeRange_spec HugeMarker lastI (hugeIdx c.geom (c.ntrees - 1) 0) m1
      (by simp only [hugeIdx]; rw [ho1.1]; omega))
    rintro _ m2 ⟨ho2, he2⟩
    apply Runs.bind (storeHugeRange_spec (Huge.newWith 0) (c.geom.treeHuge - lastI) (hugeIdx c.geom (c.ntrees - 1) lastI) m2
      (by simp only [hugeIdx]; rw [ho2.1, ho1.1]; omega))
    rintro _ m3 ⟨ho3, he3⟩
    have hnp3 : ¬ (c.frames / c.geom.hugeFrames > c.nhuge) := by omega
    simp only [hnp3, if_false]
    have hrsz3 : m3.rows.size = c.nhuge * c.geom.rows := by rw [ho3.2.1, ho2.2.1, ho1.2.1]; exact hs.rows
    apply Runs.bind (fillBitfields_spec okg false (c.frames / c.geom.hugeFrames) 0 m3
      (by rw [hrsz3, Nat.zero_add]; exact Nat.mul_le_mul_right _ hfloor))
    rintro _ m4 ⟨ro4, hb4⟩
    apply Runs.mono (fillBitfields_spec okg true (c.nhuge - c.frames / c.geom.hugeFrames) (c.frames / c.geom.hugeFrames) m4
      (by rw [ro4.1, hrsz3]; apply Nat.mul_le_mul_right; omega))
    rintro _ m5 ⟨ro5, hb5⟩
    refine ⟨by rw [ro5.1, ro4.1, ho3.2.1, ho2.2.1, ho1.2.1], by rw [ro5.2.1, ro4.2.1, ho3.1, ho2.1, ho1.1],
      by rw [ro5.2.2.1, ro4.2.2.1, ho3.2.2.1, ho2.2.2.1, ho1.2.2.1], by rw [ro5.2.2.2, ro4.2.2.2, ho3.2.2.2, ho2.2.2.2, ho1.2.2.2], ?_, ?_⟩
    · intro j hj
      have e5 : m5.hugeE j = m3.hugeE j := by unfold Mem.hugeE; rw [ro5.2.1, ro4.2.1]
      rw [e5, he3 j, he2 j, he1 j]
      simp only [hugeIdx]
      have hnw0 : Huge.newWith 0 = 0 := rfl
      by_cases a : j < c.frames / c.geom.hugeFrames
      · rw [if_pos a]
        have c3 : ¬ ((c.ntrees - 1) * c.geom.treeHuge + lastI ≤ j ∧ j < (c.ntrees - 1) * c.geom.treeHuge + lastI + (c.geom.treeHuge - lastI)) := by omega
        rw [if_neg c3]
        by_cases b : (c.ntrees - 1) * c.geom.treeHuge + 0 ≤ j ∧ j < (c.ntrees - 1) * c.geom.treeHuge + 0 + lastI
        · rw [if_pos b]
        · rw [if_neg b]
          have c1 : 0 * c.geom.treeHuge + 0 ≤ j ∧ j < 0 * c.geom.treeHuge + 0 + (c.ntrees - 1) * c.geom.treeHuge := by omega
          rw [if_pos c1]
      · rw [if_neg a]
        have c3 : (c.ntrees - 1) * c.geom.treeHuge + lastI ≤ j ∧ j < (c.ntrees - 1) * c.geom.treeHuge + lastI + (c.geom.treeHuge - lastI) := by omega
        rw [if_pos c3, hnw0]
    · intro f
      rw [hb5 f, hb4 f]
      have hmiss : c.nhuge ≤ f / c.geom.hugeFrames → m3.bit f = true := by
        intro hf
        unfold Mem.bit
        have : m3.rows.size ≤ f / 64 := by
          rw [hrsz3]
          have h1 : c.nhuge * c.geom.rows ≤ f / c.geom.hugeFrames * c.geom.rows := Nat.mul_le_mul_right _ hf
          have h2 := Nat.div_mul_le_self (f / 64) c.geom.rows
          rw [div64_div_rows okg f] at h2
          omega
        rw [Array.getElem?_eq_none this]
      generalize f / c.geom.hugeFrames = F at *
      generalize c.frames / c.geom.hugeFrames = L at *
      by_cases a : L ≤ F
      · by_cases b : F < L + (c.nhuge - L)
        · have c1 : L ≤ F ∧ F < L + (c.nhuge - L) := ⟨a, b⟩
          rw [if_pos c1]; simp [a]
        · have c1 : ¬ (L ≤ F ∧ F < L + (c.nhuge - L)) := fun x => b x.2
          have c2 : ¬ (0 ≤ F ∧ F < 0 + L) := by omega
          rw [if_neg c1, if_neg c2, hmiss (by omega)]; simp [a]
      · have c1 : ¬ (L ≤ F ∧ F < L + (c.nhuge - L)) := fun x => a x.1
        have c2 : 0 ≤ F ∧ F < 0 + L := by omega
        rw [if_neg c1, if_pos c2]; simp [a]

theorem reserveAll_lowerInv (ok : GeomOk16 c.geom) (m : Mem) (hs : ShapeOk c m) :
    Runs m (Lower.reserveAll c.geom c.frames c.ntrees c.nhuge) (fun _ m' => LowerInv c m' ∧ FreshAlloc c m m') :=
  (reserveAll_spec ok m hs).mono (fun _ m' h => ⟨h.lowerInv ok m m' hs, h⟩)

end
end LLFree
