/-
  The visiting order of `Trees::search` / `search_best` reaches every tree.
-/
import LLFreeV.Model.Upper
namespace LLFree

/-- the natural-number value of the scan index when nothing wraps -/
theorem searchIdx_nat (start n i : Nat) (hs : start < n) (hi : i < n) (h64 : start + n + i < 2 ^ 64) :
    searchIdx start n i = (if i % 2 = 0 then start + n + i / 2 else start + n - (i + 1) / 2) % n := by
  unfold searchIdx
  by_cases he : i % 2 = 0
  · simp only [he, if_true]
    have e : (((start + n : Nat) : Int) + ((i / 2 : Nat) : Int)) = ((start + n + i / 2 : Nat) : Int) := by omega
    rw [e]
    have hmod : ((start + n + i / 2 : Nat) : Int) % (2 ^ 64 : Int) = ((start + n + i / 2 : Nat) : Int) := by
      apply Int.emod_eq_of_lt <;> omega
    rw [hmod, Int.toNat_natCast]
  · simp only [he, if_false]
    have e : (((start + n : Nat) : Int) + -(((i + 1) / 2 : Nat) : Int)) = ((start + n - (i + 1) / 2 : Nat) : Int) := by omega
    rw [e]
    have hmod : ((start + n - (i + 1) / 2 : Nat) : Int) % (2 ^ 64 : Int) = ((start + n - (i + 1) / 2 : Nat) : Int) := by
      apply Int.emod_eq_of_lt <;> omega
    rw [hmod, Int.toNat_natCast]

theorem search_visits_all (start n : Nat) (hs : start < n) (h64 : start + 2 * n < 2 ^ 64) (j : Nat) (hj : j < n) :
    ∃ i, i < n ∧ searchIdx start n i = j := by
  -- forward distance from start to j
  by_cases hfw : start ≤ j
  · -- d = j - start
    by_cases hd : 2 * (j - start) < n
    · refine ⟨2 * (j - start), hd, ?_⟩
      rw [searchIdx_nat start n _ hs hd (by omega)]
      have h1 : 2 * (j - start) % 2 = 0 := by omega
      have h2 : 2 * (j - start) / 2 = j - start := by omega
      simp only [h1, if_true, h2]
      rw [show start + n + (j - start) = j + n by omega, Nat.add_mod_right, Nat.mod_eq_of_lt hj]
    · -- go backwards by b = n - (j - start)
      have hb : 2 * (n - (j - start)) - 1 < n := by omega
      refine ⟨2 * (n - (j - start)) - 1, hb, ?_⟩
      rw [searchIdx_nat start n _ hs hb (by omega)]
      have h1 : ¬ (2 * (n - (j - start)) - 1) % 2 = 0 := by omega
      have h2 : (2 * (n - (j - start)) - 1 + 1) / 2 = n - (j - start) := by omega
      simp only [h1, if_false, h2]
      rw [show start + n - (n - (j - start)) = j by omega, Nat.mod_eq_of_lt hj]
  · -- j < start: backward distance b = start - j, forward distance n - b
    by_cases hd : 2 * (start - j) - 1 < n ∧ 2 * (start - j) ≤ n
    · refine ⟨2 * (start - j) - 1, hd.1, ?_⟩
      rw [searchIdx_nat start n _ hs hd.1 (by omega)]
      have h1 : ¬ (2 * (start - j) - 1) % 2 = 0 := by omega
      have h2 : (2 * (start - j) - 1 + 1) / 2 = start - j := by omega
      simp only [h1, if_false, h2]
      rw [show start + n - (start - j) = j + n by omega, Nat.add_mod_right, Nat.mod_eq_of_lt hj]
    · have hf : 2 * (n - (start - j)) < n := by omega
      refine ⟨2 * (n - (start - j)), hf, ?_⟩
      rw [searchIdx_nat start n _ hs hf (by omega)]
      have h1 : 2 * (n - (start - j)) % 2 = 0 := by omega
      have h2 : 2 * (n - (start - j)) / 2 = n - (start - j) := by omega
      simp only [h1, if_true, h2]
      rw [show start + n + (n - (start - j)) = j + n + n by omega, Nat.add_mod_right, Nat.add_mod_right, Nat.mod_eq_of_lt hj]

end LLFree
