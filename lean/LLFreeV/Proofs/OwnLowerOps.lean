/-
  The bitfield operations in the lower-level protocol (`SafeL`), obtained from the bitfield-level
  ownership proofs by `SafeR.lift`: allocation needs an account of `2^order` frames on the huge
  frame and consumes it; free refills it.
-/
import LLFreeV.Proofs.OwnLift
import LLFreeV.Proofs.OwnSearch
namespace LLFree
open Prog

theorem Gh.ext' (a b : Gh) (h1 : a.ownS = b.ownS) (h2 : a.ownH = b.ownH) (h3 : ∀ x, a.u x = b.u x) : a = b := by
  cases a; cases b; simp only [Gh.mk.injEq]; exact ⟨h1, h2, funext h3⟩

/-- ghost after an allocation of the block `F .. F+n` of huge frame `h` as bits, paid from the account -/
def AllocL (gh : Gh) (h F n : Nat) (gh' : Gh) : Prop :=
  gh'.ownS = addBlock gh.ownS F n ∧ (∀ f, inBlockF F n f = true → gh.ownS f = false) ∧ gh'.ownH = gh.ownH ∧
  gh'.u h + n = gh.u h ∧ ∀ x, x ≠ h → gh'.u x = gh.u x

/-- ghost after a free of the held block: its frames go to the account -/
def FreeL (gh : Gh) (h F n : Nat) (gh' : Gh) : Prop :=
  gh'.ownS = subBlock gh.ownS F n ∧ gh'.ownH = gh.ownH ∧ gh'.u h = gh.u h + n ∧ ∀ x, x ≠ h → gh'.u x = gh.u x

section
variable {g : Geom} {strict : Bool}

/-- an aligned block of an order up to the huge order lies inside its huge frame -/
theorem aligned_fits (okg : GeomOk g) (o order : Nat) (hoh : order ≤ g.hugeOrder) (holt : o < g.hugeFrames)
    (hal : o % 2 ^ order = 0) : o + 2 ^ order ≤ g.hugeFrames := by
  have hsplit : g.hugeFrames = 2 ^ order * 2 ^ (g.hugeOrder - order) := by
    show 2 ^ g.hugeOrder = _
    rw [← Nat.pow_add]; congr 1; omega
  obtain ⟨q, hq⟩ := Nat.dvd_of_mod_eq_zero hal
  rw [hsplit, hq] at holt ⊢
  have hpos : 0 < 2 ^ order := Nat.pos_of_ne_zero (by simp)
  have : q < 2 ^ (g.hugeOrder - order) := Nat.lt_of_mul_lt_mul_left holt
  have : 2 ^ order * (q + 1) ≤ 2 ^ order * 2 ^ (g.hugeOrder - order) := Nat.mul_le_mul_left _ this
  rw [Nat.mul_add, Nat.mul_one] at this; exact this

theorem liftGh_alloc (gh : Gh) (h off n : Nat) (hfit : off + n ≤ g.hugeFrames) (hbud : n ≤ gh.u h)
    (hnone : ∀ f, inBlockF (h * g.hugeFrames + off) n f = true → gh.ownS f = false) :
    AllocL gh h (h * g.hugeFrames + off) n (liftGh g gh (addBlock gh.ownS (h * g.hugeFrames + off) n)) := by
  refine ⟨rfl, hnone, rfl, ?_, ?_⟩
  · show gh.u h + cntH g gh.ownS h - cntH g (addBlock gh.ownS _ n) h + n = gh.u h
    rw [cntH_addBlock gh.ownS h off n hfit hnone h, if_pos rfl]; omega
  · intro x hx
    show gh.u x + cntH g gh.ownS x - cntH g (addBlock gh.ownS _ n) x = gh.u x
    rw [cntH_addBlock gh.ownS h off n hfit hnone x, if_neg hx]; omega

theorem liftGh_free (gh : Gh) (h off n : Nat) (hfit : off + n ≤ g.hugeFrames)
    (hall : ∀ f, inBlockF (h * g.hugeFrames + off) n f = true → gh.ownS f = true) :
    FreeL gh h (h * g.hugeFrames + off) n (liftGh g gh (subBlock gh.ownS (h * g.hugeFrames + off) n)) := by
  refine ⟨rfl, rfl, ?_, ?_⟩
  · show gh.u h + cntH g gh.ownS h - cntH g (subBlock gh.ownS _ n) h = gh.u h + n
    have := cntH_subBlock gh.ownS h off n hfit hall h
    rw [if_pos rfl] at this; omega
  · intro x hx
    show gh.u x + cntH g gh.ownS x - cntH g (subBlock gh.ownS _ n) x = gh.u x
    have := cntH_subBlock gh.ownS h off n hfit hall x
    rw [if_neg hx] at this; omega

/-- **`toggle` (allocation) in the lower-level protocol** -/
theorem toggleL_alloc (okg : GeomOk g) (gh : Gh) (h i order : Nat) (hoh : order ≤ g.hugeOrder)
    (hal : (i % g.hugeFrames) % 2 ^ order = 0) (hbud : 2 ^ order ≤ gh.u h) :
    SafeL strict g (fun r gh' => match r with
        | .ok _ => AllocL gh h (h * g.hugeFrames + i % g.hugeFrames) (2 ^ order) gh'
        | .error e => e = .memory ∧ gh' = gh) gh (Bitfield.toggle g h i order false) := by
  have hfit := aligned_fits okg (i % g.hugeFrames) order hoh (Nat.mod_lt _ okg.hf_pos) hal
  have key := SafeR.lift (strict := strict) okg gh
    (fun o => Between gh.ownS (addBlock gh.ownS (h * g.hugeFrames + i % g.hugeFrames) (2 ^ order)) o)
    (fun o ho x => by
      have := cntH_between_add gh.ownS o h (i % g.hugeFrames) (2 ^ order) hfit ho x
      by_cases e : x = h
      · subst e; rw [if_pos rfl] at this; omega
      · rw [if_neg e] at this; omega)
    _ _ gh.ownS (Covered.self gh) (toggle_alloc_safe _ okg gh.ownS h i order hoh hal (fun _ ho => ho))
  rw [liftGh_self] at key
  apply SafeL.mono _ _ _ key
  intro r gh' ⟨o', _, hgh, hp⟩
  cases r with
  | ok u =>
    obtain ⟨h1, h2⟩ := hp
    rw [hgh, h1]
    exact liftGh_alloc gh h _ _ hfit hbud h2
  | error e =>
    obtain ⟨h1, h2⟩ := hp
    exact ⟨h1, by rw [hgh, h2, liftGh_self]⟩

/-- **`toggle` (free of a held block) in the lower-level protocol**: cannot fail -/
theorem toggleL_free (okg : GeomOk g) (gh : Gh) (h i order : Nat) (hoh : order ≤ g.hugeOrder)
    (hal : (i % g.hugeFrames) % 2 ^ order = 0)
    (hown : ∀ f, inBlockF (h * g.hugeFrames + i % g.hugeFrames) (2 ^ order) f = true → gh.ownS f = true) :
    SafeL strict g (fun r gh' => match r with
        | .ok _ => FreeL gh h (h * g.hugeFrames + i % g.hugeFrames) (2 ^ order) gh'
        | .error _ => False) gh (Bitfield.toggle g h i order true) := by
  have hfit := aligned_fits okg (i % g.hugeFrames) order hoh (Nat.mod_lt _ okg.hf_pos) hal
  have key := SafeR.lift (strict := strict) okg gh
    (fun o => Between (subBlock gh.ownS (h * g.hugeFrames + i % g.hugeFrames) (2 ^ order)) gh.ownS o)
    (fun o ho x => by have := cntH_between_sub (g := g) gh.ownS o _ ho x; omega)
    _ _ gh.ownS (Covered.self gh) (toggle_free_safe _ okg gh.ownS h i order hoh hal hown (fun _ ho => ho))
  rw [liftGh_self] at key
  apply SafeL.mono _ _ _ key
  intro r gh' ⟨o', _, hgh, hp⟩
  cases r with
  | ok u =>
    have h1 : o' = subBlock gh.ownS _ _ := hp
    rw [hgh, h1]
    exact liftGh_free gh h _ _ hfit hown
  | error e => exact hp

/-- **`set_first_zeros` in the lower-level protocol** -/
theorem setFirstZerosL (okg : GeomOk g) (gh : Gh) (h startRow order : Nat) (hoh : order ≤ g.hugeOrder)
    (hbud : 2 ^ order ≤ gh.u h) :
    SafeL strict g (fun r gh' => match r with
        | .ok off => off % 2 ^ order = 0 ∧ off + 2 ^ order ≤ g.hugeFrames ∧
            AllocL gh h (h * g.hugeFrames + off) (2 ^ order) gh'
        | .error e => e = .memory ∧ gh' = gh) gh (Bitfield.setFirstZeros g h startRow order) := by
  have key := SafeR.lift (strict := strict) okg gh
    (fun o => ∃ off, off + 2 ^ order ≤ g.hugeFrames ∧ Between gh.ownS (addBlock gh.ownS (h * g.hugeFrames + off) (2 ^ order)) o)
    (fun o ⟨off, hfit, ho⟩ x => by
      have := cntH_between_add gh.ownS o h off (2 ^ order) hfit ho x
      by_cases e : x = h
      · subst e; rw [if_pos rfl] at this; omega
      · rw [if_neg e] at this; omega)
    _ _ gh.ownS (Covered.self gh) (setFirstZeros_safe _ okg gh.ownS h startRow order hoh (fun off o hfit ho => ⟨off, hfit, ho⟩))
  rw [liftGh_self] at key
  apply SafeL.mono _ _ _ key
  intro r gh' ⟨o', _, hgh, hp⟩
  cases r with
  | ok off =>
    obtain ⟨h1, h2, h3, h4⟩ := hp
    refine ⟨h1, h2, ?_⟩
    rw [hgh, h3]
    exact liftGh_alloc gh h _ _ h2 hbud h4
  | error e =>
    obtain ⟨h1, h2⟩ := hp
    exact ⟨h1, by rw [hgh, h2, liftGh_self]⟩

end
end LLFree
