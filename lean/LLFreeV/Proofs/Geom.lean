/-
  Arithmetic of the geometry.
-/
import LLFreeV.Model.Base
namespace LLFree

/-- the geometries the crate can be compiled for: `HUGE_ORDER ≥ 6`, `TREE_HUGE = 2^k` -/
structure GeomOk (g : Geom) : Prop where
  ho : 6 ≤ g.hugeOrder
  th : ∃ k, g.treeHuge = 2 ^ k

namespace GeomOk
variable {g : Geom} (ok : GeomOk g)
include ok

theorem hf_eq : g.hugeFrames = 2 ^ (g.hugeOrder - 6) * 64 := by
  show 2 ^ g.hugeOrder = _
  have : (64 : Nat) = 2 ^ 6 := rfl
  rw [this, ← Nat.pow_add]; congr 1; have := ok.ho; omega

theorem rows_eq : g.rows = 2 ^ (g.hugeOrder - 6) := by
  show 2 ^ g.hugeOrder / 64 = _
  have h := ok.hf_eq
  show g.hugeFrames / 64 = _
  rw [h, Nat.mul_div_cancel _ (by decide : 0 < 64)]

theorem rows_mul : g.rows * 64 = g.hugeFrames := by
  rw [ok.rows_eq, ← ok.hf_eq]

theorem rows_pos : 0 < g.rows := by
  rw [ok.rows_eq]; exact Nat.pos_of_ne_zero (by simp)

theorem hf_pos : 0 < g.hugeFrames := Nat.pos_of_ne_zero (by simp [Geom.hugeFrames])

theorem th_pos : 0 < g.treeHuge := by
  obtain ⟨k, hk⟩ := ok.th; rw [hk]; exact Nat.pos_of_ne_zero (by simp)

theorem tf_eq : g.treeFrames = g.treeHuge * g.hugeFrames := rfl

theorem tf_pos : 0 < g.treeFrames := Nat.mul_pos ok.th_pos ok.hf_pos

theorem treeRows_mul : g.treeRows * 64 = g.treeFrames := by
  show g.treeHuge * g.rows * 64 = g.treeHuge * g.hugeFrames
  rw [Nat.mul_assoc, ok.rows_mul]

/-- frame `h * HF + o` lives in row `h * rows + o / 64`, bit `o % 64` -/
theorem frame_row (h o : Nat) : (h * g.hugeFrames + o) / 64 = h * g.rows + o / 64 := by
  rw [← ok.rows_mul, ← Nat.mul_assoc, Nat.add_comm, Nat.add_mul_div_right _ _ (by decide : 0 < 64), Nat.add_comm]

theorem frame_bit (h o : Nat) : (h * g.hugeFrames + o) % 64 = o % 64 := by
  rw [← ok.rows_mul, ← Nat.mul_assoc, Nat.add_comm, Nat.add_mul_mod_self_right]

theorem mod_hf_div (i : Nat) : (i % g.hugeFrames) / 64 = (i / 64) % g.rows := by
  rw [← ok.rows_mul, Nat.mul_comm, Nat.mod_mul_right_div_self]

theorem mod_hf_mod (i : Nat) : (i % g.hugeFrames) % 64 = i % 64 := by
  rw [← ok.rows_mul]
  exact Nat.mod_mod_of_dvd _ (Nat.dvd_mul_left 64 g.rows)

end GeomOk
end LLFree
