/-
  Arithmetic of the geometry.
-/
import LLFreeV.Model.Base
namespace LLFree

/-- the geometries the crate can be compiled for: `HUGE_ORDER ≥ 6`, `TREE_HUGE = 2^k` -/
structure GeomOk (g : Geom) : Prop where
  ho : 6 ≤ g.hugeOrder
  th : ∃ k, g.treeHuge = 2 ^ k

namespace GeomOk
variable {g : Geom} (ok : GeomOk g)
include ok

theorem hf_eq : g.hugeFrames = 2 ^ (g.hugeOrder - 6) * 64 := by
  show 2 ^ g.hugeOrder = _
  have : (64 : Nat) = 2 ^ 6 := rfl
  rw [this, ← Nat.pow_add]; congr 1; have := ok.ho; omega

theorem rows_eq : g.rows = 2 ^ (g.hugeOrder - 6) := by
  show 2 ^ g.hugeOrder / 64 = _
  have h := ok.hf_eq
  show g.hugeFrames / 64 = _
  rw [h, Nat.mul_div_cancel _ (by decide : 0 < 64)]

theorem rows_mul : g.rows * 64 = g.hugeFrames := by
  rw [ok.rows_eq, ← ok.hf_eq]

theorem rows_pos : 0 < g.rows := by
  rw [ok.rows_eq]; exact Nat.pos_of_ne_zero (by simp)

theorem hf_pos : 0 < g.hugeFrames := Nat.pos_of_ne_zero (by simp [Geom.hugeFrames])

theorem th_pos : 0 < g.treeHuge := by
  obtain ⟨k, hk⟩ := ok.th; rw [hk]; exact Nat.pos_of_ne_zero (by simp)

theorem tf_eq : g.treeFrames = g.treeHuge * g.hugeFrames := rfl

theorem tf_pos : 0 < g.treeFrames := Nat.mul_pos ok.th_pos ok.hf_pos

theorem treeRows_mul : g.treeRows * 64 = g.treeFrames := by
  show g.treeHuge * g.rows * 64 = g.treeHuge * g.hugeFrames
  rw [Nat.mul_assoc, ok.rows_mul]

/-- frame `h * HF + o` lives in row `h * rows + o / 64`, bit `o % 64` -/
theorem frame_row (h o : Nat) : (h * g.hugeFrames + o) / 64 = h * g.rows + o / 64 := by
  rw [← ok.rows_mul, ← Nat.mul_assoc, Nat.add_comm, Nat.add_mul_div_right _ _ (by decide : 0 < 64), Nat.add_comm]

theorem frame_bit (h o : Nat) : (h * g.hugeFrames + o) % 64 = o % 64 := by
  rw [← ok.rows_mul, ← Nat.mul_assoc, Nat.add_comm, Nat.add_mul_mod_self_right]

theorem mod_hf_div (i : Nat) : (i % g.hugeFrames) / 64 = (i / 64) % g.rows := by
  rw [← ok.rows_mul, Nat.mul_comm, Nat.mod_mul_right_div_self]

theorem mod_hf_mod (i : Nat) : (i % g.hugeFrames) % 64 = i % 64 := by
  rw [← ok.rows_mul]
  exact Nat.mod_mod_of_dvd _ (Nat.dvd_mul_left 64 g.rows)

end GeomOk
end LLFree

namespace LLFree
namespace GeomOk
variable {g : Geom} (ok : GeomOk g)
include ok

/-- the table index of the huge frame containing `frame` is its global huge index -/
theorem hugeIdx_eq (frame : Nat) :
    (frame / g.treeFrames) * g.treeHuge + (frame / g.hugeFrames) % g.treeHuge = frame / g.hugeFrames := by
  have : frame / g.treeFrames = frame / g.hugeFrames / g.treeHuge := by
    rw [Nat.div_div_eq_div_mul, ok.tf_eq, Nat.mul_comm]
  rw [this]
  exact Nat.div_add_mod' _ _

theorem ceil_hf_le (frames : Nat) :
    (frames + g.hugeFrames - 1) / g.hugeFrames ≤ (frames + g.treeFrames - 1) / g.treeFrames * g.treeHuge := by
  have hth := ok.th_pos
  have hhf := ok.hf_pos
  -- let T = ceil(frames / TF); frames ≤ T * TF = T * TH * HF, hence ceil(frames / HF) ≤ T * TH
  have hT : frames ≤ (frames + g.treeFrames - 1) / g.treeFrames * g.treeFrames := by
    have := Nat.lt_mul_div_succ (frames + g.treeFrames - 1) ok.tf_pos
    rw [Nat.mul_comm, Nat.add_mul, Nat.one_mul] at this
    omega
  have : (frames + g.hugeFrames - 1) / g.hugeFrames < (frames + g.treeFrames - 1) / g.treeFrames * g.treeHuge + 1 := by
    apply (Nat.div_lt_iff_lt_mul hhf).2
    rw [Nat.add_mul, Nat.one_mul, Nat.mul_assoc, ← ok.tf_eq]
    omega
  omega

end GeomOk
end LLFree

namespace LLFree
namespace GeomOk
variable {g : Geom} (ok : GeomOk g)
include ok

/-- `TREE_ORDER = HUGE_ORDER + log2 TREE_HUGE` -/
theorem treeOrder_eq : ∃ k, g.treeHuge = 2 ^ k ∧ g.treeOrder = k + g.hugeOrder := by
  obtain ⟨k, hk⟩ := ok.th
  refine ⟨k, hk, ?_⟩
  show Nat.log2 (g.treeHuge * 2 ^ g.hugeOrder) = _
  rw [hk, ← Nat.pow_add, Nat.log2_two_pow]

/-- an aligned block of huge order `order ≤ TREE_ORDER` covers `2^(order - HO)` consecutive
    table entries of one tree -/
theorem huge_block_fits (frame order : Nat) (ho : g.hugeOrder ≤ order) (hto : order ≤ g.treeOrder)
    (hal : frame % 2 ^ order = 0) :
    (frame / g.hugeFrames) % g.treeHuge + 2 ^ (order - g.hugeOrder) ≤ g.treeHuge ∧
    (frame / g.hugeFrames) % 2 ^ (order - g.hugeOrder) = 0 := by
  obtain ⟨k, hk, hto'⟩ := ok.treeOrder_eq
  have hn : 2 ^ order = 2 ^ (order - g.hugeOrder) * g.hugeFrames := by
    show _ = _ * 2 ^ g.hugeOrder
    rw [← Nat.pow_add]; congr 1; omega
  -- frame / HF is a multiple of n = 2^(order - HO)
  have hdvd : 2 ^ (order - g.hugeOrder) ∣ frame / g.hugeFrames := by
    obtain ⟨q, hq⟩ := Nat.dvd_of_mod_eq_zero hal
    refine ⟨q, ?_⟩
    rw [hq, hn, Nat.mul_assoc, Nat.mul_comm g.hugeFrames q, ← Nat.mul_assoc, Nat.mul_div_cancel _ ok.hf_pos]
  have hTH : g.treeHuge = 2 ^ (k - (order - g.hugeOrder)) * 2 ^ (order - g.hugeOrder) := by
    rw [hk, ← Nat.pow_add]; congr 1; omega
  have hdvdTH : 2 ^ (order - g.hugeOrder) ∣ g.treeHuge := ⟨2 ^ (k - (order - g.hugeOrder)), by rw [Nat.mul_comm]; exact hTH⟩
  have hdvdmod : 2 ^ (order - g.hugeOrder) ∣ (frame / g.hugeFrames) % g.treeHuge := (Nat.dvd_mod_iff hdvdTH).2 hdvd
  refine ⟨?_, Nat.mod_eq_zero_of_dvd hdvd⟩
  obtain ⟨q, hq⟩ := hdvdmod
  have hlt : (frame / g.hugeFrames) % g.treeHuge < g.treeHuge := Nat.mod_lt _ ok.th_pos
  rw [hq] at hlt ⊢
  rw [hTH] at hlt ⊢
  have hq' : q < 2 ^ (k - (order - g.hugeOrder)) := by
    rw [Nat.mul_comm] at hlt
    exact Nat.lt_of_mul_lt_mul_right hlt
  have : (q + 1) * 2 ^ (order - g.hugeOrder) ≤ 2 ^ (k - (order - g.hugeOrder)) * 2 ^ (order - g.hugeOrder) :=
    Nat.mul_le_mul_right _ hq'
  rw [Nat.add_mul, Nat.one_mul, Nat.mul_comm q] at this
  exact this

end GeomOk
end LLFree
