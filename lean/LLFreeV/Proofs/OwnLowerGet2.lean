/-
  `Lower::get_at` and `Lower::put` of one thread among many (`SafeL`).
-/
import LLFreeV.Proofs.OwnLowerGet
namespace LLFree
open Prog

section
variable {g : Geom} {strict : Bool}

theorem aligned_mod_hf (okg : GeomOk g) (frame order : Nat) (ho : order ≤ g.hugeOrder) (hal : frame % 2 ^ order = 0) :
    (frame % g.hugeFrames) % 2 ^ order = 0 := by
  have hd : 2 ^ order ∣ g.hugeFrames := ⟨2 ^ (g.hugeOrder - order), by
    show 2 ^ g.hugeOrder = _
    rw [← Nat.pow_add]; congr 1; omega⟩
  rw [Nat.mod_mod_of_dvd _ hd]; exact hal

theorem frame_split (frame : Nat) : frame / g.hugeFrames * g.hugeFrames + frame % g.hugeFrames = frame := by
  have := Nat.div_add_mod frame g.hugeFrames; rw [Nat.mul_comm] at this; exact this

theorem addS_of_AllocL (gh gh' : Gh) (H F n : Nat) (h : AllocL (gh.addU H n) H F n gh') : gh' = gh.addS F n := by
  obtain ⟨h1, _, h3, h4, h5⟩ := h
  refine Gh.ext' _ _ h1 h3 ?_
  intro x
  by_cases e : x = H
  · subst e
    have : (gh.addU x n).u x = gh.u x + n := by show (if x = x then gh.u x + n else gh.u x) = _; rw [if_pos rfl]
    rw [this] at h4
    show gh'.u x = gh.u x; omega
  · rw [h5 x e]
    show (if x = H then gh.u x + n else gh.u x) = gh.u x
    rw [if_neg e]

/-- **`Lower::get_at`, small orders** -/
theorem getAtL_small (ok : GeomOk16 g) (gh : Gh) (frame order : Nat) (ho : order < g.hugeOrder) (hal : frame % 2 ^ order = 0) :
    SafeL strict g (fun r gh' => match r with
        | .ok _ => gh' = gh.addS frame (2 ^ order) ∧ ∀ f, inBlockF frame (2 ^ order) f = true → gh.ownS f = false
        | .error e => e = .memory ∧ gh' = gh) gh (Lower.getAt g frame order) := by
  have okg := ok.toGeomOk
  unfold Lower.getAt
  have hno : ¬ order ≥ g.hugeOrder := by omega
  simp only [hno, if_false, hugeIdx, okg.hugeIdx_eq frame]
  have hpos : 0 < 2 ^ order := Nat.pos_of_ne_zero (by simp)
  apply SafeL.bind _ _ _ (decL ok gh (frame / g.hugeFrames) (2 ^ order))
  intro r gh1 h1
  cases r with
  | error e =>
    simp only at h1
    subst h1
    exact ⟨rfl, rfl⟩
  | ok o =>
    simp only at h1
    subst h1
    simp only
    have halm := aligned_mod_hf okg frame order (by omega) hal
    apply SafeL.bind _ _ _ (toggleL_alloc okg (gh.addU (frame / g.hugeFrames) (2 ^ order)) (frame / g.hugeFrames) frame order (by omega) halm
      (by show 2 ^ order ≤ (if frame / g.hugeFrames = frame / g.hugeFrames then gh.u _ + 2 ^ order else _); rw [if_pos rfl]; omega))
    intro tg gh2 h2
    rw [frame_split] at h2
    cases tg with
    | ok u =>
      simp only at h2 ⊢
      exact ⟨addS_of_AllocL gh gh2 _ _ _ h2, h2.2.1⟩
    | error e =>
      simp only at h2 ⊢
      obtain ⟨_, h2⟩ := h2
      subst h2
      apply SafeL.bind _ _ _ (incL ok (gh.addU (frame / g.hugeFrames) (2 ^ order)) (frame / g.hugeFrames) (2 ^ order) hpos
        (by show 2 ^ order ≤ (if frame / g.hugeFrames = frame / g.hugeFrames then gh.u _ + 2 ^ order else _); rw [if_pos rfl]; omega))
      rintro u gh3 ⟨⟨o', rfl⟩, h3⟩
      rw [Gh.subU_addU] at h3
      subst h3
      exact ⟨rfl, rfl⟩

/-- **`Lower::get_at`, huge orders** (`i + n ≤ TREE_HUGE` is the caller's alignment) -/
theorem getAtL_huge (ok : GeomOk16 g) (gh : Gh) (frame order : Nat) (ho : g.hugeOrder ≤ order)
    (hfit : (frame / g.hugeFrames) % g.treeHuge + 2 ^ (order - g.hugeOrder) ≤ g.treeHuge) :
    SafeL strict g (fun r gh' => match r with
        | .ok _ => gh' = gh.addH (frame / g.hugeFrames) (2 ^ (order - g.hugeOrder)) ∧
            ∀ x, inBlockF (frame / g.hugeFrames) (2 ^ (order - g.hugeOrder)) x = true → gh.ownH x = false
        | .error e => e = .memory ∧ gh' = gh) gh (Lower.getAt g frame order) := by
  have okg := ok.toGeomOk
  unfold Lower.getAt
  have hyes : order ≥ g.hugeOrder := ho
  have hnp : ¬ (frame / g.hugeFrames) % g.treeHuge + 2 ^ (order - g.hugeOrder) > g.treeHuge := by omega
  simp only [hyes, if_true, hnp, if_false, casAll, hugeIdx, okg.hugeIdx_eq frame]
  have key := casAllL_take (strict := strict) ok gh (frame / g.hugeFrames) "undo failed" (2 ^ (order - g.hugeOrder)) (2 ^ (order - g.hugeOrder)) 0 (by omega)
    (fun x hx => by unfold inBlockF at hx; simp at hx; omega)
  rw [Gh.addH_zero] at key
  apply SafeL.bind _ _ _ key
  intro b gh1 h1
  cases b with
  | true => simp only [if_true] at h1 ⊢; exact h1
  | false => simp only [Bool.false_eq_true, if_false] at h1 ⊢; exact ⟨rfl, h1⟩

/-- the thread holds at least the frames of a block it owns -/
theorem cntH_ge_block (okg : GeomOk g) (own : Owned) (frame order : Nat) (ho : order ≤ g.hugeOrder) (hal : frame % 2 ^ order = 0)
    (hown : ∀ f, inBlockF frame (2 ^ order) f = true → own f = true) : 2 ^ order ≤ cntH g own (frame / g.hugeFrames) := by
  have hfit := aligned_fits okg (frame % g.hugeFrames) order ho (Nat.mod_lt _ okg.hf_pos) (aligned_mod_hf okg frame order ho hal)
  have := cntH_subBlock own (frame / g.hugeFrames) (frame % g.hugeFrames) (2 ^ order) hfit (by rw [frame_split]; exact hown) (frame / g.hugeFrames)
  rw [if_pos rfl] at this; omega

/-- **`Lower::put` of a held small block**: always succeeds -/
theorem putL_small (ok : GeomOk16 g) (gh : Gh) (retries frame order : Nat) (ho : order < g.hugeOrder) (hal : frame % 2 ^ order = 0)
    (hown : ∀ f, inBlockF frame (2 ^ order) f = true → gh.ownS f = true) :
    SafeL strict g (fun r gh' => r = .ok () ∧ gh' = gh.subS frame (2 ^ order)) gh (Lower.put g retries frame order) := by
  have okg := ok.toGeomOk
  have hpos : 0 < 2 ^ order := Nat.pos_of_ne_zero (by simp)
  have halm := aligned_mod_hf okg frame order (by omega) hal
  have hfit := aligned_fits okg (frame % g.hugeFrames) order (by omega) (Nat.mod_lt _ okg.hf_pos) halm
  unfold Lower.put
  have hno : ¬ order ≥ g.hugeOrder := by omega
  simp only [hno, if_false, hugeIdx, okg.hugeIdx_eq frame]
  show SafeL strict g _ gh (Prog.load .huge _ _)
  intro old hk
  have hcnt := cntH_ge_block okg gh.ownS frame order (by omega) hal hown
  obtain ⟨hnh, hle⟩ := hk.2.2 (by omega)
  show SafeL strict g _ gh (if Huge.isHuge old = true then _ else _)
  rw [hnh]
  simp only [Bool.false_eq_true, if_false]
  have h1 : ¬ 2 ^ order > g.hugeFrames := by omega
  have h2 : Huge.free old ≤ g.hugeFrames - 2 ^ order := by rw [Huge.free_of_not_huge old hnh]; omega
  simp only [h1, if_false, h2, if_true]
  unfold Lower.putSmall
  simp only [hugeIdx, okg.hugeIdx_eq frame]
  apply SafeL.bind _ _ _ (toggleL_free okg gh (frame / g.hugeFrames) frame order (by omega) halm (by rw [frame_split]; exact hown))
  intro tg gh1 h1
  rw [frame_split] at h1
  cases tg with
  | error e => exact h1.elim
  | ok u =>
    simp only at h1 ⊢
    obtain ⟨e1, e2, e3, e4⟩ := h1
    apply SafeL.bind _ _ _ (incL ok gh1 (frame / g.hugeFrames) (2 ^ order) hpos (by rw [e3]; omega))
    rintro u' gh2 ⟨⟨o', rfl⟩, h3⟩
    simp only
    refine ⟨rfl, ?_⟩
    rw [h3]
    refine Gh.ext' _ _ e1 e2 ?_
    intro x
    show (if x = frame / g.hugeFrames then gh1.u x - 2 ^ order else gh1.u x) = gh.u x
    by_cases e : x = frame / g.hugeFrames
    · rw [if_pos e, e, e3]; omega
    · rw [if_neg e, e4 x e]

/-- **`Lower::put` of a held huge block**: always succeeds -/
theorem putL_huge (ok : GeomOk16 g) (gh : Gh) (retries frame order : Nat) (ho : g.hugeOrder ≤ order)
    (hfit : (frame / g.hugeFrames) % g.treeHuge + 2 ^ (order - g.hugeOrder) ≤ g.treeHuge)
    (hown : ∀ x, inBlockF (frame / g.hugeFrames) (2 ^ (order - g.hugeOrder)) x = true → gh.ownH x = true) :
    SafeL strict g (fun r gh' => r = .ok () ∧ gh' = gh.subH (frame / g.hugeFrames) (2 ^ (order - g.hugeOrder))) gh
      (Lower.put g retries frame order) := by
  have okg := ok.toGeomOk
  unfold Lower.put
  have hyes : order ≥ g.hugeOrder := ho
  have hnp : ¬ (frame / g.hugeFrames) % g.treeHuge + 2 ^ (order - g.hugeOrder) > g.treeHuge := by omega
  simp only [hyes, if_true, hnp, if_false, casAll, hugeIdx, okg.hugeIdx_eq frame]
  have key := casAllL_give (strict := strict) ok gh (frame / g.hugeFrames) "undo failed" (2 ^ (order - g.hugeOrder)) (2 ^ (order - g.hugeOrder)) 0 (by omega) hown
  rw [Gh.subH_zero] at key
  apply SafeL.bind _ _ _ key
  rintro b gh1 ⟨rfl, h1⟩
  simp only [if_true]
  exact ⟨rfl, h1⟩

end
end LLFree
