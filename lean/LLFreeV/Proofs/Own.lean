/-
  Ownership reasoning for the bitfields under arbitrary interleavings (rely/guarantee):

  every thread carries a ghost set `own` of frames (bits) it holds. `SafeR own Post p` says, by
  structural recursion on the program tree, that `p` is safe to run from every memory in which
  the bits of `own` are set, *whatever the other bits are* (they may change between any two
  accesses): every write of a row is a legal transition — it only sets bits that were 0 at the
  instant of the successful compare-exchange (claiming them) and only clears bits the thread
  owns —, no access panics, and the value returned satisfies `Post` with the final ownership.

  `ConcInv`: the threads' ownerships are pairwise disjoint and every owned bit is set. It is
  preserved by every step of every thread (`step_preserves`), so blocks held by different
  threads never overlap in any interleaving.
-/
import LLFreeV.Proofs.Always
import LLFreeV.Proofs.MemLemmas
namespace LLFree
open Prog

/-- frames (global bit indices `row * 64 + bit`) a thread holds -/
abbrev Owned := Nat → Bool

/-- what a thread knows about the current value of row `i`: the bits it owns are set -/
def Known (own : Owned) (i : Nat) (v : BitVec 64) : Prop :=
  ∀ b, b < 64 → own (i * 64 + b) = true → v.getLsbD b = true

/-- a legal write of row `i` (`old → new`) by a thread whose ownership goes from `own` to `own'` -/
structure Trans (own own' : Owned) (i : Nat) (old new : BitVec 64) : Prop where
  other : ∀ f, f / 64 ≠ i → own' f = own f
  keep : ∀ b, b < 64 → old.getLsbD b = new.getLsbD b → own' (i * 64 + b) = own (i * 64 + b)
  claim : ∀ b, b < 64 → old.getLsbD b = false → new.getLsbD b = true → own' (i * 64 + b) = true
  release : ∀ b, b < 64 → old.getLsbD b = true → new.getLsbD b = false →
    own (i * 64 + b) = true ∧ own' (i * 64 + b) = false

theorem Trans.refl (own : Owned) (i : Nat) (v : BitVec 64) : Trans own own i v v where
  other := fun _ _ => rfl
  keep := fun _ _ _ => rfl
  claim := by intro b _ h1 h2; rw [h1] at h2; cases h2
  release := by intro b _ h1 h2; rw [h1] at h2; cases h2

/-- safety of a program for a thread holding `own` -/
def SafeR {α : Type} (G : Owned → Prop) (Post : α → Owned → Prop) : Owned → Prog α → Prop
  | own, .ret a => Post a own
  | _, .panic _ => False
  | own, .load .row i c => ∀ v : BitVec 64, Known own i v → SafeR G Post own (c v)
  | own, .load .huge _ c => ∀ v, SafeR G Post own (c v)
  | own, .load .tree _ c => ∀ v, SafeR G Post own (c v)
  | own, .load .slot _ c => ∀ v, SafeR G Post own (c v)
  | _, .store _ _ _ _ => False
  | _, .swap _ _ _ _ => False
  | own, .cas .row i e n c => ∀ cur : BitVec 64, Known own i cur →
      (cur = e → ∃ own', Trans own own' i e n ∧ G own' ∧ SafeR G Post own' (c (.ok cur))) ∧
      (cur ≠ e → SafeR G Post own (c (.error cur)))
  | _, .cas .huge _ _ _ _ => False
  | _, .cas .tree _ _ _ _ => False
  | _, .cas .slot _ _ _ _ => False
  | own, .casPart i sh w e n c => ∀ cur : BitVec 64, Known own i cur →
      (∀ r, casPartVal cur sh w e n = some r → ∃ own', Trans own own' i cur r ∧ G own' ∧ SafeR G Post own' (c true)) ∧
      (casPartVal cur sh w e n = none → SafeR G Post own (c false))
  | own, .upd .row i f c => ∀ cur : BitVec 64, Known own i cur →
      match f cur with
      | .skip => SafeR G Post own (c (.error cur))
      | .set v => ∃ own', Trans own own' i cur v ∧ G own' ∧ SafeR G Post own' (c (.ok cur))
      | .panic _ => False
  | _, .upd .huge _ _ _ => False
  | _, .upd .tree _ _ _ => False
  | _, .upd .slot _ _ _ => False

theorem SafeR.mono {α : Type} {G : Owned → Prop} {P Q : α → Owned → Prop} (h : ∀ a o, P a o → Q a o) :
    ∀ (p : Prog α) (own : Owned), SafeR G P own p → SafeR G Q own p := by
  intro p
  induction p with
  | ret a => exact fun own hp => h a own hp
  | panic s => exact fun _ hp => hp
  | load k i c ih =>
    intro own hp
    cases k with
    | row => exact fun v hv => ih v own (hp v hv)
    | huge => exact fun v => ih v own (hp v)
    | tree => exact fun v => ih v own (hp v)
    | slot => exact fun v => ih v own (hp v)
  | store k i v c ih => exact fun _ hp => hp
  | swap k i v c ih => exact fun _ hp => hp
  | cas k i e n c ih =>
    intro own hp
    cases k with
    | row =>
      intro cur hk
      obtain ⟨h1, h2⟩ := hp cur hk
      refine ⟨fun he => ?_, fun hne => ih _ own (h2 hne)⟩
      obtain ⟨own', ht, hg, hs⟩ := h1 he
      exact ⟨own', ht, hg, ih _ own' hs⟩
    | huge => exact hp
    | tree => exact hp
    | slot => exact hp
  | casPart i sh w e n c ih =>
    intro own hp cur hk
    obtain ⟨h1, h2⟩ := hp cur hk
    refine ⟨fun r hr => ?_, fun hn => ih _ own (h2 hn)⟩
    obtain ⟨own', ht, hg, hs⟩ := h1 r hr
    exact ⟨own', ht, hg, ih _ own' hs⟩
  | upd k i f c ih =>
    intro own hp
    cases k with
    | row =>
      intro cur hk
      have := hp cur hk
      cases hf : f cur with
      | skip => rw [hf] at this; exact ih _ own this
      | set v =>
        rw [hf] at this
        obtain ⟨own', ht, hg, hs⟩ := this
        exact ⟨own', ht, hg, ih _ own' hs⟩
      | panic s => rw [hf] at this; exact this
    | huge => exact hp
    | tree => exact hp
    | slot => exact hp

/-- sequencing: the ownership after `p` is the ownership `f a` starts with -/
theorem SafeR.bind {α β : Type} {G : Owned → Prop} {Q : α → Owned → Prop} {P : β → Owned → Prop} (f : α → Prog β) :
    ∀ (p : Prog α) (own : Owned), SafeR G Q own p → (∀ a o, Q a o → SafeR G P o (f a)) → SafeR G P own (p >>= f) := by
  intro p
  show ∀ own, SafeR G Q own p → _ → SafeR G P own (p.bind f)
  induction p with
  | ret a => exact fun own hp hf => hf a own hp
  | panic s => exact fun _ hp _ => hp
  | load k i c ih =>
    intro own hp hf
    cases k with
    | row => exact fun v hv => ih v own (hp v hv) hf
    | huge => exact fun v => ih v own (hp v) hf
    | tree => exact fun v => ih v own (hp v) hf
    | slot => exact fun v => ih v own (hp v) hf
  | store k i v c ih => exact fun _ hp _ => hp
  | swap k i v c ih => exact fun _ hp _ => hp
  | cas k i e n c ih =>
    intro own hp hf
    cases k with
    | row =>
      intro cur hk
      obtain ⟨h1, h2⟩ := hp cur hk
      refine ⟨fun he => ?_, fun hne => ih _ own (h2 hne) hf⟩
      obtain ⟨own', ht, hg, hs⟩ := h1 he
      exact ⟨own', ht, hg, ih _ own' hs hf⟩
    | huge => exact hp
    | tree => exact hp
    | slot => exact hp
  | casPart i sh w e n c ih =>
    intro own hp hf cur hk
    obtain ⟨h1, h2⟩ := hp cur hk
    refine ⟨fun r hr => ?_, fun hn => ih _ own (h2 hn) hf⟩
    obtain ⟨own', ht, hg, hs⟩ := h1 r hr
    exact ⟨own', ht, hg, ih _ own' hs hf⟩
  | upd k i g c ih =>
    intro own hp hf
    cases k with
    | row =>
      intro cur hk
      have := hp cur hk
      cases hg : g cur with
      | skip => rw [hg] at this; exact ih _ own this hf
      | set v =>
        rw [hg] at this
        obtain ⟨own', ht, hg, hs⟩ := this
        exact ⟨own', ht, hg, ih _ own' hs hf⟩
      | panic s => rw [hg] at this; exact this
    | huge => exact hp
    | tree => exact hp
    | slot => exact hp

/-- `SafeR` for a thread between two accesses -/
def Th.SafeR {α : Type} (G : Owned → Prop) (Post : α → Owned → Prop) (own : Owned) : Th α → Prop
  | .at p => LLFree.SafeR G Post own p
  | .updCas .row i f cur new c =>
      (∃ own', Trans own own' i cur new ∧ G own' ∧ LLFree.SafeR G Post own' (c (.ok cur))) ∧
      LLFree.SafeR G Post own (.upd .row i f c)
  | .updCas .huge _ _ _ _ _ => False
  | .updCas .tree _ _ _ _ _ => False
  | .updCas .slot _ _ _ _ _ => False

/-- the invariant of a set of threads sharing the bitfields -/
structure ConcInv {α : Type} (G : Owned → Prop) (Post : α → Owned → Prop) (m : Mem) (ths : Nat → Th α) (owns : Nat → Owned) : Prop where
  safe : ∀ k, Th.SafeR G Post (owns k) (ths k)
  disj : ∀ j k, j ≠ k → ∀ f, owns j f = true → owns k f = false
  held : ∀ k f, owns k f = true → m.bit f = true

theorem ConcInv.known {α : Type} {G : Owned → Prop} {Post : α → Owned → Prop} {m : Mem} {ths : Nat → Th α} {owns : Nat → Owned}
    (inv : ConcInv G Post m ths owns) (k i : Nat) (v : BitVec 64) (hv : m.rows[i]? = some v) : Known (owns k) i v := by
  intro b hb ho
  have := inv.held k _ ho
  unfold Mem.bit at this
  have e1 : (i * 64 + b) / 64 = i := by omega
  have e2 : (i * 64 + b) % 64 = b := by omega
  rw [e1, hv, e2] at this
  exact this

def fupd {τ : Type} (f : Nat → τ) (k : Nat) (v : τ) : Nat → τ := fun j => if j = k then v else f j
@[simp] theorem fupd_same {τ : Type} (f : Nat → τ) (k : Nat) (v : τ) : fupd f k v k = v := by simp [fupd]
theorem fupd_other {τ : Type} (f : Nat → τ) (k : Nat) (v : τ) (j : Nat) (h : j ≠ k) : fupd f k v j = f j := by simp [fupd, h]

/-- the ownership part of the invariant (disjoint holdings, held bits are set) is kept by a
    legal write of row `i` by thread `k` -/
theorem own_write (m : Mem) (owns : Nat → Owned)
    (hdisj : ∀ j k, j ≠ k → ∀ f, owns j f = true → owns k f = false)
    (hheld : ∀ k f, owns k f = true → m.bit f = true)
    (k i : Nat) (old new : BitVec 64) (hv : m.rows[i]? = some old) (own' : Owned)
    (tr : Trans (owns k) own' i old new) :
    (∀ j1 j2, j1 ≠ j2 → ∀ f, fupd owns k own' j1 f = true → fupd owns k own' j2 f = false) ∧
    (∀ j f, fupd owns k own' j f = true → (m.set .row i new).bit f = true) := by
  have hi : i < m.rows.size := (Array.getElem?_eq_some_iff.1 hv).1
  have hbit : ∀ f, (m.set .row i new).bit f = if f / 64 = i then new.getLsbD (f % 64) else m.bit f :=
    fun f => Mem.bit_set_row m i new hi f
  have hold : ∀ f, f / 64 = i → m.bit f = old.getLsbD (f % 64) := by
    intro f hf; unfold Mem.bit; rw [hf, hv]
  have hfb : ∀ f, f / 64 = i → f = i * 64 + f % 64 := by intro f hf; have := Nat.div_add_mod f 64; omega
  refine ⟨?_, ?_⟩
  · -- disjointness
    have key : ∀ j, j ≠ k → ∀ f, own' f = true → owns j f = false := by
      intro j hj f hf
      by_cases hr : f / 64 = i
      · have hb : f % 64 < 64 := Nat.mod_lt _ (by decide)
        have hfe := hfb f hr
        by_cases hsame : old.getLsbD (f % 64) = new.getLsbD (f % 64)
        · have := tr.keep _ hb hsame
          rw [← hfe] at this
          rw [this] at hf
          exact hdisj k j (fun e => hj e.symm) f hf
        · cases ho : old.getLsbD (f % 64) with
          | false =>
            -- claimed: nobody held it
            cases hoj : owns j f with
            | false => rfl
            | true =>
              have := hheld j f hoj
              rw [hold f hr, ho] at this; cases this
          | true =>
            have hn : new.getLsbD (f % 64) = false := by
              cases hn : new.getLsbD (f % 64) with
              | false => rfl
              | true => rw [ho, hn] at hsame; exact absurd rfl hsame
            have := (tr.release _ hb ho hn).2
            rw [← hfe] at this
            rw [this] at hf; cases hf
      · rw [tr.other f hr] at hf
        exact hdisj k j (fun e => hj e.symm) f hf
    intro j1 j2 hne f hf
    by_cases e1 : j1 = k
    · subst e1
      simp only [fupd_same] at hf
      rw [fupd_other _ _ _ _ (fun e => hne e.symm)]
      exact key j2 (fun e => hne e.symm) f hf
    · rw [fupd_other _ _ _ _ e1] at hf
      by_cases e2 : j2 = k
      · subst e2
        simp only [fupd_same]
        cases ho' : own' f with
        | false => rfl
        | true => have := key j1 e1 f ho'; rw [this] at hf; cases hf
      · rw [fupd_other _ _ _ _ e2]; exact hdisj j1 j2 hne f hf
  · -- owned bits are set
    intro j f hf
    rw [hbit f]
    by_cases hr : f / 64 = i
    · rw [if_pos hr]
      have hb : f % 64 < 64 := Nat.mod_lt _ (by decide)
      have hfe := hfb f hr
      by_cases e : j = k
      · subst e
        simp only [fupd_same] at hf
        by_cases hsame : old.getLsbD (f % 64) = new.getLsbD (f % 64)
        · have h1 := tr.keep _ hb hsame
          rw [← hfe] at h1
          rw [h1] at hf
          rw [← hsame, ← hold f hr]; exact hheld j f hf
        · cases hn : new.getLsbD (f % 64) with
          | true => rfl
          | false =>
            have ho : old.getLsbD (f % 64) = true := by
              cases ho : old.getLsbD (f % 64) with
              | true => rfl
              | false => rw [ho, hn] at hsame; exact absurd rfl hsame
            have := (tr.release _ hb ho hn).2
            rw [← hfe] at this
            rw [this] at hf; cases hf
      · rw [fupd_other _ _ _ _ e] at hf
        -- another thread's bit: thread `k` cannot have cleared it
        have h1 := hheld j f hf
        rw [hold f hr] at h1
        cases hn : new.getLsbD (f % 64) with
        | true => rfl
        | false =>
          have := (tr.release _ hb h1 hn).1
          rw [← hfe] at this
          have := hdisj k j (fun x => e x.symm) f this
          rw [this] at hf; cases hf
    · rw [if_neg hr]
      by_cases e : j = k
      · subst e
        simp only [fupd_same] at hf
        rw [tr.other f hr] at hf
        exact hheld j f hf
      · rw [fupd_other _ _ _ _ e] at hf
        exact hheld j f hf


/-- a legal write of row `i` by thread `k` keeps the invariant -/
theorem ConcInv.write {α : Type} {G : Owned → Prop} {Post : α → Owned → Prop} {m : Mem} {ths : Nat → Th α} {owns : Nat → Owned}
    (inv : ConcInv G Post m ths owns) (k i : Nat) (old new : BitVec 64) (hv : m.rows[i]? = some old) (own' : Owned)
    (tr : Trans (owns k) own' i old new) (t' : Th α) (hs : Th.SafeR G Post own' t') :
    ConcInv G Post (m.set .row i new) (fupd ths k t') (fupd owns k own') := by
  obtain ⟨h1, h2⟩ := own_write m owns inv.disj inv.held k i old new hv own' tr
  refine ⟨?_, h1, h2⟩
  intro j
  by_cases e : j = k
  · subst e; simp only [fupd_same]; exact hs
  · rw [fupd_other _ _ _ _ e, fupd_other _ _ _ _ e]; exact inv.safe j

theorem fupd_self {τ : Type} (f : Nat → τ) (k : Nat) : fupd f k (f k) = f := by
  funext j; by_cases e : j = k
  · subst e; simp
  · simp [fupd, e]

/-- a step of thread `k` that writes nothing -/
theorem ConcInv.set_thread {α : Type} {G : Owned → Prop} {Post : α → Owned → Prop} {m : Mem} {ths : Nat → Th α} {owns : Nat → Owned}
    (inv : ConcInv G Post m ths owns) (k : Nat) (t' : Th α) (hs : Th.SafeR G Post (owns k) t') :
    ∃ own', ConcInv G Post m (fupd ths k t') (fupd owns k own') := by
  refine ⟨owns k, ?_⟩
  rw [fupd_self]
  refine ⟨?_, inv.disj, inv.held⟩
  intro j
  by_cases e : j = k
  · subst e; simp only [fupd_same]; exact hs
  · rw [fupd_other _ _ _ _ e]; exact inv.safe j

/-- the thread state after the load of an `update` loop -/
theorem afterUpd_safe {α : Type} {G : Owned → Prop} {Post : α → Owned → Prop} (own : Owned) (i : Nat) (f : BitVec 64 → Upd (BitVec 64))
    (c : Except (BitVec 64) (BitVec 64) → Prog α) (o : BitVec 64) (hk : Known own i o)
    (hp : SafeR G Post own (.upd .row i f c)) : Th.SafeR G Post own (Th.afterUpd .row i f o c) := by
  have h1 := hp o hk
  unfold Th.afterUpd
  cases hf : f o with
  | skip => rw [hf] at h1; exact h1
  | set v => rw [hf] at h1; exact ⟨h1, hp⟩
  | panic s => rw [hf] at h1; exact h1.elim

/-- **Every atomic step of every thread preserves the invariant**; no step panics (other than
    by an index outside the buffers), and a finished thread satisfies its postcondition. -/
theorem ConcInv.step {α : Type} {G : Owned → Prop} {Post : α → Owned → Prop} {m : Mem} {ths : Nat → Th α} {owns : Nat → Owned}
    (inv : ConcInv G Post m ths owns) (k : Nat) :
    match (ths k).step m with
    | .done a => Post a (owns k)
    | .dead s => s = oobMsg
    | .step t' m' _ => ∃ own', ConcInv G Post m' (fupd ths k t') (fupd owns k own') := by
  have hs := inv.safe k
  cases ht : ths k with
  | «at» p =>
    rw [ht] at hs
    cases p with
    | ret a => exact hs
    | panic s => exact hs.elim
    | load kd i c =>
      simp only [Th.step]
      cases hv : m.get? kd i with
      | none => rfl
      | some v =>
        simp only
        cases kd with
        | row => exact inv.set_thread k _ (hs v (inv.known k i v (by simpa using hv)))
        | huge => exact inv.set_thread k _ (hs v)
        | tree => exact inv.set_thread k _ (hs v)
        | slot => exact inv.set_thread k _ (hs v)
    | store kd i v c => exact hs.elim
    | swap kd i v c => exact hs.elim
    | cas kd i e n c =>
      cases kd with
      | row =>
        simp only [Th.step]
        cases hv : m.get? .row i with
        | none => rfl
        | some o =>
          simp only
          have hk := inv.known k i o (by simpa using hv)
          obtain ⟨h1, h2⟩ := hs o hk
          by_cases he : o = e
          · simp only [he, if_true]
            obtain ⟨own', tr, _, hsafe⟩ := h1 he
            subst he
            exact ⟨own', inv.write k i o n (by simpa using hv) own' tr _ hsafe⟩
          · simp only [he, if_false]
            exact inv.set_thread k _ (h2 he)
      | huge => exact hs.elim
      | tree => exact hs.elim
      | slot => exact hs.elim
    | casPart i sh w e n c =>
      simp only [Th.step]
      cases hv : m.get? .row i with
      | none => rfl
      | some o =>
        simp only
        have hk := inv.known k i o (by simpa using hv)
        obtain ⟨h1, h2⟩ := hs o hk
        cases hc : casPartVal o sh w e n with
        | none => exact inv.set_thread k _ (h2 hc)
        | some r =>
          obtain ⟨own', tr, _, hsafe⟩ := h1 r hc
          exact ⟨own', inv.write k i o r (by simpa using hv) own' tr _ hsafe⟩
    | upd kd i f c =>
      cases kd with
      | row =>
        simp only [Th.step]
        cases hv : m.get? .row i with
        | none => rfl
        | some o =>
          simp only
          have hk := inv.known k i o (by simpa using hv)
          exact inv.set_thread k _ (afterUpd_safe (owns k) i f c o hk hs)
      | huge => exact hs.elim
      | tree => exact hs.elim
      | slot => exact hs.elim
  | updCas kd i f cur new c =>
    rw [ht] at hs
    cases kd with
    | row =>
      obtain ⟨⟨own', tr, _, hsafe⟩, hupd⟩ := hs
      simp only [Th.step]
      cases hv : m.get? .row i with
      | none => rfl
      | some o =>
        simp only
        have hk := inv.known k i o (by simpa using hv)
        by_cases he : o = cur
        · simp only [he, if_true]
          subst he
          exact ⟨own', inv.write k i o new (by simpa using hv) own' tr _ hsafe⟩
        · simp only [he, if_false]
          exact inv.set_thread k _ (afterUpd_safe (owns k) i f c o hk hupd)
    | huge => exact hs.elim
    | tree => exact hs.elim
    | slot => exact hs.elim

/-! ### every schedule -/

/-- one atomic step of thread `k` (nothing happens if the thread has finished or trapped) -/
def concStep {α : Type} (st : Mem × (Nat → Th α)) (k : Nat) : Mem × (Nat → Th α) :=
  match (st.2 k).step st.1 with
  | .step t' m' _ => (m', fupd st.2 k t')
  | _ => st

/-- a schedule: which thread performs the next atomic access -/
def concRun {α : Type} (sched : List Nat) (st : Mem × (Nat → Th α)) : Mem × (Nat → Th α) :=
  sched.foldl concStep st

/-- **The invariant holds in every state of every interleaving.** -/
theorem ConcInv.run {α : Type} {G : Owned → Prop} {Post : α → Owned → Prop} (sched : List Nat) :
    ∀ (m : Mem) (ths : Nat → Th α) (owns : Nat → Owned), ConcInv G Post m ths owns →
      ∃ owns', ConcInv G Post (concRun sched (m, ths)).1 (concRun sched (m, ths)).2 owns' := by
  induction sched with
  | nil => exact fun m ths owns inv => ⟨owns, inv⟩
  | cons k rest ih =>
    intro m ths owns inv
    unfold concRun
    simp only [List.foldl_cons]
    have hstep := inv.step k
    unfold concStep
    simp only
    cases hs : (ths k).step m with
    | done a => simp only; exact ih m ths owns inv
    | dead s => simp only; exact ih m ths owns inv
    | step t' m' a =>
      rw [hs] at hstep
      obtain ⟨own', inv'⟩ := hstep
      exact ih m' (fupd ths k t') (fupd owns k own') inv'

/-- in every state of every interleaving: no thread is about to panic, a finished thread
    satisfies its postcondition, and the frames held by different threads are disjoint -/
theorem ConcInv.always {α : Type} {G : Owned → Prop} {Post : α → Owned → Prop} (sched : List Nat) (m : Mem) (ths : Nat → Th α)
    (owns : Nat → Owned) (inv : ConcInv G Post m ths owns) :
    ∃ owns' : Nat → Owned, (∀ j k, j ≠ k → ∀ f, owns' j f = true → owns' k f = false) ∧
      ∀ k, match ((concRun sched (m, ths)).2 k).step (concRun sched (m, ths)).1 with
        | .done a => Post a (owns' k)
        | .dead s => s = oobMsg
        | .step _ _ _ => True := by
  obtain ⟨owns', inv'⟩ := ConcInv.run sched m ths owns inv
  refine ⟨owns', inv'.disj, fun k => ?_⟩
  have := inv'.step k
  cases hs : ((concRun sched (m, ths)).2 k).step (concRun sched (m, ths)).1 with
  | done a => rw [hs] at this; exact this
  | dead s => rw [hs] at this; exact this
  | step t' m' a => trivial

end LLFree
