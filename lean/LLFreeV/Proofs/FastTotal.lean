/-
  C04, totals: the fast total reported by `tree_stats` plus the frames hidden by `Offline` is the
  exact total reported by `stats`:  Σ tree counters + Σ reservations + Σ_i H i = Σ_i free frames.
  The work is a partition argument: the present slots visited by `tree_stats` (class by class,
  range by range) are exactly the slots that contribute to the per-tree sums of the invariant.
-/
import LLFreeV.Proofs.TreeStats
import LLFreeV.Proofs.UpperInit
import LLFreeV.Proofs.OwnLowerInv
namespace LLFree
open Prog C14

/-! ### finite sums -/

theorem blockSum_add (f g : Nat → Nat) (n : Nat) : blockSum (fun k => f k + g k) n = blockSum f n + blockSum g n := by
  induction n with
  | zero => rfl
  | succ n ih => simp only [blockSum, ih]; omega

theorem blockSum_zero' (f : Nat → Nat) (n : Nat) (h : ∀ k, k < n → f k = 0) : blockSum f n = 0 := by
  induction n with
  | zero => rfl
  | succ n ih => rw [blockSum, ih (fun k hk => h k (by omega)), h n (by omega)]

/-- exchanging two finite sums -/
theorem blockSum_swap (F : Nat → Nat → Nat) (a b : Nat) :
    blockSum (fun s => blockSum (fun k => F s k) b) a = blockSum (fun k => blockSum (fun s => F s k) a) b := by
  induction a with
  | zero => simp only [blockSum]; exact (blockSum_zero' _ b (fun _ _ => rfl)).symm
  | succ a ih =>
    simp only [blockSum]
    rw [ih, ← blockSum_add]

/-- a sum over an interval written with an indicator -/
theorem blockSum_interval (g : Nat → Nat) (base cnt n : Nat) (h : base + cnt ≤ n) :
    blockSum (fun s => if base ≤ s ∧ s < base + cnt then g s else 0) n = blockSum (fun j => g (base + j)) cnt := by
  induction n generalizing cnt with
  | zero =>
    have : cnt = 0 := by omega
    subst this; rfl
  | succ n ih =>
    rw [blockSum]
    by_cases hin : base ≤ n ∧ n < base + cnt
    · rw [if_pos hin]
      have hc1 : 1 ≤ cnt := by omega
      obtain ⟨c', rfl⟩ : ∃ c', cnt = c' + 1 := ⟨cnt - 1, by omega⟩
      have hn : n = base + c' := by omega
      have key : blockSum (fun s => if base ≤ s ∧ s < base + (c' + 1) then g s else 0) n =
          blockSum (fun s => if base ≤ s ∧ s < base + c' then g s else 0) n := by
        apply blockSum_congr
        intro k hk
        by_cases a : base ≤ k ∧ k < base + c'
        · rw [if_pos a, if_pos ⟨a.1, by omega⟩]
        · rw [if_neg a, if_neg (by intro x; exact a ⟨x.1, by omega⟩)]
      rw [key, ih c' (by omega), blockSum, hn]
    · rw [if_neg hin, Nat.add_zero]
      by_cases hc0 : cnt = 0
      · subst hc0
        rw [blockSum_zero' _ n (fun k _ => by rw [if_neg]; omega)]; rfl
      · exact ih cnt (by omega)

/-- list sum as a block sum -/
theorem list_sum_eq_blockSum {τ : Type} [Inhabited τ] (l : List τ) (f : τ → Nat) :
    (l.map f).sum = blockSum (fun s => f (l[s]?.getD default)) l.length := by
  induction l with
  | nil => rfl
  | cons a l ih =>
    rw [List.map_cons, List.sum_cons, List.length_cons, blockSum_front, ih]
    simp


/-! ### the slots -/

/-- a weight of a slot value, counted only if it holds a reservation -/
def presW (w : LTree → Nat) (l : LTree) : Nat := if l.present then w l else 0

/-- … of slot `s` of the memory (0 outside the array) -/
def slotW (m : Mem) (w : LTree → Nat) (s : Nat) : Nat := presW w (m.slots[s]?.getD default)

/-- counter of a slot value if it holds a reservation -/
abbrev presFree (l : LTree) : Nat := presW (fun l => l.free) l
abbrev slotVal (m : Mem) (s : Nat) : Nat := slotW m (fun l => l.free) s

section
variable (c : Cfg) (m : Mem) (w : LTree → Nat)

/-- the weights of the reservations of the range of class `k` -/
def rangeSumW (k : Nat) : Nat :=
  match c.slotRange k with
  | some rng => blockSum (fun j => slotW m w (rng.1 + j)) rng.2
  | none => 0

abbrev rangeSum (k : Nat) : Nat := rangeSumW c m (fun l => l.free) k

theorem slotsFrom_sumW (i base : Nat) : ∀ cnt j, ((slotsFrom m i base cnt j).map (fun p => w p.2)).sum =
    blockSum (fun x => slotW m w (base + j + x)) cnt
  | 0, _ => rfl
  | cnt+1, j => by
    unfold slotsFrom
    rw [List.map_append, List.sum_append, slotsFrom_sumW i base cnt (j + 1), blockSum_front]
    congr 1
    · unfold slotW presW
      cases hE : m.slots[base + j]? with
      | none => simp [show (default : LTree).present = false from rfl]
      | some t =>
        by_cases hp : t.present = true
        · simp [hp]
        · simp [hp]
    · apply blockSum_congr
      intro k _
      congr 1; omega

theorem slotsOfFrom_sumW : ∀ cnt i, ((slotsOfFrom c m cnt i).map (fun p => w p.2)).sum = blockSum (fun x => rangeSumW c m w (i + x)) cnt
  | 0, _ => rfl
  | cnt+1, i => by
    unfold slotsOfFrom
    rw [List.map_append, List.sum_append, slotsOfFrom_sumW cnt (i + 1), blockSum_front]
    congr 1
    · unfold rangeSumW
      cases hr : c.slotRange i with
      | none => simp
      | some rng =>
        simp only
        rw [slotsFrom_sumW m w i rng.1 rng.2 0]
        apply blockSum_congr
        intro k _; congr 1
    · apply blockSum_congr
      intro k _
      congr 1; omega

/-- a weighted sum over the present slots in visiting order, class by class -/
theorem slotsOf_sumW : ((slotsOf c m).map (fun p => w p.2)).sum = blockSum (fun k => rangeSumW c m w k) 8 := by
  unfold slotsOf
  rw [slotsOfFrom_sumW c m w 8 0]
  apply blockSum_congr
  intro k _; congr 1; omega

/-- what `tree_stats` adds for the slots, class by class -/
theorem slotSum_eq : slotSum c m = blockSum (fun k => rangeSum c m k) 8 := slotsOf_sumW c m (fun l => l.free)

end

section
variable (c : Cfg) (m : Mem)

/-- a reservation counts for exactly one tree -/
theorem freeFor_sum (tr nt : Nat) (l : LTree) (h : l.present = true → l.row / tr < nt) :
    blockSum (fun i => LTree.freeFor tr i l) nt = presFree l := by
  show _ = (if l.present then l.free else 0)
  by_cases hp : l.present = true
  · rw [if_pos hp]
    have := blockSum_interval (fun _ => l.free) (l.row / tr) 1 nt (by have := h hp; omega)
    rw [blockSum_one] at this
    rw [← this]
    apply blockSum_congr
    intro i _
    unfold LTree.freeFor
    by_cases e : l.row / tr = i
    · subst e; simp [hp]
    · have : ¬ (l.row / tr ≤ i ∧ i < l.row / tr + 1) := by omega
      rw [if_neg this]
      simp [hp, e]
  · rw [if_neg hp]
    apply blockSum_zero'
    intro i _
    unfold LTree.freeFor
    simp [hp]

/-- Σ over the trees of the reservations on each tree = Σ over the slots of their counters -/
theorem slotFree_total (tr nt : Nat) (h : ∀ (s : Nat) (l : LTree), m.slots[s]? = some l → l.present = true → l.row / tr < nt) :
    blockSum (fun i => m.slotFree tr i) nt = blockSum (fun s => slotVal m s) m.slots.size := by
  have e1 : ∀ i, m.slotFree tr i = blockSum (fun s => LTree.freeFor tr i (m.slots[s]?.getD default)) m.slots.size := by
    intro i
    unfold Mem.slotFree
    rw [list_sum_eq_blockSum]
    simp
  rw [blockSum_congr _ _ nt (fun i _ => e1 i), blockSum_swap]
  apply blockSum_congr
  intro s hs
  have hE : m.slots[s]? = some m.slots[s] := Array.getElem?_eq_getElem hs
  show _ = presW (fun l => l.free) (m.slots[s]?.getD default)
  rw [hE]
  exact freeFor_sum tr nt _ (h s _ hE)

/-- membership of slot index `s` in the range of class `k` -/
def inRange (k s : Nat) : Prop :=
  match c.slotRange k with
  | some rng => rng.1 ≤ s ∧ s < rng.1 + rng.2
  | none => False

instance (k s : Nat) : Decidable (inRange c k s) := by
  unfold inRange; cases c.slotRange k <;> infer_instance

/-- **the partition**: the slots of the array that hold reservations are exactly those of the
    class ranges, each in one range -/
theorem slot_partitionW {H : Nat → Nat} (ok : CfgOk c) (inv : UpperInv0 c H m) (w : LTree → Nat) :
    blockSum (fun s => slotW m w s) m.slots.size = blockSum (fun k => rangeSumW c m w k) 8 := by
  -- every slot value is the sum over the classes of its indicator
  have hC : ∀ s, s < m.slots.size → slotW m w s = blockSum (fun k => if inRange c k s then slotW m w s else 0) 8 := by
    intro s hs
    have hE : m.slots[s]? = some m.slots[s] := Array.getElem?_eq_getElem hs
    by_cases hp : m.slots[s].present = true
    · obtain ⟨k0, rng0, hr0, h1, h2⟩ := inv.slotCls s _ hE hp
      have hk0 : k0 < 8 := ok.clsLt k0 rng0 hr0
      have hin0 : inRange c k0 s := by unfold inRange; rw [hr0]; exact ⟨h1, h2⟩
      have key := blockSum_point (fun _ => 0) (fun k => if inRange c k s then slotW m w s else 0) 8 k0 hk0 (by
        intro j hj
        rw [if_neg]
        intro hinj
        unfold inRange at hinj
        cases hrj : c.slotRange j with
        | none => rw [hrj] at hinj; exact hinj
        | some rngj =>
          rw [hrj] at hinj
          have := ok.rangeDisj j k0 rngj rng0 hrj hr0 hj
          omega)
      rw [blockSum_zero' (fun _ => 0) 8 (fun _ _ => rfl)] at key
      simp only [if_pos hin0] at key
      omega
    · have hz : slotW m w s = 0 := by unfold slotW presW; rw [hE]; simp [hp]
      rw [hz]
      exact (blockSum_zero' _ 8 (fun k _ => by split <;> rfl)).symm
  rw [blockSum_congr _ _ _ hC, blockSum_swap]
  apply blockSum_congr
  intro k _
  unfold rangeSumW
  cases hr : c.slotRange k with
  | none =>
    apply blockSum_zero'
    intro s _
    rw [if_neg]; unfold inRange; rw [hr]; exact fun h => h
  | some rng =>
    simp only
    have hfit : rng.1 + rng.2 ≤ m.slots.size := by rw [inv.slotsSize]; exact ok.rangeIn k rng hr
    rw [← blockSum_interval (fun s => slotW m w s) rng.1 rng.2 m.slots.size hfit]
    apply blockSum_congr
    intro s _
    have : inRange c k s ↔ (rng.1 ≤ s ∧ s < rng.1 + rng.2) := by unfold inRange; rw [hr]
    by_cases hh : rng.1 ≤ s ∧ s < rng.1 + rng.2
    · rw [if_pos hh, if_pos (this.2 hh)]
    · rw [if_neg hh, if_neg (fun x => hh (this.1 x))]

theorem slot_partition {H : Nat → Nat} (ok : CfgOk c) (inv : UpperInv0 c H m) :
    blockSum (fun s => slotVal m s) m.slots.size = blockSum (fun k => rangeSum c m k) 8 :=
  slot_partitionW c m ok inv (fun l => l.free)

/-- **Σ over the trees of the reservations = what `tree_stats` adds for the slots** -/
theorem slotFree_total_eq_slotSum {H : Nat → Nat} (ok : CfgOk c) (inv : UpperInv0 c H m) :
    blockSum (fun i => m.slotFree c.geom.treeRows i) c.ntrees = slotSum c m := by
  rw [slotFree_total m c.geom.treeRows c.ntrees, slot_partition c m ok inv, slotSum_eq]
  intro s l hl hp
  obtain ⟨k, hk⟩ := inv.slotCls s l hl hp
  obtain ⟨t, ht, _, _⟩ := inv.slotTree s l k hl hp hk
  exact inv.tree_lt _ t ht


/-- the free total of `Trees::stats` is the sum of the tree counters -/
theorem trees_stats_go_free (hcls : ∀ t ∈ m.trees.toList, t.cls < 8 ∧ t.free ≤ c.tf) :
    ∀ (cnt i : Nat) (s : TreeStats), i + cnt ≤ m.trees.size →
      ∀ s', runSolo (Trees.stats.go c cnt i s) m = (m, .ok s') →
        s'.freeFrames = s.freeFrames + blockSum (fun x => (m.trees[i + x]?.getD default).free) cnt := by
  intro cnt
  induction cnt with
  | zero =>
    intro i s _ s' hrun
    rw [Trees.stats.go] at hrun
    have : (m, Outcome.ok s) = (m, Outcome.ok s') := hrun
    injection this with _ h2; injection h2 with h3; subst h3; rfl
  | succ cnt ih =>
    intro i s hsz s' hrun
    rw [Trees.stats.go] at hrun
    have hlt : i < m.trees.size := by omega
    have hE : m.get? .tree i = some m.trees[i] := by simp only [Mem.get?_tree]; exact Array.getElem?_eq_getElem hlt
    obtain ⟨_, hfree⟩ := hcls m.trees[i] (by simp [Array.mem_toList_iff])
    simp only [runSolo_bind, runSolo_loadK_some hE, andThen_ok] at hrun
    have hnot : ¬ m.trees[i].free > c.tf := by omega
    simp only [hnot, if_false] at hrun
    have := ih (i + 1) _ (by omega) s' hrun
    rw [this, blockSum_front]
    have e0 : (m.trees[i + 0]?.getD default).free = m.trees[i].free := by
      simp only [Nat.add_zero]; rw [Array.getElem?_eq_getElem hlt]; rfl
    rw [e0]
    have e1 : blockSum (fun x => (m.trees[i + 1 + x]?.getD default).free) cnt =
        blockSum (fun k => (m.trees[i + (k + 1)]?.getD default).free) cnt := by
      apply blockSum_congr; intro k _; congr 3; omega
    rw [e1]
    show s.freeFrames + m.trees[i].free + _ = _
    omega

/-- **C04, totals.** In every state satisfying the upper invariant, the fast total of
    `tree_stats()` plus the frames hidden by `Offline` is the exact number of free frames
    (what `stats()` reports, C04 `stats_exact`): fast = exact − offline, as numbers. -/
theorem fast_total_exact {H : Nat → Nat} (ok : CfgOk c) (inv : UpperInv0 c H m) :
    Runs m (treeStats c) (fun s m' => m = m' ∧ s.freeFrames + blockSum H c.ntrees = m.freeTotal c.geom c.ntrees) := by
  have hcls : ∀ t ∈ m.trees.toList, t.cls < 8 ∧ t.free ≤ c.tf := by
    intro t ht
    obtain ⟨i, hi, rfl⟩ := List.getElem_of_mem ht
    have hi' : i < m.trees.size := by simpa using hi
    have hE : m.trees[i]? = some m.trees[i] := Array.getElem?_eq_getElem hi'
    have e : m.trees.toList[i] = m.trees[i] := by simp
    rw [e]
    refine ⟨inv.treeCls i _ hE, ?_⟩
    have h1 := inv.counterLe i _ hE
    have h2 := Mem.freeInTree_le m c.geom i
    show m.trees[i].free ≤ c.geom.treeFrames
    omega
  apply Runs.mono (treeStats_spec c m ok inv)
  rintro s m' ⟨rfl, _, _, s0, hrun0, hs⟩
  refine ⟨rfl, ?_⟩
  have hs0 : s0.freeFrames = blockSum (fun i => (m.trees[i]?.getD default).free) c.ntrees := by
    unfold Trees.stats at hrun0
    have := trees_stats_go_free c m hcls c.ntrees 0 {} (by rw [inv.treesSize]; omega) s0 hrun0
    rw [this]
    show 0 + _ = _
    rw [Nat.zero_add]
    apply blockSum_congr; intro k _; congr 3; omega
  have hslots := slotFree_total_eq_slotSum c m ok inv
  unfold Mem.freeTotal
  have hsum : blockSum (fun i => m.freeInTree c.geom i) c.ntrees =
      blockSum (fun i => ((m.trees[i]?.getD default).free + m.slotFree c.geom.treeRows i) + H i) c.ntrees := by
    apply blockSum_congr
    intro i hi
    obtain ⟨t, ht⟩ := inv.tree_get i hi
    have := inv.counter i t ht
    rw [ht]
    show _ = t.free + _ + _
    omega
  rw [hsum, blockSum_add, blockSum_add, hs, hs0, hslots]

end
end LLFree

