/-
  Solo termination: from *any* thread state (including "inside a compare-exchange loop with a
  stale value") and *any* memory, a thread that runs without interference finishes its call
  after finitely many atomic accesses. No step consults another thread.
-/
import LLFreeV.Model.Prog
namespace LLFree

/-- the thread has returned or died -/
def Th.finished {α : Type} : Th α → Bool
  | .at (.ret _) => true
  | .at (.panic _) => true
  | _ => false

/-- run the thread alone for `n` accesses -/
def soloSteps {α : Type} : Nat → Th α → Mem → Th α × Mem
  | 0, t, m => (t, m)
  | n+1, t, m =>
    match t.step m with
    | .done a => (.at (.ret a), m)
    | .dead s => (.at (.panic s), m)
    | .step t' m' _ => soloSteps n t' m'

theorem soloSteps_finished {α : Type} (t : Th α) (m : Mem) (h : t.finished = true) (n : Nat) :
    (soloSteps n t m).1.finished = true := by
  induction n generalizing t m with
  | zero => exact h
  | succ n ih =>
    cases t with
    | «at» p =>
      cases p with
      | ret a => simp [soloSteps, Th.step, Th.finished]
      | panic s => simp [soloSteps, Th.step, Th.finished]
      | _ => simp [Th.finished] at h
    | updCas k i f cur new c => simp [Th.finished] at h

/-- **Solo termination of programs.** -/
theorem prog_solo_terminates {α : Type} (p : Prog α) : ∀ m : Mem, ∃ n, (soloSteps n (.at p) m).1.finished = true := by
  induction p with
  | ret a => intro m; exact ⟨0, rfl⟩
  | panic s => intro m; exact ⟨0, rfl⟩
  | load k i c ih =>
    intro m
    cases hg : m.get? k i with
    | none => exact ⟨1, by simp [soloSteps, Th.step, hg, Th.finished]⟩
    | some v =>
      obtain ⟨n, hn⟩ := ih v m
      exact ⟨n + 1, by simpa [soloSteps, Th.step, hg] using hn⟩
  | store k i v c ih =>
    intro m
    cases hg : m.get? k i with
    | none => exact ⟨1, by simp [soloSteps, Th.step, hg, Th.finished]⟩
    | some _ =>
      obtain ⟨n, hn⟩ := ih (m.set k i v)
      exact ⟨n + 1, by simpa [soloSteps, Th.step, hg] using hn⟩
  | swap k i v c ih =>
    intro m
    cases hg : m.get? k i with
    | none => exact ⟨1, by simp [soloSteps, Th.step, hg, Th.finished]⟩
    | some o =>
      obtain ⟨n, hn⟩ := ih o (m.set k i v)
      exact ⟨n + 1, by simpa [soloSteps, Th.step, hg] using hn⟩
  | cas k i e nv c ih =>
    intro m
    cases hg : m.get? k i with
    | none => exact ⟨1, by simp [soloSteps, Th.step, hg, Th.finished]⟩
    | some o =>
      by_cases he : o = e
      · obtain ⟨n, hn⟩ := ih (.ok o) (m.set k i nv)
        exact ⟨n + 1, by simpa [soloSteps, Th.step, hg, he] using hn⟩
      · obtain ⟨n, hn⟩ := ih (.error o) m
        exact ⟨n + 1, by simpa [soloSteps, Th.step, hg, he] using hn⟩
  | casPart i sh w e nv c ih =>
    intro m
    cases hg : m.get? .row i with
    | none => exact ⟨1, by simp [soloSteps, Th.step, hg, Th.finished]⟩
    | some o =>
      cases hc : casPartVal o sh w e nv with
      | none =>
        obtain ⟨n, hn⟩ := ih false m
        exact ⟨n + 1, by simpa [soloSteps, Th.step, hg, hc] using hn⟩
      | some r =>
        obtain ⟨n, hn⟩ := ih true (m.set .row i r)
        exact ⟨n + 1, by simpa [soloSteps, Th.step, hg, hc] using hn⟩
  | upd k i f c ih =>
    intro m
    cases hg : m.get? k i with
    | none => exact ⟨1, by simp [soloSteps, Th.step, hg, Th.finished]⟩
    | some o =>
      cases hf : f o with
      | skip =>
        obtain ⟨n, hn⟩ := ih (.error o) m
        exact ⟨n + 1, by simpa [soloSteps, Th.step, hg, Th.afterUpd, hf] using hn⟩
      | panic s =>
        exact ⟨1, by simp [soloSteps, Th.step, hg, Th.afterUpd, hf, Th.finished]⟩
      | set v =>
        -- load, then the compare-exchange succeeds because nobody interferes
        obtain ⟨n, hn⟩ := ih (.ok o) (m.set k i v)
        refine ⟨n + 2, ?_⟩
        simp only [soloSteps, Th.step, hg, Th.afterUpd, hf, if_true]
        exact hn

/-- **C21 (qualitative).** Solo termination from every thread state, in particular from the
    state "loaded a stale value `cur`, about to compare-exchange": at most one failed CAS, then
    the closure declines or the next CAS succeeds. -/
theorem solo_terminates {α : Type} (t : Th α) (m : Mem) : ∃ n, (soloSteps n t m).1.finished = true := by
  cases t with
  | «at» p => exact prog_solo_terminates p m
  | updCas k i f cur new c =>
    cases hg : m.get? k i with
    | none => exact ⟨1, by simp [soloSteps, Th.step, hg, Th.finished]⟩
    | some o =>
      by_cases he : o = cur
      · obtain ⟨n, hn⟩ := prog_solo_terminates (c (.ok o)) (m.set k i new)
        exact ⟨n + 1, by simpa [soloSteps, Th.step, hg, he] using hn⟩
      · -- the CAS fails and reports the current value `o`
        cases hf : f o with
        | skip =>
          obtain ⟨n, hn⟩ := prog_solo_terminates (c (.error o)) m
          exact ⟨n + 1, by simpa [soloSteps, Th.step, hg, he, Th.afterUpd, hf] using hn⟩
        | panic s =>
          exact ⟨1, by simp [soloSteps, Th.step, hg, he, Th.afterUpd, hf, Th.finished]⟩
        | set v =>
          obtain ⟨n, hn⟩ := prog_solo_terminates (c (.ok o)) (m.set k i v)
          refine ⟨n + 2, ?_⟩
          simp only [soloSteps, Th.step, hg, he, if_false, Th.afterUpd, hf, if_true]
          exact hn

end LLFree
