/-
  The candidate index of `Trees::search` / `Trees::search_best` (alternating before and after the start
  tree) regenerated from `core/src/trees.rs` (`Gen/Idx.lean`) is the `searchIdx` of the model.
-/
import LLFreeV.Gen.Idx
import LLFreeV.Model.Trees
namespace LLFree.GenTree
open LLFree

theorem searchIdx_eq (start n i : Nat) : Gen.I.searchIdx start n i = searchIdx start n i := by
  unfold Gen.I.searchIdx searchIdx
  have h : i + 2 - 1 = i + 1 := by omega
  by_cases hi : i % 2 = 0 <;> simp [hi, h]

theorem searchBestIdx_eq (start n i : Nat) : Gen.I.searchBestIdx start n i = searchIdx start n i :=
  searchIdx_eq start n i

end LLFree.GenTree
