/-
  C10, second clause: in a drained allocator a targeted allocation of a block that is entirely
  free and lies in a tree that is not hidden (offline) succeeds.
-/
import LLFreeV.Proofs.UpperSingle
namespace LLFree
open Prog

section
variable {c : Cfg} {H : Nat → Nat} {m : Mem}

/-- a free aligned block contributes its frames to the free count of its tree -/
theorem freeInTree_ge_block (okg : GeomOk c.geom) (f order : Nat) (hto : order ≤ c.geom.treeOrder) (hal : f % 2 ^ order = 0)
    (ha : GetAllowed c m f order) : 2 ^ order ≤ m.freeInTree c.geom (f / c.geom.treeFrames) := by
  obtain ⟨h1, h2⟩ := block_in_tree okg f order hto hal
  unfold Mem.freeInTree
  have key := countP_range_raise c.geom.treeFrames (f - f / c.geom.treeFrames * c.geom.treeFrames) (2 ^ order)
    (fun k => !m.allocated c.geom (f / c.geom.treeFrames * c.geom.treeFrames + k) &&
      !(decide (f - f / c.geom.treeFrames * c.geom.treeFrames ≤ k) && decide (k < f - f / c.geom.treeFrames * c.geom.treeFrames + 2 ^ order)))
    (fun k => !m.allocated c.geom (f / c.geom.treeFrames * c.geom.treeFrames + k)) (by omega)
    (by
      intro i hi1 hi2
      have := ha (f / c.geom.treeFrames * c.geom.treeFrames + i - f) (by omega)
      rw [show f + (f / c.geom.treeFrames * c.geom.treeFrames + i - f) = f / c.geom.treeFrames * c.geom.treeFrames + i by omega] at this
      simp [this, hi1, hi2])
    (by
      intro i _ hnot
      have : (decide (f - f / c.geom.treeFrames * c.geom.treeFrames ≤ i) &&
          decide (i < f - f / c.geom.treeFrames * c.geom.treeFrames + 2 ^ order)) = false := by
        by_cases a : f - f / c.geom.treeFrames * c.geom.treeFrames ≤ i <;>
          by_cases b : i < f - f / c.geom.treeFrames * c.geom.treeFrames + 2 ^ order <;> simp [a, b]
        exact hnot ⟨a, b⟩
      rw [this]; simp)
  omega

/-- **C10 (targeted).** Drained allocator, block entirely free, its tree not hidden: the
    targeted allocation returns exactly the block. -/
theorem get_at_drained_complete (ok : CfgOk c) (inv : UpperInv0 c H m) (habs : ∀ s, SlotAbsent m s) (f : Nat) (r : Request)
    (hcls : r.cls < 8) (hloc : r.locOk c) (hv : C08.ArgsValid c f r) (hfree : GetAllowed c m f r.order)
    (hnh : H (f / c.geom.treeFrames) = 0) :
    Runs m (get c (some f) r) (fun res m' => (UpperInv0 c H m' ∧ GetOutcome c m r.order (some f) res m') ∧ ∃ x, res = .ok x) := by
  have okg := ok.geom.toGeomOk
  apply Runs.withPart (upper_get_spec ok inv (some f) r hcls hloc hv)
  have hb : BlockOk c f r.order := ⟨hv.1, hv.2.2.2.1, hv.2.2.1⟩
  have hpos : 0 < 2 ^ r.order := Nat.pos_of_ne_zero (by simp)
  have hi : f / c.geom.treeFrames < c.ntrees := tree_lt_of_block okg f (2 ^ r.order) hpos hb.inRange
  obtain ⟨rng, hrng⟩ := Option.isSome_iff_exists.1 hv.2.2.2.2
  obtain ⟨t, ht⟩ := inv.tree_get _ hi
  -- the tree is unreserved and its counter covers the block
  have hres : t.reserved = false := by
    cases hr : t.reserved with
    | false => rfl
    | true =>
      exfalso
      rcases inv.resSlot _ t ht hr with h | ⟨s, l, hl, hp, _⟩
      · exact h
      · rw [habs s l hl] at hp; cases hp
  have hcnt : t.free ≥ 2 ^ r.order := by
    have h1 := inv.counterEq _ t ht hnh
    have h2 := slotFree_zero_of_absent m c.geom.treeRows (f / c.geom.treeFrames) habs
    have h3 := freeInTree_ge_block (m := m) okg f r.order hb.ord hb.aligned hfree
    omega
  have hchk := C08.check_valid c m f r hcls hv
  unfold get
  refine Part.bind (Runs.toPart (Runs.of_eq hchk (Q := fun x m' => x = .ok () ∧ m = m') ⟨rfl, rfl⟩)) ?_
  rintro _ _ ⟨rfl, rfl⟩
  simp only
  unfold getAt
  -- the attempt through the (empty) local slot answers "continue globally" and changes nothing
  have hvia : Part m (getAtLocal c f r) (fun v m' => v = none ∧ m = m') := by
    unfold getAtLocal
    cases hl : r.loc with
    | none => exact Part.pure ⟨rfl, rfl⟩
    | some l =>
      simp only
      refine Part.bind (Runs.toPart (getLocal_absent ok inv r.order r.cls l (some f) hcls rng hrng (hloc l rng hl hrng) (habs _))) ?_
      rintro _ _ ⟨rfl, rfl⟩
      exact Part.pure ⟨rfl, rfl⟩
  refine Part.bind hvia ?_
  rintro _ _ ⟨rfl, rfl⟩
  simp only
  have hsteal : Part m (stealGlobal c (f / c.tf) r.cls r.order (some f)) (fun g1 _ => ∃ x, g1 = .ok x) := by
    unfold stealGlobal
    refine Part.bind (Runs.toPart (trees_steal_spec ok inv (f / c.tf) r.cls (2 ^ r.order) hi hcls)) ?_
    rintro s m1 hs
    cases s with
    | none => exact absurd ⟨hcnt, hres⟩ (hs.2 t ht)
    | some k =>
      obtain ⟨_, inv1, same1, _⟩ := hs
      simp only
      have ha1 : GetAllowed c m1 f r.order := by
        intro x hx
        have := hfree x hx
        rwa [Mem.allocated_congr c.geom m m1 same1.1 same1.2]
      obtain ⟨h1, _⟩ := lower_getAt_refines ok.geom m1 inv1.lower f r.order hb
      obtain ⟨m2, hrun, _⟩ := h1 ha1
      have hlow : Part m1 (Lower.get c.g (f / c.tf * c.g.treeRows) r.order (some f)) (fun lr _ => lr = .ok f) := by
        unfold Lower.get
        simp only
        refine Part.bind (Runs.toPart (Runs.of_eq hrun (Q := fun x _ => x = .ok ()) rfl)) ?_
        rintro _ _ rfl
        exact Part.pure rfl
      refine Part.bind hlow ?_
      rintro _ _ rfl
      exact Part.pure ⟨_, rfl⟩
  refine Part.bind hsteal ?_
  rintro g1 _ ⟨x, rfl⟩
  exact Part.pure ⟨x, rfl⟩

end
end LLFree
