/-
  `Lower::get` (search inside a tree) of one thread among many (`SafeL`).
-/
import LLFreeV.Proofs.OwnLowerGet2
namespace LLFree
open Prog

def GetPostS (gh : Gh) (order : Nat) : Res Nat → Gh → Prop
  | .ok frame, gh' => frame % 2 ^ order = 0 ∧ gh' = gh.addS frame (2 ^ order) ∧
      ∀ f, inBlockF frame (2 ^ order) f = true → gh.ownS f = false
  | .error e, gh' => e = .memory ∧ gh' = gh

def GetPostH (g : Geom) (gh : Gh) (hNum : Nat) : Res Nat → Gh → Prop
  | .ok frame, gh' => (frame % g.hugeFrames = 0 ∧ (frame / g.hugeFrames) % hNum = 0) ∧ (frame / g.hugeFrames) % g.treeHuge + hNum ≤ g.treeHuge ∧
      gh' = gh.addH (frame / g.hugeFrames) hNum ∧ ∀ x, inBlockF (frame / g.hugeFrames) hNum x = true → gh.ownH x = false
  | .error e, gh' => e = .memory ∧ gh' = gh

section
variable {g : Geom} {strict : Bool}

theorem get_go_safeL (ok : GeomOk16 g) (gh : Gh) (start order t childOff : Nat) (ho : order < g.hugeOrder) (cnt j : Nat) :
    SafeL strict g (GetPostS gh order) gh (Lower.get.go g start order t childOff (t * g.treeHuge) cnt j) := by
  have okg := ok.toGeomOk
  have hpos : 0 < 2 ^ order := Nat.pos_of_ne_zero (by simp)
  induction cnt generalizing j with
  | zero => unfold Lower.get.go; exact ⟨rfl, rfl⟩
  | succ cnt ih =>
    unfold Lower.get.go
    simp only [hugeIdx]
    generalize (childOff + j) % g.treeHuge = i
    apply SafeL.bind _ _ _ (decL ok gh (t * g.treeHuge + i) (2 ^ order))
    intro r gh1 h1
    cases r with
    | error e => simp only at h1 ⊢; subst h1; exact ih (j + 1)
    | ok o =>
      simp only at h1 ⊢
      subst h1
      have hbud : 2 ^ order ≤ (gh.addU (t * g.treeHuge + i) (2 ^ order)).u (t * g.treeHuge + i) := by
        show 2 ^ order ≤ (if t * g.treeHuge + i = t * g.treeHuge + i then gh.u _ + 2 ^ order else _); rw [if_pos rfl]; omega
      apply SafeL.bind _ _ _ (setFirstZerosL okg (gh.addU (t * g.treeHuge + i) (2 ^ order)) (t * g.treeHuge + i) start order (by omega) hbud)
      intro s gh2 h2
      cases s with
      | ok off =>
        simp only at h2 ⊢
        obtain ⟨hal, hfit, hA⟩ := h2
        refine ⟨?_, addS_of_AllocL gh gh2 _ _ _ hA, hA.2.1⟩
        have hd : 2 ^ order ∣ g.hugeFrames := ⟨2 ^ (g.hugeOrder - order), by
          show 2 ^ g.hugeOrder = _
          rw [← Nat.pow_add]; congr 1; omega⟩
        have : 2 ^ order ∣ (t * g.treeHuge + i) * g.hugeFrames := Nat.dvd_mul_left_of_dvd hd _
        rw [Nat.add_mod, Nat.mod_eq_zero_of_dvd this, hal]; simp
      | error e =>
        simp only at h2 ⊢
        obtain ⟨_, h2⟩ := h2
        subst h2
        apply SafeL.bind _ _ _ (incL ok (gh.addU (t * g.treeHuge + i) (2 ^ order)) (t * g.treeHuge + i) (2 ^ order) hpos hbud)
        rintro u gh3 ⟨⟨o', rfl⟩, h3⟩
        rw [Gh.subU_addU] at h3
        subst h3
        exact ih (j + 1)

theorem get_goH_safeL (ok : GeomOk16 g) (gh : Gh) (t hNum childOff q : Nat) (hq : g.treeHuge = hNum * q) (hpos : 0 < hNum)
    (hco : childOff % hNum = 0) (cnt k : Nat) :
    SafeL strict g (GetPostH g gh hNum) gh (Lower.get.goH g t (t * g.treeFrames) hNum childOff cnt k) := by
  have okg := ok.toGeomOk
  induction cnt generalizing k with
  | zero => unfold Lower.get.goH; exact ⟨rfl, rfl⟩
  | succ cnt ih =>
    unfold Lower.get.goH
    simp only
    have hthp := okg.th_pos
    have hi_lt : (childOff + k * hNum) % g.treeHuge < g.treeHuge := Nat.mod_lt _ hthp
    have hi_mod : ((childOff + k * hNum) % g.treeHuge) % hNum = 0 := by
      rw [hq, Nat.mod_mul_right_mod, Nat.add_mod, hco, Nat.mul_mod_left]; simp
    generalize (childOff + k * hNum) % g.treeHuge = i at hi_lt hi_mod
    have hfit : i + hNum ≤ g.treeHuge := by
      obtain ⟨r, hr⟩ := Nat.dvd_of_mod_eq_zero hi_mod
      rw [hq, hr] at hi_lt ⊢
      have : r < q := Nat.lt_of_mul_lt_mul_left hi_lt
      have : hNum * (r + 1) ≤ hNum * q := Nat.mul_le_mul_left _ this
      rw [Nat.mul_add, Nat.mul_one] at this; exact this
    have hnp : ¬ i + hNum > g.treeHuge := by omega
    simp only [hnp, if_false, casAll, hugeIdx]
    have key := casAllL_take (strict := strict) ok gh (t * g.treeHuge + i) "undo failed" hNum hNum 0 (by omega)
      (fun x hx => by unfold inBlockF at hx; simp at hx; omega)
    rw [Gh.addH_zero] at key
    apply SafeL.bind _ _ _ key
    intro b gh1 h1
    cases b with
    | false => simp only [Bool.false_eq_true, if_false] at h1 ⊢; subst h1; exact ih (k + 1)
    | true =>
      simp only [if_true] at h1 ⊢
      have hframe : t * g.treeFrames + i * g.hugeFrames = (t * g.treeHuge + i) * g.hugeFrames := by
        rw [okg.tf_eq, Nat.add_mul, Nat.mul_assoc]
      have hdiv : (t * g.treeFrames + i * g.hugeFrames) / g.hugeFrames = t * g.treeHuge + i := by
        rw [hframe]; exact Nat.mul_div_cancel _ okg.hf_pos
      show GetPostH g gh hNum (.ok (t * g.treeFrames + i * g.hugeFrames)) gh1
      refine ⟨⟨by rw [hframe]; exact Nat.mul_mod_left _ _, ?_⟩, ?_, ?_, ?_⟩
      · rw [hdiv, hq, Nat.mul_comm t, Nat.mul_assoc, Nat.mul_add_mod]; exact hi_mod
      · rw [hdiv, Nat.mul_comm, Nat.mul_add_mod, Nat.mod_eq_of_lt hi_lt]; exact hfit
      · rw [hdiv]; exact h1.1
      · rw [hdiv]; exact h1.2

/-- **`Lower::get`, small orders**: a success hands out an aligned block whose frames nobody
    held; the account opened on the counter is closed again in every case -/
theorem getL_small (ok : GeomOk16 g) (gh : Gh) (start order : Nat) (ho : order < g.hugeOrder) :
    SafeL strict g (GetPostS gh order) gh (Lower.get g start order none) := by
  have okg := ok.toGeomOk
  unfold Lower.get
  have hno : ¬ order ≥ g.hugeOrder := by omega
  simp only [hno, if_false]
  have : start * 64 / g.treeFrames * g.treeFrames / g.hugeFrames = start * 64 / g.treeFrames * g.treeHuge := by
    rw [okg.tf_eq, ← Nat.mul_assoc]; exact Nat.mul_div_cancel _ okg.hf_pos
  rw [this]
  exact get_go_safeL ok gh start order _ _ ho _ _

/-- **`Lower::get`, huge orders** (up to the tree order) -/
theorem getL_huge (ok : GeomOk16 g) (gh : Gh) (start order q : Nat) (ho : g.hugeOrder ≤ order)
    (hq : g.treeHuge = 2 ^ (order - g.hugeOrder) * q) :
    SafeL strict g (GetPostH g gh (2 ^ (order - g.hugeOrder))) gh (Lower.get g start order none) := by
  unfold Lower.get
  have hyes : order ≥ g.hugeOrder := ho
  simp only [hyes, if_true]
  have hpos : 0 < 2 ^ (order - g.hugeOrder) := Nat.pos_of_ne_zero (by simp)
  exact get_goH_safeL ok gh _ _ _ q hq hpos (Nat.mul_mod_left _ _) _ _

end
end LLFree
