/-
  `impl LocalTree` regenerated from core/src/local.rs (`Gen/Local.lean`) agrees with the model's slot transitions.
-/
import LLFreeV.Gen.Local
import LLFreeV.Model.Locals
import LLFreeV.Proofs.GenSim
namespace LLFree.GenTree
open LLFree

/-! ### local reservations (`impl LocalTree`, `Gen/Local.lean`) -/
section
open LLFree.Gen.L

def ofRL : Gen.L.R LTree → Upd LTree
  | .ok t => .set t
  | .error s => .panic s

def ofROL : Gen.L.R (Option LTree) → Upd LTree
  | .ok (some t) => .set t
  | .ok none => .skip
  | .error s => .panic s

/-- `LocalTree::with` -/
theorem lwith_eq (row free : Nat) : Sim (ofRL (Gen.L.with' row free)) (LTree.with row free) := by
  unfold Gen.L.with' LTree.with
  by_cases hr : row < 2 ^ 44
  · have hr' : ¬ row ≥ 2 ^ 44 := by omega
    by_cases hf : free < 2 ^ 19
    · have hf' : ¬ free ≥ 2 ^ 19 := by omega
      simp [hr, hf, hr', hf', Gen.L.withRow, Gen.L.withFree, Gen.L.withPresent, LTree.zero, ofRL, bind, Except.bind, pure, Except.pure]
    · have hf' : free ≥ 2 ^ 19 := by omega
      simp [hr, hf, hr', hf', Gen.L.withRow, Gen.L.withFree, Gen.L.withPresent, LTree.zero, ofRL, bind, Except.bind, pure, Except.pure,
        throw, throwThe, MonadExceptOf.throw]
  · have hr' : row ≥ 2 ^ 44 := by omega
    simp [hr, hr', Gen.L.withRow, LTree.zero, ofRL, bind, Except.bind, pure, Except.pure, throw, throwThe, MonadExceptOf.throw]

/-- `LocalTree::none` -/
theorem lnone_eq : Gen.L.none' = .ok LTree.none := rfl

/-- `LocalTree::get` -/
theorem lget_eq (tr : Nat) (self : LTree) (tree : Option Nat) (free : Nat) (hf : self.free < 2 ^ 19) :
    Sim (ofROL (Gen.L.get tr self tree free)) (Upd.ofOption (LTree.get tr self tree free)) := by
  unfold Gen.L.get LTree.get
  have hw : self.free - free < 2 ^ 19 := by omega
  cases hp : self.present
  · simp [ofROL, Upd.ofOption, pure, Except.pure]
  · cases tree with
    | none =>
      by_cases hge : free ≤ self.free <;>
        simp [hp, hge, hw, Gen.L.withFree, ofROL, Upd.ofOption, bind, Except.bind, pure, Except.pure]
    | some i =>
      by_cases hi : self.row / tr = i
      · by_cases hge : free ≤ self.free <;>
          simp [hp, hi, hge, hw, Gen.L.withFree, ofROL, Upd.ofOption, bind, Except.bind, pure, Except.pure]
      · simp [hp, hi, ofROL, Upd.ofOption, pure, Except.pure]

/-- `LocalTree::put` -/
theorem lput_eq (tr tf : Nat) (self : LTree) (tree free : Nat) (htf : tf < 2 ^ 19) :
    Sim (ofROL (Gen.L.put tr tf self tree free)) (LTree.put tr tf self tree free) := by
  unfold Gen.L.put LTree.put
  cases hp : self.present
  · simp [ofROL, pure, Except.pure]
  · by_cases hi : self.row / tr = tree
    · by_cases hle : self.free + free ≤ tf
      · have h1 : ¬ self.free + free > tf := by omega
        have h2 : self.free + free < 2 ^ 19 := by omega
        simp [hp, hi, hle, h1, h2, Gen.L.withFree, ofROL, bind, Except.bind, pure, Except.pure]
      · have h1 : self.free + free > tf := by omega
        simp [hp, hi, hle, h1, ofROL, bind, Except.bind, pure, Except.pure, throw, throwThe, MonadExceptOf.throw]
    · simp [hp, hi, ofROL, pure, Except.pure]

/-- `LocalTree::set_start` -/
theorem lsetStart_eq (tr : Nat) (self : LTree) (row : Nat) :
    Sim (ofROL (Gen.L.setStart tr self row)) (LTree.setStart tr self row) := by
  unfold Gen.L.setStart LTree.setStart
  by_cases hc : (self.present && self.row / tr == row / tr && self.row != row) = true
  · by_cases hr : row < 2 ^ 44
    · have : ¬ row ≥ 2 ^ 44 := by omega
      simp [hc, hr, this, Gen.L.withRow, ofROL, bind, Except.bind, pure, Except.pure]
    · have : row ≥ 2 ^ 44 := by omega
      simp [hc, hr, this, Gen.L.withRow, ofROL, bind, Except.bind, pure, Except.pure, throw, throwThe, MonadExceptOf.throw]
  · simp [hc, ofROL, pure, Except.pure]

end

end LLFree.GenTree
