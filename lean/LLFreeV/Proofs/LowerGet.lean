/-
  Sequential specification of `Lower::get` without target (search inside one tree):
  soundness against the ownership specification and completeness (C12).
-/
import LLFreeV.Proofs.LowerGetAt
import LLFreeV.Proofs.ChunkSearch
namespace LLFree
open Prog
section
variable {c : Cfg}

/-- outcome of a search in tree `t` -/
inductive GetRes (c : Cfg) (m : Mem) (t order : Nat) : Mem → Res Nat → Prop where
  | found (m' : Mem) (f : Nat) (htree : f / c.geom.treeFrames = t) (hal : f % 2 ^ order = 0)
      (hallowed : GetAllowed c m f order) (post : GetPost c m m' f order) : GetRes c m t order m' (.ok f)
  | none (hno : ∀ f, f / c.geom.treeFrames = t → f % 2 ^ order = 0 → ¬ GetAllowed c m f order) :
      GetRes c m t order m (.error .memory)

/-- no aligned free block of the order inside huge frame `H` -/
def NoFreeIn (c : Cfg) (m : Mem) (H order : Nat) : Prop :=
  ∀ off, off + 2 ^ order ≤ c.geom.hugeFrames → off % 2 ^ order = 0 →
    ¬ GetAllowed c m (H * c.geom.hugeFrames + off) order

theorem rot_surj_th (okg : GeomOk c.geom) (s r : Nat) (hr : r < c.geom.treeHuge) :
    ∃ k, k < c.geom.treeHuge ∧ (s % c.geom.treeHuge + k) % c.geom.treeHuge = r := by
  have hpos := okg.th_pos
  have hs : s % c.geom.treeHuge < c.geom.treeHuge := Nat.mod_lt _ hpos
  by_cases h : s % c.geom.treeHuge ≤ r
  · exact ⟨r - s % c.geom.treeHuge, by omega, by rw [Nat.add_sub_cancel' h]; exact Nat.mod_eq_of_lt hr⟩
  · refine ⟨r + c.geom.treeHuge - s % c.geom.treeHuge, by omega, ?_⟩
    have : s % c.geom.treeHuge + (r + c.geom.treeHuge - s % c.geom.treeHuge) = r + c.geom.treeHuge := by omega
    rw [this, Nat.add_mod_right]; exact Nat.mod_eq_of_lt hr

theorem allocated_of_marker (m : Mem) (H : Nat) (f : Nat) (hf : f / c.geom.hugeFrames = H)
    (hm : Huge.isHuge (m.hugeE H) = true) : m.allocated c.geom f = true := by
  unfold Mem.allocated; rw [hf, hm]; rfl

theorem huge_entry_get (okg : GeomOk c.geom) {m : Mem} (inv : LowerInv c m) (t i : Nat) (ht : t < c.ntrees)
    (hi : i < c.geom.treeHuge) : m.get? .huge (t * c.geom.treeHuge + i) = some (m.hugeE (t * c.geom.treeHuge + i)) := by
  have hsz : t * c.geom.treeHuge + i < m.huge.size := by
    rw [inv.hugeSize]
    have : (t + 1) * c.geom.treeHuge ≤ c.ntrees * c.geom.treeHuge := Nat.mul_le_mul_right _ ht
    rw [Nat.add_mul, Nat.one_mul] at this; omega
  simp only [Mem.get?_huge]; unfold Mem.hugeE
  rw [Array.getElem?_eq_getElem hsz]; rfl

/-- the child loop of `Lower::get` for orders below the huge order -/
theorem get_go_spec (ok : GeomOk16 c.geom) (m : Mem) (inv : LowerInv c m) (start order t co : Nat)
    (ho : order < c.geom.hugeOrder) (ht : t < c.ntrees) :
    ∀ (cnt j : Nat), j + cnt = c.geom.treeHuge →
      (∀ k, k < j → NoFreeIn c m (t * c.geom.treeHuge + (co % c.geom.treeHuge + k) % c.geom.treeHuge) order) →
      ∃ m' r, runSolo (Lower.get.go c.geom start order t (co % c.geom.treeHuge) (t * c.geom.treeHuge) cnt j) m = (m', .ok r) ∧
        GetRes c m t order m' r := by
  have okg : GeomOk c.geom := ok.toGeomOk
  have hHF := okg.hf_pos
  have hTH := okg.th_pos
  have hlt16 := ok.hf_lt
  have hpos : 0 < 2 ^ order := Nat.pos_of_ne_zero (by simp)
  intro cnt
  induction cnt with
  | zero =>
    intro j hj hvis
    refine ⟨m, .error .memory, by rw [Lower.get.go]; rfl, ?_⟩
    apply GetRes.none
    intro f hft hal hallowed
    -- f lies in child i = (f / HF) % TH of tree t
    have hidx := okg.hugeIdx_eq f
    rw [hft] at hidx
    have hi : (f / c.geom.hugeFrames) % c.geom.treeHuge < c.geom.treeHuge := Nat.mod_lt _ hTH
    obtain ⟨k, hk, hkr⟩ := rot_surj_th okg co _ hi
    obtain ⟨hal', hfit⟩ := block_in_huge okg f order (Nat.le_of_lt ho) hal
    apply hvis k (by omega) (f % c.geom.hugeFrames) hfit hal'
    rw [hkr, hidx, ← frame_decomp c.geom f]
    exact hallowed
  | succ cnt ih =>
    intro j hj hvis
    rw [Lower.get.go]
    generalize hidef : (co % c.geom.treeHuge + j) % c.geom.treeHuge = i
    have hi : i < c.geom.treeHuge := by rw [← hidef]; exact Nat.mod_lt _ hTH
    generalize hHdef : t * c.geom.treeHuge + i = H
    have hE : m.get? .huge H = some (m.hugeE H) := by rw [← hHdef]; exact huge_entry_get okg inv t i ht hi
    simp only [runSolo_bind, hugeIdx, hHdef]
    rw [runSolo_tryUpdate_some (k := .huge) _ hE]
    -- frames of H belong to tree t
    have hHtree : ∀ off, off < c.geom.hugeFrames → (H * c.geom.hugeFrames + off) / c.geom.treeFrames = t := by
      intro off hoff
      rw [← hHdef, okg.tf_eq]
      have e : (t * c.geom.treeHuge + i) * c.geom.hugeFrames + off =
          t * (c.geom.treeHuge * c.geom.hugeFrames) + (i * c.geom.hugeFrames + off) := by
        rw [Nat.add_mul, Nat.mul_assoc]; omega
      have hlt : i * c.geom.hugeFrames + off < c.geom.treeHuge * c.geom.hugeFrames := by
        have : (i + 1) * c.geom.hugeFrames ≤ c.geom.treeHuge * c.geom.hugeFrames := Nat.mul_le_mul_right _ hi
        rw [Nat.add_mul, Nat.one_mul] at this
        omega
      rw [e, Nat.mul_comm t, Nat.mul_add_div (Nat.mul_pos hTH hHF), Nat.div_eq_of_lt hlt, Nat.add_zero]
    have hdiv : ∀ off, off < c.geom.hugeFrames → (H * c.geom.hugeFrames + off) / c.geom.hugeFrames = H :=
      fun off hoff => div_hf_mul_add c.geom hHF H off hoff
    -- continuing with the next child when this one offers nothing
    have hcont : NoFreeIn c m H order →
        ∃ m' r, runSolo (Lower.get.go c.geom start order t (co % c.geom.treeHuge) (t * c.geom.treeHuge) cnt (j + 1)) m = (m', .ok r) ∧
          GetRes c m t order m' r := by
      intro hno
      apply ih (j + 1) (by omega)
      intro k hk
      by_cases e : k = j
      · subst e; rw [hidef, hHdef]; exact hno
      · exact hvis k (by omega)
    by_cases hm : Huge.isHuge (m.hugeE H) = true
    · have hdec : Huge.dec (m.hugeE H) (2 ^ order) = none := by simp [Huge.dec, hm]
      simp only [hdec, andThen_ok]
      apply hcont
      intro off hfit _ hallowed
      have := hallowed 0 hpos
      rw [Nat.add_zero, allocated_of_marker m H _ (hdiv off (by omega)) hm] at this
      cases this
    · have hnm : Huge.isHuge (m.hugeE H) = false := by simpa using hm
      have hfree : Huge.free (m.hugeE H) = m.hugeE H := Huge.free_of_not_huge _ hnm
      -- for a huge frame that is not allocated as a whole, "free" means "bits are zero"
      have hallowed_iff : ∀ off, off + 2 ^ order ≤ c.geom.hugeFrames →
          (GetAllowed c m (H * c.geom.hugeFrames + off) order ↔ blockAll m (H * c.geom.hugeFrames + off) (2 ^ order) false) := by
        intro off hfit
        unfold GetAllowed blockAll Mem.allocated
        constructor
        · intro ha k hk
          have := ha k hk
          rw [Nat.add_assoc, hdiv (off + k) (by omega), hnm] at this
          rw [Nat.add_assoc]; simpa using this
        · intro ha k hk
          rw [Nat.add_assoc, hdiv (off + k) (by omega), hnm]
          have := ha k hk
          rw [Nat.add_assoc] at this
          rw [this]; rfl
      by_cases hge : m.hugeE H ≥ 2 ^ order
      · by_cases hH : H < c.nhuge
        · have hle := inv.entry_le ok H hH hnm
          have hdec : Huge.dec (m.hugeE H) (2 ^ order) = some (m.hugeE H - 2 ^ order) := by
            have : m.hugeE H - 2 ^ order < 65536 :=
              (fun (e n HF : Nat) (h1 : e ≤ HF) (h2 : HF < 65535) => (by omega : e - n < 65536)) _ _ _ hle hlt16
            simp [Huge.dec, hnm, hfree, hge, Huge.newWith_small _ this]
          simp only [hdec, andThen_ok, runSolo_bind]
          have hhsz := huge_lt_size okg inv H hH
          have hbit1' : ∀ f, (m.set .huge H (m.hugeE H - 2 ^ order)).bit f = m.bit f := fun f => rfl
          have hrows1' : H * c.geom.rows + c.geom.rows ≤ (m.set .huge H (m.hugeE H - 2 ^ order)).rows.size :=
            rows_of_huge okg inv H hH
          have hE1' : (m.set .huge H (m.hugeE H - 2 ^ order)).get? .huge H = some (m.hugeE H - 2 ^ order) := by
            simp only [Mem.get?_huge, Mem.set_huge_huge, Array.getElem?_setIfInBounds, hhsz, if_true]
          have hback : (m.set .huge H (m.hugeE H - 2 ^ order)).set .huge H (m.hugeE H) = m :=
            Mem.set_huge_twice m H (m.hugeE H) (by simpa using hE) _
          have hfields : (m.set .huge H (m.hugeE H - 2 ^ order)).huge = m.huge.setIfInBounds H (m.hugeE H - 2 ^ order) ∧
              (m.set .huge H (m.hugeE H - 2 ^ order)).trees = m.trees ∧
              (m.set .huge H (m.hugeE H - 2 ^ order)).slots = m.slots ∧
              (m.set .huge H (m.hugeE H - 2 ^ order)).rows.size = m.rows.size := ⟨rfl, rfl, rfl, rfl⟩
          generalize m.set .huge H (m.hugeE H - 2 ^ order) = m1 at *
          have hbit1 := hbit1'
          have hrows1 := hrows1'
          obtain ⟨m2, r, hrun, hres⟩ := setFirstZeros_spec okg m1 H start order (Nat.le_of_lt ho) hrows1
          rw [hrun]
          cases hres with
          | found _ off hlt hal hfree' hset hsame =>
            simp only [andThen_ok, runSolo_pure]
            refine ⟨m2, _, rfl, ?_⟩
            have hall : blockAll m (H * c.geom.hugeFrames + off) (2 ^ order) false := fun k hk => by
              rw [← hbit1]; exact hfree' k hk
            have hbits : BitsSet m m2 (H * c.geom.hugeFrames + off) (2 ^ order) true := fun f => by
              rw [hset f, hbit1]
            apply GetRes.found
            · exact hHtree off (by omega)
            · -- aligned: H*HF is a multiple of 2^order
              have hd : 2 ^ order ∣ c.geom.hugeFrames :=
                ⟨2 ^ (c.geom.hugeOrder - order), by show 2 ^ c.geom.hugeOrder = _; rw [← Nat.pow_add]; congr 1; omega⟩
              exact Nat.mod_eq_zero_of_dvd
                (Nat.dvd_add (Nat.dvd_trans hd (Nat.dvd_mul_left _ _)) (Nat.dvd_of_mod_eq_zero hal))
            · exact (hallowed_iff off hlt).2 hall
            · exact getPost_of_small ok inv m2 H off order ho hH hlt hnm hge hall hbits
                (by rw [hsame.huge]; exact hfields.1) (by rw [hsame.trees]; exact hfields.2.1)
                (by rw [hsame.slots]; exact hfields.2.2.1) (by rw [hsame.size]; exact hfields.2.2.2)
          | none hno =>
            -- undo the decrement and continue
            simp only [andThen_ok, runSolo_bind]
            rw [runSolo_updK_some (k := .huge) _ hE1']
            have hnm1 : Huge.isHuge (m.hugeE H - 2 ^ order) = false := by
              have : m.hugeE H - 2 ^ order < 65535 :=
                (fun (e n HF : Nat) (h1 : e ≤ HF) (h2 : HF < 65535) => (by omega : e - n < 65535)) _ _ _ hle hlt16
              simp only [Huge.isHuge, HugeMarker, beq_eq_false_iff_ne, ne_eq]; omega
            have hinc : Huge.inc c.geom.hugeFrames (m.hugeE H - 2 ^ order) (2 ^ order) = .set (m.hugeE H) := by
              have h1 : ¬ 2 ^ order > c.geom.hugeFrames := by
                have : 2 ^ order ≤ m.hugeE H := hge
                omega
              have h2 : m.hugeE H - 2 ^ order ≤ c.geom.hugeFrames - 2 ^ order := by omega
              have h3 : Huge.newWith (m.hugeE H - 2 ^ order + 2 ^ order) = m.hugeE H := by
                rw [Nat.sub_add_cancel hge]; exact Huge.newWith_small _ (by omega)
              simp [Huge.inc, h1, hnm1, Huge.free_of_not_huge _ hnm1, h2, h3]
            rw [hinc]
            simp only [andThen_ok]
            rw [hback]
            apply hcont
            intro off hfit hal hallowed
            apply hno off hfit hal
            intro k hk
            rw [hbit1]; exact (hallowed_iff off hfit).1 hallowed k hk
        · -- entries beyond the last bitfield are 0
          have := inv.beyond H (by omega)
          rw [this] at hge; omega
      · -- fewer free frames than requested
        have hdec : Huge.dec (m.hugeE H) (2 ^ order) = none := by
          simp [Huge.dec, hnm, hfree]; omega
        simp only [hdec, andThen_ok]
        apply hcont
        intro off hfit _ hallowed
        by_cases hH : H < c.nhuge
        · have := blockAll_false_le_zeros c.geom m H off (2 ^ order) hfit ((hallowed_iff off hfit).1 hallowed)
          rw [← inv.count H hH hnm] at this; omega
        · -- outside the bitfields every frame counts as allocated
          have hout := (hallowed_iff off hfit).1 hallowed 0 hpos
          have : m.bit (H * c.geom.hugeFrames + off + 0) = true := by
            apply inv.outside
            have h1 : c.nhuge * c.geom.hugeFrames ≤ H * c.geom.hugeFrames := Nat.mul_le_mul_right _ (by omega)
            have h2 : c.frames ≤ c.nhuge * c.geom.hugeFrames := by
              unfold Cfg.nhuge
              have := Nat.lt_mul_div_succ (c.frames + c.geom.hugeFrames - 1) hHF
              rw [Nat.mul_comm, Nat.add_mul, Nat.one_mul] at this
              omega
            omega
          rw [this] at hout; cases hout

end
end LLFree

namespace LLFree
open Prog
section
variable {c : Cfg}

/-- `casAll` always answers (it cannot panic when run alone) -/
theorem casAll_total (okg : GeomOk c.geom) (m : Mem) (inv : LowerInv c m) (t i n cur new : Nat) (ht : t < c.ntrees)
    (hfit : i + n ≤ c.geom.treeHuge) :
    ∃ m' b, runSolo (casAll c.geom t i n cur new) m = (m', .ok b) := by
  unfold casAll
  have hsz : ∀ k, k < n → (m.get? .huge (hugeIdx c.geom t i + k)).isSome = true := by
    intro k hk
    have := huge_entry_get okg inv t (i + k) ht (by omega)
    simp only [hugeIdx, Nat.add_assoc] at this ⊢
    rw [this]; rfl
  have hcr := casRange_spec .huge (hugeIdx c.geom t i) cur new "undo failed" m n m 0
    (by simpa using RangeAre.empty .huge m _ _) (fun k hk => by omega) (by simpa using hsz)
  by_cases hall : ∀ k, 0 ≤ k → k < 0 + n → m.get? .huge (hugeIdx c.geom t i + k) = some cur
  · obtain ⟨m', hm', _⟩ := hcr.1 hall
    exact ⟨m', true, hm'⟩
  · exact ⟨m, false, hcr.2 hall⟩

/-- for huge orders, `get_at` is `casAll` on the covered table entries -/
theorem getAt_huge_eq (okg : GeomOk c.geom) (m : Mem) (frame order : Nat) (ho : c.geom.hugeOrder ≤ order)
    (hfit : (frame / c.geom.hugeFrames) % c.geom.treeHuge + 2 ^ (order - c.geom.hugeOrder) ≤ c.geom.treeHuge) :
    runSolo (Lower.getAt c.geom frame order) m =
      Outcome.andThen (runSolo (casAll c.geom (frame / c.geom.treeFrames) ((frame / c.geom.hugeFrames) % c.geom.treeHuge)
        (2 ^ (order - c.geom.hugeOrder)) (Huge.newWith c.geom.hugeFrames) HugeMarker) m)
        (fun ok m' => (m', .ok (if ok then .ok () else .error .memory))) := by
  unfold Lower.getAt
  have h1 : order ≥ c.geom.hugeOrder := ho
  have h2 : ¬ ((frame / c.geom.hugeFrames) % c.geom.treeHuge + 2 ^ (order - c.geom.hugeOrder) > c.geom.treeHuge) := by omega
  simp only [h1, if_true, h2, if_false, runSolo_bind]
  rfl

/-- the group loop of `Lower::get` for orders at or above the huge order -/
theorem get_goH_spec (ok : GeomOk16 c.geom) (m : Mem) (inv : LowerInv c m) (order t b : Nat)
    (ho : c.geom.hugeOrder ≤ order) (hto : order ≤ c.geom.treeOrder) (ht : t < c.ntrees) (q : Nat)
    (hq : c.geom.treeHuge = q * 2 ^ (order - c.geom.hugeOrder)) (hb : b < q) :
    ∀ (cnt k : Nat), k + cnt = q →
      (∀ k', k' < k → ¬ GetAllowed c m (t * c.geom.treeFrames + ((b + k') % q) * 2 ^ order) order) →
      ∃ m' r, runSolo (Lower.get.goH c.geom t (t * c.geom.treeFrames) (2 ^ (order - c.geom.hugeOrder))
          (b * 2 ^ (order - c.geom.hugeOrder)) cnt k) m = (m', .ok r) ∧ GetRes c m t order m' r := by
  have okg : GeomOk c.geom := ok.toGeomOk
  have hHF := okg.hf_pos
  have hTH := okg.th_pos
  generalize hn : 2 ^ (order - c.geom.hugeOrder) = n at *
  have hnpos : 0 < n := by rw [← hn]; exact Nat.pos_of_ne_zero (by simp)
  have h2o : 2 ^ order = n * c.geom.hugeFrames := by
    rw [← hn]; show _ = _ * 2 ^ c.geom.hugeOrder
    rw [← Nat.pow_add]; congr 1; omega
  have hqpos : 0 < q := by
    rcases Nat.eq_zero_or_pos q with h | h
    · rw [h] at hb; omega
    · exact h
  -- the group with index a (< q): entries a*n .. a*n+n, frame t*TF + a*2^order
  have hgroup : ∀ a, a < q →
      (t * c.geom.treeFrames + a * 2 ^ order) / c.geom.treeFrames = t ∧
      ((t * c.geom.treeFrames + a * 2 ^ order) / c.geom.hugeFrames) % c.geom.treeHuge = a * n ∧
      (t * c.geom.treeFrames + a * 2 ^ order) % 2 ^ order = 0 ∧ a * n + n ≤ c.geom.treeHuge ∧
      (t * c.geom.treeFrames + a * 2 ^ order) / c.geom.hugeFrames = t * c.geom.treeHuge + a * n := by
    intro a ha
    have hfitA : a * n + n ≤ c.geom.treeHuge := by
      rw [hq]
      have : (a + 1) * n ≤ q * n := Nat.mul_le_mul_right _ ha
      rw [Nat.add_mul, Nat.one_mul] at this; exact this
    have hoff : a * 2 ^ order = (a * n) * c.geom.hugeFrames := by rw [h2o, Nat.mul_assoc]
    have hlt : a * 2 ^ order < c.geom.treeFrames := by
      rw [hoff, okg.tf_eq]
      exact Nat.mul_lt_mul_of_lt_of_le (by omega) (Nat.le_refl _) hHF
    have hdivhf : (t * c.geom.treeFrames + a * 2 ^ order) / c.geom.hugeFrames = t * c.geom.treeHuge + a * n := by
      rw [hoff, okg.tf_eq, ← Nat.mul_assoc, ← Nat.add_mul, Nat.mul_div_cancel _ hHF]
    refine ⟨?_, ?_, ?_, hfitA, hdivhf⟩
    · rw [Nat.mul_comm t, Nat.mul_add_div okg.tf_pos, Nat.div_eq_of_lt hlt, Nat.add_zero]
    · rw [hdivhf, Nat.mul_comm t, Nat.mul_add_mod, Nat.mod_eq_of_lt (by omega)]
    · have hd : 2 ^ order ∣ c.geom.treeFrames := by
        rw [okg.tf_eq, hq, h2o]
        exact ⟨q, by rw [Nat.mul_assoc, Nat.mul_comm q]⟩
      exact Nat.mod_eq_zero_of_dvd (Nat.dvd_add (Nat.dvd_trans hd (Nat.dvd_mul_left _ _)) (Nat.dvd_mul_left _ _))
  intro cnt
  induction cnt with
  | zero =>
    intro k hk hvis
    refine ⟨m, .error .memory, by rw [Lower.get.goH]; rfl, ?_⟩
    apply GetRes.none
    intro f hft hal hallowed
    -- f = t*TF + a*2^order with a < q
    have hrem : f % c.geom.treeFrames = f - t * c.geom.treeFrames := by
      have := Nat.div_add_mod f c.geom.treeFrames
      rw [hft, Nat.mul_comm] at this; omega
    have hd : 2 ^ order ∣ c.geom.treeFrames := by
      rw [okg.tf_eq, hq, h2o]; exact ⟨q, by rw [Nat.mul_assoc, Nat.mul_comm q]⟩
    have hdr : 2 ^ order ∣ f % c.geom.treeFrames := (Nat.dvd_mod_iff hd).2 (Nat.dvd_of_mod_eq_zero hal)
    obtain ⟨a, ha⟩ := hdr
    have hmodlt : f % c.geom.treeFrames < c.geom.treeFrames := Nat.mod_lt _ okg.tf_pos
    have haq : a < q := by
      have e : c.geom.treeFrames = q * 2 ^ order := by rw [okg.tf_eq, hq, h2o, Nat.mul_assoc]
      rw [ha, e, Nat.mul_comm] at hmodlt
      exact Nat.lt_of_mul_lt_mul_right hmodlt
    have hf : f = t * c.geom.treeFrames + a * 2 ^ order := by
      have := Nat.div_add_mod f c.geom.treeFrames
      rw [hft, ha, Nat.mul_comm] at this
      rw [Nat.mul_comm a]; omega
    -- a is visited: a = (b + k') % q for some k' < q
    obtain ⟨k', hk', hk'a⟩ : ∃ k', k' < q ∧ (b + k') % q = a := by
      by_cases h : b ≤ a
      · exact ⟨a - b, by omega, by rw [Nat.add_sub_cancel' h]; exact Nat.mod_eq_of_lt haq⟩
      · refine ⟨a + q - b, by omega, ?_⟩
        rw [show b + (a + q - b) = a + q by omega, Nat.add_mod_right]; exact Nat.mod_eq_of_lt haq
    apply hvis k' (by omega)
    rw [hk'a, ← hf]; exact hallowed
  | succ cnt ih =>
    intro k hk hvis
    rw [Lower.get.goH]
    generalize hadef : (b + k) % q = a
    have ha : a < q := by rw [← hadef]; exact Nat.mod_lt _ hqpos
    have hi : (b * n + k * n) % c.geom.treeHuge = a * n := by
      rw [← Nat.add_mul, hq, Nat.mul_mod_mul_right, hadef]
    obtain ⟨hft, hidx, hal, hfitA, hdivhf⟩ := hgroup a ha
    have hfit' : ¬ (a * n + n > c.geom.treeHuge) := by omega
    simp only [hi, hfit', if_false, runSolo_bind]
    -- relate to get_at of the group's first frame
    have hgetAt := getAt_huge_eq okg m (t * c.geom.treeFrames + a * 2 ^ order) order ho (by rw [hidx, hn]; exact hfitA)
    rw [hft, hidx, hn] at hgetAt
    obtain ⟨m1, bres, hcas⟩ := casAll_total okg m inv t (a * n) n (Huge.newWith c.geom.hugeFrames) HugeMarker ht hfitA
    rw [hcas] at hgetAt ⊢
    simp only [andThen_ok] at hgetAt ⊢
    have hblock : BlockOk c (t * c.geom.treeFrames + a * 2 ^ order) order → True := fun _ => trivial
    by_cases hallowed : GetAllowed c m (t * c.geom.treeFrames + a * 2 ^ order) order
    · -- the block is free: it lies in range, get_at succeeds, so did casAll
      have hin := free_block_in_range inv _ (2 ^ order) (Nat.pos_of_ne_zero (by simp)) (by
        intro j hj
        have := hallowed j hj
        unfold Mem.allocated at this
        simp only [Bool.or_eq_false_iff] at this
        exact this.2)
      have hbk : BlockOk c (t * c.geom.treeFrames + a * 2 ^ order) order := ⟨hto, hal, hin⟩
      obtain ⟨m', hm', post⟩ := (lower_getAt_refines ok m inv _ order hbk).1 hallowed
      rw [hm'] at hgetAt
      have hb' : bres = true := by
        cases bres with
        | true => rfl
        | false => simp at hgetAt
      subst hb'
      have hm1 : m1 = m' := by
        have := congrArg Prod.fst hgetAt; simpa using this.symm
      subst hm1
      simp only [if_true, runSolo_pure]
      refine ⟨m1, _, rfl, ?_⟩
      have hfr : t * c.geom.treeFrames + a * n * c.geom.hugeFrames = t * c.geom.treeFrames + a * 2 ^ order := by
        rw [h2o, Nat.mul_assoc]
      rw [hfr]
      exact GetRes.found m1 _ hft hal hallowed post
    · -- not free: get_at fails without change, so did casAll; continue
      by_cases hin : t * c.geom.treeFrames + a * 2 ^ order + 2 ^ order ≤ c.frames
      · have hbk : BlockOk c (t * c.geom.treeFrames + a * 2 ^ order) order := ⟨hto, hal, hin⟩
        have hm' := (lower_getAt_refines ok m inv _ order hbk).2 hallowed
        rw [hm'] at hgetAt
        have hb' : bres = false := by
          cases bres with
          | false => rfl
          | true => simp at hgetAt
        subst hb'
        have hm1 : m1 = m := by
          have := congrArg Prod.fst hgetAt; simpa using this.symm
        subst hm1
        simp only [Bool.false_eq_true, if_false]
        apply ih (k + 1) (by omega)
        intro k' hk'
        by_cases e : k' = k
        · subst e; rw [hadef]; exact hallowed
        · exact hvis k' (by omega)
      · -- the group extends beyond the managed frames: its last table entry is not the full
        -- counter, so the compare-exchange fails and changes nothing
        have hlt16 := ok.hf_lt
        have hlastne : m.hugeE (t * c.geom.treeHuge + a * n + (n - 1)) ≠ c.geom.hugeFrames := by
          intro hfull
          by_cases hH : t * c.geom.treeHuge + a * n + (n - 1) < c.nhuge
          · have hnm : Huge.isHuge (m.hugeE (t * c.geom.treeHuge + a * n + (n - 1))) = false := by
              rw [hfull]; simp only [Huge.isHuge, HugeMarker, beq_eq_false_iff_ne, ne_eq]; omega
            have := (inv.full_in_range hHF _ hH hnm hfull).1
            -- (H_last + 1) * HF = frame + 2^order
            have e : (t * c.geom.treeHuge + a * n + (n - 1) + 1) * c.geom.hugeFrames =
                t * c.geom.treeFrames + a * 2 ^ order + 2 ^ order := by
              have : t * c.geom.treeHuge + a * n + (n - 1) + 1 = t * c.geom.treeHuge + a * n + n := by omega
              rw [this, Nat.add_mul, Nat.add_mul, okg.tf_eq, h2o, Nat.mul_assoc, Nat.mul_assoc]
            rw [e] at this
            exact hin this
          · have := inv.beyond _ (Nat.le_of_not_lt hH)
            rw [this] at hfull; omega
        have hcr := casRange_spec .huge (hugeIdx c.geom t (a * n)) (Huge.newWith c.geom.hugeFrames) HugeMarker "undo failed" m n m 0
          (by simpa using RangeAre.empty .huge m _ _) (fun k hk => by omega)
          (by intro k hk
              simp only [Nat.zero_add] at hk
              have := huge_entry_get okg inv t (a * n + k) ht (by omega)
              simp only [hugeIdx, Nat.add_assoc] at this ⊢
              rw [this]; rfl)
        have hfail := hcr.2 (by
          intro hall
          have := hall (n - 1) (by omega) (by omega)
          have hget := huge_entry_get okg inv t (a * n + (n - 1)) ht (by omega)
          simp only [hugeIdx, Nat.add_assoc] at this hget
          rw [hget] at this
          injection this with this
          rw [Huge.newWith_small _ (by omega)] at this
          apply hlastne
          rw [Nat.add_assoc]; exact this)
        have hcas' : runSolo (casAll c.geom t (a * n) n (Huge.newWith c.geom.hugeFrames) HugeMarker) m = (m, .ok false) := hfail
        rw [hcas'] at hcas
        have hb' : bres = false := by
          have := congrArg Prod.snd hcas
          simp at this; exact this
        have hm1 : m1 = m := by
          have := congrArg Prod.fst hcas; simpa using this.symm
        subst hb' hm1
        simp only [Bool.false_eq_true, if_false]
        apply ih (k + 1) (by omega)
        intro k' hk'
        by_cases e : k' = k
        · subst e; rw [hadef]; exact hallowed
        · exact hvis k' (by omega)

end
end LLFree

namespace LLFree
open Prog
section
variable {c : Cfg}

/-- **`Lower::get` without target** (sequential): searching the tree of row `start` for a block
    of `order ≤ TREE_ORDER` either allocates an aligned block of that tree that was entirely free
    (with the abstract effect `GetPost`), or reports `Memory`, leaves the memory unchanged, and
    then the tree contains no aligned entirely free block of that order. -/
theorem lower_get_refines (ok : GeomOk16 c.geom) (m : Mem) (inv : LowerInv c m) (start order : Nat)
    (hto : order ≤ c.geom.treeOrder) (ht : start * 64 / c.geom.treeFrames < c.ntrees) :
    ∃ m' r, runSolo (Lower.get c.geom start order none) m = (m', .ok r) ∧
      GetRes c m (start * 64 / c.geom.treeFrames) order m' r := by
  have okg : GeomOk c.geom := ok.toGeomOk
  have hHF := okg.hf_pos
  have hTH := okg.th_pos
  unfold Lower.get
  simp only
  by_cases ho : order ≥ c.geom.hugeOrder
  · simp only [ho, if_true]
    obtain ⟨k, hk, hto'⟩ := okg.treeOrder_eq
    generalize hn : 2 ^ (order - c.geom.hugeOrder) = n
    have hnpos : 0 < n := by rw [← hn]; exact Nat.pos_of_ne_zero (by simp)
    -- TREE_HUGE = q * n
    have hq : c.geom.treeHuge = 2 ^ (k - (order - c.geom.hugeOrder)) * n := by
      rw [← hn, hk, ← Nat.pow_add]; congr 1; omega
    generalize hqd : 2 ^ (k - (order - c.geom.hugeOrder)) = q at hq
    have hqpos : 0 < q := by rw [← hqd]; exact Nat.pos_of_ne_zero (by simp)
    have hcount : (c.geom.treeHuge + n - 1) / n = q := by
      rw [hq]
      have : q * n + n - 1 = n * q + (n - 1) := by rw [Nat.mul_comm]; omega
      rw [this, Nat.mul_add_div hnpos, Nat.div_eq_of_lt (by omega), Nat.add_zero]
    generalize hco : start * 64 / c.geom.hugeFrames % c.geom.treeHuge = co
    have hcolt : co < c.geom.treeHuge := by rw [← hco]; exact Nat.mod_lt _ hTH
    have hb : co / n < q := by
      apply (Nat.div_lt_iff_lt_mul hnpos).2; rw [← hq]; exact hcolt
    have := get_goH_spec ok m inv order (start * 64 / c.geom.treeFrames) (co / n) ho hto ht q (by rw [hn]; exact hq) hb
      q 0 (by omega) (fun k' hk' => by omega)
    rw [hn] at this
    rw [hcount]
    exact this
  · have ho' : order < c.geom.hugeOrder := by omega
    simp only [ho, if_false]
    have hfc : start * 64 / c.geom.treeFrames * c.geom.treeFrames / c.geom.hugeFrames =
        start * 64 / c.geom.treeFrames * c.geom.treeHuge := by
      rw [okg.tf_eq, ← Nat.mul_assoc, Nat.mul_div_cancel _ hHF]
    rw [hfc]
    exact get_go_spec ok m inv start order (start * 64 / c.geom.treeFrames) (start * 64 / c.geom.hugeFrames) ho' ht
      c.geom.treeHuge 0 (by omega) (fun k hk => by omega)

end
end LLFree
