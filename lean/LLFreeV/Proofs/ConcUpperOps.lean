/-
  `SafeU` for the tree and slot operations of `trees.rs` / `local.rs`: each is a legal transition
  of the upper protocol with an explicit effect on the thread's ghost.
-/
import LLFreeV.Proofs.ConcUpperStep
import LLFreeV.Proofs.UpperOps
import LLFreeV.Proofs.UpperGet5
import LLFreeV.Proofs.Neutral
namespace LLFree
open Prog

def UGh.addBase (ug : UGh) (i n : Nat) : UGh :=
  { ug with base := fun j => if j = i then ug.base j + n else ug.base j }
def UGh.subBase (ug : UGh) (i n : Nat) : UGh :=
  { ug with base := fun j => if j = i then ug.base j - n else ug.base j }
def UGh.setTok (ug : UGh) (i : Nat) (o : Option Nat) : UGh :=
  { ug with tok := fun j => if j = i then o else ug.tok j }

theorem UGh.ext' (a b : UGh) (h1 : ∀ i, a.base i = b.base i) (h2 : ∀ i, a.tok i = b.tok i) : a = b := by
  cases a; cases b; simp only [UGh.mk.injEq]; exact ⟨funext h1, funext h2⟩

@[simp] theorem UGh.addBase_tok (ug : UGh) (i n : Nat) : (ug.addBase i n).tok = ug.tok := rfl
@[simp] theorem UGh.subBase_tok (ug : UGh) (i n : Nat) : (ug.subBase i n).tok = ug.tok := rfl
@[simp] theorem UGh.setTok_base (ug : UGh) (i : Nat) (o : Option Nat) : (ug.setTok i o).base = ug.base := rfl
theorem UGh.addBase_base (ug : UGh) (i n j : Nat) : (ug.addBase i n).base j = if j = i then ug.base j + n else ug.base j := rfl
theorem UGh.subBase_base (ug : UGh) (i n j : Nat) : (ug.subBase i n).base j = if j = i then ug.base j - n else ug.base j := rfl
theorem UGh.setTok_tok (ug : UGh) (i : Nat) (o : Option Nat) (j : Nat) : (ug.setTok i o).tok j = if j = i then o else ug.tok j := rfl

theorem UGh.subBase_addBase (ug : UGh) (i n : Nat) : (ug.addBase i n).subBase i n = ug := by
  apply UGh.ext'
  · intro j; simp only [UGh.subBase_base, UGh.addBase_base]; split <;> omega
  · intro j; rfl

/-! ### shapes of the pure transitions -/

theorem Tree.put_set (tf : Nat) (self : Tree) (n : Nat) (pol : PolicyFn) (dflt : Nat) (v : Tree)
    (h : Tree.put tf self n pol dflt = .set v) :
    v.free = self.free + n ∧ v.reserved = self.reserved ∧ (self.reserved = true → v.cls = self.cls) ∧
      (self.cls < 8 → dflt < 8 → v.cls < 8) := by
  unfold Tree.put at h
  simp only at h
  split at h
  · cases h
  · split at h
    · rename_i hc
      split at h
      · cases h
      · cases h
        refine ⟨rfl, rfl, fun hr => ?_, fun _ hd => hd⟩
        simp [hr] at hc
    · cases h; exact ⟨rfl, rfl, fun _ => rfl, fun hs _ => hs⟩

theorem Tree.steal_some (self : Tree) (cls n : Nat) (pol : PolicyFn) (v : Tree) (h : self.steal cls n pol = some v) :
    self.reserved = false ∧ v.reserved = false ∧ v.free + n = self.free ∧ (v.cls = cls ∨ v.cls = self.cls) := by
  unfold Tree.steal at h
  split at h
  · rename_i hc
    simp only [Bool.and_eq_true, decide_eq_true_eq, Bool.not_eq_eq_eq_not, Bool.not_true] at hc
    obtain ⟨hge, hr⟩ := hc
    split at h
    · cases h; exact ⟨hr, hr, by simp; omega, Or.inl rfl⟩
    · simp only [hr] at h; cases h; exact ⟨hr, rfl, by simp; omega, Or.inl rfl⟩
    · cases h; exact ⟨hr, hr, by simp; omega, Or.inr rfl⟩
    · cases h
  · cases h

theorem Tree.with_set (tf free : Nat) (r : Bool) (cls : Nat) (v : Tree) (h : Tree.with tf free r cls = .set v) :
    v = ⟨free, r, cls⟩ ∧ cls < 8 := by
  unfold Tree.with at h
  split at h
  · cases h
  · split at h
    · cases h
    · rename_i hc
      cases h
      exact ⟨rfl, by simpa [Tree.clsOk] using hc⟩

theorem Tree.ros_set (tf : Nat) (self : Tree) (n : Nat) (pol : PolicyFn) (cls : Nat) (v : Tree)
    (h : Tree.reserveOrSteal tf self n pol cls = .set v) :
    self.reserved = false ∧ ((v = ⟨0, true, cls⟩ ∧ cls < 8) ∨ (v.reserved = false ∧ v.free + n = self.free ∧ v.cls = self.cls)) := by
  unfold Tree.reserveOrSteal at h
  split at h
  · rename_i hc
    simp only [Bool.and_eq_true, decide_eq_true_eq, Bool.not_eq_eq_eq_not, Bool.not_true] at hc
    obtain ⟨hge, hr⟩ := hc
    refine ⟨hr, ?_⟩
    split at h
    · simp only [hr, Bool.not_false, if_true] at h
      left; exact Tree.with_set _ _ _ _ _ h
    · simp only [hr, Bool.not_false, if_true] at h
      left; exact Tree.with_set _ _ _ _ _ h
    · cases h; right; exact ⟨hr, by simp; omega, rfl⟩
    · cases h
  · cases h

theorem Tree.unreserveAdd_set (tf : Nat) (self : Tree) (n cls : Nat) (pol : PolicyFn) (dflt : Nat) (v : Tree)
    (h : Tree.unreserveAdd tf self n cls pol dflt = .set v) :
    self.reserved = true ∧ v.reserved = false ∧ v.free = self.free + n ∧ (self.cls < 8 → dflt < 8 → v.cls < 8) := by
  unfold Tree.unreserveAdd at h
  split at h
  · rename_i hr
    refine ⟨hr, ?_⟩
    split at h
    · obtain ⟨h1, h2, _, h4⟩ := Tree.put_set _ _ _ _ _ _ h
      exact ⟨h2, h1, h4⟩
    · split at h
      · cases h
      · rename_i hc
        obtain ⟨h1, h2, _, h4⟩ := Tree.put_set _ _ _ _ _ _ h
        exact ⟨h2, h1, fun _ hd => h4 (by simpa [Tree.clsOk] using hc) hd⟩
    · cases h
    · cases h
  · cases h

theorem Tree.syncSteal_some (self : Tree) (min : Nat) (v : Tree) (h : self.syncSteal min = some v) :
    self.reserved = true ∧ v = { self with free := 0 } := by
  unfold Tree.syncSteal at h
  split at h
  · rename_i hc
    simp only [Bool.and_eq_true, decide_eq_true_eq] at hc
    cases h; exact ⟨hc.1, rfl⟩
  · cases h

theorem LTree.get_some (tr : Nat) (self : LTree) (tree : Option Nat) (n : Nat) (v : LTree) (h : self.get tr tree n = some v) :
    self.present = true ∧ n ≤ self.free ∧ v = { self with free := self.free - n } ∧ (∀ i, tree = some i → self.row / tr = i) := by
  unfold LTree.get at h
  by_cases hp : self.present = true
  · by_cases hge : self.free ≥ n
    · cases tree with
      | none =>
        simp [hp, hge] at h
        exact ⟨hp, hge, by rw [← h, hp], fun i hi => by cases hi⟩
      | some i =>
        by_cases hi : self.row / tr = i
        · simp [hp, hge, hi] at h
          exact ⟨hp, hge, by rw [← h, hp], fun j hj => by cases hj; exact hi⟩
        · simp [hp, hge, hi] at h
    · simp [hge] at h
  · simp [hp] at h

theorem Tree.put_ne_skip (tf : Nat) (self : Tree) (n : Nat) (pol : PolicyFn) (dflt : Nat) :
    Tree.put tf self n pol dflt ≠ .skip := by
  unfold Tree.put
  simp only
  split
  · intro h; cases h
  · split
    · split <;> (intro h; cases h)
    · intro h; cases h

theorem LTree.put_set (tr tf : Nat) (self : LTree) (tree n : Nat) (v : LTree) (h : self.put tr tf tree n = .set v) :
    self.present = true ∧ self.row / tr = tree ∧ v = { self with free := self.free + n } := by
  unfold LTree.put at h
  split at h
  · rename_i hc
    simp only [Bool.and_eq_true, beq_iff_eq] at hc
    split at h
    · cases h
    · cases h; exact ⟨hc.1, hc.2, rfl⟩
  · cases h

theorem LTree.setStart_set (tr : Nat) (self : LTree) (row : Nat) (v : LTree) (h : self.setStart tr row = .set v) :
    self.present = true ∧ row / tr = self.row / tr ∧ v = { self with row := row } := by
  unfold LTree.setStart at h
  split at h
  · rename_i hc
    simp only [Bool.and_eq_true, beq_iff_eq, bne_iff_ne] at hc
    split at h
    · cases h
    · cases h; exact ⟨hc.1.1, hc.1.2.symm, rfl⟩
  · cases h

/-! ### when the closures trap -/

theorem Tree.put_panic_iff (tf : Nat) (self : Tree) (n : Nat) (pol : PolicyFn) (dflt : Nat) (s : String)
    (h : Tree.put tf self n pol dflt = .panic s) : self.free + n > tf ∨ ¬ dflt < 8 := by
  unfold Tree.put at h
  simp only at h
  split at h
  · left; assumption
  · split at h
    · split at h
      · rename_i hc; right; simpa [Tree.clsOk] using hc
      · cases h
    · cases h

theorem Tree.unreserveAdd_ne_skip (tf : Nat) (self : Tree) (n cls : Nat) (pol : PolicyFn) (dflt : Nat)
    (hr : self.reserved = true) : Tree.unreserveAdd tf self n cls pol dflt ≠ .skip := by
  unfold Tree.unreserveAdd
  rw [if_pos hr]
  split
  · exact Tree.put_ne_skip _ _ _ _ _
  · split
    · intro h; cases h
    · exact Tree.put_ne_skip _ _ _ _ _
  · intro h; cases h
  · intro h; cases h

/-- with an ordered policy and a class at most the entry's, unreserving traps only on a counter
    overflow or an invalid class id -/
theorem Tree.unreserveAdd_panic_iff (tf : Nat) (self : Tree) (n cls : Nat) (pol : PolicyFn) (dflt : Nat) (s : String)
    (hp : OrderedPolicy pol) (hle : cls ≤ self.cls) (h : Tree.unreserveAdd tf self n cls pol dflt = .panic s) :
    self.free + n > tf ∨ ¬ dflt < 8 ∨ ¬ cls < 8 := by
  unfold Tree.unreserveAdd at h
  split at h
  · split at h
    · rcases Tree.put_panic_iff _ _ _ _ _ _ h with h1 | h1
      · left; exact h1
      · right; left; exact h1
    · split at h
      · rename_i hc; right; right; simpa [Tree.clsOk] using hc
      · rcases Tree.put_panic_iff _ _ _ _ _ _ h with h1 | h1
        · left; exact h1
        · right; left; exact h1
    · rename_i hpol
      rcases Nat.lt_or_ge cls self.cls with hlt | hge
      · rw [ordered_lt hp _ _ _ hlt] at hpol; cases hpol
      · have : cls = self.cls := by omega
        rw [this] at hpol
        obtain ⟨q, hq⟩ := ordered_eq hp self.cls n
        rw [hq] at hpol; cases hpol
    · rename_i hpol
      exact absurd hpol (ordered_ne_invalid hp _ _ _)
  · cases h

theorem Tree.ros_panic_iff (tf : Nat) (self : Tree) (n : Nat) (pol : PolicyFn) (cls : Nat) (s : String)
    (h : Tree.reserveOrSteal tf self n pol cls = .panic s) : ¬ cls < 8 := by
  have hw : ∀ s', Tree.with tf 0 true cls = .panic s' → ¬ cls < 8 := by
    intro s' h'
    unfold Tree.with at h'
    split at h'
    · omega
    · split at h'
      · rename_i hc; simpa [Tree.clsOk] using hc
      · cases h'
  unfold Tree.reserveOrSteal at h
  split at h
  · split at h
    · split at h
      · exact hw _ h
      · cases h
    · split at h
      · exact hw _ h
      · cases h
    · cases h
    · cases h
  · cases h

theorem LTree.put_panic_iff (tr tf : Nat) (self : LTree) (tree n : Nat) (s : String) (h : self.put tr tf tree n = .panic s) :
    self.present = true ∧ self.row / tr = tree ∧ self.free + n > tf := by
  unfold LTree.put at h
  split at h
  · rename_i hc
    simp only [Bool.and_eq_true, beq_iff_eq] at hc
    split at h
    · exact ⟨hc.1, hc.2, by assumption⟩
    · cases h
  · cases h

theorem LTree.setStart_panic_iff (tr : Nat) (self : LTree) (row : Nat) (s : String) (h : self.setStart tr row = .panic s) :
    row ≥ 2 ^ 44 := by
  unfold LTree.setStart at h
  split at h
  · split at h
    · assumption
    · cases h
  · cases h

theorem LTree.with_panic_iff (row free : Nat) (s : String) (h : LTree.with row free = .panic s) : row ≥ 2 ^ 44 ∨ free ≥ 2 ^ 19 := by
  unfold LTree.with at h
  split at h
  · left; assumption
  · split at h
    · right; assumption
    · cases h

section
variable {α : Type} {c : Cfg}

/-- an update of a tree entry, given what the closure can produce -/
theorem SafeU.updTree {Post : α → UGh → Prop} (ug : UGh) (i : Nat) (f : Tree → Upd Tree) (cont : Except Tree Tree → Prog α)
    (hskip : ∀ cur, KnownT c.geom.treeFrames c.ntrees ug i cur → f cur = .skip → SafeU c Post ug (cont (.error cur)))
    (hset : ∀ cur v, KnownT c.geom.treeFrames c.ntrees ug i cur → f cur = .set v →
      ∃ ug', UTransT ug ug' i cur v ∧ SafeU c Post ug' (cont (.ok cur)))
    (hpanic : ∀ cur s, KnownT c.geom.treeFrames c.ntrees ug i cur → f cur = .panic s → False) :
    SafeU c Post ug (.upd .tree i f cont) := by
  intro cur hkn
  cases hf : f cur with
  | skip => exact hskip cur hkn hf
  | set v => exact hset cur v hkn hf
  | panic s => exact (hpanic cur s hkn hf).elim

/-- an update of a slot -/
theorem SafeU.updSlot {Post : α → UGh → Prop} (ug : UGh) (s : Nat) (f : LTree → Upd LTree) (cont : Except LTree LTree → Prog α)
    (hskip : ∀ cur, f cur = .skip → SafeU c Post ug (cont (.error cur)))
    (hset : ∀ cur v, KnownS c.geom.treeRows c.geom.treeFrames c.ntrees ug cur → f cur = .set v →
      ∃ k ug', c.slotClass s k ∧ UTransS c.geom.treeRows k ug ug' cur v ∧ SafeU c Post ug' (cont (.ok cur)))
    (hpanic : ∀ cur s, KnownS c.geom.treeRows c.geom.treeFrames c.ntrees ug cur → f cur = .panic s → False) :
    SafeU c Post ug (.upd .slot s f cont) := by
  intro cur hkn
  cases hf : f cur with
  | skip => exact hskip cur hf
  | set v => exact hset cur v hkn hf
  | panic s => exact (hpanic cur s hkn hf).elim

theorem ofOption_panic_false {β : Type} (o : Option β) (s : String) (h : Upd.ofOption o = .panic s) : False :=
  ofOption_ne_panic o s h

/-- a counter move on a tree entry: the reserved flag and (for reserved entries) the class stay -/
theorem UTransT.counter (ug ug' : UGh) (i : Nat) (old new : Tree)
    (hcls : old.cls < 8 → new.cls < 8) (hres : new.reserved = old.reserved) (hkeep : old.reserved = true → new.cls = old.cls)
    (hacct : new.free + ug'.base i = old.free + ug.base i) (hb : ∀ j, j ≠ i → ug'.base j = ug.base j) (ht : ug'.tok = ug.tok) :
    UTransT ug ug' i old new :=
  ⟨hcls, hacct, hb, fun j _ => by rw [ht], Or.inl ⟨hres, hkeep, by rw [ht]⟩⟩

/-- `Trees::put` by a thread that owes the frames: never traps -/
theorem tput_U (ok : CfgOk c) (ug : UGh) (i free : Nat) (hb : free ≤ ug.base i) :
    SafeU c (fun (_ : Unit) ug' => ug' = ug.subBase i free) ug (tput c i free) := by
  unfold tput Trees.put
  show SafeU c _ ug (Prog.bind (updK .tree i _) _)
  simp only [updK, Prog.bind]
  apply SafeU.updTree
  · intro cur _ h; exact absurd h (Tree.put_ne_skip _ _ _ _ _)
  · intro cur v _ hv
    obtain ⟨h1, h2, h3, h4⟩ := Tree.put_set _ _ _ _ _ _ hv
    refine ⟨ug.subBase i free, UTransT.counter _ _ _ _ _ (fun h => h4 h ok.dflt) h2 h3 ?_ ?_ rfl, rfl⟩
    · simp only [UGh.subBase_base, if_true]; omega
    · intro j hj; simp only [UGh.subBase_base, if_neg hj]
  · intro cur s hkn hp
    rcases Tree.put_panic_iff _ _ _ _ _ _ hp with h | h
    · have := hkn.2.1; show False; unfold Cfg.tf at h; omega
    · exact h ok.dflt

/-- `Trees::unreserve` by the carrier of the reservation, for a class the reservation admits -/
theorem tunreserve_U (ok : CfgOk c) (ug : UGh) (i free cls b : Nat) (hb : free ≤ ug.base i) (ht : ug.tok i = some b)
    (hcb : cls ≤ b) (hcls : cls < 8) :
    SafeU c (fun (_ : Unit) ug' => ug' = (ug.subBase i free).setTok i none) ug (tunreserve c i free cls) := by
  unfold tunreserve Trees.unreserve
  show SafeU c _ ug (Prog.bind (updK .tree i _) _)
  simp only [updK, Prog.bind]
  apply SafeU.updTree
  · intro cur hkn h
    exact absurd h (Tree.unreserveAdd_ne_skip _ _ _ _ _ _ (hkn.1 b ht).1)
  · intro cur v _ hv
    obtain ⟨h1, h2, h3, h4⟩ := Tree.unreserveAdd_set _ _ _ _ _ _ _ hv
    refine ⟨(ug.subBase i free).setTok i none, ⟨fun h => h4 h ok.dflt, ?_, ?_, ?_, Or.inr (Or.inr ⟨by rw [ht]; rfl, h2, ?_⟩)⟩, rfl⟩
    · simp only [UGh.setTok_base, UGh.subBase_base, if_true]; omega
    · intro j hj; simp only [UGh.setTok_base, UGh.subBase_base, if_neg hj]
    · intro j hj; simp only [UGh.setTok_tok, if_neg hj, UGh.subBase_tok]
    · simp only [UGh.setTok_tok, if_true]
  · intro cur s hkn hp
    have hle : cls ≤ cur.cls := Nat.le_trans hcb (hkn.1 b ht).2
    rcases Tree.unreserveAdd_panic_iff _ _ _ _ _ _ _ ok.policy hle hp with h | h | h
    · have := hkn.2.1; unfold Cfg.tf at h; omega
    · exact h ok.dflt
    · exact h hcls

/-- `Trees::sync`: the thread receives what the entry held -/
theorem treesSync_U (ug : UGh) (i min : Nat) :
    SafeU c (fun (r : Option Nat) ug' => match r with | some free => ug' = ug.addBase i free | none => ug' = ug) ug
      (Trees.sync i min) := by
  unfold Trees.sync
  show SafeU c _ ug (Prog.bind (tryUpdate .tree i _) _)
  simp only [tryUpdate, Prog.bind]
  apply SafeU.updTree
  · intro cur _ _; rfl
  · intro cur v _ hv
    have hv' : cur.syncSteal min = some v := by
      cases hx : cur.syncSteal min with
      | none => rw [hx] at hv; cases hv
      | some w => rw [hx] at hv; cases hv; rfl
    obtain ⟨h1, h2⟩ := Tree.syncSteal_some _ _ _ hv'
    subst h2
    refine ⟨ug.addBase i cur.free, UTransT.counter _ _ _ _ _ (fun h => h) rfl (fun _ => rfl) ?_ ?_ rfl, rfl⟩
    · simp only [UGh.addBase_base, if_true]; omega
    · intro j hj; simp only [UGh.addBase_base, if_neg hj]
  · intro cur s _ hp; exact ofOption_panic_false _ _ hp

/-- `Trees::steal` -/
theorem treesSteal_U (ug : UGh) (i cls n : Nat) (hcls : cls < 8) :
    SafeU c (fun (r : Option Nat) ug' => match r with | some _ => ug' = ug.addBase i n | none => ug' = ug) ug
      (Trees.steal c.policy i cls n) := by
  unfold Trees.steal
  show SafeU c _ ug (Prog.bind (tryUpdate .tree i _) _)
  simp only [tryUpdate, Prog.bind]
  apply SafeU.updTree
  · intro cur _ _; rfl
  · intro cur v _ hv
    have hv' : cur.steal cls n c.policy = some v := by
      cases hx : cur.steal cls n c.policy with
      | none => rw [hx] at hv; cases hv
      | some w => rw [hx] at hv; cases hv; rfl
    obtain ⟨h1, h2, h3, h4⟩ := Tree.steal_some _ _ _ _ _ hv'
    refine ⟨ug.addBase i n, UTransT.counter _ _ _ _ _ ?_ (by rw [h1, h2]) (fun h => by rw [h1] at h; cases h) ?_ ?_ rfl, ?_⟩
    · intro h; rcases h4 with e | e <;> rw [e] <;> assumption
    · simp only [UGh.addBase_base, if_true]; omega
    · intro j hj; simp only [UGh.addBase_base, if_neg hj]
    · show SafeU c _ _ (match cur.steal cls n c.policy with | some e => _ | none => _)
      rw [hv']; rfl
  · intro cur s _ hp; exact ofOption_panic_false _ _ hp

/-- result of `Trees::reserve_or_steal` on the ghost -/
def RosPost (tf nt : Nat) (ug : UGh) (i n rcls : Nat) : Option (Bool × Nat × Nat) → UGh → Prop
  | some (true, free, cls), ug' => cls = rcls ∧ ug.tok i = none ∧ n ≤ free ∧ free ≤ tf ∧ i < nt ∧
      ug' = (ug.addBase i free).setTok i (some cls)
  | some (false, _, _), ug' => ug' = ug.addBase i n
  | none, ug' => ug' = ug

/-- `Trees::reserve_or_steal` -/
theorem treesRos_U (ug : UGh) (i cls n : Nat) (hcls : cls < 8) :
    SafeU c (RosPost c.geom.treeFrames c.ntrees ug i n cls) ug (Trees.reserveOrSteal c.tf c.policy i cls n) := by
  unfold Trees.reserveOrSteal
  show SafeU c _ ug (Prog.bind (updK .tree i _) _)
  simp only [updK, Prog.bind]
  apply SafeU.updTree
  · intro cur _ _; rfl
  · intro cur v hkn hv
    obtain ⟨h1, h2⟩ := Tree.ros_set _ _ _ _ _ _ hv
    have hge := Tree.ros_set_le _ _ _ _ _ _ hv
    rcases h2 with ⟨h2, h3⟩ | ⟨h2, h3, h4⟩
    · subst h2
      refine ⟨(ug.addBase i cur.free).setTok i (some cls), ⟨fun _ => h3, ?_, ?_, ?_, Or.inr (Or.inl ⟨h1, rfl, ?_⟩)⟩, ?_⟩
      · simp only [UGh.setTok_base, UGh.addBase_base, if_true]; omega
      · intro j hj; simp only [UGh.setTok_base, UGh.addBase_base, if_neg hj]
      · intro j hj; simp only [UGh.setTok_tok, if_neg hj, UGh.addBase_tok]
      · simp only [UGh.setTok_tok, if_true]
      · show SafeU c _ _ (match Tree.reserveOrSteal c.tf cur n c.policy cls with | .set nn => _ | _ => _)
        rw [hv]
        refine ⟨rfl, ?_, hge, by have := hkn.2.1; omega, hkn.2.2.2, rfl⟩
        cases hx : ug.tok i with
        | none => rfl
        | some b => have := (hkn.1 b hx).1; rw [h1] at this; cases this
    · refine ⟨ug.addBase i n, UTransT.counter _ _ _ _ _ (fun h => by rw [h4]; exact h) (by rw [h1, h2]) (fun _ => h4) ?_ ?_ rfl, ?_⟩
      · simp only [UGh.addBase_base, if_true]; omega
      · intro j hj; simp only [UGh.addBase_base, if_neg hj]
      · show SafeU c _ _ (match Tree.reserveOrSteal c.tf cur n c.policy cls with | .set nn => _ | _ => _)
        rw [hv]
        show RosPost _ _ ug i n cls (some (v.reserved, cur.free, v.cls)) _
        rw [h2]; rfl
  · intro cur s _ hp
    exact Tree.ros_panic_iff _ _ _ _ _ _ hp hcls

end

/-! ### slots -/
section
variable {α : Type} {c : Cfg}

theorem SafeU.bind_classRange {Post : α → UGh → Prop} (ug : UGh) (cls : Nat) (f : Option (Nat × Nat) → Prog α)
    (hcls : cls < 8) (h : SafeU c Post ug (f (c.slotRange cls))) : SafeU c Post ug (Locals.classRange c cls >>= f) := by
  unfold Locals.classRange
  have hc : ¬ cls ≥ 8 := by omega
  simp only [hc, if_false]; exact h

theorem SafeU.bind_slotIdx {Post : α → UGh → Prop} (ug : UGh) (rng : Nat × Nat) (loc : Nat) (f : Nat → Prog α)
    (hc : loc < rng.2) (h : SafeU c Post ug (f (rng.1 + loc))) : SafeU c Post ug (Locals.slotIdx rng loc >>= f) := by
  unfold Locals.slotIdx
  simp only [hc, if_true]; exact h

/-- the counter of a reservation moves by what the thread's `base` moves the other way -/
theorem UTransS.counter (tr k : Nat) (ug ug' : UGh) (old new : LTree) (hp : old.present = true) (hn : new.present = true)
    (hrow : new.row = old.row) (hacct : new.free + ug'.base (old.row / tr) = old.free + ug.base (old.row / tr))
    (hb : ∀ j, j ≠ old.row / tr → ug'.base j = ug.base j) (ht : ug'.tok = ug.tok) :
    UTransS tr k ug ug' old new := by
  refine .same (by rw [hn, hp]) (fun _ => by rw [hrow]) ?_ ht
  intro i
  by_cases e : old.row / tr = i
  · subst e
    rw [LTree.freeFor_self tr old hp]
    have : LTree.freeFor tr (old.row / tr) new = new.free := by
      have := LTree.freeFor_self tr new hn
      rw [hrow] at this; exact this
    rw [this]; exact hacct
  · rw [LTree.freeFor_other tr i old e, LTree.freeFor_other tr i new (by rw [hrow]; exact e), hb i (fun x => e x.symm)]

/-- ghost effect of `Locals::get` -/
def LGetPostU (tr nt : Nat) (ug : UGh) (n : Nat) (tree : Option Nat) : Except (Option Reservation) Nat → UGh → Prop
  | .ok row, ug' => ug' = ug.addBase (row / tr) n ∧ (∀ i, tree = some i → row / tr = i) ∧ row / tr < nt
  | .error _, ug' => ug' = ug

/-- `Locals::get` for a valid class and slot index -/
theorem localsGet_U (ug : UGh) (cls loc : Nat) (tree : Option Nat) (n : Nat) (hcls : cls < 8)
    (hloc : ∀ rng, c.slotRange cls = some rng → loc < rng.2) :
    SafeU c (LGetPostU c.geom.treeRows c.ntrees ug n tree) ug (Locals.get c cls loc tree n) := by
  unfold Locals.get
  apply SafeU.bind_classRange _ _ _ hcls
  cases hr : c.slotRange cls with
  | none => rfl
  | some rng =>
    simp only
    have hl := hloc rng hr
    apply SafeU.bind_slotIdx _ _ _ _ hl
    show SafeU c _ ug (Prog.bind (tryUpdate .slot _ _) _)
    simp only [tryUpdate, Prog.bind]
    apply SafeU.updSlot
    · intro cur _; rfl
    · intro cur v hkn hv
      have hv' : cur.get c.geom.treeRows tree n = some v := by
        cases hx : cur.get c.geom.treeRows tree n with
        | none => rw [hx] at hv; cases hv
        | some w => rw [hx] at hv; cases hv; rfl
      obtain ⟨h1, h2, h3, h4⟩ := LTree.get_some _ _ _ _ _ hv'
      subst h3
      refine ⟨cls, ug.addBase (cur.row / c.geom.treeRows) n, slotClass_of_range cls rng hr loc hl,
        UTransS.counter _ _ _ _ _ _ h1 h1 rfl ?_ ?_ rfl, rfl, h4, (hkn h1).2.2⟩
      · simp only [UGh.addBase_base, if_true]; omega
      · intro j hj; simp only [UGh.addBase_base, if_neg hj]
    · intro cur s _ hp; exact ofOption_panic_false _ _ hp

/-- `Locals::put` by a thread that owes the frames -/
theorem localsPut_U (ug : UGh) (cls loc tree n : Nat) (hb : n ≤ ug.base tree) (hcls : cls < 8)
    (hloc : ∀ rng, c.slotRange cls = some rng → loc < rng.2) :
    SafeU c (fun (r : Bool) ug' => if r = true then ug' = ug.subBase tree n else ug' = ug) ug (Locals.put c cls loc tree n) := by
  unfold Locals.put
  apply SafeU.bind_classRange _ _ _ hcls
  cases hr : c.slotRange cls with
  | none => show SafeU c _ ug (Prog.ret false); simp [SafeU]
  | some rng =>
    simp only
    have hl := hloc rng hr
    apply SafeU.bind_slotIdx _ _ _ _ hl
    show SafeU c _ ug (Prog.bind (updK .slot _ _) _)
    simp only [updK, Prog.bind]
    apply SafeU.updSlot
    · intro cur _; show SafeU c _ ug (Prog.ret false); simp [SafeU]
    · intro cur v _ hv
      obtain ⟨h1, h2, h3⟩ := LTree.put_set _ _ _ _ _ _ hv
      subst h3
      refine ⟨cls, ug.subBase tree n, slotClass_of_range cls rng hr loc hl,
        UTransS.counter _ _ _ _ _ _ h1 h1 rfl ?_ ?_ rfl, ?_⟩
      · rw [h2]; simp only [UGh.subBase_base, if_true]; omega
      · rw [h2]; intro j hj; simp only [UGh.subBase_base, if_neg hj]
      · show SafeU c _ _ (Prog.ret true); simp [SafeU]
    · intro cur s hkn hp
      obtain ⟨h1, h2, h3⟩ := LTree.put_panic_iff _ _ _ _ _ _ hp
      have := (hkn h1).2.1
      rw [h2] at this; omega

/-- `Locals::set_start` changes no counter -/
theorem localsSetStart_U (ug : UGh) (cls index row : Nat) (hcls : cls < 8)
    (hloc : ∀ rng, c.slotRange cls = some rng → index < rng.2) (hrow : row < 2 ^ 44) :
    SafeU c (fun (_ : Unit) ug' => ug' = ug) ug (Locals.setStart c cls index row) := by
  unfold Locals.setStart
  apply SafeU.bind_classRange _ _ _ hcls
  cases hr : c.slotRange cls with
  | none => rfl
  | some rng =>
    simp only
    have hl := hloc rng hr
    apply SafeU.bind_slotIdx _ _ _ _ hl
    show SafeU c _ ug (Prog.bind (updK .slot _ _) _)
    simp only [updK, Prog.bind]
    apply SafeU.updSlot
    · intro cur _; rfl
    · intro cur v _ hv
      obtain ⟨h1, h2, h3⟩ := LTree.setStart_set _ _ _ _ hv
      subst h3
      refine ⟨cls, ug, slotClass_of_range cls rng hr index hl, ?_, rfl⟩
      refine .same rfl (fun _ => h2) ?_ rfl
      intro i
      unfold LTree.freeFor
      simp only [h2]
    · intro cur s _ hp
      have := LTree.setStart_panic_iff _ _ _ _ hp
      omega

end

/-! ### moving reservations -/
section
variable {α : Type} {c : Cfg}

/-- the ghost after a reservation `new` (carried by the thread) was exchanged for `old` in a slot
    of class `k` -/
def UGh.exchange (tr k : Nat) (ug : UGh) (old new : LTree) : UGh where
  base := fun i => ug.base i + LTree.freeFor tr i old - LTree.freeFor tr i new
  tok := fun j =>
    if new.present = true ∧ new.row / tr = j then none
    else if old.present = true ∧ old.row / tr = j then some k else ug.tok j

theorem UGh.exchange_base (tr k : Nat) (ug : UGh) (old new : LTree) (i : Nat) :
    (ug.exchange tr k old new).base i = ug.base i + LTree.freeFor tr i old - LTree.freeFor tr i new := rfl
theorem UGh.exchange_tok (tr k : Nat) (ug : UGh) (old new : LTree) (j : Nat) :
    (ug.exchange tr k old new).tok j =
      if new.present = true ∧ new.row / tr = j then none
      else if old.present = true ∧ old.row / tr = j then some k else ug.tok j := rfl

/-- taking a reservation out of a slot (nothing is put in) -/
theorem UGh.exchange_none_absent (tr k : Nat) (ug : UGh) (old : LTree) (hp : old.present = false) :
    ug.exchange tr k old LTree.none = ug := by
  apply UGh.ext'
  · intro i
    rw [UGh.exchange_base, LTree.freeFor_absent _ _ _ hp, LTree.freeFor_absent tr i LTree.none rfl]; omega
  · intro i
    rw [UGh.exchange_tok]
    simp [hp, LTree.none]

theorem UGh.exchange_none_present (tr k : Nat) (ug : UGh) (old : LTree) (hp : old.present = true) :
    ug.exchange tr k old LTree.none = (ug.addBase (old.row / tr) old.free).setTok (old.row / tr) (some k) := by
  apply UGh.ext'
  · intro i
    rw [UGh.exchange_base, LTree.freeFor_absent tr i LTree.none rfl]
    simp only [UGh.setTok_base, UGh.addBase_base]
    by_cases e : i = old.row / tr
    · subst e; rw [LTree.freeFor_self _ _ hp]; simp
    · rw [LTree.freeFor_other _ _ _ (fun x => e x.symm)]; simp [e]
  · intro i
    rw [UGh.exchange_tok]
    simp only [UGh.setTok_tok, UGh.addBase_tok]
    by_cases e : i = old.row / tr
    · subst e; simp [hp, LTree.none]
    · have e' : ¬ old.row / tr = i := fun x => e x.symm
      simp [e, e', LTree.none]

/-- exchanging reservations is a legal slot write if the thread carries the new one (with a class
    bound that admits the slot's class) and owes its counter -/
theorem UTransS.exchange (tr k : Nat) (ug : UGh) (old new : LTree)
    (hnew : new.present = true → ∃ b, ug.tok (new.row / tr) = some b ∧ k ≤ b)
    (hb : ∀ i, LTree.freeFor tr i new ≤ ug.base i + LTree.freeFor tr i old) :
    UTransS tr k ug (ug.exchange tr k old new) old new := by
  refine .move ?_ hnew (fun j => rfl)
  intro i
  show LTree.freeFor tr i new + (ug.base i + LTree.freeFor tr i old - LTree.freeFor tr i new) = _
  have := hb i
  omega

theorem LTree.with_set (row free : Nat) (v : LTree) (h : LTree.with row free = .set v) : v = ⟨row, free, true⟩ := by
  unfold LTree.with at h
  split at h
  · cases h
  · split at h
    · cases h
    · cases h; rfl

/-- ghost effect of `Locals::swap` (`tree` = tree of the reservation put in) -/
def SwapPostU (tr : Nat) (ug : UGh) (cls tree free : Nat) : Option Reservation → UGh → Prop
  | some o, ug' => o.row / tr ≠ tree ∧ ug.tok (o.row / tr) = none ∧
      ug' = (((ug.subBase tree free).setTok tree none).addBase (o.row / tr) o.free).setTok (o.row / tr) (some cls)
  | none, ug' => ug' = (ug.subBase tree free).setTok tree none

/-- `Locals::swap`: the thread puts the reservation it carries into its slot and receives the
    previous one -/
theorem localsSwap_U (okg : GeomOk c.geom) (ug : UGh) (cls loc tree free b : Nat) (ht : ug.tok tree = some b) (hcb : cls ≤ b)
    (hb : free ≤ ug.base tree) (hcls : cls < 8) (rng : Nat × Nat) (hr : c.slotRange cls = some rng) (hloc : loc < rng.2)
    (hrow : tree * c.geom.treeRows < 2 ^ 44) (hfree : free < 2 ^ 19) :
    SafeU c (SwapPostU c.geom.treeRows ug cls tree free) ug (Locals.swap c cls loc tree free) := by
  have htr : 0 < c.geom.treeRows := by
    have h1 := okg.treeRows_mul; have h2 := okg.tf_pos
    rcases Nat.eq_zero_or_pos c.geom.treeRows with h | h
    · rw [h] at h1; omega
    · exact h
  unfold Locals.swap
  apply SafeU.bind_classRange _ _ _ hcls
  rw [hr]
  simp only
  apply SafeU.bind_slotIdx _ _ _ _ hloc
  cases hw : LTree.with (tree * c.geom.treeRows) free with
  | skip => exact absurd hw (LTree.with_ne_skip _ _)
  | panic s => rcases LTree.with_panic_iff _ _ _ hw with h | h <;> omega
  | set new =>
    have hnew := LTree.with_set _ _ _ hw
    subst hnew
    simp only
    show SafeU c _ ug (Prog.bind (swapK .slot _ _) _)
    simp only [swapK, Prog.bind]
    intro old hkn
    have hnt : tree * c.geom.treeRows / c.geom.treeRows = tree := Nat.mul_div_cancel _ htr
    have hold : old.present = true → old.row / c.geom.treeRows ≠ tree := by
      intro hp e
      have := (hkn hp).1
      rw [e, ht] at this; cases this
    refine ⟨cls, ug.exchange c.geom.treeRows cls old ⟨tree * c.geom.treeRows, free, true⟩,
      slotClass_of_range cls rng hr loc hloc, UTransS.exchange _ _ _ _ _ ?_ ?_, ?_⟩
    · intro _; exact ⟨b, by rw [hnt]; exact ht, hcb⟩
    · intro i
      by_cases e : i = tree
      · subst e
        have : LTree.freeFor c.geom.treeRows i ⟨i * c.geom.treeRows, free, true⟩ = free := by
          have := LTree.freeFor_self c.geom.treeRows ⟨i * c.geom.treeRows, free, true⟩ rfl
          simp only [hnt] at this; exact this
        rw [this]; omega
      · rw [LTree.freeFor_other _ _ _ (by simp only [hnt]; exact fun x => e x.symm)]; omega
    · -- the ghost in closed form
      show SwapPostU c.geom.treeRows ug cls tree free (if old.present = true then some (old.asReservation cls) else none) _
      have hfn : ∀ i, LTree.freeFor c.geom.treeRows i ⟨tree * c.geom.treeRows, free, true⟩ = if i = tree then free else 0 := by
        intro i
        by_cases e : i = tree
        · subst e
          have := LTree.freeFor_self c.geom.treeRows ⟨i * c.geom.treeRows, free, true⟩ rfl
          simp only [hnt] at this; simp [this]
        · rw [LTree.freeFor_other _ _ _ (by simp only [hnt]; exact fun x => e x.symm)]; simp [e]
      cases hp : old.present with
      | true =>
        simp only [if_true]
        have hne := hold hp
        refine ⟨hne, (hkn hp).1, ?_⟩
        apply UGh.ext'
        · intro i
          show ug.base i + LTree.freeFor c.geom.treeRows i old - LTree.freeFor c.geom.treeRows i _ = _
          rw [hfn]
          simp only [UGh.setTok_base, UGh.addBase_base, UGh.subBase_base, LTree.asReservation]
          by_cases e1 : i = tree
          · subst e1
            have hx : ¬ i = old.row / c.geom.treeRows := fun x => hne x.symm
            rw [LTree.freeFor_other _ _ _ hne]
            (simp [hx]) <;> omega
          · by_cases e2 : i = old.row / c.geom.treeRows
            · subst e2
              rw [LTree.freeFor_self _ _ hp]; (simp [e1]) <;> omega
            · rw [LTree.freeFor_other _ _ _ (fun x => e2 x.symm)]; (simp [e1, e2]) <;> omega
        · intro j
          show (if (true = true ∧ tree * c.geom.treeRows / c.geom.treeRows = j) then none
            else if old.present = true ∧ old.row / c.geom.treeRows = j then some cls else ug.tok j) = _
          rw [hnt]
          simp only [UGh.setTok_tok, UGh.addBase_tok, UGh.subBase_tok, LTree.asReservation, hp, true_and]
          by_cases e1 : tree = j
          · subst e1
            have hx : ¬ old.row / c.geom.treeRows = tree := hne
            have hy : ¬ tree = old.row / c.geom.treeRows := fun x => hne x.symm
            simp [hy]
          · have h1 : ¬ j = tree := fun x => e1 x.symm
            by_cases e2 : old.row / c.geom.treeRows = j
            · subst e2; simp [e1]
            · have h2 : ¬ j = old.row / c.geom.treeRows := fun x => e2 x.symm
              simp [e1, e2, h1, h2]
      | false =>
        simp only [Bool.false_eq_true, if_false]
        apply UGh.ext'
        · intro i
          show ug.base i + LTree.freeFor c.geom.treeRows i old - LTree.freeFor c.geom.treeRows i _ = _
          rw [hfn, LTree.freeFor_absent _ _ _ hp]
          simp only [UGh.setTok_base, UGh.subBase_base]
          by_cases e1 : i = tree <;> simp [e1]
        · intro j
          show (if (true = true ∧ tree * c.geom.treeRows / c.geom.treeRows = j) then none
            else if old.present = true ∧ old.row / c.geom.treeRows = j then some cls else ug.tok j) = _
          rw [hnt]
          simp only [UGh.setTok_tok, UGh.subBase_tok, hp, Bool.false_eq_true, false_and, if_false, true_and]
          by_cases e1 : tree = j
          · subst e1; simp
          · have h1 : ¬ j = tree := fun x => e1 x.symm
            simp [e1, h1]

end

/-! ### the loops over slots -/
section
variable {α : Type} {c : Cfg}

/-- ghost effect of `Locals::steal_any` -/
def StealPostU (tr nt : Nat) (ug : UGh) (n : Nat) (tree : Option Nat) : Option Reservation → UGh → Prop
  | some res, ug' => ug' = ug.addBase (res.row / tr) n ∧ (∀ i, tree = some i → res.row / tr = i) ∧ res.row / tr < nt
  | none, ug' => ug' = ug

theorem stealSlots_U (ug : UGh) (tree : Option Nat) (n index tc : Nat) (rng : Nat × Nat) (htc : tc < 8)
    (hr : c.slotRange tc = some rng) (hpos : 0 < rng.2) :
    ∀ cnt j, SafeU c (StealPostU c.geom.treeRows c.ntrees ug n tree) ug (Locals.stealAny.slots c tree n index tc rng cnt j) := by
  intro cnt
  induction cnt with
  | zero => intro j; unfold Locals.stealAny.slots; rfl
  | succ cnt ih =>
    intro j
    unfold Locals.stealAny.slots
    apply SafeU.bind _ _ _ (localsGet_U ug tc ((index + j) % rng.2) tree n htc
      (fun rng' h' => by rw [hr] at h'; cases h'; exact Nat.mod_lt _ hpos))
    intro r ug1 h1
    cases r with
    | ok row => simp only [LGetPostU] at h1; obtain ⟨h1, h2, h3⟩ := h1; subst h1; exact ⟨rfl, h2, h3⟩
    | error e => simp only [LGetPostU] at h1; subst h1; exact ih (j + 1)

theorem stealClasses_U (ug : UGh) (cls : Nat) (tree : Option Nat) (n index : Nat) :
    ∀ cnt i, SafeU c (StealPostU c.geom.treeRows c.ntrees ug n tree) ug (Locals.stealAny.classes c cls tree n index cnt i) := by
  intro cnt
  induction cnt with
  | zero => intro i; unfold Locals.stealAny.classes; rfl
  | succ cnt ih =>
    intro i
    unfold Locals.stealAny.classes
    dsimp only
    have htc : (i + cls) % 8 < 8 := Nat.mod_lt _ (by decide)
    cases hr : c.slotRange ((i + cls) % 8) with
    | none => exact ih (i + 1)
    | some rng =>
      dsimp only
      by_cases hz : rng.2 = 0
      · -- no slots: the inner loop does not run
        have h0 : ∀ j, Locals.stealAny.slots c tree n index ((i + cls) % 8) rng rng.2 j = pure none := by
          intro j; rw [hz]; unfold Locals.stealAny.slots; rfl
        split
        · rw [h0]; exact ih (i + 1)
        · rw [h0]; exact ih (i + 1)
        · exact ih (i + 1)
      · have hs := stealSlots_U ug tree n index _ rng htc hr (by omega) rng.2 0
        split
        · apply SafeU.bind _ _ _ hs
          intro r ug1 h1
          cases r with
          | some x => exact h1
          | none => simp only [StealPostU] at h1; subst h1; exact ih (i + 1)
        · apply SafeU.bind _ _ _ hs
          intro r ug1 h1
          cases r with
          | some x => exact h1
          | none => simp only [StealPostU] at h1; subst h1; exact ih (i + 1)
        · exact ih (i + 1)

theorem stealAny_U (ug : UGh) (cls : Nat) (index tree : Option Nat) (n : Nat) :
    SafeU c (StealPostU c.geom.treeRows c.ntrees ug n tree) ug (Locals.stealAny c cls index tree n) := by
  unfold Locals.stealAny
  exact stealClasses_U ug cls tree n _ 8 0

/-- `Locals::drain`: every reservation taken out of a slot is unreserved at once -/
theorem drainSlots_U (ok : CfgOk c) (ug : UGh) (cls : Nat) (rng : Nat × Nat) (hr : c.slotRange cls = some rng) (hcls : cls < 8) :
    ∀ cnt j, cnt + j = rng.2 →
      SafeU c (fun (_ : Unit) ug' => ug' = ug) ug
        (Locals.drain.slots (fun row cl free => tunreserve c (row / c.geom.treeRows) free cl) cls rng.1 cnt j) := by
  intro cnt
  induction cnt with
  | zero => intro j _; unfold Locals.drain.slots; rfl
  | succ cnt ih =>
    intro j hj
    unfold Locals.drain.slots
    show SafeU c _ ug (Prog.bind (swapK .slot _ _) _)
    simp only [swapK, Prog.bind]
    intro old hkn
    refine ⟨cls, ug.exchange c.geom.treeRows cls old LTree.none, slotClass_of_range cls rng hr j (by omega),
      UTransS.exchange _ _ _ _ _ (fun h => by cases h) (fun i => ?_), ?_⟩
    · rw [LTree.freeFor_absent _ _ _ rfl]; omega
    · cases hp : old.present with
      | false =>
        -- nothing was taken
        rw [UGh.exchange_none_absent _ _ _ _ hp]
        simp only [hp, Bool.false_eq_true, if_false]
        exact ih (j + 1) (by omega)
      | true =>
        rw [UGh.exchange_none_present _ _ _ _ hp]
        simp only [hp, if_true]
        have hb : old.free ≤ ((ug.addBase (old.row / c.geom.treeRows) old.free).setTok (old.row / c.geom.treeRows) (some cls)).base
            (old.row / c.geom.treeRows) := by
          simp only [UGh.setTok_base, UGh.addBase_base, if_true]; omega
        have ht : ((ug.addBase (old.row / c.geom.treeRows) old.free).setTok (old.row / c.geom.treeRows) (some cls)).tok
            (old.row / c.geom.treeRows) = some cls := by
          simp only [UGh.setTok_tok, if_true]
        apply SafeU.bind _ _ _ (tunreserve_U ok _ (old.row / c.geom.treeRows) old.free cls cls hb ht (Nat.le_refl _) hcls)
        intro _ ug2 h2
        have : ug2 = ug := by
          rw [h2]
          apply UGh.ext'
          · intro i
            simp only [UGh.setTok_base, UGh.subBase_base, UGh.addBase_base]
            by_cases e : i = old.row / c.geom.treeRows <;> simp [e]
          · intro i
            simp only [UGh.setTok_tok, UGh.subBase_tok, UGh.addBase_tok]
            by_cases e : i = old.row / c.geom.treeRows
            · subst e; simp only [if_true]; exact (hkn hp).1.symm
            · simp [e]
        subst this
        exact ih (j + 1) (by omega)

theorem drainClasses_U (ok : CfgOk c) (ug : UGh) :
    ∀ cnt i, SafeU c (fun (_ : Unit) ug' => ug' = ug) ug
      (Locals.drain.classes c (fun row cl free => tunreserve c (row / c.geom.treeRows) free cl) cnt i) := by
  intro cnt
  induction cnt with
  | zero => intro i; unfold Locals.drain.classes; rfl
  | succ cnt ih =>
    intro i
    unfold Locals.drain.classes
    cases hr : c.slotRange i with
    | none => exact ih (i + 1)
    | some rng =>
      dsimp only
      apply SafeU.bind _ _ _ (drainSlots_U ok ug i rng hr (ok.clsLt i rng hr) rng.2 0 (by omega))
      intro _ ug1 h1
      subst h1
      exact ih (i + 1)

/-- **`LLFree::drain`** leaves the thread's ghost as it was -/
theorem drain_U (ok : CfgOk c) (ug : UGh) : SafeU c (fun (_ : Unit) ug' => ug' = ug) ug (drain c) := by
  unfold drain Locals.drain
  exact drainClasses_U ok ug 8 0

end

/-! ### `Locals::demote_any` -/
section
variable {α : Type} {c : Cfg}

/-- ghost effect of `Locals::demote_any`: credit for the allocation in the tree of the taken
    reservation, plus (if a reservation came back) that reservation, carried -/
def DemotePostU (tr : Nat) (ug : UGh) (n : Nat) (tree : Option Nat) (cls : Nat) : Option (Nat × Option Reservation) → UGh → Prop
  | none, ug' => ug' = ug
  | some (row, none), ug' => (∀ i, tree = some i → row / tr = i) ∧ ug' = ug.addBase (row / tr) n
  | some (row, some o), ug' => (∀ i, tree = some i → row / tr = i) ∧ ug.tok (o.row / tr) = none ∧ o.cls = cls ∧
      ∃ b, cls ≤ b ∧ ug' = ((ug.addBase (row / tr) n).addBase (o.row / tr) o.free).setTok (o.row / tr) (some b)

theorem demoteSlots_U (ug : UGh) (cls tc : Nat) (loc tree : Option Nat) (n : Nat) (own rng : Nat × Nat)
    (hown : c.slotRange cls = some own) (hrng : c.slotRange tc = some rng) (hlt : cls ≤ tc) (hpos : 0 < rng.2)
    (hloc : ∀ l, loc = some l → l < own.2) :
    ∀ cnt j, SafeU c (DemotePostU c.geom.treeRows ug n tree cls) ug (Locals.demoteAny.slots c cls loc tree n own rng cnt j) := by
  intro cnt
  induction cnt with
  | zero => intro j; unfold Locals.demoteAny.slots; rfl
  | succ cnt ih =>
    intro j
    unfold Locals.demoteAny.slots
    dsimp only
    show SafeU c _ ug (Prog.bind (tryUpdate .slot _ _) _)
    simp only [tryUpdate, Prog.bind]
    apply SafeU.updSlot
    · intro cur _; exact ih (j + 1)
    · intro old v hkn hv
      have hjlt : (loc.getD 0 + j) % rng.2 < rng.2 := Nat.mod_lt _ hpos
      cases hg : old.get c.geom.treeRows tree n with
      | none => rw [hg] at hv; cases hv
      | some new =>
        rw [hg] at hv
        have hvn : v = LTree.none := by cases hv; rfl
        subst hvn
        obtain ⟨hp, hle, hnew, hflt⟩ := LTree.get_some _ _ _ _ _ hg
        subst hnew
        have hkt := (hkn hp).1
        refine ⟨tc, ug.exchange c.geom.treeRows tc old LTree.none, slotClass_of_range tc rng hrng _ hjlt,
          UTransS.exchange _ _ _ _ _ (fun h => by cases h) (fun i => ?_), ?_⟩
        · rw [LTree.freeFor_absent c.geom.treeRows i LTree.none rfl]; omega
        · rw [UGh.exchange_none_present _ _ _ _ hp]
          show SafeU c _ _ (match old.get c.geom.treeRows tree n with | none => _ | some new => _)
          rw [hg]
          simp only
          cases loc with
          | none =>
            -- nothing to put it into: the reservation is handed back, carried
            simp only
            show DemotePostU c.geom.treeRows ug n tree cls (some (old.row, some ⟨old.row, cls, old.free - n⟩)) _
            refine ⟨hflt, hkt, rfl, tc, hlt, ?_⟩
            apply UGh.ext'
            · intro i
              simp only [UGh.setTok_base, UGh.addBase_base]
              by_cases e : i = old.row / c.geom.treeRows <;> simp [e] <;> omega
            · intro i; rfl
          | some l =>
            simp only
            have hl := hloc l rfl
            apply SafeU.bind_slotIdx _ _ _ _ hl
            show SafeU c _ _ (Prog.bind (swapK .slot _ _) _)
            simp only [swapK, Prog.bind]
            intro o hko
            let ug1 := (ug.addBase (old.row / c.geom.treeRows) old.free).setTok (old.row / c.geom.treeRows) (some tc)
            have ht1 : ug1.tok (old.row / c.geom.treeRows) = some tc := by
              show (if _ = _ then some tc else _) = _; simp
            refine ⟨cls, ug1.exchange c.geom.treeRows cls o ⟨old.row, old.free - n, old.present⟩,
              slotClass_of_range cls own hown l hl, UTransS.exchange _ _ _ _ _ (fun _ => ⟨tc, ht1, hlt⟩) (fun i => ?_), ?_⟩
            · by_cases e : i = old.row / c.geom.treeRows
              · subst e
                have : LTree.freeFor c.geom.treeRows (old.row / c.geom.treeRows) ⟨old.row, old.free - n, old.present⟩ = old.free - n :=
                  LTree.freeFor_self c.geom.treeRows ⟨old.row, old.free - n, old.present⟩ hp
                rw [this]
                show old.free - n ≤ (if _ = _ then ug.base _ + old.free else _) + _
                simp; omega
              · rw [LTree.freeFor_other c.geom.treeRows i ⟨old.row, old.free - n, old.present⟩ (fun x => e x.symm)]; omega
            · -- closed form of the ghost
              have hfn : ∀ i, LTree.freeFor c.geom.treeRows i ⟨old.row, old.free - n, old.present⟩ =
                  if i = old.row / c.geom.treeRows then old.free - n else 0 := by
                intro i
                by_cases e : i = old.row / c.geom.treeRows
                · subst e
                  rw [LTree.freeFor_self c.geom.treeRows ⟨old.row, old.free - n, old.present⟩ hp]; simp
                · rw [LTree.freeFor_other c.geom.treeRows i ⟨old.row, old.free - n, old.present⟩ (fun x => e x.symm)]; simp [e]
              cases hpo : o.present with
              | false =>
                simp only [hpo, Bool.false_eq_true, if_false]
                show DemotePostU c.geom.treeRows ug n tree cls (some (old.row, none)) _
                refine ⟨hflt, ?_⟩
                apply UGh.ext'
                · intro i
                  rw [UGh.exchange_base, hfn, LTree.freeFor_absent _ _ _ hpo]
                  show (if i = _ then ug.base i + old.free else ug.base i) + 0 - _ = _
                  simp only [UGh.addBase_base]
                  by_cases e : i = old.row / c.geom.treeRows <;> simp [e] <;> omega
                · intro i
                  rw [UGh.exchange_tok]
                  simp only [hpo, hp, Bool.false_eq_true, false_and, if_false, true_and, UGh.addBase_tok]
                  by_cases e : old.row / c.geom.treeRows = i
                  · subst e; simp [hkt]
                  · have e' : ¬ i = old.row / c.geom.treeRows := fun x => e x.symm
                    simp [e]
                    show (if i = _ then some tc else ug.tok i) = _
                    simp [e']
              | true =>
                simp only [hpo, if_true]
                have hko' := (hko hpo).1
                have hne : o.row / c.geom.treeRows ≠ old.row / c.geom.treeRows := by
                  intro e; rw [e, ht1] at hko'; cases hko'
                have hko2 : ug.tok (o.row / c.geom.treeRows) = none := by
                  have : ug1.tok (o.row / c.geom.treeRows) = ug.tok (o.row / c.geom.treeRows) := by
                    show (if _ = _ then some tc else _) = _; simp [hne]
                  rw [← this]; exact hko'
                show DemotePostU c.geom.treeRows ug n tree cls (some (old.row, some (o.asReservation cls))) _
                refine ⟨hflt, hko2, rfl, cls, Nat.le_refl _, ?_⟩
                apply UGh.ext'
                · intro i
                  rw [UGh.exchange_base, hfn]
                  show (if i = _ then ug.base i + old.free else ug.base i) + _ - _ = _
                  simp only [UGh.setTok_base, UGh.addBase_base, LTree.asReservation]
                  by_cases e1 : i = old.row / c.geom.treeRows
                  · subst e1
                    rw [LTree.freeFor_other _ _ _ hne]
                    have : ¬ old.row / c.geom.treeRows = o.row / c.geom.treeRows := fun x => hne x.symm
                    simp [this]; omega
                  · by_cases e2 : i = o.row / c.geom.treeRows
                    · subst e2; rw [LTree.freeFor_self _ _ hpo]; simp [e1]
                    · rw [LTree.freeFor_other _ _ _ (fun x => e2 x.symm)]; simp [e1, e2]
                · intro i
                  rw [UGh.exchange_tok]
                  simp only [hpo, hp, true_and, UGh.setTok_tok, UGh.addBase_tok, LTree.asReservation]
                  by_cases e1 : old.row / c.geom.treeRows = i
                  · subst e1
                    have : ¬ old.row / c.geom.treeRows = o.row / c.geom.treeRows := fun x => hne x.symm
                    simp [this, hkt]
                  · have e1' : ¬ i = old.row / c.geom.treeRows := fun x => e1 x.symm
                    by_cases e2 : o.row / c.geom.treeRows = i
                    · subst e2; simp [e1]
                    · have e2' : ¬ i = o.row / c.geom.treeRows := fun x => e2 x.symm
                      simp [e1, e2, e2']
                      show (if i = _ then some tc else ug.tok i) = _
                      simp [e1']

    · intro cur s _ hp; exact ofOption_panic_false _ _ hp

theorem demoteClasses_U (ok : CfgOk c) (ug : UGh) (cls : Nat) (loc tree : Option Nat) (n : Nat) (own : Nat × Nat)
    (hown : c.slotRange cls = some own) (hloc : ∀ l, loc = some l → l < own.2) :
    ∀ cnt i, SafeU c (DemotePostU c.geom.treeRows ug n tree cls) ug (Locals.demoteAny.classes c cls loc tree n own cnt i) := by
  intro cnt
  induction cnt with
  | zero => intro i; unfold Locals.demoteAny.classes; rfl
  | succ cnt ih =>
    intro i
    unfold Locals.demoteAny.classes
    dsimp only
    cases hr : c.slotRange ((i + cls) % 8) with
    | none => exact ih (i + 1)
    | some rng =>
      dsimp only
      split
      · exact ih (i + 1)
      · rename_i hpol
        have hd : c.policy cls ((i + cls) % 8) n = .demote := by simpa using hpol
        have hlt := ordered_demote_lt ok.policy _ _ _ hd
        by_cases hz : rng.2 = 0
        · -- no slots: the loop body does not run
          rw [hz]
          unfold Locals.demoteAny.slots
          exact ih (i + 1)
        · apply SafeU.bind _ _ _ (demoteSlots_U ug cls _ loc tree n own rng hown hr (by omega) (by omega) hloc rng.2 0)
          intro r ug1 h1
          cases r with
          | some x => exact h1
          | none => simp only [DemotePostU] at h1; subst h1; exact ih (i + 1)

theorem demoteAny_U (ok : CfgOk c) (ug : UGh) (cls : Nat) (loc tree : Option Nat) (n : Nat) (hcls : cls < 8)
    (hloc : ∀ l rng, loc = some l → c.slotRange cls = some rng → l < rng.2) :
    SafeU c (DemotePostU c.geom.treeRows ug n tree cls) ug (Locals.demoteAny c cls loc tree n) := by
  unfold Locals.demoteAny
  apply SafeU.bind_classRange _ _ _ hcls
  cases hr : c.slotRange cls with
  | none => rfl
  | some own => exact demoteClasses_U ok ug cls loc tree n own hr (fun l hl => hloc l own hl hr) 7 1

end

end LLFree
