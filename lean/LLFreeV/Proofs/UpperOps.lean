/-
  Specifications of the tree-table and slot operations against the upper invariant.
-/
import LLFreeV.Proofs.UpperMem
namespace LLFree
open Prog

/-- ghost update -/
def gset (P : Nat → Nat) (i v : Nat) : Nat → Nat := fun j => if j = i then v else P j

@[simp] theorem gset_same (P : Nat → Nat) (i v : Nat) : gset P i v i = v := by simp [gset]
theorem gset_other (P : Nat → Nat) (i v j : Nat) (h : j ≠ i) : gset P i v j = P j := by simp [gset, h]

/-- the allocation state (lower metadata) is untouched -/
def SameAlloc (m m' : Mem) : Prop := m'.rows = m.rows ∧ m'.huge = m.huge

theorem SameAlloc.refl (m : Mem) : SameAlloc m m := ⟨rfl, rfl⟩
theorem SameAlloc.trans {a b d : Mem} (h1 : SameAlloc a b) (h2 : SameAlloc b d) : SameAlloc a d :=
  ⟨h2.1.trans h1.1, h2.2.trans h1.2⟩

section
variable {c : Cfg} {H : Nat → Nat} {P : Nat → Nat} {R : Nat → Prop} {m : Mem}

/-- `Trees::put`: `n` unaccounted free frames of tree `i` are added to its counter -/
theorem tput_spec (ok : CfgOk c) (inv : UpperInv c H P R m) (i n : Nat) (hi : i < c.ntrees) (hn : n ≤ P i) :
    Runs m (tput c i n) (fun _ m' => UpperInv c H (gset P i (P i - n)) R m' ∧ SameAlloc m m') := by
  obtain ⟨t, ht⟩ := inv.tree_get i hi
  have hle := inv.counterLe i t ht
  have htf := Mem.freeInTree_le m c.geom i
  have hsum : t.free + n ≤ c.geom.treeFrames := by omega
  unfold tput Trees.put
  apply Runs.bind (R := fun _ m' => UpperInv c H (gset P i (P i - n)) R m' ∧ SameAlloc m m')
  · -- the update
    have hnot : ¬ (t.free + n > c.geom.treeFrames) := by omega
    by_cases hreset : (t.free + n == c.geom.treeFrames && !t.reserved && c.policy t.cls c.dflt (t.free + n) != .invalid) = true
    · have hf : Tree.put c.tf t n c.policy c.dflt = .set { t with free := t.free + n, cls := c.dflt } := by
        unfold Tree.put
        simp only [Cfg.tf, hnot, if_false, hreset, if_true]
        have : Tree.clsOk c.dflt = true := by simp [Tree.clsOk, ok.dflt]
        simp [this]
      apply Runs.upd_set (by simpa using ht) hf
      refine ⟨?_, rfl, rfl⟩
      refine inv.set_tree_counter i t { t with free := t.free + n, cls := c.dflt } ht (gset P i (P i - n)) rfl ok.dflt ?_ ?_ ?_
      · intro hr
        simp only [Bool.and_eq_true, Bool.not_eq_true'] at hreset
        rw [hr] at hreset; exact absurd hreset.1.2 (by simp)
      · intro j hj; exact gset_other P i _ j hj
      · simp only [gset_same]; omega
    · have hf : Tree.put c.tf t n c.policy c.dflt = .set { t with free := t.free + n } := by
        unfold Tree.put
        simp only [Cfg.tf, hnot, if_false]
        simp only [hreset]
        simp
      apply Runs.upd_set (by simpa using ht) hf
      refine ⟨?_, rfl, rfl⟩
      refine inv.set_tree_counter i t { t with free := t.free + n } ht (gset P i (P i - n)) rfl (inv.treeCls i t ht) ?_ ?_ ?_
      · intro _; rfl
      · intro j hj; exact gset_other P i _ j hj
      · simp only [gset_same]; omega
  · intro _ m' h
    exact Runs.pure h

theorem classRange_spec (m : Mem) (cls : Nat) (hcls : cls < 8) (Q : Option (Nat × Nat) → Mem → Prop)
    (q : Q (c.slotRange cls) m) : Runs m (Locals.classRange c cls) Q := by
  unfold Locals.classRange
  have : ¬ cls ≥ 8 := by omega
  simp only [this, if_false]
  exact Runs.pure q

theorem slotIdx_spec (m : Mem) (rng : Nat × Nat) (loc : Nat) (h : loc < rng.2) (Q : Nat → Mem → Prop)
    (q : Q (rng.1 + loc) m) : Runs m (Locals.slotIdx rng loc) Q := by
  unfold Locals.slotIdx
  simp only [h, if_true]
  exact Runs.pure q

theorem UpperInv.slot_get (ok : CfgOk c) (inv : UpperInv c H P R m) (cls : Nat) (rng : Nat × Nat)
    (hr : c.slotRange cls = some rng) (loc : Nat) (hloc : loc < rng.2) :
    ∃ l : LTree, m.slots[rng.1 + loc]? = some l := by
  have := ok.rangeIn cls rng hr
  have h2 : rng.1 + loc < m.slots.size := by rw [inv.slotsSize]; omega
  exact ⟨m.slots[rng.1 + loc], Array.getElem?_eq_getElem h2⟩

theorem slotClass_of_range (cls : Nat) (rng : Nat × Nat) (hr : c.slotRange cls = some rng) (loc : Nat) (hloc : loc < rng.2) :
    c.slotClass (rng.1 + loc) cls := ⟨rng, hr, by omega, by omega⟩

/-- `freeFor` of a slot that does not point to tree `i` -/
theorem LTree.freeFor_other (tr i : Nat) (l : LTree) (h : l.row / tr ≠ i) : LTree.freeFor tr i l = 0 := by
  unfold LTree.freeFor
  have : (l.row / tr == i) = false := by simpa using h
  simp [this]

theorem LTree.freeFor_self (tr : Nat) (l : LTree) (h : l.present = true) : LTree.freeFor tr (l.row / tr) l = l.free := by
  unfold LTree.freeFor
  simp [h]

theorem LTree.freeFor_absent (tr i : Nat) (l : LTree) (h : l.present = false) : LTree.freeFor tr i l = 0 := by
  unfold LTree.freeFor
  simp [h]

/-- `Locals::put`: `n` unaccounted free frames of `tree` are added to the caller's slot if it
    holds that tree; otherwise nothing happens -/
theorem locals_put_spec (ok : CfgOk c) (inv : UpperInv c H P R m) (cls loc tree n : Nat) (hcls : cls < 8)
    (rng : Nat × Nat) (hr : c.slotRange cls = some rng) (hloc : loc < rng.2) (hn : n ≤ P tree) :
    Runs m (Locals.put c cls loc tree n) (fun b m' => SameAlloc m m' ∧
      if b then UpperInv c H (gset P tree (P tree - n)) R m' else m' = m) := by
  obtain ⟨l, hl⟩ := inv.slot_get ok cls rng hr loc hloc
  unfold Locals.put
  apply Runs.bind (classRange_spec m cls hcls (fun r m' => r = some rng ∧ m = m') ⟨hr, rfl⟩)
  rintro _ _ ⟨rfl, rfl⟩
  simp only
  apply Runs.bind (slotIdx_spec m rng loc hloc (fun r m' => r = rng.1 + loc ∧ m = m') ⟨rfl, rfl⟩)
  rintro _ _ ⟨rfl, rfl⟩
  by_cases hp : (l.present && l.row / c.geom.treeRows == tree) = true
  · simp only [Bool.and_eq_true, beq_iff_eq] at hp
    obtain ⟨hpres, hrow⟩ := hp
    have hge := Mem.slotFree_ge m c.geom.treeRows _ l hl tree
    rw [← hrow, LTree.freeFor_self _ l hpres, hrow] at hge
    obtain ⟨k, hk⟩ := inv.slotCls _ l hl hpres
    obtain ⟨t, ht, htr, hkt⟩ := inv.slotTree _ l k hl hpres hk
    rw [hrow] at ht
    have hle := inv.counterLe tree t ht
    have htf := Mem.freeInTree_le m c.geom tree
    have hf : LTree.put c.geom.treeRows c.geom.treeFrames l tree n = .set { l with free := l.free + n } := by
      unfold LTree.put
      have h1 : (l.present && l.row / c.geom.treeRows == tree) = true := by simp [hpres, hrow]
      have h2 : ¬ (l.free + n > c.geom.treeFrames) := by omega
      simp only [h1, if_true, h2, if_false]
    apply Runs.bind (Runs.upd_set (Q := fun r m' => r = .ok l ∧ m.set .slot (rng.1 + loc) { l with free := l.free + n } = m')
      (by simpa using hl) hf ⟨rfl, rfl⟩)
    rintro _ _ ⟨rfl, rfl⟩
    apply Runs.pure
    refine ⟨⟨rfl, rfl⟩, ?_⟩
    simp only [if_true]
    apply inv.set_slot _ l _ hl (gset P tree (P tree - n)) R
    · intro _
      refine ⟨⟨k, hk⟩, ?_⟩
      intro k' hk'
      exact inv.slotTree _ l k' hl hpres hk'
    · intro _ s' x hx hxp e
      exact inv.slotInj s' _ x l hx hl hxp hpres e
    · intro _; exact inv.slotNotR _ l hl hpres
    · intro j hj; left; exact hj
    · intro _; left; exact ⟨hpres, rfl⟩
    · intro j hj; left; exact hj
    · intro i
      by_cases hi : i = tree
      · subst hi
        have e1 : LTree.freeFor c.geom.treeRows i { l with free := l.free + n } = l.free + n := by
          have := LTree.freeFor_self c.geom.treeRows { l with free := l.free + n } hpres
          simp only at this; rw [hrow] at this; exact this
        have e2 : LTree.freeFor c.geom.treeRows i l = l.free := by
          have := LTree.freeFor_self c.geom.treeRows l hpres
          rw [hrow] at this; exact this
        rw [e1, e2, gset_same]; omega
      · have hne : l.row / c.geom.treeRows ≠ i := by rw [hrow]; exact fun e => hi e.symm
        rw [LTree.freeFor_other _ _ l hne, LTree.freeFor_other _ _ _ (by exact hne), gset_other _ _ _ _ hi]
  · have hf : LTree.put c.geom.treeRows c.geom.treeFrames l tree n = .skip := by
      unfold LTree.put
      simp only [hp, Bool.false_eq_true, if_false]
    apply Runs.bind (Runs.upd_skip (Q := fun r m' => r = .error l ∧ m = m') (by simpa using hl) hf ⟨rfl, rfl⟩)
    rintro _ _ ⟨rfl, rfl⟩
    apply Runs.pure
    exact ⟨SameAlloc.refl _, by simp⟩

end
end LLFree
