/-
  `SortedBuffer::add` of the model (on the list of present values) is the array code of the current source
  (`Gen/Sbuf.lean`, regenerated from `core/src/util.rs`): on a buffer that is a prefix of `Some`s followed by
  `None`s — the only shape `add` produces from the empty buffer — the two agree.
-/
import LLFreeV.Gen.Sbuf
import LLFreeV.Model.Trees
namespace LLFree.GenTree
open LLFree LLFree.Gen.S

/-- the array `[Option<T>; N]` holding the values `l` -/
def embed {τ : Type} (n : Nat) (l : List τ) : List (Option τ) := l.map some ++ List.replicate (n - l.length) none

theorem embed_cons {τ : Type} (n : Nat) (x : τ) (xs : List τ) : embed n (x :: xs) = some x :: embed (n - 1) xs := by
  unfold embed
  have : n - (xs.length + 1) = n - 1 - xs.length := by omega
  simp only [List.map_cons, List.cons_append, List.length_cons, this]

theorem position_embed_none {τ : Type} (l : List τ) : ∀ n, position (fun e : Option τ => e.isNone) (embed n l) =
    if l.length < n then some l.length else none := by
  induction l with
  | nil =>
    intro n
    cases n with
    | zero => simp [embed, position]
    | succ n => simp [embed, List.replicate_succ, position]
  | cons x xs ih =>
    intro n
    rw [embed_cons]
    simp only [position, Option.isNone_some, Bool.false_eq_true, if_false, ih (n - 1), List.length_cons]
    by_cases h : xs.length < n - 1
    · have : xs.length + 1 < n := by omega
      simp [h, this]
    · have : ¬ xs.length + 1 < n := by omega
      simp [h, this]

theorem position_map_some {τ : Type} (q : τ → Bool) (l : List τ) :
    position (fun e : Option τ => Option.any q e) (l.map some) = position q l := by
  induction l with
  | nil => rfl
  | cons x xs ih => simp only [List.map_cons, position, ih, Option.any_some]

theorem position_getD {τ : Type} (q : τ → Bool) (l : List τ) :
    (position q l).getD l.length = (l.takeWhile (fun v => !q v)).length := by
  induction l with
  | nil => rfl
  | cons x xs ih =>
    simp only [position, List.takeWhile_cons, List.length_cons]
    cases hq : q x
    · simp only [Bool.false_eq_true, if_false, Bool.not_false, if_true, List.length_cons]
      cases hp : position q xs with
      | none => rw [hp] at ih; simp at ih ⊢; omega
      | some k => rw [hp] at ih; simp at ih ⊢; omega
    · simp

theorem set_append_cons {α : Type} (a b : List α) (x y : α) : (a ++ x :: b).set a.length y = a ++ y :: b := by
  induction a with
  | nil => rfl
  | cons h t ih => simp only [List.cons_append, List.length_cons, List.set_cons_succ, ih]

theorem take_succ_append_cons {α : Type} (H R : List α) (x : α) : (H ++ x :: R).take (H.length + 1) = H ++ [x] := by
  induction H with
  | nil => simp
  | cons h t ih => simp only [List.cons_append, List.length_cons, List.take_succ_cons, ih]

/-- **`SortedBuffer::add`: the array code of the source computes the list operation of the model** -/
theorem sbuf_add_eq {τ : Type} (le : τ → τ → Bool) (n : Nat) (l : List τ) (v : τ) (hl : l.length ≤ n) :
    Gen.S.add le n (embed n l) v = embed n (SortedBuffer.add le n l v) := by
  unfold Gen.S.add SortedBuffer.add
  have hlen : (position (fun e : Option τ => e.isNone) (embed n l)).getD n = l.length := by
    rw [position_embed_none]
    by_cases h : l.length < n
    · simp [h]
    · simp [h]; omega
  have htake : (embed n l).take l.length = l.map some := by
    unfold embed; exact List.take_left' (by simp)
  simp only [hlen, htake, position_map_some, position_getD]
  have hsplit := List.takeWhile_append_dropWhile (p := fun x => !le v x) (l := l)
  generalize hlo : l.takeWhile (fun x => !le v x) = lo at hsplit ⊢
  generalize hhi : l.dropWhile (fun x => !le v x) = hi at hsplit ⊢
  subst hsplit
  simp only [List.length_append] at hl ⊢
  by_cases hfull : lo.length + hi.length < n
  · -- room left: shift `pos..=len` right by one and write the value at `pos`
    simp only [hfull, decide_true, if_true]
    have hemb : embed n (lo ++ hi) = lo.map some ++ (hi.map some ++ none :: List.replicate (n - (lo.length + hi.length) - 1) none) := by
      unfold embed
      have : n - (lo ++ hi).length = (n - (lo.length + hi.length) - 1) + 1 := by simp only [List.length_append]; omega
      rw [this, List.replicate_succ]
      simp
    rw [hemb]
    unfold rotateRight1
    have h1 : (lo.map some ++ (hi.map some ++ none :: List.replicate (n - (lo.length + hi.length) - 1) none)).take lo.length = lo.map some :=
      List.take_left' (by simp)
    have h2 : (lo.map some ++ (hi.map some ++ none :: List.replicate (n - (lo.length + hi.length) - 1) none)).drop lo.length =
        hi.map some ++ none :: List.replicate (n - (lo.length + hi.length) - 1) none :=
      List.drop_left' (by simp)
    have h3 : lo.length + hi.length + 1 - lo.length = (hi.map some).length + 1 := by simp; omega
    have h4 : (lo.map some ++ (hi.map some ++ none :: List.replicate (n - (lo.length + hi.length) - 1) none)).drop (lo.length + hi.length + 1) =
        List.replicate (n - (lo.length + hi.length) - 1) none := by
      have : lo.map some ++ (hi.map some ++ none :: List.replicate (n - (lo.length + hi.length) - 1) none) =
          (lo.map some ++ hi.map some ++ [none]) ++ List.replicate (n - (lo.length + hi.length) - 1) none := by simp
      rw [this]
      exact List.drop_left' (by simp; omega)
    simp only [h1, h2, h3, h4, take_succ_append_cons, List.getLast?_append, List.getLast?_singleton, Option.some_or,
      List.dropLast_concat]
    have h5 := set_append_cons (lo.map some) (hi.map some ++ List.replicate (n - (lo.length + hi.length) - 1) none) (none : Option τ) (some v)
    simp only [List.length_map] at h5
    simp only [List.cons_append, List.append_assoc]
    rw [h5]
    unfold embed
    have : n - (lo ++ v :: hi).length = n - (lo.length + hi.length) - 1 := by simp; omega
    rw [this]
    simp
  · -- full
    have hn : lo.length + hi.length = n := by omega
    have hnf : ¬ (lo ++ hi).length < n := by simp only [List.length_append]; omega
    simp only [hfull, decide_false, Bool.false_eq_true, if_false, hnf]
    have hemb : embed n (lo ++ hi) = lo.map some ++ hi.map some := by
      unfold embed; simp [hn]
    cases lo with
    | nil => simp
    | cons x lo' =>
      simp only [List.length_cons, Nat.zero_lt_succ, decide_true, if_true, hemb]
      unfold rotateLeft1
      have h1 : (some x :: (lo'.map some ++ hi.map some)).take (lo'.length + 1 - 0) = some x :: lo'.map some := by
        have := List.take_left' (l₁ := some x :: lo'.map some) (l₂ := hi.map some) (i := lo'.length + 1) (by simp)
        simpa using this
      have h2 : (some x :: (lo'.map some ++ hi.map some)).drop (lo'.length + 1) = hi.map some := by
        have := List.drop_left' (l₁ := some x :: lo'.map some) (l₂ := hi.map some) (i := lo'.length + 1) (by simp)
        simpa using this
      simp only [List.take_zero, List.drop_zero, List.nil_append, List.map_cons, List.cons_append, h1, h2]
      have h5 := set_append_cons (lo'.map some) (hi.map some) (some x) (some v)
      simp only [List.length_map] at h5
      simp only [Nat.add_sub_cancel, List.append_assoc, List.singleton_append]
      rw [h5]
      unfold embed
      have hz : n - (lo' ++ v :: hi).length = 0 := by
        simp only [List.length_append, List.length_cons] at hn ⊢; omega
      rw [hz]
      simp

end LLFree.GenTree
