/-
  Building blocks of `LLFree::get` against the upper invariant: the lower allocation, the
  tree-table steps (`steal`, `sync`, `reserve_or_steal`) and `steal_global`.
-/
import LLFreeV.Proofs.UpperChange
namespace LLFree
open Prog

section
variable {c : Cfg} {H : Nat → Nat} {P : Nat → Nat} {R : Nat → Prop} {m : Mem}

/-- updating an unreserved tree (no slot points to it), any ghost state -/
theorem UpperInv.set_unreserved' (inv : UpperInv c H P R m) (i : Nat) (t t' : Tree) (ht : m.trees[i]? = some t)
    (hr : t.reserved = false) (hr' : t'.reserved = false) (hcls : t'.cls < 8) (P' : Nat → Nat)
    (hP : ∀ j, j ≠ i → P' j = P j) (hsum : t'.free + P' i = t.free + P i) :
    UpperInv c H P' R (m.set .tree i t') := by
  refine inv.set_tree_counter i t t' ht P' (by rw [hr, hr']) hcls ?_ hP hsum
  intro h; rw [hr] at h; cases h

/-- a tree index below the table length -/
theorem tree_lt_of_block (okg : GeomOk c.geom) (f n : Nat) (hn : 0 < n) (h : f + n ≤ c.frames) :
    f / c.geom.treeFrames < c.ntrees := by
  unfold Cfg.ntrees
  apply (Nat.div_lt_iff_lt_mul okg.tf_pos).2
  have := Nat.div_add_mod (c.frames + c.geom.treeFrames - 1) c.geom.treeFrames
  have h2 := Nat.mod_lt (c.frames + c.geom.treeFrames - 1) okg.tf_pos
  rw [Nat.mul_comm] at this
  omega

/-- outcome of the lower allocation inside tree `t0` -/
def LowerGot (c : Cfg) (H : Nat → Nat) (P : Nat → Nat) (R : Nat → Prop) (m : Mem) (t0 order : Nat) (frame : Option Nat)
    (r : Res Nat) (m' : Mem) : Prop :=
  match r with
  | .ok f => f / c.geom.treeFrames = t0 ∧ f % 2 ^ order = 0 ∧ GetAllowed c m f order ∧ GetPost c m m' f order ∧
      (∀ x, frame = some x → f = x) ∧ UpperInv c H (gset P t0 (P t0 - 2 ^ order)) R m'
  | .error e => e = .memory ∧ m = m' ∧
      (frame = none → ∀ f, f / c.geom.treeFrames = t0 → f % 2 ^ order = 0 → ¬ GetAllowed c m f order)

/-- `Lower::get` under the upper invariant: a success consumes `2^order` unaccounted frames of
    the tree; a failure changes nothing -/
theorem lower_get_upper (ok : CfgOk c) (inv : UpperInv c H P R m) (start order t0 : Nat) (frame : Option Nat)
    (hto : order ≤ c.geom.treeOrder) (ht0 : t0 < c.ntrees) (hP : 2 ^ order ≤ P t0)
    (hstart : frame = none → start * 64 / c.geom.treeFrames = t0)
    (hframe : ∀ x, frame = some x → BlockOk c x order ∧ x / c.geom.treeFrames = t0) :
    Runs m (Lower.get c.geom start order frame) (fun r m' => LowerGot c H P R m t0 order frame r m') := by
  have okg := ok.geom.toGeomOk
  have hupper : ∀ f m', f / c.geom.treeFrames = t0 → f % 2 ^ order = 0 → GetAllowed c m f order → GetPost c m m' f order →
      UpperInv c H (gset P t0 (P t0 - 2 ^ order)) R m' := by
    intro f m' hft hal hallowed post
    apply inv.of_lower_change m' _ post.trees post.slots post.inv
    intro j
    have := freeInTree_get okg m m' f order hto hal hallowed post j
    rw [this, hft]
    by_cases e : j = t0
    · subst e; simp only [if_true, gset_same]; omega
    · simp only [e, if_false, gset_other _ _ _ _ e]; omega
  cases frame with
  | none =>
    have hs := hstart rfl
    obtain ⟨m', r, hrun, hres⟩ := lower_get_refines ok.geom m inv.lower start order hto (by rw [hs]; exact ht0)
    refine Runs.of_eq hrun ?_
    rw [hs] at hres
    cases hres with
    | found m' f htree hal hallowed post =>
      exact ⟨htree, hal, hallowed, post, (fun x h => by cases h), hupper f m' htree hal hallowed post⟩
    | none hno => exact ⟨rfl, rfl, fun _ => hno⟩
  | some x =>
    obtain ⟨hb, hxt⟩ := hframe x rfl
    obtain ⟨h1, h2⟩ := lower_getAt_refines ok.geom m inv.lower x order hb
    unfold Lower.get
    simp only
    by_cases ha : GetAllowed c m x order
    · obtain ⟨m', hrun, post⟩ := h1 ha
      apply Runs.bind (Runs.of_eq hrun (Q := fun r m1 => r = .ok () ∧ m' = m1) ⟨rfl, rfl⟩)
      rintro _ _ ⟨rfl, rfl⟩
      apply Runs.pure
      exact ⟨hxt, hb.aligned, ha, post, (fun y h => by cases h; rfl), hupper x m' hxt hb.aligned ha post⟩
    · apply Runs.bind (Runs.of_eq (h2 ha) (Q := fun r m1 => r = .error .memory ∧ m = m1) ⟨rfl, rfl⟩)
      rintro _ _ ⟨rfl, rfl⟩
      apply Runs.pure
      exact ⟨rfl, rfl, fun h => by cases h⟩

/-- `Tree::steal` under an ordered policy: succeeds exactly on an unreserved tree with enough
    frames; the class becomes the requested one unless the request is of a higher class -/
theorem Tree.steal_ordered (hp : OrderedPolicy c.policy) (t : Tree) (cls n : Nat) :
    (t.free ≥ n ∧ t.reserved = false → ∃ k, (k = cls ∨ k = t.cls) ∧
      t.steal cls n c.policy = some { t with free := t.free - n, cls := k }) ∧
    (¬ (t.free ≥ n ∧ t.reserved = false) → t.steal cls n c.policy = none) := by
  constructor
  · rintro ⟨h1, h2⟩
    unfold Tree.steal
    have hc : (decide (t.free ≥ n) && !t.reserved) = true := by simp [h1, h2]
    simp only [hc, if_true]
    rcases Nat.lt_trichotomy cls t.cls with h | h | h
    · rw [ordered_lt hp cls t.cls n h]
      simp only [h2, Bool.false_eq_true, if_false]
      exact ⟨cls, Or.inl rfl, rfl⟩
    · obtain ⟨q, hq⟩ := ordered_eq hp cls n
      rw [← h, hq]
      exact ⟨cls, Or.inl rfl, rfl⟩
    · rw [ordered_gt hp cls t.cls n h]
      exact ⟨t.cls, Or.inr rfl, rfl⟩
  · intro h
    unfold Tree.steal
    have hc : (decide (t.free ≥ n) && !t.reserved) = false := by
      cases hr : t.reserved <;> simp_all
    simp only [hc, Bool.false_eq_true, if_false]

/-- `Trees::steal`: `n` frames leave the counter of an unreserved tree and become unaccounted -/
theorem trees_steal_spec (ok : CfgOk c) (inv : UpperInv c H P R m) (i cls n : Nat) (hi : i < c.ntrees) (hcls : cls < 8) :
    Runs m (Trees.steal c.policy i cls n) (fun r m' => match r with
      | some k => k < 8 ∧ UpperInv c H (gset P i (P i + n)) R m' ∧ SameAlloc m m' ∧ m'.slots = m.slots
      | none => m = m' ∧ ∀ t : Tree, m.trees[i]? = some t → ¬ (t.free ≥ n ∧ t.reserved = false)) := by
  obtain ⟨t, ht⟩ := inv.tree_get i hi
  obtain ⟨h1, h2⟩ := Tree.steal_ordered (c := c) ok.policy t cls n
  unfold Trees.steal
  by_cases hc : t.free ≥ n ∧ t.reserved = false
  · obtain ⟨k, hk, hst⟩ := h1 hc
    apply Runs.bind (Runs.tryUpdate_some (Q := fun r m' => r = .ok t ∧ m.set .tree i { t with free := t.free - n, cls := k } = m')
      (by simpa using ht) hst ⟨rfl, rfl⟩)
    rintro _ _ ⟨rfl, rfl⟩
    simp only [hst]
    apply Runs.pure
    have hk8 : k < 8 := by rcases hk with e | e <;> rw [e]; exact hcls; exact inv.treeCls i t ht
    refine ⟨hk8, ?_, ⟨rfl, rfl⟩, rfl⟩
    refine inv.set_unreserved' i t { t with free := t.free - n, cls := k } ht hc.2 hc.2 hk8 (gset P i (P i + n)) ?_ ?_
    · intro j hj; exact gset_other P i _ j hj
    · simp only [gset_same]; omega
  · apply Runs.bind (Runs.tryUpdate_none (Q := fun r m' => r = .error t ∧ m = m') (by simpa using ht) (h2 hc) ⟨rfl, rfl⟩)
    rintro _ _ ⟨rfl, rfl⟩
    exact Runs.pure ⟨rfl, fun t' ht' => by rw [ht] at ht'; cases ht'; exact hc⟩

/-- the allocation state changed by exactly the allocation of block `(f, order)` -/
def AllocEffect (c : Cfg) (m m' : Mem) (f order : Nat) : Prop :=
  (∀ x, m'.allocated c.geom x = (m.allocated c.geom x || inBlock f order x)) ∧
  (∀ h, m'.whole h = (m.whole h || (decide (c.geom.hugeOrder ≤ order) &&
    (decide (f / c.geom.hugeFrames ≤ h) && decide (h * c.geom.hugeFrames < f + 2 ^ order)))))

theorem Mem.whole_congr (m m' : Mem) (hh : m'.huge = m.huge) (h : Nat) : m'.whole h = m.whole h := by
  unfold Mem.whole Mem.hugeE; rw [hh]

theorem AllocEffect.of_post {a b d e : Mem} {f order : Nat} (h1 : SameAlloc a b) (post : GetPost c b d f order)
    (h2 : SameAlloc d e) : AllocEffect c a e f order := by
  constructor
  · intro x
    rw [Mem.allocated_congr c.geom d e h2.1 h2.2, post.alloc, Mem.allocated_congr c.geom a b h1.1 h1.2]
  · intro h
    rw [Mem.whole_congr d e h2.2, post.whole, Mem.whole_congr a b h1.2]

theorem GetAllowed.congr {a b : Mem} {f order : Nat} (h1 : SameAlloc a b) (h : GetAllowed c b f order) : GetAllowed c a f order := by
  intro x hx
  have := h x hx
  rwa [Mem.allocated_congr c.geom a b h1.1 h1.2] at this

/-- result of an allocation attempt that keeps the invariant: either a block that was free is
    now allocated (and nothing else changed in the allocation state), or the allocation state is
    unchanged -/
def GetOutcome (c : Cfg) (m : Mem) (order : Nat) (frame : Option Nat) (r : Res (Nat × Nat)) (m' : Mem) : Prop :=
  match r with
  | .ok (f, k) => k < 8 ∧ f % 2 ^ order = 0 ∧ GetAllowed c m f order ∧ (∀ x, frame = some x → f = x) ∧
      AllocEffect c m m' f order
  | .error e => e = .memory ∧ SameAlloc m m'

theorem SameAlloc.symm {a b : Mem} (h : SameAlloc a b) : SameAlloc b a := ⟨h.1.symm, h.2.symm⟩

/-- why an untargeted allocation attempt in tree `i` may fail: the counter is too small or the
    tree is reserved, or the tree holds no aligned free block of the order -/
def NoRoom (c : Cfg) (m : Mem) (i order : Nat) : Prop :=
  (∀ t : Tree, m.trees[i]? = some t → ¬ (t.free ≥ 2 ^ order ∧ t.reserved = false)) ∨
  (∀ f, f / c.geom.treeFrames = i → f % 2 ^ order = 0 → ¬ GetAllowed c m f order)

/-- `LLFree::steal_global`, with the reason of a failure -/
theorem stealGlobal_spec' (ok : CfgOk c) (inv : UpperInv0 c H m) (i cls order : Nat) (frame : Option Nat)
    (hi : i < c.ntrees) (hcls : cls < 8) (hto : order ≤ c.geom.treeOrder)
    (hframe : ∀ x, frame = some x → BlockOk c x order ∧ x / c.geom.treeFrames = i) :
    Runs m (stealGlobal c i cls order frame) (fun r m' => UpperInv0 c H m' ∧ GetOutcome c m order frame r m' ∧
      (frame = none → ∀ e, r = .error e → NoRoom c m i order)) := by
  have okg := ok.geom.toGeomOk
  unfold stealGlobal
  apply Runs.bind (trees_steal_spec ok inv i cls (2 ^ order) hi hcls)
  rintro r m1 hr
  cases r with
  | none =>
    obtain ⟨rfl, hwhy⟩ := hr
    exact Runs.pure ⟨inv, ⟨rfl, SameAlloc.refl _⟩, fun _ _ _ => Or.inl hwhy⟩
  | some k =>
    obtain ⟨hk, inv1, same1, hslots⟩ := hr
    simp only
    have htr : i * c.g.treeRows * 64 / c.geom.treeFrames = i := by
      show i * c.geom.treeRows * 64 / _ = i
      rw [Nat.mul_assoc, okg.treeRows_mul, Nat.mul_div_cancel _ okg.tf_pos]
    apply Runs.bind (lower_get_upper ok inv1 (i * c.g.treeRows) order i frame hto hi (by simp) (fun _ => htr) hframe)
    rintro lr m2 hlr
    cases lr with
    | ok f =>
      obtain ⟨hft, hal, hallowed, post, hfx, inv2⟩ := hlr
      apply Runs.pure
      refine ⟨inv2.congrP _ ?_, ⟨hk, hal, hallowed.congr same1, hfx, AllocEffect.of_post same1 post (SameAlloc.refl _)⟩,
        fun _ e h => by cases h⟩
      intro j
      by_cases e : j = i
      · subst e; simp
      · simp [gset, e]
    | error e =>
      obtain ⟨rfl, rfl, hno⟩ := hlr
      simp only
      apply Runs.bind (tput_spec ok inv1 i (2 ^ order) hi (by simp))
      rintro _ m3 ⟨inv3, same3⟩
      apply Runs.pure
      refine ⟨inv3.congrP _ ?_, ⟨rfl, same1.trans same3⟩,
        fun hf _ _ => Or.inr (fun f h1 h2 h3 => hno hf f h1 h2 (h3.congr same1.symm))⟩
      intro j
      by_cases e : j = i
      · subst e; simp
      · simp [gset, e]

/-- `LLFree::steal_global` -/
theorem stealGlobal_spec (ok : CfgOk c) (inv : UpperInv0 c H m) (i cls order : Nat) (frame : Option Nat)
    (hi : i < c.ntrees) (hcls : cls < 8) (hto : order ≤ c.geom.treeOrder)
    (hframe : ∀ x, frame = some x → BlockOk c x order ∧ x / c.geom.treeFrames = i) :
    Runs m (stealGlobal c i cls order frame) (fun r m' => UpperInv0 c H m' ∧ GetOutcome c m order frame r m') :=
  (stealGlobal_spec' ok inv i cls order frame hi hcls hto hframe).mono (fun _ _ h => ⟨h.1, h.2.1⟩)

end
end LLFree
