/-
  `Bitfield::toggle` under arbitrary interleavings (ownership reasoning of `Own.lean`):
  * allocation (`expected = false`): a success claims exactly the bits of the block, which were
    free at the instant of the compare-exchange; a failure changes no ownership;
  * free (`expected = true`) of a block the thread holds: always succeeds (no other thread can
    have cleared the bits) and releases exactly the block; the roll-back paths cannot panic.
-/
import LLFreeV.Proofs.Own
import LLFreeV.Proofs.Bits
import LLFreeV.Proofs.Geom
import LLFreeV.Model.Lower
import LLFreeV.Proofs.Fza
namespace LLFree
open Prog

/-- bits `[s, s+n)` of row `R` -/
def inBits (R s n : Nat) (f : Nat) : Bool := decide (f / 64 = R) && decide (s ≤ f % 64) && decide (f % 64 < s + n)

def addBits (own : Owned) (R s n : Nat) : Owned := fun f => own f || inBits R s n f
def subBits (own : Owned) (R s n : Nat) : Owned := fun f => own f && !inBits R s n f

theorem inBits_row (R s n b : Nat) (hb : b < 64) : inBits R s n (R * 64 + b) = (decide (s ≤ b) && decide (b < s + n)) := by
  unfold inBits
  have e1 : (R * 64 + b) / 64 = R := by omega
  have e2 : (R * 64 + b) % 64 = b := by omega
  simp [e1, e2]

theorem inBits_other (R s n f : Nat) (h : f / 64 ≠ R) : inBits R s n f = false := by
  unfold inBits; simp [h]

/-- claiming bits that are free -/
theorem Trans.claim_range (own : Owned) (R s n : Nat) (cur new : BitVec 64)
    (hnew : ∀ b, b < 64 → new.getLsbD b = if s ≤ b ∧ b < s + n then true else cur.getLsbD b)
    (hfree : ∀ b, b < 64 → s ≤ b → b < s + n → cur.getLsbD b = false) :
    Trans own (addBits own R s n) R cur new where
  other := by intro f hf; unfold addBits; rw [inBits_other R s n f hf]; simp
  keep := by
    intro b hb hsame
    unfold addBits
    rw [inBits_row R s n b hb]
    by_cases hr : s ≤ b ∧ b < s + n
    · have h1 := hnew b hb; rw [if_pos hr] at h1
      have h2 := hfree b hb hr.1 hr.2
      rw [h1, h2] at hsame; cases hsame
    · have : (decide (s ≤ b) && decide (b < s + n)) = false := by
        by_cases a : s ≤ b <;> by_cases c : b < s + n <;> simp [a, c] <;> exact hr ⟨a, c⟩
      rw [this]; simp
  claim := by
    intro b hb hold hnw
    unfold addBits
    rw [inBits_row R s n b hb]
    by_cases hr : s ≤ b ∧ b < s + n
    · simp [hr.1, hr.2]
    · have h1 := hnew b hb; rw [if_neg hr] at h1
      rw [h1, hold] at hnw; cases hnw
  release := by
    intro b hb hold hnw
    have h1 := hnew b hb
    by_cases hr : s ≤ b ∧ b < s + n
    · rw [if_pos hr] at h1; rw [h1] at hnw; cases hnw
    · rw [if_neg hr] at h1; rw [h1, hold] at hnw; cases hnw

/-- releasing bits the thread holds -/
theorem Trans.release_range (own : Owned) (R s n : Nat) (cur new : BitVec 64)
    (hnew : ∀ b, b < 64 → new.getLsbD b = if s ≤ b ∧ b < s + n then false else cur.getLsbD b)
    (hown : ∀ b, b < 64 → s ≤ b → b < s + n → own (R * 64 + b) = true)
    (hset : ∀ b, b < 64 → s ≤ b → b < s + n → cur.getLsbD b = true) :
    Trans own (subBits own R s n) R cur new where
  other := by intro f hf; unfold subBits; rw [inBits_other R s n f hf]; simp
  keep := by
    intro b hb hsame
    unfold subBits
    rw [inBits_row R s n b hb]
    by_cases hr : s ≤ b ∧ b < s + n
    · have h1 := hnew b hb; rw [if_pos hr] at h1
      have h2 := hset b hb hr.1 hr.2
      rw [h1, h2] at hsame; cases hsame
    · have : (decide (s ≤ b) && decide (b < s + n)) = false := by
        by_cases a : s ≤ b <;> by_cases c : b < s + n <;> simp [a, c] <;> exact hr ⟨a, c⟩
      rw [this]; simp
  claim := by
    intro b hb hold hnw
    have h1 := hnew b hb
    by_cases hr : s ≤ b ∧ b < s + n
    · rw [if_pos hr] at h1; rw [h1] at hnw; cases hnw
    · rw [if_neg hr] at h1; rw [h1, hold] at hnw; cases hnw
  release := by
    intro b hb hold hnw
    have h1 := hnew b hb
    by_cases hr : s ≤ b ∧ b < s + n
    · refine ⟨hown b hb hr.1 hr.2, ?_⟩
      unfold subBits
      rw [inBits_row R s n b hb]
      simp [hr.1, hr.2]
    · rw [if_neg hr] at h1; rw [h1, hold] at hnw; cases hnw

/-- result of a toggle attempt in ownership terms -/
def ToggleAllocPost (own : Owned) (R s n : Nat) : Res Unit → Owned → Prop
  | .ok _, own' => own' = addBits own R s n ∧ ∀ b, b < 64 → s ≤ b → b < s + n → own (R * 64 + b) = false
  | .error e, own' => e = .memory ∧ own' = own

def ToggleFreePost (own : Owned) (R s n : Nat) : Res Unit → Owned → Prop
  | .ok _, own' => own' = subBits own R s n
  | .error _, _ => False

section
variable (g : Geom) (G : Owned → Prop)

/-- the single-word update of `toggle` for orders 0..2: allocation -/
theorem toggle_small_alloc_safe (own : Owned) (R s n : Nat) (hn : s + n ≤ 64) (hn64 : n ≤ 64) (hG : G (addBits own R s n)) :
    SafeR G (ToggleAllocPost own R s n) own (do
      let r ← tryUpdate .row R (fun (e : BitVec 64) =>
        if false then (if e &&& bitMask n s = bitMask n s then some (e &&& ~~~bitMask n s) else none)
        else (if e &&& bitMask n s = 0 then some (e ||| bitMask n s) else none))
      match r with
      | .ok _ => return .ok ()
      | .error _ => return .error .memory : Prog (Res Unit)) := by
  show SafeR G _ own (Prog.upd .row R _ _)
  intro cur hkn
  simp only [Bool.false_eq_true, if_false]
  by_cases hz : cur &&& bitMask n s = 0
  · simp only [hz, if_true, Upd.ofOption]
    have hfree := (and_mask_eq_zero_iff cur (bitMask n s)).1 hz
    have hnone : ∀ b, b < 64 → s ≤ b → b < s + n → own (R * 64 + b) = false := by
      intro b hb h1 h2
      cases ho : own (R * 64 + b) with
      | false => rfl
      | true =>
        have h3 := hkn b hb ho
        have h4 := hfree b (by rw [bitMask_getLsbD n s b hn64]; simp [h1, h2, hb])
        rw [h3] at h4; cases h4
    refine ⟨addBits own R s n, ?_, hG, rfl, hnone⟩
    apply Trans.claim_range own R s n cur _
    · intro b hb
      rw [getLsbD_or', bitMask_getLsbD n s b hn64]
      by_cases hr : s ≤ b ∧ b < s + n
      · simp [hr.1, hr.2, hb]
      · have : (decide (s ≤ b) && decide (b < s + n) && decide (b < 64)) = false := by
          by_cases a : s ≤ b <;> by_cases c : b < s + n <;> simp [a, c] <;> exact (hr ⟨a, c⟩).elim
        rw [this, if_neg hr]; simp
    · intro b hb h1 h2
      apply hfree b
      rw [bitMask_getLsbD n s b hn64]; simp [h1, h2, hb]
  · simp only [hz, if_false, Upd.ofOption]
    exact ⟨rfl, rfl⟩

/-- … and free of bits the thread holds: cannot fail -/
theorem toggle_small_free_safe (own : Owned) (R s n : Nat) (hn : s + n ≤ 64) (hn64 : n ≤ 64)
    (hown : ∀ b, b < 64 → s ≤ b → b < s + n → own (R * 64 + b) = true) (hG : G (subBits own R s n)) :
    SafeR G (ToggleFreePost own R s n) own (do
      let r ← tryUpdate .row R (fun (e : BitVec 64) =>
        if true then (if e &&& bitMask n s = bitMask n s then some (e &&& ~~~bitMask n s) else none)
        else (if e &&& bitMask n s = 0 then some (e ||| bitMask n s) else none))
      match r with
      | .ok _ => return .ok ()
      | .error _ => return .error .memory : Prog (Res Unit)) := by
  show SafeR G _ own (Prog.upd .row R _ _)
  intro cur hk
  simp only [if_true]
  have hset : ∀ b, b < 64 → s ≤ b → b < s + n → cur.getLsbD b = true := fun b hb h1 h2 => hk b hb (hown b hb h1 h2)
  have hall : cur &&& bitMask n s = bitMask n s := by
    apply (and_mask_eq_mask_iff cur (bitMask n s)).2
    intro b hb
    rw [bitMask_getLsbD n s b hn64] at hb
    simp only [Bool.and_eq_true, decide_eq_true_eq] at hb
    exact hset b hb.2 hb.1.1 hb.1.2
  simp only [hall, if_true, Upd.ofOption]
  refine ⟨subBits own R s n, ?_, hG, rfl⟩
  apply Trans.release_range own R s n cur _ _ hown hset
  intro b hb
  rw [getLsbD_and_not, bitMask_getLsbD n s b hn64]
  by_cases hr : s ≤ b ∧ b < s + n
  · simp [hr.1, hr.2, hb]
  · have : (decide (s ≤ b) && decide (b < s + n) && decide (b < 64)) = false := by
      by_cases a : s ≤ b <;> by_cases c : b < s + n <;> simp [a, c] <;> exact (hr ⟨a, c⟩).elim
    rw [this, if_neg hr]; simp

/-- the narrow compare-exchange of `toggle_int` (orders 3..6): allocation -/
theorem toggle_int_alloc_safe (own : Owned) (R sh w : Nat) (hw : w ≤ 64) (hsh : sh + w ≤ 64) (hG : G (addBits own R sh w)) :
    SafeR G (ToggleAllocPost own R sh w) own (do
      let ok ← casPartK R sh w (0 : BitVec 64) (~~~(0 : BitVec 64))
      return if ok then .ok () else .error .memory : Prog (Res Unit)) := by
  show SafeR G _ own (Prog.casPart R sh w _ _ _)
  intro cur hkn
  refine ⟨fun r hr => ?_, fun _ => ⟨rfl, rfl⟩⟩
  obtain ⟨h1, h2⟩ := casPartVal_some cur sh w _ _ r hw hr
  have hnone : ∀ b, b < 64 → sh ≤ b → b < sh + w → own (R * 64 + b) = false := by
    intro b hb hb1 hb2
    cases ho : own (R * 64 + b) with
    | false => rfl
    | true =>
      have h3 := hkn b hb ho
      have h4 := h1 (b - sh) (by omega)
      rw [show sh + (b - sh) = b by omega, h3] at h4
      simp at h4
  refine ⟨addBits own R sh w, ?_, hG, rfl, hnone⟩
  apply Trans.claim_range own R sh w cur r
  · intro b hb
    rw [h2 b]
    by_cases hr : sh ≤ b ∧ b < sh + w
    · have : sh ≤ b ∧ b < sh + w ∧ b < 64 := ⟨hr.1, hr.2, hb⟩
      rw [if_pos this, if_pos hr]
      have hlt : b - sh < 64 := by omega
      rw [BitVec.getLsbD_not]
      simp [hlt]
    · have : ¬ (sh ≤ b ∧ b < sh + w ∧ b < 64) := fun x => hr ⟨x.1, x.2.1⟩
      rw [if_neg this, if_neg hr]
  · intro b hb hb1 hb2
    have := h1 (b - sh) (by omega)
    rw [show sh + (b - sh) = b by omega] at this
    rw [this]; simp

/-- … and free of bits the thread holds -/
theorem toggle_int_free_safe (own : Owned) (R sh w : Nat) (hw : w ≤ 64) (hsh : sh + w ≤ 64)
    (hown : ∀ b, b < 64 → sh ≤ b → b < sh + w → own (R * 64 + b) = true) (hG : G (subBits own R sh w)) :
    SafeR G (ToggleFreePost own R sh w) own (do
      let ok ← casPartK R sh w (lowMask w) (~~~(lowMask w))
      return if ok then .ok () else .error .memory : Prog (Res Unit)) := by
  show SafeR G _ own (Prog.casPart R sh w _ _ _)
  intro cur hk
  have hset : ∀ b, b < 64 → sh ≤ b → b < sh + w → cur.getLsbD b = true := fun b hb h1 h2 => hk b hb (hown b hb h1 h2)
  refine ⟨fun r hr => ?_, fun hn => ?_⟩
  · obtain ⟨_, h2⟩ := casPartVal_some cur sh w _ _ r hw hr
    refine ⟨subBits own R sh w, ?_, hG, rfl⟩
    apply Trans.release_range own R sh w cur r _ hown hset
    intro b hb
    rw [h2 b]
    by_cases hr : sh ≤ b ∧ b < sh + w
    · have : sh ≤ b ∧ b < sh + w ∧ b < 64 := ⟨hr.1, hr.2, hb⟩
      rw [if_pos this, if_pos hr, BitVec.getLsbD_not]
      have : (lowMask w).getLsbD (b - sh) = true := by
        unfold lowMask; rw [getLsbD_lowMask w _ hw]; simp; omega
      simp [this]
    · have : ¬ (sh ≤ b ∧ b < sh + w ∧ b < 64) := fun x => hr ⟨x.1, x.2.1⟩
      rw [if_neg this, if_neg hr]
  · exfalso
    apply casPartVal_none cur sh w _ _ hw hsh hn
    intro i hi
    rw [hset (sh + i) (by omega) (by omega) (by omega)]
    unfold lowMask; rw [getLsbD_lowMask w _ hw]; simp [hi]

/-! ### whole rows (orders above 6) -/

/-- rows `R0 .. R0+k` entirely -/
def inRows (R0 k : Nat) (f : Nat) : Bool := decide (R0 ≤ f / 64) && decide (f / 64 < R0 + k)
def addRows (own : Owned) (R0 k : Nat) : Owned := fun f => own f || inRows R0 k f
def subRows (own : Owned) (R0 k : Nat) : Owned := fun f => own f && !inRows R0 k f

theorem allOnes_of_bits (v : BitVec 64) (h : ∀ b, b < 64 → v.getLsbD b = true) : v = rowMax := by
  apply BitVec.eq_of_getLsbD_eq
  intro b hb
  rw [h b hb, rowMax_getLsbD]; simp [hb]

theorem zero_bits (b : Nat) : (0 : BitVec 64).getLsbD b = false := by simp

/-- claiming the all-zero row `R0 + k` after rows `R0 .. R0+k` -/
theorem Trans.claim_row (own : Owned) (R0 k : Nat) :
    Trans (addRows own R0 k) (addRows own R0 (k + 1)) (R0 + k) (0 : BitVec 64) rowMax where
  other := by
    intro f hf
    unfold addRows inRows
    by_cases a : R0 ≤ f / 64 <;> by_cases b : f / 64 < R0 + k <;> simp [a, b] <;> omega
  keep := by intro b hb h; rw [zero_bits, rowMax_getLsbD] at h; simp [hb] at h
  claim := by
    intro b hb _ _
    unfold addRows inRows
    have e1 : ((R0 + k) * 64 + b) / 64 = R0 + k := by omega
    simp [e1]
  release := by intro b hb h; rw [zero_bits] at h; cases h

/-- releasing row `R0 + k` again (roll-back) -/
theorem Trans.unclaim_row (own : Owned) (R0 k : Nat) (hdis : ∀ b, b < 64 → own ((R0 + k) * 64 + b) = false) :
    Trans (addRows own R0 (k + 1)) (addRows own R0 k) (R0 + k) rowMax (0 : BitVec 64) where
  other := by
    intro f hf
    unfold addRows inRows
    by_cases a : R0 ≤ f / 64 <;> by_cases b : f / 64 < R0 + k <;> simp [a, b] <;> omega
  keep := by intro b hb h; rw [zero_bits, rowMax_getLsbD] at h; simp [hb] at h
  claim := by intro b hb h; rw [rowMax_getLsbD] at h; simp [hb] at h
  release := by
    intro b hb _ _
    unfold addRows inRows
    have e1 : ((R0 + k) * 64 + b) / 64 = R0 + k := by omega
    refine ⟨by simp [e1], ?_⟩
    rw [hdis b hb]; simp [e1]

/-- releasing the (held) row `R0 + k` after rows `R0 .. R0+k` were released -/
theorem Trans.free_row (own : Owned) (R0 k : Nat) (hown : ∀ b, b < 64 → own ((R0 + k) * 64 + b) = true) :
    Trans (subRows own R0 k) (subRows own R0 (k + 1)) (R0 + k) rowMax (0 : BitVec 64) where
  other := by
    intro f hf
    unfold subRows inRows
    by_cases a : R0 ≤ f / 64 <;> by_cases b : f / 64 < R0 + k <;> simp [a, b] <;> omega
  keep := by intro b hb h; rw [zero_bits, rowMax_getLsbD] at h; simp [hb] at h
  claim := by intro b hb h; rw [rowMax_getLsbD] at h; simp [hb] at h
  release := by
    intro b hb _ _
    unfold subRows inRows
    have e1 : ((R0 + k) * 64 + b) / 64 = R0 + k := by omega
    refine ⟨?_, by simp [e1]⟩
    rw [hown b hb]; simp [e1]

theorem known_all (own : Owned) (R : Nat) (cur : BitVec 64) (hk : Known own R cur)
    (hown : ∀ b, b < 64 → own (R * 64 + b) = true) : cur = rowMax :=
  allOnes_of_bits cur (fun b hb => hk b hb (hown b hb))

theorem none_owned_of_zero (own : Owned) (R : Nat) (hk : Known own R (0 : BitVec 64)) (b : Nat) (hb : b < 64) :
    own (R * 64 + b) = false := by
  cases h : own (R * 64 + b) with
  | false => rfl
  | true => have := hk b hb h; rw [zero_bits] at this; cases this

end

theorem not_zero_eq : ~~~(0 : BitVec 64) = rowMax := by decide
theorem not_rowMax_eq : ~~~rowMax = (0 : BitVec 64) := by decide

theorem addRows_zero (own : Owned) (R0 : Nat) : addRows own R0 0 = own := by
  funext f; unfold addRows inRows
  by_cases a : R0 ≤ f / 64 <;> simp [a]
  omega

def AllocRowsPost (own0 : Owned) (R0 K : Nat) : Res Unit → Owned → Prop
  | .ok _, own' => own' = addRows own0 R0 K ∧ ∀ x, x < K → ∀ b, b < 64 → own0 ((R0 + x) * 64 + b) = false
  | .error e, own' => e = .memory ∧ own' = own0

def FreeRowsPost (own0 : Owned) (R0 K : Nat) : Res Unit → Owned → Prop
  | .ok _, own' => own' = subRows own0 R0 K
  | .error _, _ => False

section
variable (g : Geom) (G : Owned → Prop)

/-- the roll-back of a multi-row allocation never panics and returns exactly what was claimed -/
theorem toggle_undo_alloc_safe (own0 : Owned) (h di : Nat) (k : Nat) (hfit : di + k ≤ g.rows)
    (hdis : ∀ x, x < k → ∀ b, b < 64 → own0 ((h * g.rows + di + x) * 64 + b) = false)
    (hG : ∀ j, j ≤ k → G (addRows own0 (h * g.rows + di) j)) :
    SafeR G (fun (_ : Unit) o => o = own0) (addRows own0 (h * g.rows + di) k) (Bitfield.toggle.undo g h (0 : BitVec 64) k (di + k)) := by
  induction k with
  | zero =>
    unfold Bitfield.toggle.undo
    show addRows own0 _ 0 = own0
    exact addRows_zero own0 _
  | succ k ih =>
    unfold Bitfield.toggle.undo
    have hidx : rowIdx g h ((di + (k + 1) - 1) % g.rows) = h * g.rows + di + k := by
      simp only [rowIdx]
      rw [show di + (k + 1) - 1 = di + k by omega, Nat.mod_eq_of_lt (by omega)]; omega
    rw [hidx, not_zero_eq]
    show SafeR G _ _ (Prog.cas .row _ _ _ _)
    intro cur hk
    have hcur : cur = rowMax := by
      apply known_all _ _ cur hk
      intro b hb
      unfold addRows inRows
      have e1 : ((h * g.rows + di + k) * 64 + b) / 64 = h * g.rows + di + k := by omega
      simp [e1]
    refine ⟨fun _ => ?_, fun hne => absurd hcur hne⟩
    refine ⟨addRows own0 (h * g.rows + di) k, Trans.unclaim_row own0 _ k (hdis k (by omega)), hG k (by omega), ?_⟩
    simp only
    rw [show di + (k + 1) - 1 = di + k by omega]
    exact ih (by omega) (fun x hx => hdis x (by omega)) (fun j hj => hG j (by omega))

/-- the row loop of a multi-row allocation -/
theorem toggle_go_alloc_safe (own0 : Owned) (h di K : Nat) (hfit : di + K ≤ g.rows) (cnt k : Nat) (hk : k + cnt = K)
    (hdis : ∀ x, x < k → ∀ b, b < 64 → own0 ((h * g.rows + di + x) * 64 + b) = false)
    (hG : ∀ j, j ≤ K → G (addRows own0 (h * g.rows + di) j)) :
    SafeR G (AllocRowsPost own0 (h * g.rows + di) K) (addRows own0 (h * g.rows + di) k)
      (Bitfield.toggle.go g h di (0 : BitVec 64) cnt (di + k)) := by
  induction cnt generalizing k with
  | zero =>
    unfold Bitfield.toggle.go
    have hkK : k = K := by omega
    subst hkK
    exact ⟨rfl, hdis⟩
  | succ cnt ih =>
    unfold Bitfield.toggle.go
    have hidx : rowIdx g h ((di + k) % g.rows) = h * g.rows + di + k := by
      simp only [rowIdx]; rw [Nat.mod_eq_of_lt (by omega)]; omega
    rw [hidx, not_zero_eq]
    show SafeR G _ _ (Prog.cas .row _ _ _ _)
    intro cur hkn
    refine ⟨fun he => ?_, fun _ => ?_⟩
    · subst he
      have hnone : ∀ b, b < 64 → own0 ((h * g.rows + di + k) * 64 + b) = false := by
        intro b hb
        have := none_owned_of_zero _ _ hkn b hb
        unfold addRows at this
        cases ho : own0 ((h * g.rows + di + k) * 64 + b) with
        | false => rfl
        | true => rw [ho] at this; simp at this
      refine ⟨addRows own0 (h * g.rows + di) (k + 1), Trans.claim_row own0 _ k, hG (k + 1) (by omega), ?_⟩
      simp only
      rw [show di + k + 1 = di + (k + 1) by omega]
      apply ih (k + 1) (by omega)
      intro x hx b hb
      by_cases e : x = k
      · subst e; exact hnone b hb
      · exact hdis x (by omega) b hb
    · simp only
      rw [show di + k - di = k by omega]
      apply SafeR.bind _ _ _ (toggle_undo_alloc_safe g G own0 h di k (by omega) hdis (fun j hj => hG j (by omega)))
      rintro _ o rfl
      exact ⟨rfl, rfl⟩

/-- the row loop of a multi-row free of rows the thread holds: always succeeds -/
theorem toggle_go_free_safe (own0 : Owned) (h di K : Nat) (hfit : di + K ≤ g.rows)
    (hown : ∀ x, x < K → ∀ b, b < 64 → own0 ((h * g.rows + di + x) * 64 + b) = true) (cnt k : Nat) (hk : k + cnt = K)
    (hG : ∀ j, j ≤ K → G (subRows own0 (h * g.rows + di) j)) :
    SafeR G (FreeRowsPost own0 (h * g.rows + di) K) (subRows own0 (h * g.rows + di) k)
      (Bitfield.toggle.go g h di rowMax cnt (di + k)) := by
  induction cnt generalizing k with
  | zero =>
    unfold Bitfield.toggle.go
    show subRows own0 _ k = subRows own0 _ K
    rw [show k = K by omega]
  | succ cnt ih =>
    unfold Bitfield.toggle.go
    have hidx : rowIdx g h ((di + k) % g.rows) = h * g.rows + di + k := by
      simp only [rowIdx]; rw [Nat.mod_eq_of_lt (by omega)]; omega
    rw [hidx, not_rowMax_eq]
    show SafeR G _ _ (Prog.cas .row _ _ _ _)
    intro cur hkn
    have hcur : cur = rowMax := by
      apply known_all _ _ cur hkn
      intro b hb
      unfold subRows inRows
      have e1 : ((h * g.rows + di + k) * 64 + b) / 64 = h * g.rows + di + k := by omega
      rw [hown k (by omega) b hb]
      simp [e1]
    refine ⟨fun _ => ?_, fun hne => absurd hcur hne⟩
    refine ⟨subRows own0 (h * g.rows + di) (k + 1), Trans.free_row own0 _ k (hown k (by omega)), hG (k + 1) (by omega), ?_⟩
    simp only
    rw [show di + k + 1 = di + (k + 1) by omega]
    exact ih (k + 1) (by omega)

end
end LLFree
