/-
  Exact accounting (`UpperInv.counter`: tree counter + reservations + hidden frames = free frames,
  with the *same* hidden amounts before and after an allocation) has a consequence that needs
  no walk through the allocation paths: **the frames an allocation returns were in the counters of
  their tree** — tree counter plus local reservations on that tree covered the block before the
  call. In particular a tree whose counter is 0 and that is not reserved (an offline tree) is
  never allocated from, by any path of `get`, in any state of any sequential history.
-/
import LLFreeV.Proofs.UpperGet6
namespace LLFree
open Prog

section
variable {c : Cfg} {H : Nat → Nat} {m : Mem}

/-- allocating a block lowers the free count of its tree by the block size and leaves the others -/
theorem freeInTree_alloc (ok : GeomOk c.geom) (m m' : Mem) (f order : Nat) (hto : order ≤ c.geom.treeOrder)
    (hal : f % 2 ^ order = 0) (hfree : GetAllowed c m f order)
    (halloc : ∀ x, m'.allocated c.geom x = (m.allocated c.geom x || inBlock f order x)) (i : Nat) :
    m.freeInTree c.geom i = m'.freeInTree c.geom i + (if i = f / c.geom.treeFrames then 2 ^ order else 0) := by
  obtain ⟨hlo, hhi⟩ := block_in_tree ok f order hto hal
  unfold Mem.freeInTree
  by_cases hi : i = f / c.geom.treeFrames
  · simp only [hi, if_true]
    apply countP_range_raise c.geom.treeFrames (f - f / c.geom.treeFrames * c.geom.treeFrames) (2 ^ order)
    · omega
    · intro k h1 h2
      have e : f / c.geom.treeFrames * c.geom.treeFrames + k = f + (k - (f - f / c.geom.treeFrames * c.geom.treeFrames)) := by omega
      rw [halloc, e]
      have hin : inBlock f order (f + (k - (f - f / c.geom.treeFrames * c.geom.treeFrames))) = true := by
        simp only [inBlock, Bool.and_eq_true, decide_eq_true_eq]; omega
      rw [hin, hfree _ (by omega)]
      simp
    · intro k hk hnot
      rw [halloc]
      have hout : inBlock f order (f / c.geom.treeFrames * c.geom.treeFrames + k) = false := by
        simp only [inBlock, Bool.and_eq_false_iff, decide_eq_false_iff_not]
        by_cases h : f ≤ f / c.geom.treeFrames * c.geom.treeFrames + k
        · right; omega
        · left; exact h
      rw [hout]; simp
  · simp only [hi, if_false, Nat.add_zero]
    apply countP_range_eq_of_eq
    intro k hk
    rw [halloc]
    have hout : inBlock f order (i * c.geom.treeFrames + k) = false := by
      simp only [inBlock, Bool.and_eq_false_iff, decide_eq_false_iff_not]
      rcases Nat.lt_or_gt_of_ne hi with h | h
      · left
        have : (i + 1) * c.geom.treeFrames ≤ f / c.geom.treeFrames * c.geom.treeFrames := Nat.mul_le_mul_right _ h
        rw [Nat.add_mul, Nat.one_mul] at this
        omega
      · right
        have : (f / c.geom.treeFrames + 1) * c.geom.treeFrames ≤ i * c.geom.treeFrames := Nat.mul_le_mul_right _ h
        rw [Nat.add_mul, Nat.one_mul] at this
        omega
    rw [hout]; simp

/-- **Every allocation is paid for by the counters of its tree.** -/
theorem get_pays (ok : CfgOk c) (inv : UpperInv0 c H m) (frame : Option Nat) (r : Request) (hcls : r.cls < 8)
    (hloc : r.locOk c) (hv : C08.ArgsValid c (frame.getD 0) r) :
    Runs m (get c frame r) (fun res m' => UpperInv0 c H m' ∧ GetOutcome c m r.order frame res m' ∧
      ∀ f k, res = .ok (f, k) → ∀ t : Tree, m.trees[f / c.geom.treeFrames]? = some t →
        2 ^ r.order ≤ t.free + m.slotFree c.geom.treeRows (f / c.geom.treeFrames)) := by
  have okg := ok.geom.toGeomOk
  apply Runs.mono (upper_get_spec ok inv frame r hcls hloc hv)
  rintro res m' ⟨inv', out⟩
  refine ⟨inv', out, ?_⟩
  rintro f k rfl t ht
  obtain ⟨_, hal, hallowed, _, heff⟩ := out
  have hi := inv.tree_lt _ t ht
  obtain ⟨t', ht'⟩ := inv'.tree_get _ hi
  have h1 := inv.counter _ t ht
  have h2 := inv'.counter _ t' ht'
  have h3 := freeInTree_alloc okg m m' f r.order hv.1 hal hallowed heff.1 (f / c.geom.treeFrames)
  rw [if_pos rfl] at h3
  omega

/-- **C15, every history.** A tree whose counter is 0 and that is not reserved — in particular a
    tree taken offline and not brought online again — is never allocated from: no `get`, with or
    without a target, through any slot, on any path, returns one of its frames. -/
theorem offline_never_allocated (ok : CfgOk c) (inv : UpperInv0 c H m) (frame : Option Nat) (r : Request) (hcls : r.cls < 8)
    (hloc : r.locOk c) (hv : C08.ArgsValid c (frame.getD 0) r) (i : Nat) (t : Tree) (ht : m.trees[i]? = some t)
    (hfree : t.free = 0) (hres : t.reserved = false) :
    Runs m (get c frame r) (fun res m' => UpperInv0 c H m' ∧ GetOutcome c m r.order frame res m' ∧
      ∀ f k, res = .ok (f, k) → f / c.geom.treeFrames ≠ i) := by
  apply Runs.mono (get_pays ok inv frame r hcls hloc hv)
  rintro res m' ⟨inv', out, hpay⟩
  refine ⟨inv', out, ?_⟩
  intro f k hres' e
  have := hpay f k hres' t (by rw [e]; exact ht)
  rw [e, inv.slotFree_unreserved i t ht hres, hfree] at this
  have hpos : 0 < 2 ^ r.order := Nat.pos_of_ne_zero (by simp)
  omega

end
end LLFree
