/-
  `Lower::recover`: from any persistent state satisfying the weak invariant that holds at every
  instant (`CrashInv`: sizes, nothing free outside the managed range, whole-huge markers only
  inside it), recovery re-establishes the full lower invariant; the bits of every huge frame
  that is not marked whole are kept, a marked one stays entirely allocated.
-/
import LLFreeV.Proofs.LowerStats
import LLFreeV.Proofs.LowerInit2
namespace LLFree
open Prog

theorem cpopNatRec_eq_countP (v : BitVec 64) (n : Nat) :
    v.cpopNatRec n 0 = (List.range n).countP (fun i => v.getLsbD i) := by
  induction n with
  | zero => simp
  | succ n ih =>
    rw [BitVec.cpopNatRec_succ, BitVec.cpopNatRec_eq, ih, List.range_succ, List.countP_append]
    simp only [Nat.zero_add, List.countP_cons, List.countP_nil]
    cases v.getLsbD n <;> simp

theorem countP_add_countP_not (l : List Nat) (p : Nat → Bool) :
    l.countP p + l.countP (fun i => !p i) = l.length := by
  induction l with
  | nil => rfl
  | cons a l ih =>
    simp only [List.countP_cons, List.length_cons]
    cases p a <;> simp <;> omega

/-- `u64::count_zeros` -/
theorem row_zeros (v : BitVec 64) : 64 - (BitVec.cpop v).toNat = (List.range 64).countP (fun i => !v.getLsbD i) := by
  have h1 : (BitVec.cpop v).toNat = (List.range 64).countP (fun i => v.getLsbD i) := by
    unfold BitVec.cpop
    rw [BitVec.toNat_ofNat, cpopNatRec_eq_countP]
    apply Nat.mod_eq_of_lt
    have := List.countP_le_length (p := fun i => v.getLsbD i) (l := List.range 64)
    simp at this
    omega
  have h2 := countP_add_countP_not (List.range 64) (fun i => v.getLsbD i)
  simp only [List.length_range] at h2
  omega

section
variable {g : Geom}

/-- the zero bits of bitfield `h`, row by row -/
theorem zerosIn_rows (okg : GeomOk g) (m : Mem) (h : Nat) :
    zerosIn g m h = blockSum (fun r => (List.range 64).countP (fun k => !m.bit (h * g.hugeFrames + (r * 64 + k)))) g.rows := by
  unfold zerosIn
  have : g.hugeFrames = g.rows * 64 := okg.rows_mul.symm
  rw [this, countP_range_mul]

theorem countZeros_go_spec (okg : GeomOk g) (m : Mem) (h : Nat) (hh : (h + 1) * g.rows ≤ m.rows.size)
    (cnt r acc : Nat) (hr : r + cnt ≤ g.rows) :
    Runs m (Bitfield.countZeros.go g h cnt r acc) (fun z m' => m = m' ∧
      z = acc + blockSum (fun x => (List.range 64).countP (fun k => !m.bit (h * g.hugeFrames + ((r + x) * 64 + k)))) cnt) := by
  induction cnt generalizing r acc with
  | zero =>
    unfold Bitfield.countZeros.go
    exact Runs.pure ⟨rfl, by simp [blockSum]⟩
  | succ cnt ih =>
    unfold Bitfield.countZeros.go
    have hidx : h * g.rows + r < m.rows.size := by rw [Nat.add_mul, Nat.one_mul] at hh; omega
    have hget : m.get? .row (rowIdx g h r) = some (m.rows[h * g.rows + r]) := by
      simp only [Mem.get?_row, rowIdx]; exact Array.getElem?_eq_getElem hidx
    apply Runs.bind (Runs.load (k := .row) (Q := fun v m' => v = m.rows[h * g.rows + r] ∧ m = m') hget ⟨rfl, rfl⟩)
    rintro _ _ ⟨rfl, rfl⟩
    apply Runs.mono (ih (r + 1) _ (by omega))
    rintro z _ ⟨rfl, hz⟩
    refine ⟨rfl, ?_⟩
    rw [hz, blockSum_front, row_zeros]
    simp only [Nat.add_zero]
    have e1 : (List.range 64).countP (fun i => !(m.rows[h * g.rows + r]).getLsbD i) =
        (List.range 64).countP (fun k => !m.bit (h * g.hugeFrames + (r * 64 + k))) := by
      apply countP_range_eq_of_eq
      intro k hk
      unfold Mem.bit
      have hrow : (h * g.hugeFrames + (r * 64 + k)) / 64 = h * g.rows + r := by
        rw [okg.frame_row]
        congr 1
        rw [Nat.mul_comm, Nat.mul_add_div (by decide), Nat.div_eq_of_lt hk, Nat.add_zero]
      have hbit : (h * g.hugeFrames + (r * 64 + k)) % 64 = k := by
        rw [okg.frame_bit]
        rw [Nat.mul_comm, Nat.mul_add_mod, Nat.mod_eq_of_lt hk]
      rw [hrow, hbit, Array.getElem?_eq_getElem hidx]
    have e2 : (fun x => (List.range 64).countP (fun k => !m.bit (h * g.hugeFrames + ((r + 1 + x) * 64 + k)))) =
        (fun x => (List.range 64).countP (fun k => !m.bit (h * g.hugeFrames + ((r + (x + 1)) * 64 + k)))) := by
      funext x; rw [show r + 1 + x = r + (x + 1) by omega]
    rw [e1, e2]; omega

/-- **`Bitfield::count_zeros`** is the number of zero bits of the bitfield -/
theorem countZeros_spec (okg : GeomOk g) (m : Mem) (h : Nat) (hh : (h + 1) * g.rows ≤ m.rows.size) :
    Runs m (Bitfield.countZeros g h) (fun z m' => m = m' ∧ z = zerosIn g m h) := by
  unfold Bitfield.countZeros
  apply Runs.mono (countZeros_go_spec okg m h hh g.rows 0 0 (by omega))
  rintro z _ ⟨rfl, hz⟩
  refine ⟨rfl, ?_⟩
  rw [hz, zerosIn_rows okg, Nat.zero_add]
  apply blockSum_congr
  intro x _
  rw [Nat.zero_add]

end

section
variable {c : Cfg}

/-- what holds of the persistent metadata at every instant -/
structure CrashInv (c : Cfg) (m : Mem) : Prop where
  rowsSize : m.rows.size = c.nhuge * c.geom.rows
  hugeSize : m.huge.size = c.ntrees * c.geom.treeHuge
  beyond : ∀ h, c.nhuge ≤ h → m.hugeE h = 0
  markerIn : ∀ h, h < c.nhuge → Huge.isHuge (m.hugeE h) = true → (h + 1) * c.geom.hugeFrames ≤ c.frames
  outside : ∀ f, c.frames ≤ f → m.bit f = true

theorem LowerInv.crashInv {m : Mem} (inv : LowerInv c m) : CrashInv c m :=
  ⟨inv.rowsSize, inv.hugeSize, inv.beyond, fun h hh hm => (inv.marker h hh hm).1, inv.outside⟩

/-- entry `h` agrees with its bitfield -/
def EntryOk (g : Geom) (m : Mem) (h : Nat) : Prop :=
  (Huge.isHuge (m.hugeE h) = true → ∀ i, i < g.hugeFrames → m.bit (h * g.hugeFrames + i) = false) ∧
  (Huge.isHuge (m.hugeE h) = false → m.hugeE h = zerosIn g m h)

/-- state of the recovery loop after the entries below `n` -/
structure RecState (c : Cfg) (m0 m : Mem) (n : Nat) : Prop where
  crash : CrashInv c m
  done : ∀ h, h < n → h < c.nhuge → EntryOk c.geom m h
  same : ∀ h, Huge.isHuge (m.hugeE h) = Huge.isHuge (m0.hugeE h)
  bits : ∀ f, Huge.isHuge (m0.hugeE (f / c.geom.hugeFrames)) = false → m.bit f = m0.bit f
  trees : m.trees = m0.trees
  slots : m.slots = m0.slots

theorem zerosIn_congr (g : Geom) (m m' : Mem) (h : Nat) (hb : ∀ i, i < g.hugeFrames → m'.bit (h * g.hugeFrames + i) = m.bit (h * g.hugeFrames + i)) :
    zerosIn g m' h = zerosIn g m h := by
  unfold zerosIn
  apply countP_range_eq_of_eq
  intro i hi; rw [hb i hi]

/-- one entry of `recover` -/
theorem recover_entry_spec (ok : GeomOk16 c.geom) (m0 m : Mem) (t j : Nat) (hj : j < c.geom.treeHuge) (ht : t < c.ntrees)
    (hh : t * c.geom.treeHuge + j < c.nhuge) (st : RecState c m0 m (t * c.geom.treeHuge + j)) :
    Runs m (do
        let entry ← loadK .huge (hugeIdx c.geom t j)
        let zeros ← Bitfield.countZeros c.geom (t * c.geom.treeHuge + j)
        match recoverAct c.geom.hugeFrames entry zeros with
        | .nothing => pure ()
        | .clearBitfield => Bitfield.fill c.geom (t * c.geom.treeHuge + j) false
        | .setCounter v => storeK .huge (hugeIdx c.geom t j) v)
      (fun _ m' => RecState c m0 m' (t * c.geom.treeHuge + j + 1)) := by
  have okg := ok.toGeomOk
  have hHF := okg.hf_pos
  have h16 := ok.hf_lt
  generalize hH : t * c.geom.treeHuge + j = h at *
  have hsz : h < m.huge.size := by
    rw [st.crash.hugeSize]
    have : (t + 1) * c.geom.treeHuge ≤ c.ntrees * c.geom.treeHuge := Nat.mul_le_mul_right _ ht
    rw [Nat.add_mul, Nat.one_mul] at this; omega
  have hrows : (h + 1) * c.geom.rows ≤ m.rows.size := by
    rw [st.crash.rowsSize]; exact Nat.mul_le_mul_right _ hh
  have hget : m.get? .huge (hugeIdx c.geom t j) = some (m.hugeE h) := by
    simp only [Mem.get?_huge, hugeIdx, hH]; unfold Mem.hugeE
    rw [Array.getElem?_eq_getElem hsz]; rfl
  apply Runs.bind (Runs.load (k := .huge) (Q := fun v m' => v = m.hugeE h ∧ m = m') hget ⟨rfl, rfl⟩)
  rintro _ _ ⟨rfl, rfl⟩
  apply Runs.bind (countZeros_spec okg m h hrows)
  rintro _ _ ⟨rfl, rfl⟩
  have hz := zerosIn_le (g := c.geom) m h
  -- the entries below stay ok when only entry/bitfield `h` changes
  have keep : ∀ m' : Mem, (∀ h', h' ≠ h → m'.hugeE h' = m.hugeE h') →
      (∀ f, f / c.geom.hugeFrames ≠ h → m'.bit f = m.bit f) → ∀ h', h' < h → h' < c.nhuge → EntryOk c.geom m' h' := by
    intro m' he hb h' hlt hn
    have hne : h' ≠ h := by omega
    obtain ⟨d1, d2⟩ := st.done h' hlt hn
    have hbits : ∀ i, i < c.geom.hugeFrames → m'.bit (h' * c.geom.hugeFrames + i) = m.bit (h' * c.geom.hugeFrames + i) :=
      fun i hi => hb _ (by rw [div_hf_mul_add c.geom hHF h' i hi]; exact hne)
    constructor
    · intro hm i hi; rw [he h' hne] at hm; rw [hbits i hi]; exact d1 hm i hi
    · intro hm; rw [he h' hne] at hm ⊢; rw [zerosIn_congr c.geom m m' h' hbits]; exact d2 hm
  cases hact : recoverAct c.geom.hugeFrames (m.hugeE h) (zerosIn c.geom m h) with
  | nothing =>
    apply Runs.pure
    refine ⟨st.crash, ?_, st.same, st.bits, st.trees, st.slots⟩
    intro h' hlt hn
    by_cases e : h' = h
    · subst e
      unfold recoverAct at hact
      by_cases hm : Huge.isHuge (m.hugeE h') = true
      · simp only [hm, if_true] at hact
        have hzf : zerosIn c.geom m h' = c.geom.hugeFrames := by
          by_cases hq : zerosIn c.geom m h' = c.geom.hugeFrames
          · exact hq
          · simp [hq] at hact
        refine ⟨(fun _ => (zerosIn_eq_full_iff m h').1 hzf), (fun h2 => by rw [hm] at h2; cases h2)⟩
      · have hmf : Huge.isHuge (m.hugeE h') = false := by simpa using hm
        simp only [hmf, Bool.false_eq_true, if_false] at hact
        have hq : Huge.free (m.hugeE h') = zerosIn c.geom m h' := by
          by_cases hq : Huge.free (m.hugeE h') = zerosIn c.geom m h'
          · exact hq
          · simp [hq] at hact
        refine ⟨(fun h2 => by rw [hmf] at h2; cases h2), (fun _ => by rw [← hq, Huge.free_of_not_huge _ hmf])⟩
    · exact keep m (fun _ _ => rfl) (fun _ _ => rfl) h' (by omega) hn
  | clearBitfield =>
    have hm : Huge.isHuge (m.hugeE h) = true := by
      unfold recoverAct at hact
      by_cases hm : Huge.isHuge (m.hugeE h) = true
      · exact hm
      · have hmf : Huge.isHuge (m.hugeE h) = false := by simpa using hm
        simp only [hmf, Bool.false_eq_true, if_false] at hact
        split at hact <;> cases hact
    apply Runs.mono (fill_spec okg m h false hrows)
    rintro _ m' ⟨ro, hb⟩
    have hE : ∀ h', m'.hugeE h' = m.hugeE h' := by intro h'; unfold Mem.hugeE; rw [ro.2.1]
    have hin := st.crash.markerIn h hh hm
    refine ⟨⟨by rw [ro.1]; exact st.crash.rowsSize, by rw [ro.2.1]; exact st.crash.hugeSize, ?_, ?_, ?_⟩, ?_, ?_, ?_,
      by rw [ro.2.2.1]; exact st.trees, by rw [ro.2.2.2]; exact st.slots⟩
    · intro h' hn; rw [hE]; exact st.crash.beyond h' hn
    · intro h' hn hm'; rw [hE] at hm'; exact st.crash.markerIn h' hn hm'
    · intro f hf
      rw [hb f]
      have : ¬ f / c.geom.hugeFrames = h := by
        intro e
        have h1 := Nat.div_mul_le_self f c.geom.hugeFrames
        have h2 := Nat.lt_mul_div_succ f hHF
        rw [e] at h2
        rw [Nat.mul_comm, Nat.add_mul, Nat.one_mul] at h2
        rw [Nat.add_mul, Nat.one_mul] at hin
        omega
      rw [if_neg this]; exact st.crash.outside f hf
    · intro h' hlt hn
      by_cases e : h' = h
      · subst e
        refine ⟨(fun _ i hi => ?_), (fun h2 => by rw [hE, hm] at h2; cases h2)⟩
        rw [hb, if_pos (div_hf_mul_add c.geom hHF h' i hi)]
      · exact keep m' (fun h2 _ => hE h2) (fun f hf => by rw [hb f, if_neg hf]) h' (by omega) hn
    · intro h'; rw [hE]; exact st.same h'
    · intro f hf
      rw [hb f]
      have : ¬ f / c.geom.hugeFrames = h := by
        intro e; rw [e, ← st.same h, hm] at hf; cases hf
      rw [if_neg this]; exact st.bits f hf
  | setCounter v =>
    have hdec : Huge.isHuge (m.hugeE h) = false ∧ v = zerosIn c.geom m h := by
      unfold recoverAct at hact
      by_cases hm : Huge.isHuge (m.hugeE h) = true
      · simp only [hm, if_true] at hact
        split at hact <;> cases hact
      · have hmf : Huge.isHuge (m.hugeE h) = false := by simpa using hm
        simp only [hmf, Bool.false_eq_true, if_false] at hact
        split at hact
        · cases hact
          exact ⟨hmf, Nat.mod_eq_of_lt (by omega)⟩
        · cases hact
    obtain ⟨hmf, rfl⟩ := hdec
    apply Runs.bind (Runs.store (k := .huge) (Q := fun _ m' => m.set .huge (hugeIdx c.geom t j) (zerosIn c.geom m h) = m') _ hget rfl)
    rintro _ _ rfl
    apply Runs.pure
    simp only [hugeIdx, hH]
    have hE : ∀ h', (m.set .huge h (zerosIn c.geom m h)).hugeE h' = if h' = h then zerosIn c.geom m h else m.hugeE h' :=
      fun h' => Mem.hugeE_set_huge m h _ hsz h'
    have hnm : Huge.isHuge (zerosIn c.geom m h) = false := by simp [Huge.isHuge, HugeMarker]; omega
    refine ⟨⟨st.crash.rowsSize, by simp only [Mem.set_huge_huge, Array.size_setIfInBounds]; exact st.crash.hugeSize, ?_, ?_, st.crash.outside⟩,
      ?_, ?_, st.bits, st.trees, st.slots⟩
    · intro h' hn; rw [hE]; have : ¬ h' = h := by omega
      rw [if_neg this]; exact st.crash.beyond h' hn
    · intro h' hn hm'
      rw [hE] at hm'
      by_cases e : h' = h
      · rw [if_pos e, hnm] at hm'; cases hm'
      · rw [if_neg e] at hm'; exact st.crash.markerIn h' hn hm'
    · intro h' hlt hn
      by_cases e : h' = h
      · subst e
        refine ⟨(fun h2 => by rw [hE, if_pos rfl, hnm] at h2; cases h2), (fun _ => ?_)⟩
        rw [hE, if_pos rfl]; rfl
      · exact keep (m.set .huge h (zerosIn c.geom m h)) (fun h2 hne => by rw [hE, if_neg hne]) (fun _ _ => rfl) h' (by omega) hn
    · intro h'
      rw [hE]
      by_cases e : h' = h
      · rw [if_pos e, hnm, e, ← st.same h, hmf]
      · rw [if_neg e]; exact st.same h'

theorem Runs.of_runSolo_eq {α : Type} {m : Mem} {p q : Prog α} {Q : α → Mem → Prop} (h : runSolo p m = runSolo q m)
    (hq : Runs m q Q) : Runs m p Q := by
  obtain ⟨m', a, e, x⟩ := hq
  exact ⟨m', a, by rw [h]; exact e, x⟩

/-- the `do` block of one loop iteration with the continuation pushed into the `match` arms
    is the iteration followed by the continuation -/
theorem recover_body_eq (A B : Prog Nat) (f : Nat → Nat → RecoverAct) (C : Prog Unit) (S : Nat → Prog Unit) (k : Prog Unit) (m : Mem) :
    runSolo (A >>= fun e => B >>= fun z => match f e z with
        | .nothing => k
        | .clearBitfield => C >>= fun _ => k
        | .setCounter v => S v >>= fun _ => k) m =
    runSolo ((A >>= fun e => B >>= fun z => match f e z with
        | .nothing => pure ()
        | .clearBitfield => C
        | .setCounter v => S v) >>= fun _ => k) m := by
  simp only [runSolo_bind]
  cases runSolo A m with
  | mk m1 o1 =>
    cases o1 with
    | panic s => rfl
    | ok e =>
      simp only [andThen_ok]
      cases runSolo B m1 with
      | mk m2 o2 =>
        cases o2 with
        | panic s => rfl
        | ok z =>
          simp only [andThen_ok]
          cases f e z with
          | nothing => simp
          | clearBitfield => simp only [runSolo_bind]
          | setCounter v => simp only [runSolo_bind]

theorem RecState.mono_of_beyond {m0 m : Mem} {n n' : Nat} (st : RecState c m0 m n) (h : ∀ x, n ≤ x → x < n' → c.nhuge ≤ x) :
    RecState c m0 m n' :=
  ⟨st.crash, fun x hx hn => by
      by_cases e : x < n
      · exact st.done x e hn
      · have := h x (by omega) hx; omega,
    st.same, st.bits, st.trees, st.slots⟩

theorem recover_entries_spec (ok : GeomOk16 c.geom) (m0 : Mem) (t : Nat) (ht : t < c.ntrees) (cnt j : Nat)
    (hj : j + cnt = c.geom.treeHuge) (m : Mem) (st : RecState c m0 m (t * c.geom.treeHuge + j)) :
    Runs m (Lower.recover.entries c.geom c.nhuge cnt t j) (fun _ m' => RecState c m0 m' ((t + 1) * c.geom.treeHuge)) := by
  induction cnt generalizing j m with
  | zero =>
    unfold Lower.recover.entries
    apply Runs.pure
    have : t * c.geom.treeHuge + j = (t + 1) * c.geom.treeHuge := by rw [Nat.add_mul, Nat.one_mul]; omega
    rw [← this]; exact st
  | succ cnt ih =>
    unfold Lower.recover.entries
    simp only
    by_cases hbrk : t * c.geom.treeHuge + j ≥ c.nhuge
    · rw [if_pos hbrk]
      apply Runs.pure
      exact st.mono_of_beyond (fun x h1 _ => by omega)
    · rw [if_neg hbrk]
      have step := recover_entry_spec ok m0 m t j (by omega) ht (by omega) st
      -- the body is `step` followed by the recursive call
      apply Runs.of_runSolo_eq (recover_body_eq _ _ _ _ _ _ m)
      apply Runs.bind step
      rintro _ m1 st1
      exact ih (j + 1) (by omega) m1 (by rw [show t * c.geom.treeHuge + (j + 1) = t * c.geom.treeHuge + j + 1 by omega]; exact st1)

theorem recover_tables_spec (ok : GeomOk16 c.geom) (m0 : Mem) (cnt t : Nat) (ht : t + cnt = c.ntrees) (m : Mem)
    (st : RecState c m0 m (t * c.geom.treeHuge)) :
    Runs m (Lower.recover.tables c.geom c.nhuge cnt t) (fun _ m' => RecState c m0 m' (c.ntrees * c.geom.treeHuge)) := by
  induction cnt generalizing t m with
  | zero =>
    unfold Lower.recover.tables
    apply Runs.pure
    have : t = c.ntrees := by omega
    rw [← this]; exact st
  | succ cnt ih =>
    unfold Lower.recover.tables
    apply Runs.bind (recover_entries_spec ok m0 t (by omega) c.geom.treeHuge 0 (by omega) m (by rw [Nat.add_zero]; exact st))
    rintro _ m1 st1
    exact ih (t + 1) (by omega) m1 st1

/-- **`Lower::recover`**: from any state satisfying the weak invariant, the full lower invariant
    is re-established; whole-huge markers are kept, the bits of every other huge frame are kept. -/
theorem recover_spec (ok : GeomOk16 c.geom) (m : Mem) (ci : CrashInv c m) (ht : m.trees.size = c.ntrees) :
    Runs m (Lower.recover c.geom c.ntrees c.nhuge) (fun _ m' => LowerInv c m' ∧
      (∀ h, Huge.isHuge (m'.hugeE h) = Huge.isHuge (m.hugeE h)) ∧
      (∀ f, Huge.isHuge (m.hugeE (f / c.geom.hugeFrames)) = false → m'.bit f = m.bit f) ∧
      m'.trees = m.trees ∧ m'.slots = m.slots) := by
  have okg := ok.toGeomOk
  unfold Lower.recover
  have st0 : RecState c m m (0 * c.geom.treeHuge) :=
    ⟨ci, fun h hh _ => by simp at hh, fun _ => rfl, fun _ _ => rfl, rfl, rfl⟩
  apply Runs.mono (recover_tables_spec ok m c.ntrees 0 (by omega) m st0)
  rintro _ m' st
  have hnh : c.nhuge ≤ c.ntrees * c.geom.treeHuge := okg.ceil_hf_le c.frames
  refine ⟨?_, st.same, st.bits, st.trees, st.slots⟩
  exact {
    rowsSize := st.crash.rowsSize
    hugeSize := st.crash.hugeSize
    beyond := st.crash.beyond
    marker := fun h hh hm => ⟨st.crash.markerIn h hh hm, (st.done h (by omega) hh).1 hm⟩
    count := fun h hh hm => (st.done h (by omega) hh).2 hm
    outside := st.crash.outside }

end
end LLFree
