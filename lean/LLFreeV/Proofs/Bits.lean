/-
  Bit-level facts about rows (`BitVec 64`): masks, block predicates, and how the row
  operations of `bitfield.rs` change individual bits.
-/
import LLFreeV.Model.Lower
import LLFreeV.Proofs.Fza
namespace LLFree

theorem rowMax_getLsbD (i : Nat) : rowMax.getLsbD i = decide (i < 64) := by
  unfold rowMax
  rw [BitVec.getLsbD_allOnes]

/-- bits of `(u64::MAX >> (64 - bits)) << sh` -/
theorem bitMask_getLsbD (bits sh i : Nat) (hb : bits ≤ 64) :
    (bitMask bits sh).getLsbD i = (decide (sh ≤ i) && decide (i < sh + bits) && decide (i < 64)) := by
  unfold bitMask
  rw [BitVec.getLsbD_shiftLeft, BitVec.getLsbD_ushiftRight, rowMax_getLsbD]
  by_cases h1 : i < 64
  · by_cases h2 : i < sh
    · have : ¬ sh ≤ i := by omega
      simp [h1, h2, this]
    · by_cases h3 : i < sh + bits
      · have : 64 - bits + (i - sh) < 64 := by omega
        simp [h1, h2, h3, this]; omega
      · have : ¬ 64 - bits + (i - sh) < 64 := by omega
        simp [h1, h2, h3, this]
  · simp [h1]

/-- all bits of `e` under the mask are set -/
theorem and_mask_eq_mask_iff (e mask : BitVec 64) :
    e &&& mask = mask ↔ ∀ i, mask.getLsbD i = true → e.getLsbD i = true := by
  constructor
  · intro h i hi
    have := congrArg (fun x => x.getLsbD i) h
    simp only [BitVec.getLsbD_and, hi, Bool.and_true] at this
    exact this
  · intro h
    apply BitVec.eq_of_getLsbD_eq
    intro i _
    rw [BitVec.getLsbD_and]
    cases hm : mask.getLsbD i with
    | false => simp
    | true => simp [h i hm]

/-- no bit of `e` under the mask is set -/
theorem and_mask_eq_zero_iff (e mask : BitVec 64) :
    e &&& mask = 0#64 ↔ ∀ i, mask.getLsbD i = true → e.getLsbD i = false := by
  constructor
  · intro h i hi
    have := congrArg (fun x => x.getLsbD i) h
    simp only [BitVec.getLsbD_and, hi, Bool.and_true, BitVec.getLsbD_zero] at this
    exact this
  · intro h
    apply BitVec.eq_of_getLsbD_eq
    intro i _
    rw [BitVec.getLsbD_and, BitVec.getLsbD_zero]
    cases hm : mask.getLsbD i with
    | false => simp
    | true => simp [h i hm]

theorem getLsbD_and_not (e mask : BitVec 64) (i : Nat) :
    (e &&& ~~~mask).getLsbD i = (e.getLsbD i && !mask.getLsbD i) := by
  rw [BitVec.getLsbD_and, BitVec.getLsbD_not]
  by_cases h : i < 64
  · simp [h]
  · have : e.getLsbD i = false := BitVec.getLsbD_of_ge _ _ (by omega)
    simp [this]

theorem getLsbD_or' (e mask : BitVec 64) (i : Nat) :
    (e ||| mask).getLsbD i = (e.getLsbD i || mask.getLsbD i) := BitVec.getLsbD_or

/-- bits of the narrow compare-exchange (`toggle_int`): on success exactly the `w` bits at `sh`
    are replaced -/
theorem casPartVal_some (row : BitVec 64) (sh w : Nat) (e n r : BitVec 64) (hw : w ≤ 64)
    (h : casPartVal row sh w e n = some r) :
    (∀ i, i < w → row.getLsbD (sh + i) = e.getLsbD i) ∧
    (∀ i, r.getLsbD i = if sh ≤ i ∧ i < sh + w ∧ i < 64 then n.getLsbD (i - sh) else row.getLsbD i) := by
  unfold casPartVal at h
  simp only at h
  split at h
  · rename_i heq
    injection h with h
    constructor
    · intro i hi
      have := congrArg (fun x => x.getLsbD i) heq
      simp only [BitVec.getLsbD_and, BitVec.getLsbD_ushiftRight, lowMask, getLsbD_lowMask w i hw, hi,
        decide_true, Bool.and_true] at this
      exact this
    · intro i
      rw [← h, BitVec.getLsbD_or, getLsbD_and_not, BitVec.getLsbD_shiftLeft, BitVec.getLsbD_shiftLeft,
        BitVec.getLsbD_and]
      simp only [lowMask, getLsbD_lowMask w _ hw]
      by_cases h1 : i < 64
      · by_cases h2 : i < sh
        · simp [h1, h2]; omega
        · by_cases h3 : i - sh < w
          · have : sh ≤ i ∧ i < sh + w ∧ i < 64 := ⟨by omega, by omega, h1⟩
            simp [h1, h2, h3, this]
          · have : ¬ (sh ≤ i ∧ i < sh + w ∧ i < 64) := by omega
            simp [h1, h2, h3]
            intro _ h5; omega
      · have : row.getLsbD i = false := BitVec.getLsbD_of_ge _ _ (by omega)
        simp [h1, this]
  · cases h

theorem casPartVal_none (row : BitVec 64) (sh w : Nat) (e n : BitVec 64) (hw : w ≤ 64) (hsh : sh + w ≤ 64)
    (h : casPartVal row sh w e n = none) :
    ¬ ∀ i, i < w → row.getLsbD (sh + i) = e.getLsbD i := by
  unfold casPartVal at h
  simp only at h
  split at h
  · cases h
  · rename_i hne
    intro hall
    apply hne
    apply BitVec.eq_of_getLsbD_eq
    intro i hi
    simp only [BitVec.getLsbD_and, BitVec.getLsbD_ushiftRight, lowMask, getLsbD_lowMask w i hw]
    by_cases hiw : i < w
    · simp [hiw, hall i hiw]
    · simp [hiw]

end LLFree
