/-
  The upper invariant of an interleaving (`UInv`): the sequential upper invariant with
  * `P i` = the sum of the threads' `base i`,
  * `R i` = "some thread carries the reservation of tree `i`",
  * the reference count `GT i` = frames of tree `i` that are free or held by a thread
    (constant under every legal step of the lower allocator, see `ConcUpperLower.lean`),
  plus: reservations are carried by at most one thread, and a carried reservation names a reserved
  entry whose class is at least the recorded bound.

  `UInv.write_tree` / `UInv.write_slot`: every legal transition (`UTransT` / `UTransS`) of one
  thread preserves it.
-/
import LLFreeV.Proofs.ConcUpper
import LLFreeV.Proofs.OwnLowerInv
import LLFreeV.Proofs.UpperGet3
namespace LLFree
open Prog

/-- frames of huge frame `h` a thread holds (as bits or as a whole allocation) -/
def heldIn (g : Geom) (gh : Gh) (h : Nat) : Nat :=
  cntH g gh.ownS h + (if gh.ownH h = true then g.hugeFrames else 0)

/-- frames of huge frame `h` that are free or held by one of the `n` threads -/
def GH (g : Geom) (n : Nat) (m : Mem) (ghs : Nat → Gh) (h : Nat) : Nat :=
  m.freeInHuge g h + blockSum (fun k => heldIn g (ghs k) h) n

/-- … of tree `i` -/
def GT (g : Geom) (n : Nat) (m : Mem) (ghs : Nat → Gh) (i : Nat) : Nat :=
  blockSum (fun cc => GH g n m ghs (i * g.treeHuge + cc)) g.treeHuge

/-- sum of the threads' `base` -/
def baseSum (n : Nat) (ugs : Nat → UGh) (i : Nat) : Nat := blockSum (fun k => (ugs k).base i) n

/-- some thread carries the reservation of tree `i` -/
def Carried (n : Nat) (ugs : Nat → UGh) (i : Nat) : Prop := ∃ k, k < n ∧ ((ugs k).tok i).isSome = true

structure UInv (c : Cfg) (H : Nat → Nat) (n : Nat) (m : Mem) (ghs : Nat → Gh) (ugs : Nat → UGh) : Prop where
  inv : UpperInvG c H (baseSum n ugs) (Carried n ugs) (GT c.geom n m ghs) m
  tokDisj : ∀ j k, j < n → k < n → j ≠ k → ∀ i, ((ugs j).tok i).isSome = true → (ugs k).tok i = none
  tokCls : ∀ k, k < n → ∀ i b, (ugs k).tok i = some b →
    ∃ t : Tree, m.trees[i]? = some t ∧ t.reserved = true ∧ b ≤ t.cls
  /-- the free-or-held count of a tree never exceeds the tree (it is constant along a run) -/
  gtLe : ∀ i, GT c.geom n m ghs i ≤ c.geom.treeFrames

section
variable {c : Cfg} {H : Nat → Nat} {n : Nat} {m : Mem} {ghs : Nat → Gh} {ugs : Nat → UGh}

theorem GT_congr (g : Geom) (n : Nat) (m m' : Mem) (ghs : Nat → Gh) (hr : m'.rows = m.rows) (hh : m'.huge = m.huge) (i : Nat) :
    GT g n m' ghs i = GT g n m ghs i := by
  unfold GT
  apply blockSum_congr
  intro cc _
  unfold GH Mem.freeInHuge
  congr 1
  apply countP_range_eq_of_eq
  intro x _
  rw [Mem.allocated_congr g m m' hr hh]

theorem baseSum_fupd (k : Nat) (hk : k < n) (ug' : UGh) (i : Nat) :
    baseSum n (fupd ugs k ug') i + (ugs k).base i = baseSum n ugs i + ug'.base i := by
  unfold baseSum
  have := blockSum_point (fun j => (ugs j).base i) (fun j => (fupd ugs k ug' j).base i) n k hk
    (fun j hj => by rw [fupd_other _ _ _ _ hj])
  simp only [fupd_same] at this
  exact this

theorem baseSum_fupd_same (k : Nat) (ug' : UGh) (i : Nat) (h : ug'.base i = (ugs k).base i) :
    baseSum n (fupd ugs k ug') i = baseSum n ugs i := by
  unfold baseSum
  apply blockSum_congr
  intro j _
  by_cases e : j = k
  · subst e; rw [fupd_same]; exact h
  · rw [fupd_other _ _ _ _ e]

theorem Carried_fupd_same (k : Nat) (ug' : UGh) (i : Nat) (h : ug'.tok i = (ugs k).tok i) :
    Carried n (fupd ugs k ug') i ↔ Carried n ugs i := by
  constructor
  · rintro ⟨j, hj, ht⟩
    refine ⟨j, hj, ?_⟩
    by_cases e : j = k
    · subst e; rw [fupd_same, h] at ht; exact ht
    · rwa [fupd_other _ _ _ _ e] at ht
  · rintro ⟨j, hj, ht⟩
    refine ⟨j, hj, ?_⟩
    by_cases e : j = k
    · subst e; rw [fupd_same, h]; exact ht
    · rwa [fupd_other _ _ _ _ e]

/-- a carried reservation is named by no slot -/
theorem UInv.carried_no_slot (I : UInv c H n m ghs ugs) (i : Nat) (hc : Carried n ugs i) (s : Nat) (l : LTree)
    (hs : m.slots[s]? = some l) (hp : l.present = true) : l.row / c.geom.treeRows ≠ i := by
  intro e
  exact I.inv.slotNotR s l hs hp (by rw [e]; exact hc)

theorem base_le_baseSum (k : Nat) (hk : k < n) (i : Nat) : (ugs k).base i ≤ baseSum n ugs i :=
  le_blockSum (fun j => (ugs j).base i) n k hk

/-- what a thread reads from a tree entry satisfies `KnownT` -/
theorem UInv.knownT (I : UInv c H n m ghs ugs) (k : Nat) (hk : k < n) (i : Nat) (t : Tree) (ht : m.trees[i]? = some t) :
    KnownT c.geom.treeFrames c.ntrees (ugs k) i t := by
  refine ⟨?_, ?_, I.inv.treeCls i t ht, by have := (Array.getElem?_eq_some_iff.1 ht).1; rw [I.inv.treesSize] at this; exact this⟩
  · intro b hb
    obtain ⟨t', ht', hr, hle⟩ := I.tokCls k hk i b hb
    rw [ht] at ht'; cases ht'
    exact ⟨hr, hle⟩
  · have h1 := I.inv.counter i t ht
    have h2 := I.gtLe i
    have h3 := base_le_baseSum (ugs := ugs) k hk i
    omega

/-- what a thread reads from a slot satisfies `KnownS` -/
theorem UInv.knownS (I : UInv c H n m ghs ugs) (k : Nat) (hk : k < n) (s : Nat) (o : LTree) (hs : m.slots[s]? = some o) :
    KnownS c.geom.treeRows c.geom.treeFrames c.ntrees (ugs k) o := by
  intro hp
  obtain ⟨kk, hkk⟩ := I.inv.slotCls s o hs hp
  obtain ⟨t, ht, _, _⟩ := I.inv.slotTree s o kk hs hp hkk
  refine ⟨?_, ?_, ?_⟩
  · cases hx : (ugs k).tok (o.row / c.geom.treeRows) with
    | none => rfl
    | some b => exact absurd rfl (I.carried_no_slot _ ⟨k, hk, by rw [hx]; rfl⟩ s o hs hp)
  · have h1 := I.inv.counter _ t ht
    have h2 := I.gtLe (o.row / c.geom.treeRows)
    have h3 := base_le_baseSum (ugs := ugs) k hk (o.row / c.geom.treeRows)
    have h4 := Mem.slotFree_ge m c.geom.treeRows s o hs (o.row / c.geom.treeRows)
    rw [LTree.freeFor_self _ _ hp] at h4
    omega
  · have := (Array.getElem?_eq_some_iff.1 ht).1
    rw [I.inv.treesSize] at this; exact this

/-- **a legal write of a tree entry preserves the invariant** -/
theorem UInv.write_tree (I : UInv c H n m ghs ugs) (k : Nat) (hk : k < n) (i : Nat) (old new : Tree)
    (hv : m.trees[i]? = some old) (ug' : UGh) (tr : UTransT (ugs k) ug' i old new) :
    UInv c H n (m.set .tree i new) ghs (fupd ugs k ug') := by
  have hi : i < m.trees.size := (Array.getElem?_eq_some_iff.1 hv).1
  have hget : ∀ j, (m.set .tree i new).trees[j]? = if j = i then some new else m.trees[j]? := by
    intro j
    simp only [Mem.set_tree_trees, Array.getElem?_setIfInBounds]
    by_cases e : i = j
    · subst e; simp [hi]
    · have : ¬ j = i := fun e' => e e'.symm
      simp [e, this]
  have hcarOther : ∀ j, j ≠ i → (Carried n (fupd ugs k ug') j ↔ Carried n ugs j) :=
    fun j hj => Carried_fupd_same k ug' j (tr.tokOther j hj)
  -- who carries tree `i` afterwards
  have hown : (ugs k).tok i = none ∨ ((ugs k).tok i).isSome = true := by
    cases (ugs k).tok i <;> simp
  refine ⟨?_, ?_, ?_, fun j => by rw [GT_congr c.geom n m (m.set .tree i new) ghs rfl rfl j]; exact I.gtLe j⟩
  · have key := I.inv.set_tree i old new hv H (baseSum n (fupd ugs k ug')) (Carried n (fupd ugs k ug')) (tr.cls8 (I.inv.treeCls i old hv))
      ?hslot ?hres ?hRi hcarOther ?hP (fun _ _ => rfl) ?heq
    · exact key.congr rfl rfl (fun _ => rfl) (fun _ => Iff.rfl) (fun j => GT_congr c.geom n m _ ghs rfl rfl j)
    case hslot =>
      intro s l kk hs hp hkk e
      obtain ⟨t, ht, hr, hle⟩ := I.inv.slotTree s l kk hs hp hkk
      rw [e, hv] at ht; cases ht
      rcases tr.flag with ⟨h1, h2, _⟩ | ⟨h1, _, _⟩ | ⟨h1, _, _⟩
      · exact ⟨by rw [h1]; exact hr, by rw [h2 hr]; exact hle⟩
      · rw [hr] at h1; cases h1
      · exact absurd e (I.carried_no_slot i ⟨k, hk, h1⟩ s l hs hp)
    case hres =>
      intro hr
      rcases tr.flag with ⟨h1, _, h3⟩ | ⟨_, _, h3⟩ | ⟨_, h2, _⟩
      · rw [h1] at hr
        rcases I.inv.resSlot i old hv hr with h | h
        · left; exact (Carried_fupd_same k ug' i h3).2 h
        · right; exact h
      · left; exact ⟨k, hk, by rw [fupd_same, h3]; rfl⟩
      · rw [h2] at hr; cases hr
    case hRi =>
      intro hc s l hs hp e
      rcases tr.flag with ⟨_, _, h3⟩ | ⟨h1, _, _⟩ | ⟨h1, _, h3⟩
      · exact I.carried_no_slot i ((Carried_fupd_same k ug' i h3).1 hc) s l hs hp e
      · obtain ⟨kk, hkk⟩ := I.inv.slotCls s l hs hp
        obtain ⟨t, ht, hr, _⟩ := I.inv.slotTree s l kk hs hp hkk
        rw [e, hv] at ht; cases ht
        rw [hr] at h1; cases h1
      · exact I.carried_no_slot i ⟨k, hk, h1⟩ s l hs hp e
    case hP =>
      intro j hj
      exact baseSum_fupd_same k ug' j (tr.baseOther j hj)
    case heq =>
      have h1 := I.inv.counter i old hv
      have h2 := baseSum_fupd (ugs := ugs) k hk ug' i
      have h3 := tr.acct
      omega
  · -- reservations are carried by one thread
    intro j j' hj hj' hne x hx
    by_cases ex : x = i
    · subst ex
      by_cases e1 : j = k
      · subst e1
        rw [fupd_same] at hx
        rw [fupd_other _ _ _ _ (fun e => hne e.symm)]
        rcases tr.flag with ⟨_, _, h3⟩ | ⟨h1, _, _⟩ | ⟨_, _, h3⟩
        · rw [h3] at hx; exact I.tokDisj j j' hj hj' hne x hx
        · -- the entry was not reserved: nobody carried it
          cases hj'x : (ugs j').tok x with
          | none => rfl
          | some b =>
            obtain ⟨t, ht, hr, _⟩ := I.tokCls j' hj' x b hj'x
            rw [hv] at ht; cases ht
            rw [hr] at h1; cases h1
        · rw [h3] at hx; cases hx
      · rw [fupd_other _ _ _ _ e1] at hx
        by_cases e2 : j' = k
        · subst e2
          rw [fupd_same]
          rcases tr.flag with ⟨_, _, h3⟩ | ⟨h1, _, _⟩ | ⟨_, _, h3⟩
          · rw [h3]; exact I.tokDisj j j' hj hj' hne x hx
          · cases hjx : (ugs j).tok x with
            | none => rw [hjx] at hx; cases hx
            | some b =>
              obtain ⟨t, ht, hr, _⟩ := I.tokCls j hj x b hjx
              rw [hv] at ht; cases ht
              rw [hr] at h1; cases h1
          · exact h3
        · rw [fupd_other _ _ _ _ e2]; exact I.tokDisj j j' hj hj' hne x hx
    · have hk1 : ∀ y, (fupd ugs k ug' y).tok x = (ugs y).tok x := by
        intro y
        by_cases e : y = k
        · subst e; rw [fupd_same]; exact tr.tokOther x ex
        · rw [fupd_other _ _ _ _ e]
      rw [hk1] at hx ⊢
      exact I.tokDisj j j' hj hj' hne x hx
  · -- a carried reservation names a reserved entry of at least the recorded class
    intro j hj x b hb
    rw [hget]
    by_cases ex : x = i
    · subst ex
      simp only [if_true]
      refine ⟨new, rfl, ?_⟩
      by_cases e1 : j = k
      · subst e1
        rw [fupd_same] at hb
        rcases tr.flag with ⟨h1, h2, h3⟩ | ⟨_, h2, h3⟩ | ⟨_, _, h3⟩
        · rw [h3] at hb
          obtain ⟨t, ht, hr, hle⟩ := I.tokCls j hj x b hb
          rw [hv] at ht; cases ht
          exact ⟨by rw [h1]; exact hr, by rw [h2 hr]; exact hle⟩
        · rw [h3] at hb; cases hb; exact ⟨h2, Nat.le_refl _⟩
        · rw [h3] at hb; cases hb
      · rw [fupd_other _ _ _ _ e1] at hb
        obtain ⟨t, ht, hr, hle⟩ := I.tokCls j hj x b hb
        rw [hv] at ht; cases ht
        rcases tr.flag with ⟨h1, h2, _⟩ | ⟨h1, _, _⟩ | ⟨h1, _, _⟩
        · exact ⟨by rw [h1]; exact hr, by rw [h2 hr]; exact hle⟩
        · rw [hr] at h1; cases h1
        · have := I.tokDisj k j hk hj (fun e => e1 e.symm) x h1
          rw [this] at hb; cases hb
    · simp only [ex, if_false]
      have : (fupd ugs k ug' j).tok x = (ugs j).tok x := by
        by_cases e : j = k
        · subst e; rw [fupd_same]; exact tr.tokOther x ex
        · rw [fupd_other _ _ _ _ e]
      rw [this] at hb
      exact I.tokCls j hj x b hb

/-- **a legal write of a slot preserves the invariant** -/
theorem UInv.write_slot (ok : CfgOk c) (I : UInv c H n m ghs ugs) (k : Nat) (hk : k < n) (s kk : Nat) (old new : LTree)
    (hv : m.slots[s]? = some old) (hkk : c.slotClass s kk) (ug' : UGh)
    (tr : UTransS c.geom.treeRows kk (ugs k) ug' old new) :
    UInv c H n (m.set .slot s new) ghs (fupd ugs k ug') := by
  have htrees : (m.set .slot s new).trees = m.trees := rfl
  cases tr with
  | same hp ht acct tok =>
    have hcar : ∀ j, Carried n (fupd ugs k ug') j ↔ Carried n ugs j :=
      fun j => Carried_fupd_same k ug' j (by rw [tok])
    refine ⟨?_, ?_, ?_, fun j => by rw [GT_congr c.geom n m (m.set .slot s new) ghs rfl rfl j]; exact I.gtLe j⟩
    · have key := I.inv.set_slot s old new hv (baseSum n (fupd ugs k ug')) (Carried n (fupd ugs k ug'))
        ?hnew ?hinj ?hnotR ?hRsub ?hold ?hRkeep ?hP
      · exact key.congr rfl rfl (fun _ => rfl) (fun _ => Iff.rfl) (fun j => GT_congr c.geom n m _ ghs rfl rfl j)
      case hnew =>
        intro hpn
        have hpo : old.present = true := by rw [← hp]; exact hpn
        refine ⟨I.inv.slotCls s old hv hpo, fun k' hk' => ?_⟩
        rw [ht hpo]; exact I.inv.slotTree s old k' hv hpo hk'
      case hinj =>
        intro hpn s' x hs' hpx e
        have hpo : old.present = true := by rw [← hp]; exact hpn
        rw [ht hpo] at e
        exact I.inv.slotInj s' s x old hs' hv hpx hpo e
      case hnotR =>
        intro hpn hc
        have hpo : old.present = true := by rw [← hp]; exact hpn
        rw [ht hpo] at hc
        exact I.inv.slotNotR s old hv hpo ((hcar _).1 hc)
      case hRsub => intro j hc; left; exact (hcar j).1 hc
      case hold => intro hpo; left; exact ⟨by rw [hp]; exact hpo, ht hpo⟩
      case hRkeep => intro j hc; left; exact (hcar j).2 hc
      case hP =>
        intro i
        have h2 := baseSum_fupd (ugs := ugs) k hk ug' i
        have h3 := acct i
        omega
    · intro j j' hj hj' hne x hx
      have hk1 : ∀ y, (fupd ugs k ug' y).tok x = (ugs y).tok x := by
        intro y
        by_cases e : y = k
        · subst e; rw [fupd_same, tok]
        · rw [fupd_other _ _ _ _ e]
      rw [hk1] at hx ⊢
      exact I.tokDisj j j' hj hj' hne x hx
    · intro j hj x b hb
      have : (fupd ugs k ug' j).tok x = (ugs j).tok x := by
        by_cases e : j = k
        · subst e; rw [fupd_same, tok]
        · rw [fupd_other _ _ _ _ e]
      rw [this] at hb
      rw [htrees]; exact I.tokCls j hj x b hb
  | move acct hnew tok =>
    -- tokens of the other threads are unchanged
    have hoth : ∀ j, j ≠ k → ∀ x, (fupd ugs k ug' j).tok x = (ugs j).tok x :=
      fun j hj x => by rw [fupd_other _ _ _ _ hj]
    -- the tree of the old reservation is carried by nobody
    have hold_free : old.present = true → ∀ j, j < n → (ugs j).tok (old.row / c.geom.treeRows) = none := by
      intro hpo j hj
      cases hx : (ugs j).tok (old.row / c.geom.treeRows) with
      | none => rfl
      | some b => exact absurd ⟨j, hj, by rw [hx]; rfl⟩ (I.inv.slotNotR s old hv hpo)
    refine ⟨?_, ?_, ?_, fun j => by rw [GT_congr c.geom n m (m.set .slot s new) ghs rfl rfl j]; exact I.gtLe j⟩
    · have key := I.inv.set_slot s old new hv (baseSum n (fupd ugs k ug')) (Carried n (fupd ugs k ug'))
        ?hnew ?hinj ?hnotR ?hRsub ?hold ?hRkeep ?hP
      · exact key.congr rfl rfl (fun _ => rfl) (fun _ => Iff.rfl) (fun j => GT_congr c.geom n m _ ghs rfl rfl j)
      case hnew =>
        intro hpn
        obtain ⟨b, hb, hle⟩ := hnew hpn
        obtain ⟨t, ht, hr, hbt⟩ := I.tokCls k hk _ b hb
        refine ⟨⟨kk, hkk⟩, fun k' hk' => ?_⟩
        have := slotClass_unique ok s kk k' hkk hk'
        subst this
        exact ⟨t, ht, hr, Nat.le_trans hle hbt⟩
      case hinj =>
        intro hpn s' x hs' hpx e
        obtain ⟨b, hb, _⟩ := hnew hpn
        exact absurd e (I.carried_no_slot _ ⟨k, hk, by rw [hb]; rfl⟩ s' x hs' hpx)
      case hnotR =>
        intro hpn hc
        obtain ⟨b, hb, _⟩ := hnew hpn
        obtain ⟨j, hj, hjt⟩ := hc
        by_cases e : j = k
        · subst e
          rw [fupd_same, tok, if_pos ⟨hpn, rfl⟩] at hjt; cases hjt
        · rw [hoth j e] at hjt
          have := I.tokDisj j k hj hk e _ hjt
          rw [this] at hb; cases hb
      case hRsub =>
        intro x hc
        obtain ⟨j, hj, hjt⟩ := hc
        by_cases e : j = k
        · subst e
          rw [fupd_same, tok] at hjt
          split at hjt
          · cases hjt
          · split at hjt
            · rename_i h2; right; exact h2
            · left; exact ⟨j, hj, hjt⟩
        · rw [hoth j e] at hjt; left; exact ⟨j, hj, hjt⟩
      case hold =>
        intro hpo
        by_cases e : new.present = true ∧ new.row / c.geom.treeRows = old.row / c.geom.treeRows
        · left; exact e
        · right
          refine ⟨k, hk, ?_⟩
          rw [fupd_same, tok, if_neg e, if_pos ⟨hpo, rfl⟩]; rfl
      case hRkeep =>
        intro x hc
        obtain ⟨j, hj, hjt⟩ := hc
        by_cases e : j = k
        · subst e
          by_cases e1 : new.present = true ∧ new.row / c.geom.treeRows = x
          · right; exact e1
          · left
            refine ⟨j, hj, ?_⟩
            rw [fupd_same, tok, if_neg e1]
            split
            · rfl
            · exact hjt
        · left; exact ⟨j, hj, by rw [hoth j e]; exact hjt⟩
      case hP =>
        intro i
        have h2 := baseSum_fupd (ugs := ugs) k hk ug' i
        have h3 := acct i
        omega
    · intro j j' hj hj' hne x hx
      by_cases e1 : j = k
      · subst e1
        rw [hoth j' (fun e => hne e.symm)]
        rw [fupd_same, tok] at hx
        split at hx
        · cases hx
        · split at hx
          · rename_i h2; rw [← h2.2]; exact hold_free h2.1 j' hj'
          · exact I.tokDisj j j' hj hj' hne x hx
      · rw [hoth j e1] at hx
        by_cases e2 : j' = k
        · subst e2
          rw [fupd_same, tok]
          split
          · rfl
          · split
            · rename_i h2
              have := hold_free h2.1 j hj
              rw [h2.2] at this; rw [this] at hx; cases hx
            · exact I.tokDisj j j' hj hj' hne x hx
        · rw [hoth j' e2]; exact I.tokDisj j j' hj hj' hne x hx
    · intro j hj x b hb
      rw [htrees]
      by_cases e : j = k
      · subst e
        rw [fupd_same, tok] at hb
        split at hb
        · cases hb
        · split at hb
          · rename_i h2
            cases hb
            rw [← h2.2]
            exact I.inv.slotTree s old _ hv h2.1 hkk
          · exact I.tokCls j hj x b hb
      · rw [hoth j e] at hb; exact I.tokCls j hj x b hb

/-- a step that leaves tree entries, slots and the free-or-held counts alone -/
theorem UInv.other (I : UInv c H n m ghs ugs) (m' : Mem) (ghs' : Nat → Gh) (ht : m'.trees = m.trees) (hs : m'.slots = m.slots)
    (hG : ∀ i, GT c.geom n m' ghs' i = GT c.geom n m ghs i) : UInv c H n m' ghs' ugs :=
  ⟨I.inv.congr ht hs (fun _ => rfl) (fun _ => Iff.rfl) hG, I.tokDisj, fun k hk i b hb => by rw [ht]; exact I.tokCls k hk i b hb,
    fun i => by rw [hG i]; exact I.gtLe i⟩

end
end LLFree
