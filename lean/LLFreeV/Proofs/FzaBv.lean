/-
  Closed 64-bit facts about the offset expressions of the generated row search
  (`Gen.fza0 … Gen.fza6`), discharged by `bv_decide` (bit-blasting + LRAT certificate checked
  by the compiled checker: each use adds an axiom `….bv_decide.ax_*`, see DESIGN §8).
  `j` is a universally quantified candidate bit position.
-/
import Std.Tactic.BVDecide
import LLFreeV.Gen.Fza
namespace LLFree.FzaBv

/-- offset expression of order 0 -/
def off0 (v : BitVec 64) : BitVec 64 := BitVec.ctz (~~~v)
def off1 (v : BitVec 64) : BitVec 64 := BitVec.ctz (~~~((v ||| (v >>> 1#64)) ||| 12297829382473034410#64))
def off2 (v : BitVec 64) : BitVec 64 :=
  BitVec.ctz ((((v - 1229782938247303441#64) &&& (~~~v)) >>> 3#64) &&& 1229782938247303441#64)
def off3 (v : BitVec 64) : BitVec 64 :=
  BitVec.ctz ((((v - 72340172838076673#64) &&& (~~~v)) >>> 7#64) &&& 72340172838076673#64)
def off4 (v : BitVec 64) : BitVec 64 :=
  BitVec.ctz ((((v - 281479271743489#64) &&& (~~~v)) >>> 15#64) &&& 281479271743489#64)

theorem found0 (v : BitVec 64) : off0 v < 64#64 → (v >>> off0 v) &&& 1#64 = 0#64 ∧ off0 v % 1#64 = 0#64 := by
  unfold off0; bv_decide
theorem lowest0 (v j : BitVec 64) : j < 64#64 → j % 1#64 = 0#64 → (¬ off0 v < 64#64 ∨ j < off0 v) →
    (v >>> j) &&& 1#64 ≠ 0#64 := by
  unfold off0; bv_decide

theorem found1 (v : BitVec 64) : off1 v < 64#64 → (v >>> off1 v) &&& 3#64 = 0#64 ∧ off1 v % 2#64 = 0#64 := by
  unfold off1; bv_decide
theorem lowest1 (v j : BitVec 64) : j < 64#64 → j % 2#64 = 0#64 → (¬ off1 v < 64#64 ∨ j < off1 v) →
    (v >>> j) &&& 3#64 ≠ 0#64 := by
  unfold off1; bv_decide

theorem found2 (v : BitVec 64) : off2 v < 64#64 → (v >>> off2 v) &&& 15#64 = 0#64 ∧ off2 v % 4#64 = 0#64 := by
  unfold off2; bv_decide
theorem lowest2 (v j : BitVec 64) : j < 64#64 → j % 4#64 = 0#64 → (¬ off2 v < 64#64 ∨ j < off2 v) →
    (v >>> j) &&& 15#64 ≠ 0#64 := by
  unfold off2; bv_decide

theorem found3 (v : BitVec 64) : off3 v < 64#64 → (v >>> off3 v) &&& 255#64 = 0#64 ∧ off3 v % 8#64 = 0#64 := by
  unfold off3; bv_decide
theorem lowest3 (v j : BitVec 64) : j < 64#64 → j % 8#64 = 0#64 → (¬ off3 v < 64#64 ∨ j < off3 v) →
    (v >>> j) &&& 255#64 ≠ 0#64 := by
  unfold off3; bv_decide

theorem found4 (v : BitVec 64) : off4 v < 64#64 → (v >>> off4 v) &&& 65535#64 = 0#64 ∧ off4 v % 16#64 = 0#64 := by
  unfold off4; bv_decide
theorem lowest4 (v j : BitVec 64) : j < 64#64 → j % 16#64 = 0#64 → (¬ off4 v < 64#64 ∨ j < off4 v) →
    (v >>> j) &&& 65535#64 ≠ 0#64 := by
  unfold off4; bv_decide

/-- orders 5 and 6 have no offset expression in the source; the case analysis as an offset -/
def off5 (v : BitVec 64) : BitVec 64 :=
  if (v &&& 0xffffffff#64) = 0#64 then 0#64 else if (v >>> 32#64) = 0#64 then 32#64 else 64#64
def off6 (v : BitVec 64) : BitVec 64 := if v = 0#64 then 0#64 else 64#64

theorem found5 (v : BitVec 64) : off5 v < 64#64 → (v >>> off5 v) &&& 4294967295#64 = 0#64 ∧ off5 v % 32#64 = 0#64 := by
  unfold off5; bv_decide
theorem lowest5 (v j : BitVec 64) : j < 64#64 → j % 32#64 = 0#64 → (¬ off5 v < 64#64 ∨ j < off5 v) →
    (v >>> j) &&& 4294967295#64 ≠ 0#64 := by
  unfold off5; bv_decide
theorem found6 (v : BitVec 64) : off6 v < 64#64 → (v >>> off6 v) &&& 18446744073709551615#64 = 0#64 ∧ off6 v % 64#64 = 0#64 := by
  unfold off6; bv_decide
theorem lowest6 (v j : BitVec 64) : j < 64#64 → j % 64#64 = 0#64 → (¬ off6 v < 64#64 ∨ j < off6 v) →
    (v >>> j) &&& 18446744073709551615#64 ≠ 0#64 := by
  unfold off6; bv_decide

end LLFree.FzaBv
