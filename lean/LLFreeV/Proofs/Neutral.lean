/-
  Programs that write only the volatile arrays (tree entries, local slots): `Neut P p` — every
  write of `p` is to a tree entry or a slot, and every value `p` can return, whatever its
  accesses observe, satisfies `P`. Such a program is safe in the lower-level protocol
  (`SafeL`, panic-tolerant) and leaves the thread's ghost state alone.
-/
import LLFreeV.Proofs.OwnLowerInv
import LLFreeV.Model.Upper
namespace LLFree
open Prog

def Neut {α : Type} (P : α → Prop) : Prog α → Prop
  | .ret a => P a
  | .panic s => UpperMsg s
  | .load _ _ c => ∀ v, Neut P (c v)
  | .store .tree _ _ c => Neut P c
  | .store .slot _ _ c => Neut P c
  | .store .row _ _ _ => False
  | .store .huge _ _ _ => False
  | .swap .tree _ _ c => ∀ o, Neut P (c o)
  | .swap .slot _ _ c => ∀ o, Neut P (c o)
  | .swap .row _ _ _ => False
  | .swap .huge _ _ _ => False
  | .cas .tree _ _ _ c => ∀ r, Neut P (c r)
  | .cas .slot _ _ _ c => ∀ r, Neut P (c r)
  | .cas .row _ _ _ _ => False
  | .cas .huge _ _ _ _ => False
  | .casPart _ _ _ _ _ _ => False
  | .upd .tree _ f c => (∀ cur s, f cur = .panic s → UpperMsg s) ∧ ∀ r, Neut P (c r)
  | .upd .slot _ f c => (∀ cur s, f cur = .panic s → UpperMsg s) ∧ ∀ r, Neut P (c r)
  | .upd .row _ _ _ => False
  | .upd .huge _ _ _ => False

theorem neut_bind_iff {α β : Type} {P : β → Prop} (p : Prog α) (f : α → Prog β) :
    Neut P (p >>= f) ↔ Neut (fun a => Neut P (f a)) p := by
  show Neut P (p.bind f) ↔ _
  induction p with
  | ret a => exact Iff.rfl
  | panic s => exact Iff.rfl
  | load k i c ih => exact forall_congr' fun v => ih v
  | store k i v c ih => cases k <;> first | exact ih | exact Iff.rfl
  | swap k i v c ih => cases k <;> first | exact forall_congr' fun o => ih o | exact Iff.rfl
  | cas k i e n c ih => cases k <;> first | exact forall_congr' fun o => ih o | exact Iff.rfl
  | casPart i sh w e n c ih => exact Iff.rfl
  | upd k i g c ih => cases k <;> first | exact and_congr Iff.rfl (forall_congr' fun o => ih o) | exact Iff.rfl

theorem Neut.mono {α : Type} {P Q : α → Prop} (h : ∀ a, P a → Q a) : ∀ p : Prog α, Neut P p → Neut Q p := by
  intro p
  induction p with
  | ret a => exact h a
  | panic s => exact fun hp => hp
  | load k i c ih => exact fun hp v => ih v (hp v)
  | store k i v c ih => cases k <;> first | exact fun hp => ih hp | exact fun hp => hp
  | swap k i v c ih => cases k <;> first | exact fun hp o => ih o (hp o) | exact fun hp => hp
  | cas k i e n c ih => cases k <;> first | exact fun hp o => ih o (hp o) | exact fun hp => hp
  | casPart i sh w e n c ih => exact fun hp => hp
  | upd k i g c ih => cases k <;> first | exact fun hp => ⟨hp.1, fun o => ih o (hp.2 o)⟩ | exact fun hp => hp

@[simp] theorem neut_pure {α : Type} {P : α → Prop} (a : α) : Neut P (pure a : Prog α) ↔ P a := Iff.rfl
@[simp] theorem neut_ret {α : Type} {P : α → Prop} (a : α) : Neut P (Prog.ret a) ↔ P a := Iff.rfl
@[simp] theorem neut_panic {α : Type} {P : α → Prop} (s : String) : Neut P (Prog.panic s : Prog α) ↔ UpperMsg s := Iff.rfl
@[simp] theorem upperMsg_iff (s : String) : UpperMsg s ↔ s ∉ lowerMsgs := Iff.rfl
attribute [simp] lowerMsgs oobMsg
@[simp] theorem neut_loadK {k : Kind} {P : k.Val → Prop} (i : Nat) : Neut P (loadK k i) ↔ ∀ v, P v := Iff.rfl
@[simp] theorem neut_storeK_tree {P : Unit → Prop} (i : Nat) (v : Tree) : Neut P (storeK .tree i v) ↔ P () := Iff.rfl
@[simp] theorem neut_storeK_slot {P : Unit → Prop} (i : Nat) (v : LTree) : Neut P (storeK .slot i v) ↔ P () := Iff.rfl
@[simp] theorem neut_swapK_tree {P : Tree → Prop} (i : Nat) (v : Tree) : Neut P (swapK .tree i v) ↔ ∀ o, P o := Iff.rfl
@[simp] theorem neut_swapK_slot {P : LTree → Prop} (i : Nat) (v : LTree) : Neut P (swapK .slot i v) ↔ ∀ o, P o := Iff.rfl
@[simp] theorem neut_updK_tree {P : Except Tree Tree → Prop} (i : Nat) (f : Tree → Upd Tree) :
    Neut P (updK .tree i f) ↔ (∀ cur s, f cur = .panic s → UpperMsg s) ∧ ∀ r, P r := Iff.rfl
@[simp] theorem neut_updK_slot {P : Except LTree LTree → Prop} (i : Nat) (f : LTree → Upd LTree) :
    Neut P (updK .slot i f) ↔ (∀ cur s, f cur = .panic s → UpperMsg s) ∧ ∀ r, P r := Iff.rfl
theorem ofOption_ne_panic {β : Type} (o : Option β) (s : String) : Upd.ofOption o ≠ .panic s := by
  cases o <;> (intro h; cases h)
@[simp] theorem neut_tryUpdate_tree {P : Except Tree Tree → Prop} (i : Nat) (f : Tree → Option Tree) :
    Neut P (tryUpdate .tree i f) ↔ ∀ r, P r :=
  ⟨fun h => h.2, fun h => ⟨fun cur s hs => absurd hs (ofOption_ne_panic _ _), h⟩⟩
@[simp] theorem neut_tryUpdate_slot {P : Except LTree LTree → Prop} (i : Nat) (f : LTree → Option LTree) :
    Neut P (tryUpdate .slot i f) ↔ ∀ r, P r :=
  ⟨fun h => h.2, fun h => ⟨fun cur s hs => absurd hs (ofOption_ne_panic _ _), h⟩⟩

attribute [simp] neut_bind_iff

/-- a neutral program is safe (panic-tolerant) and leaves the ghost alone -/
theorem Neut.safeL {α : Type} {g : Geom} {P : α → Prop} (gh : Gh) :
    ∀ p : Prog α, Neut P p → SafeL false g (fun a gh' => gh' = gh ∧ P a) gh p := by
  intro p
  induction p with
  | ret a => exact fun hp => ⟨rfl, hp⟩
  | panic s => exact fun hp => ⟨rfl, hp⟩
  | load k i c ih =>
    intro hp
    cases k with
    | row => exact fun v _ => ih v (hp v)
    | huge => exact fun v _ => ih v (hp v)
    | tree => exact fun v => ih v (hp v)
    | slot => exact fun v => ih v (hp v)
  | store k i v c ih =>
    intro hp
    cases k with
    | row => exact hp
    | huge => exact hp
    | tree => exact ih hp
    | slot => exact ih hp
  | swap k i v c ih =>
    intro hp
    cases k with
    | row => exact hp
    | huge => exact hp
    | tree => exact fun o => ih o (hp o)
    | slot => exact fun o => ih o (hp o)
  | cas k i e n c ih =>
    intro hp
    cases k with
    | row => exact hp.elim
    | huge => exact hp.elim
    | tree => exact fun r => ih r (hp r)
    | slot => exact fun r => ih r (hp r)
  | casPart i sh w e n c ih => exact fun hp => hp.elim
  | upd k i f c ih =>
    intro hp
    cases k with
    | row => exact hp.elim
    | huge => exact hp.elim
    | tree =>
      intro cur
      cases hf : f cur with
      | skip => exact ih _ (hp.2 _)
      | set v => exact ih _ (hp.2 _)
      | panic s => exact ⟨rfl, hp.1 cur s hf⟩
    | slot =>
      intro cur
      cases hf : f cur with
      | skip => exact ih _ (hp.2 _)
      | set v => exact ih _ (hp.2 _)
      | panic s => exact ⟨rfl, hp.1 cur s hf⟩

abbrev NeutT {α : Type} (p : Prog α) : Prop := Neut (fun _ => True) p

/-! ### the closures of the tree and slot updates only trap with upper-level messages -/

theorem Tree.with_panic (tf free : Nat) (r : Bool) (cls : Nat) (s : String) (h : Tree.with tf free r cls = .panic s) : UpperMsg s := by
  unfold Tree.with at h
  split at h
  · cases h; simp
  · split at h
    · cases h; simp
    · cases h

theorem Tree.put_panic (tf : Nat) (self : Tree) (n : Nat) (pol : PolicyFn) (dflt : Nat) (s : String)
    (h : Tree.put tf self n pol dflt = .panic s) : UpperMsg s := by
  unfold Tree.put at h
  simp only at h
  split at h
  · cases h; simp
  · split at h
    · split at h
      · cases h; simp
      · cases h
    · cases h

theorem Tree.unreserveAdd_panic (tf : Nat) (self : Tree) (n cls : Nat) (pol : PolicyFn) (dflt : Nat) (s : String)
    (h : Tree.unreserveAdd tf self n cls pol dflt = .panic s) : UpperMsg s := by
  unfold Tree.unreserveAdd at h
  split at h
  · split at h
    · exact Tree.put_panic _ _ _ _ _ _ h
    · split at h
      · cases h; simp
      · exact Tree.put_panic _ _ _ _ _ _ h
    · cases h; simp
    · cases h; simp
  · cases h

theorem Tree.ros_panic (tf : Nat) (self : Tree) (n : Nat) (pol : PolicyFn) (cls : Nat) (s : String)
    (h : Tree.reserveOrSteal tf self n pol cls = .panic s) : UpperMsg s := by
  unfold Tree.reserveOrSteal at h
  split at h
  · split at h
    · split at h
      · exact Tree.with_panic _ _ _ _ _ h
      · cases h
    · split at h
      · exact Tree.with_panic _ _ _ _ _ h
      · cases h
    · cases h
    · cases h
  · cases h

theorem LTree.with_panic (row free : Nat) (s : String) (h : LTree.with row free = .panic s) : UpperMsg s := by
  unfold LTree.with at h
  split at h
  · cases h; simp
  · split at h
    · cases h; simp
    · cases h

theorem LTree.with_ne_skip (row free : Nat) : LTree.with row free ≠ .skip := by
  unfold LTree.with
  split
  · intro h; cases h
  · split <;> (intro h; cases h)

theorem LTree.put_panic (tr tf : Nat) (self : LTree) (tree n : Nat) (s : String) (h : self.put tr tf tree n = .panic s) :
    UpperMsg s := by
  unfold LTree.put at h
  split at h
  · split at h
    · cases h; simp
    · cases h
  · cases h

theorem LTree.setStart_panic (tr : Nat) (self : LTree) (row : Nat) (s : String) (h : self.setStart tr row = .panic s) :
    UpperMsg s := by
  unfold LTree.setStart at h
  split at h
  · split at h
    · cases h; simp
    · cases h
  · cases h

/-! ### the helpers of the upper level are neutral -/
section
variable (c : Cfg)

theorem tput_neut (i free : Nat) : NeutT (tput c i free) := by
  simp only [tput, Trees.put, neut_bind_iff, neut_updK_tree]
  exact ⟨fun cur s h => Tree.put_panic _ _ _ _ _ _ h, fun r => by simp⟩
theorem tunreserve_neut (i free cls : Nat) : NeutT (tunreserve c i free cls) := by
  simp only [tunreserve, Trees.unreserve, neut_bind_iff, neut_updK_tree]
  refine ⟨fun cur s h => Tree.unreserveAdd_panic _ _ _ _ _ _ _ h, ?_⟩
  intro r; cases r <;> simp
theorem trees_sync_neut (i min : Nat) : NeutT (Trees.sync i min) := by
  simp only [Trees.sync, neut_bind_iff, neut_tryUpdate_tree]
  intro r; cases r <;> simp
theorem trees_steal_neut (i cls free : Nat) : NeutT (Trees.steal c.policy i cls free) := by
  simp only [Trees.steal, neut_bind_iff, neut_tryUpdate_tree]
  intro r; cases r with
  | error e => simp
  | ok old => simp only []; split <;> simp
theorem trees_reserveOrSteal_neut (i cls free : Nat) : NeutT (Trees.reserveOrSteal c.tf c.policy i cls free) := by
  simp only [Trees.reserveOrSteal, neut_bind_iff, neut_updK_tree]
  refine ⟨fun cur s h => Tree.ros_panic _ _ _ _ _ _ h, ?_⟩
  intro r; cases r with
  | error e => simp
  | ok old => simp only []; split <;> simp
theorem Tree.ros_set_le (tf : Nat) (self : Tree) (n : Nat) (pol : PolicyFn) (cls : Nat) (v : Tree)
    (h : Tree.reserveOrSteal tf self n pol cls = .set v) : n ≤ self.free := by
  unfold Tree.reserveOrSteal at h
  split at h
  · rename_i hc
    simp only [Bool.and_eq_true, decide_eq_true_eq] at hc
    exact hc.1
  · cases h

/-- the old counter `reserve_or_steal` reports covers what was asked for -/
theorem trees_reserveOrSteal_neut' (i cls free : Nat) :
    Neut (fun r => ∀ x, r = some x → free ≤ x.2.1) (Trees.reserveOrSteal c.tf c.policy i cls free) := by
  simp only [Trees.reserveOrSteal, neut_bind_iff, neut_updK_tree]
  refine ⟨fun cur s h => Tree.ros_panic _ _ _ _ _ _ h, ?_⟩
  intro r; cases r with
  | error e => simp
  | ok old =>
    simp only []
    cases hr : Tree.reserveOrSteal c.tf old free c.policy cls with
    | set n =>
      simp only [neut_pure]
      intro x hx
      cases hx
      exact Tree.ros_set_le _ _ _ _ _ _ hr
    | skip => simp
    | panic s => simp

theorem classRange_neut (cls : Nat) : NeutT (Locals.classRange c cls) := by
  unfold Locals.classRange; split <;> simp
theorem classLocals_neut (cls : Nat) : NeutT (Locals.classLocals c cls) := by
  simp only [Locals.classLocals, neut_bind_iff]
  exact Neut.mono (fun _ _ => by simp) _ (classRange_neut c cls)
theorem slotIdx_neut (rng : Nat × Nat) (loc : Nat) : NeutT (Locals.slotIdx rng loc) := by
  unfold Locals.slotIdx; split <;> simp

theorem locals_get_neut (cls loc : Nat) (tree : Option Nat) (free : Nat) : NeutT (Locals.get c cls loc tree free) := by
  simp only [Locals.get, neut_bind_iff]
  apply Neut.mono _ _ (classRange_neut c cls)
  intro r _
  cases r with
  | none => simp
  | some rng =>
    simp only [neut_bind_iff]
    apply Neut.mono _ _ (slotIdx_neut rng loc)
    intro idx _
    simp only [neut_tryUpdate_slot]
    intro r; cases r <;> simp

theorem locals_setStart_neut (cls index row : Nat) : NeutT (Locals.setStart c cls index row) := by
  simp only [Locals.setStart, neut_bind_iff]
  apply Neut.mono _ _ (classRange_neut c cls)
  intro r _
  cases r with
  | none => simp
  | some rng =>
    simp only [neut_bind_iff]
    apply Neut.mono _ _ (slotIdx_neut rng index)
    intro idx _
    simp only [neut_updK_slot]
    exact ⟨fun cur s h => LTree.setStart_panic _ _ _ _ h, fun r => by simp⟩

theorem locals_put_neut (cls loc tree free : Nat) : NeutT (Locals.put c cls loc tree free) := by
  simp only [Locals.put, neut_bind_iff]
  apply Neut.mono _ _ (classRange_neut c cls)
  intro r _
  cases r with
  | none => simp
  | some rng =>
    simp only [neut_bind_iff]
    apply Neut.mono _ _ (slotIdx_neut rng loc)
    intro idx _
    simp only [neut_updK_slot]
    refine ⟨fun cur s h => LTree.put_panic _ _ _ _ _ _ h, ?_⟩
    intro r; cases r <;> simp

theorem locals_swap_neut (cls loc tree free : Nat) : NeutT (Locals.swap c cls loc tree free) := by
  simp only [Locals.swap, neut_bind_iff]
  apply Neut.mono _ _ (classRange_neut c cls)
  intro r _
  cases r with
  | none => simp
  | some rng =>
    simp only [neut_bind_iff]
    apply Neut.mono _ _ (slotIdx_neut rng loc)
    intro idx _
    split
    · simp
    · rename_i s heq; exact LTree.with_panic _ _ _ heq
    · rename_i heq; exact absurd heq (LTree.with_ne_skip _ _)

theorem stealAny_slots_neut (tree : Option Nat) (free index tc : Nat) (rng : Nat × Nat) (cnt j : Nat) :
    NeutT (Locals.stealAny.slots c tree free index tc rng cnt j) := by
  induction cnt generalizing j with
  | zero => unfold Locals.stealAny.slots; simp
  | succ cnt ih =>
    unfold Locals.stealAny.slots
    simp only [neut_bind_iff]
    apply Neut.mono _ _ (locals_get_neut c tc _ tree free)
    intro r _
    cases r with
    | ok row => simp
    | error e => exact ih (j + 1)

theorem stealAny_classes_neut (cls : Nat) (tree : Option Nat) (free index : Nat) (cnt i : Nat) :
    NeutT (Locals.stealAny.classes c cls tree free index cnt i) := by
  induction cnt generalizing i with
  | zero => unfold Locals.stealAny.classes; simp
  | succ cnt ih =>
    unfold Locals.stealAny.classes
    simp only
    split
    · exact ih (i + 1)
    · split
      · simp only [neut_bind_iff]
        apply Neut.mono _ _ (stealAny_slots_neut c tree free index _ _ _ _)
        intro r _
        cases r with
        | none => exact ih (i + 1)
        | some x => simp
      · simp only [neut_bind_iff]
        apply Neut.mono _ _ (stealAny_slots_neut c tree free index _ _ _ _)
        intro r _
        cases r with
        | none => exact ih (i + 1)
        | some x => simp
      · exact ih (i + 1)

theorem stealAny_neut (cls : Nat) (index : Option Nat) (tree : Option Nat) (free : Nat) :
    NeutT (Locals.stealAny c cls index tree free) := by
  unfold Locals.stealAny
  exact stealAny_classes_neut c cls tree free _ 8 0

theorem demoteAny_slots_neut (cls : Nat) (loc tree : Option Nat) (free : Nat) (own rng : Nat × Nat) (cnt j : Nat) :
    NeutT (Locals.demoteAny.slots c cls loc tree free own rng cnt j) := by
  induction cnt generalizing j with
  | zero => unfold Locals.demoteAny.slots; simp
  | succ cnt ih =>
    unfold Locals.demoteAny.slots
    simp only [neut_bind_iff, neut_tryUpdate_slot]
    intro r
    cases r with
    | error e => exact ih (j + 1)
    | ok old =>
      simp only
      split
      · simp
      · split
        · simp only [neut_bind_iff]
          apply Neut.mono _ _ (slotIdx_neut own _)
          intro idx _
          simp
        · simp

theorem demoteAny_classes_neut (cls : Nat) (loc tree : Option Nat) (free : Nat) (own : Nat × Nat) (cnt i : Nat) :
    NeutT (Locals.demoteAny.classes c cls loc tree free own cnt i) := by
  induction cnt generalizing i with
  | zero => unfold Locals.demoteAny.classes; simp
  | succ cnt ih =>
    unfold Locals.demoteAny.classes
    simp only
    split
    · exact ih (i + 1)
    · split
      · exact ih (i + 1)
      · simp only [neut_bind_iff]
        apply Neut.mono _ _ (demoteAny_slots_neut c cls loc tree free own _ _ _)
        intro r _
        cases r with
        | none => exact ih (i + 1)
        | some x => simp

theorem demoteAny_neut (cls : Nat) (loc tree : Option Nat) (free : Nat) :
    NeutT (Locals.demoteAny c cls loc tree free) := by
  unfold Locals.demoteAny
  simp only [neut_bind_iff]
  apply Neut.mono _ _ (classRange_neut c cls)
  intro r _
  cases r with
  | none => simp
  | some own => exact demoteAny_classes_neut c cls loc tree free own 7 1


theorem drain_slots_neut (unres : Nat → Nat → Nat → Prog Unit) (hu : ∀ a b d, NeutT (unres a b d)) (cls base cnt j : Nat) :
    NeutT (Locals.drain.slots unres cls base cnt j) := by
  induction cnt generalizing j with
  | zero => unfold Locals.drain.slots; simp
  | succ cnt ih =>
    unfold Locals.drain.slots
    simp only [neut_bind_iff, neut_swapK_slot]
    intro old
    show Neut _ (if old.present = true then _ else _)
    split
    · simp only [neut_bind_iff]
      apply Neut.mono _ _ (hu _ _ _)
      intro _ _; exact ih (j + 1)
    · exact ih (j + 1)

theorem drain_classes_neut (unres : Nat → Nat → Nat → Prog Unit) (hu : ∀ a b d, NeutT (unres a b d)) (cnt i : Nat) :
    NeutT (Locals.drain.classes c unres cnt i) := by
  induction cnt generalizing i with
  | zero => unfold Locals.drain.classes; simp
  | succ cnt ih =>
    unfold Locals.drain.classes
    show Neut _ (match c.slotRange i with | some rng => _ | none => _)
    cases c.slotRange i with
    | none => exact ih (i + 1)
    | some rng =>
      simp only [neut_bind_iff]
      apply Neut.mono _ _ (drain_slots_neut unres hu _ _ _ _)
      intro _ _; exact ih (i + 1)

theorem drain_neut : NeutT (drain c) := by
  unfold drain Locals.drain
  exact drain_classes_neut c _ (fun a b d => tunreserve_neut c _ _ _) 8 0

end
end LLFree
