/-
  `SortedBuffer::add` keeps the `n` greatest values in ascending order.
-/
import LLFreeV.Model.Trees
namespace LLFree.SortedBuffer

variable {τ : Type} (le : τ → τ → Bool)

/-- the order is a total preorder -/
structure TotalPreorder : Prop where
  total : ∀ a b, le a b = true ∨ le b a = true
  trans : ∀ a b c, le a b = true → le b c = true → le a c = true

/-- Invariant relating the buffer to the values inserted so far (`xs`) through the list of
    values that were dropped. -/
structure Inv (n : Nat) (xs buf dropped : List τ) : Prop where
  sorted : buf.Pairwise (fun a b => le a b = true)
  perm : (buf ++ dropped).Perm xs
  len : buf.length ≤ n
  full : dropped ≠ [] → buf.length = n
  best : ∀ d ∈ dropped, ∀ b ∈ buf, le d b = true

/-- the insertion step on an explicit split `buf = lo ++ hi` -/
def insertSplit (n : Nat) (buf lo hi : List τ) (value : τ) : List τ :=
  if buf.length < n then lo ++ value :: hi
  else match lo with
    | [] => buf
    | _ :: lo' => lo' ++ value :: hi

theorem insertSplit_inv (hle : TotalPreorder le) (n : Nat) (xs buf dropped lo hi : List τ) (value : τ)
    (h : Inv le n xs buf dropped) (hsplit : buf = lo ++ hi)
    (hlo : ∀ a ∈ lo, le a value = true) (hhi : ∀ b ∈ hi, le value b = true) :
    ∃ dropped', Inv le n (value :: xs) (insertSplit n buf lo hi value) dropped' := by
  subst hsplit
  have hparts := List.pairwise_append.1 h.sorted
  unfold insertSplit
  by_cases hlen : (lo ++ hi).length < n
  · simp only [hlen, if_true]
    have hdrop : dropped = [] := by
      cases hd : dropped with
      | nil => rfl
      | cons d ds => have := h.full (by simp [hd]); omega
    subst hdrop
    refine ⟨[], ?_, ?_, ?_, by simp, by simp⟩
    · apply List.pairwise_append.2
      refine ⟨hparts.1, List.pairwise_cons.2 ⟨hhi, hparts.2.1⟩, ?_⟩
      intro a ha b hb
      rcases List.mem_cons.1 hb with rfl | hb
      · exact hlo a ha
      · exact hparts.2.2 a ha b hb
    · simp only [List.append_nil]
      have h1 : (lo ++ value :: hi).Perm (value :: (lo ++ hi)) := List.perm_middle
      have h2 := h.perm; simp only [List.append_nil] at h2
      exact h1.trans (List.Perm.cons _ h2)
    · simp only [List.length_append, List.length_cons] at hlen ⊢; omega
  · simp only [hlen, if_false]
    have hfull : (lo ++ hi).length = n := by have := h.len; omega
    cases lo with
    | nil =>
      simp only
      refine ⟨value :: dropped, h.sorted, ?_, h.len, fun _ => hfull, ?_⟩
      · have : (([] ++ hi) ++ value :: dropped).Perm (value :: (([] ++ hi) ++ dropped)) := List.perm_middle
        exact this.trans (List.Perm.cons _ h.perm)
      · intro d hd b hb
        rcases List.mem_cons.1 hd with rfl | hd
        · exact hhi b (by simpa using hb)
        · exact h.best d hd b hb
    | cons x lo' =>
      simp only
      have hxv : le x value = true := hlo x (by simp)
      have hsx : (x :: (lo' ++ hi)).Pairwise (fun a b => le a b = true) := by simpa using h.sorted
      have hx_le : ∀ b ∈ lo' ++ hi, le x b = true := (List.pairwise_cons.1 hsx).1
      have hrest := List.pairwise_append.1 (List.pairwise_cons.1 hsx).2
      refine ⟨x :: dropped, ?_, ?_, ?_, fun _ => ?_, ?_⟩
      · apply List.pairwise_append.2
        refine ⟨hrest.1, List.pairwise_cons.2 ⟨hhi, hrest.2.1⟩, ?_⟩
        intro a ha b hb
        rcases List.mem_cons.1 hb with rfl | hb
        · exact hlo a (List.mem_cons_of_mem _ ha)
        · exact hrest.2.2 a ha b hb
      · have a1 : (lo' ++ value :: hi).Perm (value :: (lo' ++ hi)) := List.perm_middle
        have a2 : ((lo' ++ value :: hi) ++ x :: dropped).Perm
            ((value :: (lo' ++ hi)) ++ x :: dropped) := List.Perm.append_right _ a1
        have a3 : ((value :: (lo' ++ hi)) ++ x :: dropped).Perm
            (x :: ((value :: (lo' ++ hi)) ++ dropped)) := List.perm_middle
        have a4 : (x :: ((value :: (lo' ++ hi)) ++ dropped)).Perm
            (value :: ((x :: lo' ++ hi) ++ dropped)) := by
          simpa using List.Perm.swap value x ((lo' ++ hi) ++ dropped)
        exact ((a2.trans a3).trans a4).trans (List.Perm.cons _ h.perm)
      · simp only [List.length_append, List.length_cons] at hfull ⊢; omega
      · simp only [List.length_append, List.length_cons] at hfull ⊢; omega
      · intro d hd b hb
        have hb' : b = value ∨ b ∈ lo' ++ hi := by
          rcases List.mem_append.1 hb with h1 | h1
          · exact Or.inr (List.mem_append.2 (Or.inl h1))
          · rcases List.mem_cons.1 h1 with rfl | h2
            · exact Or.inl rfl
            · exact Or.inr (List.mem_append.2 (Or.inr h2))
        rcases List.mem_cons.1 hd with rfl | hd
        · rcases hb' with rfl | hb'
          · exact hxv
          · exact hx_le b hb'
        · have hdx : le d x = true := h.best d hd x (by simp)
          rcases hb' with rfl | hb'
          · exact hle.trans _ _ _ hdx hxv
          · exact h.best d hd b (by simp only [List.cons_append]; exact List.mem_cons_of_mem _ hb')

theorem add_eq_insertSplit (n : Nat) (buf : List τ) (value : τ) :
    add le n buf value =
      insertSplit n buf (buf.takeWhile (fun v => !le value v)) (buf.dropWhile (fun v => !le value v)) value := by
  unfold add insertSplit; rfl

theorem add_inv (hle : TotalPreorder le) (n : Nat) (xs buf dropped : List τ) (value : τ)
    (h : Inv le n xs buf dropped) :
    ∃ dropped', Inv le n (value :: xs) (add le n buf value) dropped' := by
  rw [add_eq_insertSplit]
  have hsplit : buf = buf.takeWhile (fun v => !le value v) ++ buf.dropWhile (fun v => !le value v) :=
    List.takeWhile_append_dropWhile.symm
  apply insertSplit_inv le hle n xs buf dropped _ _ value h hsplit
  · intro a ha
    have hall := List.all_takeWhile (p := fun v => !le value v) (l := buf)
    have : (!le value a) = true := (List.all_eq_true.1 hall) a ha
    have hn : le value a = false := by simpa using this
    rcases hle.total a value with h1 | h1
    · exact h1
    · rw [hn] at h1; cases h1
  · intro b hb
    have hsorted' := h.sorted
    rw [hsplit] at hsorted'
    have hparts := List.pairwise_append.1 hsorted'
    generalize hd : buf.dropWhile (fun v => !le value v) = hi at hb hparts
    cases hi with
    | nil => cases hb
    | cons y ys =>
      have hy : (!le value y) = false := by
        have := List.head?_dropWhile_not (fun v => !le value v) buf
        rw [hd] at this
        simpa using this
      have hvy : le value y = true := by simpa using hy
      rcases List.mem_cons.1 hb with rfl | hmem
      · exact hvy
      · exact hle.trans _ _ _ hvy ((List.pairwise_cons.1 hparts.2.1).1 b hmem)

/-- Inserting any sequence (in order) into an empty buffer of capacity `n`. -/
def addAll (n : Nat) (xs : List τ) : List τ := xs.foldl (add le n) []

theorem addAll_inv (hle : TotalPreorder le) (n : Nat) (xs : List τ) :
    ∃ dropped, Inv le n xs.reverse (addAll le n xs) dropped := by
  suffices h : ∀ (ys : List τ) (acc : List τ) (done : List τ) (dropped : List τ),
      Inv le n done acc dropped → ∃ dropped', Inv le n (ys.reverse ++ done) (ys.foldl (add le n) acc) dropped' by
    have := h xs [] [] [] ⟨List.Pairwise.nil, by simp, by simp, by simp, by simp⟩
    simpa [addAll] using this
  intro ys
  induction ys with
  | nil => intro acc done dropped h; exact ⟨dropped, by simpa using h⟩
  | cons y ys ih =>
    intro acc done dropped h
    obtain ⟨d', h'⟩ := add_inv le hle n done acc dropped y h
    obtain ⟨d'', h''⟩ := ih (add le n acc y) (y :: done) d' h'
    exact ⟨d'', by simpa using h''⟩

end LLFree.SortedBuffer
