/-
  the single-row mask and update closure of `Bitfield::toggle` / `Bitfield::is_zero` regenerated from core/src/bitfield.rs (`Gen/Toggle.lean`) equal the model's.
-/
import LLFreeV.Gen.Toggle
import LLFreeV.Model.Lower
namespace LLFree.GenTree
open LLFree

/-! ### single-row bit updates (`Gen/Toggle.lean`) -/

theorem toggleMask_eq (bits sh : Nat) (hb : bits ≤ 64) (hs : sh < 64) :
    Gen.B.toggleMask (BitVec.ofNat 64 bits) (BitVec.ofNat 64 sh) = bitMask bits sh := by
  unfold Gen.B.toggleMask bitMask rowMax
  have h1 : (64#64 - BitVec.ofNat 64 bits).toNat = 64 - bits := by
    rw [BitVec.toNat_sub]
    simp only [BitVec.toNat_ofNat]
    omega
  have h2 : (BitVec.ofNat 64 sh).toNat = sh := by simp only [BitVec.toNat_ofNat]; omega
  rw [BitVec.ushiftRight_eq', BitVec.shiftLeft_eq', h1, h2]

theorem isZeroMask_eq (bits sh : Nat) (hb : bits ≤ 64) (hs : sh < 64) :
    Gen.B.isZeroMask (BitVec.ofNat 64 bits) (BitVec.ofNat 64 sh) = bitMask bits sh :=
  toggleMask_eq bits sh hb hs

/-- the update closure of `toggle` (orders 0..2) is the one of the model -/
theorem toggleSmall_eq (e mask : BitVec 64) (expected : Bool) :
    Gen.B.toggleSmall e mask expected =
      (if expected then (if e &&& mask = mask then some (e &&& ~~~mask) else none)
       else (if e &&& mask = 0 then some (e ||| mask) else none)) := by
  unfold Gen.B.toggleSmall
  cases expected <;> simp

theorem isZeroRow_eq (row mask : BitVec 64) : Gen.B.isZeroRow row mask = decide ((row &&& mask) = 0) := by
  unfold Gen.B.isZeroRow
  by_cases h : row &&& mask = 0#64 <;> simp [h]

end LLFree.GenTree
