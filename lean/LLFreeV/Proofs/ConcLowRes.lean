/-
  The lower allocator's programs touch neither tree entries nor slots (`LowRes`), and where
  `Lower::get` reports a frame it lies in the tree it was asked to search.
-/
import LLFreeV.Proofs.ConcUpper
import LLFreeV.Proofs.BoundLower
import LLFreeV.Proofs.Neutral
namespace LLFree
open Prog

/-- one step of the walker for `LowRes` goals -/
syntax "lstep" "[" term,* "]" : tactic
macro_rules
  | `(tactic| lstep [$ts,*]) => `(tactic| first
    | exact trivial
    | (show LowerMsg _; simp [LowerMsg, lowerMsgs]; done)
    | (refine ⟨fun cur s h => absurd h (ofOption_ne_panic _ _), fun _ => ?_⟩)
    | (refine ⟨fun cur s h => Huge.inc_panic _ _ _ _ h, fun _ => ?_⟩)
    | (intro e he; cases he; first | rfl | done)
    | (intro _)
    $[| exact LowRes.mono (fun _ _ => trivial) _ ($ts ..)]*
    $[| exact $ts]*
    $[| exact ($ts ..)]*
    $[| refine LowRes.bind _ _ ($ts ..) (fun _ _ => ?_)]*
    $[| refine LowRes.bind _ _ $ts (fun _ _ => ?_)]*
    | split
    | dsimp only [Prog.bind, Bind.bind, Pure.pure, loadK, storeK, swapK, casK, casPartK, updK, tryUpdate, LowRes])

syntax "lauto" "[" term,* "]" : tactic
macro_rules
  | `(tactic| lauto [$ts,*]) => `(tactic| repeat' (lstep [$ts,*]))

theorem Huge.inc_panic (len e n : Nat) (s : String) (h : Huge.inc len e n = .panic s) : LowerMsg s := by
  unfold Huge.inc at h
  split at h
  · cases h; simp [LowerMsg, lowerMsgs]
  · split at h <;> cases h

section
variable (g : Geom)

abbrev LowT {α : Type} (p : Prog α) : Prop := LowRes (fun _ => True) p
/-- lower-only, and the only error reported is `Memory` -/
abbrev LowM {α : Type} (p : Prog (Res α)) : Prop := LowRes (fun r => ∀ e, r = .error e → e = Err.memory) p

theorem casRangeUndo_low (k : Kind) (hk : k = .row ∨ k = .huge) (base : Nat) (cur new : k.Val) (msg : String) (hmsg : LowerMsg msg) :
    ∀ cnt j, LowT (casRangeUndo k base cur new msg cnt j) := by
  intro cnt
  induction cnt with
  | zero => intro j; unfold casRangeUndo; exact trivial
  | succ cnt ih =>
    intro j
    unfold casRangeUndo
    rcases hk with rfl | rfl <;> lauto [ih, hmsg]

theorem casRange_low (k : Kind) (hk : k = .row ∨ k = .huge) (base : Nat) (cur new : k.Val) (msg : String) (hmsg : LowerMsg msg) :
    ∀ cnt j, LowT (casRange k base cur new msg cnt j) := by
  intro cnt
  induction cnt with
  | zero => intro j; unfold casRange; exact trivial
  | succ cnt ih =>
    intro j
    unfold casRange
    have hu := casRangeUndo_low k hk base cur new msg hmsg
    rcases hk with rfl | rfl <;> lauto [ih, hu]

theorem toggleUndo_low (h : Nat) (exp : BitVec 64) : ∀ cnt j, LowT (Bitfield.toggle.undo g h exp cnt j) := by
  intro cnt
  induction cnt with
  | zero => intro j; unfold Bitfield.toggle.undo; exact trivial
  | succ cnt ih => intro j; unfold Bitfield.toggle.undo; lauto [ih]

theorem toggleGo_low (h di : Nat) (exp : BitVec 64) : ∀ cnt j, LowM (Bitfield.toggle.go g h di exp cnt j) := by
  intro cnt
  induction cnt with
  | zero => intro j; unfold Bitfield.toggle.go; intro e he; cases he
  | succ cnt ih =>
    intro j
    unfold Bitfield.toggle.go
    dsimp only [Bind.bind, casK, Prog.bind, LowRes]
    intro r
    cases r with
    | ok _ => exact ih (j + 1)
    | error _ =>
      dsimp only [Prog.bind]
      refine LowRes.bind _ _ (toggleUndo_low g h exp _ _) (fun _ _ => ?_)
      intro e he; cases he; rfl

theorem toggle_low (h i order : Nat) (expected : Bool) : LowM (Bitfield.toggle g h i order expected) := by
  unfold Bitfield.toggle
  dsimp only
  split
  · dsimp only [Bind.bind, tryUpdate, Prog.bind, LowRes]
    refine ⟨fun cur s h => absurd h (ofOption_ne_panic _ _), fun r => ?_⟩
    cases r with
    | ok _ => intro e he; cases he
    | error _ => intro e he; cases he; rfl
  · split
    · dsimp only [Bind.bind, casPartK, Prog.bind, LowRes]
      intro r
      cases r with
      | true => intro e he; cases he
      | false => intro e he; cases he; rfl
    · exact toggleGo_low g _ _ _ _ _

theorem allZero_low (h : Nat) : ∀ cnt r, LowT (Bitfield.setFirstZeroRows.allZero g h cnt r) := by
  intro cnt
  induction cnt with
  | zero => intro r; unfold Bitfield.setFirstZeroRows.allZero; exact trivial
  | succ cnt ih => intro r; unfold Bitfield.setFirstZeroRows.allZero; lauto [ih]

/-- the chunk search reports a chunk that starts inside the bitfield -/
theorem chunks_low (h n : Nat) (hn : 0 < n) :
    ∀ cnt ci, (ci + cnt) * n < g.rows + n →
      LowRes (fun r => ∀ x, r = .ok x → x < g.rows) (Bitfield.setFirstZeroRows.chunks g h n cnt ci) := by
  intro cnt
  induction cnt with
  | zero => intro ci _; unfold Bitfield.setFirstZeroRows.chunks; intro x hx; cases hx
  | succ cnt ih =>
    intro ci hci
    unfold Bitfield.setFirstZeroRows.chunks
    have hstart : ci * n < g.rows := by
      have : (ci + (cnt + 1)) * n = ci * n + cnt * n + n := by rw [Nat.add_mul, Nat.add_mul, Nat.one_mul]; omega
      omega
    have hnext := ih (ci + 1) (by
      have : (ci + 1 + cnt) * n = (ci + (cnt + 1)) * n := by congr 1; omega
      omega)
    have hcr := fun b cu ne => casRange_low .row (Or.inl rfl) b cu ne "Failed undo search" (by simp [LowerMsg, lowerMsgs])
    dsimp only
    refine LowRes.bind _ _ (allZero_low g h _ _) (fun z _ => ?_)
    split
    · refine LowRes.bind _ _ (hcr _ _ _ _ _) (fun okk _ => ?_)
      split
      · intro x hx; cases hx; exact hstart
      · exact hnext
    · exact hnext

theorem ceil_mul_lt (r n : Nat) (hn : 0 < n) : ((r + n - 1) / n) * n < r + n := by
  have := Nat.div_mul_le_self (r + n - 1) n
  omega

theorem setFirstZeroRows_low (h order : Nat) :
    LowRes (fun r => ∀ x, r = .ok x → x < g.rows) (Bitfield.setFirstZeroRows g h order) := by
  unfold Bitfield.setFirstZeroRows
  have hpos : 0 < 2 ^ (order - 6) := Nat.pos_of_ne_zero (by simp)
  exact chunks_low g h _ hpos _ 0 (by rw [Nat.zero_add]; exact ceil_mul_lt _ _ hpos)

theorem fza_off_lt (v : BitVec 64) (o : Nat) (nv : BitVec 64) (off : Nat) (h : Gen.fza v o = some (nv, off)) : off < 64 := by
  unfold Gen.fza at h
  split at h
  · unfold Gen.fza0 at h; simp only at h; split at h
    · rename_i hc; cases h; simpa [BitVec.lt_def] using hc
    · cases h
  · unfold Gen.fza1 at h; simp only at h; split at h
    · rename_i hc; cases h; simpa [BitVec.lt_def] using hc
    · cases h
  · unfold Gen.fza2 at h; simp only at h; split at h
    · rename_i hc; cases h; simpa [BitVec.lt_def] using hc
    · cases h
  · unfold Gen.fza3 at h; simp only at h; split at h
    · rename_i hc; cases h; simpa [BitVec.lt_def] using hc
    · cases h
  · unfold Gen.fza4 at h; simp only at h; split at h
    · rename_i hc; cases h; simpa [BitVec.lt_def] using hc
    · cases h
  · unfold Gen.fza5 at h; simp only at h
    split at h
    · cases h; decide
    · split at h
      · cases h; decide
      · cases h
  · unfold Gen.fza6 at h
    split at h
    · cases h; decide
    · cases h
  · cases h

theorem setFirstZerosGo_low (h startRow order : Nat) (hr : 0 < g.rows) :
    ∀ cnt i, LowRes (fun r => ∀ x, r = .ok x → x < g.rows * 64) (Bitfield.setFirstZeros.go g h startRow order cnt i) := by
  intro cnt
  induction cnt with
  | zero => intro i; unfold Bitfield.setFirstZeros.go; intro x hx; cases hx
  | succ cnt ih =>
    intro i
    unfold Bitfield.setFirstZeros.go
    dsimp only [Bind.bind, tryUpdate, Prog.bind, LowRes]
    refine ⟨fun cur s h => absurd h (ofOption_ne_panic _ _), fun r => ?_⟩
    cases r with
    | error e => exact ih (i + 1)
    | ok old =>
      dsimp only [Prog.bind]
      cases hf : Gen.fza old order with
      | none => show LowerMsg _; simp [LowerMsg, lowerMsgs]
      | some p =>
        obtain ⟨nv, off⟩ := p
        dsimp only [Pure.pure, LowRes]
        intro x hx
        cases hx
        have := fza_off_lt old order nv off hf
        have hlt : (i + startRow % g.rows) % g.rows < g.rows := Nat.mod_lt _ hr
        have : ((i + startRow % g.rows) % g.rows + 1) * 64 ≤ g.rows * 64 := Nat.mul_le_mul_right _ hlt
        omega

/-- the search inside a bitfield reports an offset inside the bitfield -/
theorem setFirstZeros_low (okg : GeomOk g) (h startRow order : Nat) :
    LowRes (fun r => ∀ x, r = .ok x → x < g.hugeFrames) (Bitfield.setFirstZeros g h startRow order) := by
  unfold Bitfield.setFirstZeros
  have hrm := okg.rows_mul
  split
  · refine LowRes.bind _ _ (setFirstZeroRows_low g h order) (fun r hr => ?_)
    intro x hx
    cases r with
    | error e => cases hx
    | ok y =>
      have := hr y rfl
      simp only [Except.map] at hx
      cases hx
      have : (y + 1) * 64 ≤ g.rows * 64 := Nat.mul_le_mul_right _ this
      omega
  · refine LowRes.mono ?_ _ (setFirstZerosGo_low g h startRow order okg.rows_pos _ 0)
    intro r hr x hx
    have := hr x hx
    omega

/-! ### `Lower` -/

theorem casAll_low (t cc n cur new : Nat) : LowT (casAll g t cc n cur new) := by
  unfold casAll
  exact casRange_low .huge (Or.inr rfl) _ _ _ _ (by simp [LowerMsg, lowerMsgs]) _ _

theorem getAt_low (frame order : Nat) : LowM (Lower.getAt g frame order) := by
  unfold Lower.getAt
  dsimp only
  split
  · split
    · show LowerMsg _; simp [LowerMsg, lowerMsgs]
    · refine LowRes.bind _ _ (casAll_low g _ _ _ _ _) (fun okk _ => ?_)
      cases okk with
      | true => intro e he; cases he
      | false => intro e he; cases he; rfl
  · dsimp only [Bind.bind, tryUpdate, Prog.bind, LowRes]
    refine ⟨fun cur s h => absurd h (ofOption_ne_panic _ _), fun r => ?_⟩
    cases r with
    | error _ => intro e he; cases he; rfl
    | ok _ =>
      dsimp only [Prog.bind]
      refine LowRes.bind _ _ (toggle_low g _ _ _ _) (fun tg _ => ?_)
      cases tg with
      | ok _ => intro e he; cases he
      | error _ =>
        dsimp only [Bind.bind, updK, Prog.bind, LowRes]
        refine ⟨fun cur s h => Huge.inc_panic _ _ _ _ h, fun u => ?_⟩
        cases u with
        | ok _ => intro e he; cases he; rfl
        | error _ => show LowerMsg _; simp [LowerMsg, lowerMsgs]

/-- a frame `(t·TH + i)·HF + off` with `i < TH`, `off < HF` lies in tree `t` -/
theorem frame_in_tree (okg : GeomOk g) (t i off : Nat) (hi : i < g.treeHuge) (hoff : off < g.hugeFrames) :
    ((t * g.treeHuge + i) * g.hugeFrames + off) / g.treeFrames = t := by
  have htf := okg.tf_eq
  have : (t * g.treeHuge + i) * g.hugeFrames + off = t * g.treeFrames + (i * g.hugeFrames + off) := by
    rw [htf, Nat.add_mul, Nat.mul_assoc]; omega
  rw [this, Nat.mul_comm t, Nat.mul_add_div okg.tf_pos]
  have : i * g.hugeFrames + off < g.treeFrames := by
    rw [htf]
    have : (i + 1) * g.hugeFrames ≤ g.treeHuge * g.hugeFrames := Nat.mul_le_mul_right _ hi
    rw [Nat.add_mul, Nat.one_mul] at this
    omega
  rw [Nat.div_eq_of_lt this]; omega

theorem getGoH_low (okg : GeomOk g) (t hNum childOff : Nat) :
    ∀ cnt k, LowRes (fun r => (∀ e, r = .error e → e = Err.memory) ∧ ∀ f, r = .ok f → f / g.treeFrames = t) (Lower.get.goH g t (t * g.treeFrames) hNum childOff cnt k) := by
  intro cnt
  induction cnt with
  | zero => intro k; unfold Lower.get.goH; exact ⟨(fun e he => by cases he; rfl), (fun f hf => by cases hf)⟩
  | succ cnt ih =>
    intro k
    unfold Lower.get.goH
    dsimp only
    split
    · show LowerMsg _; simp [LowerMsg, lowerMsgs]
    · rename_i hfit
      refine LowRes.bind _ _ (casAll_low g _ _ _ _ _) (fun okk _ => ?_)
      split
      · refine ⟨(fun e he => by cases he), ?_⟩
        intro f hf
        cases hf
        have hlt : (childOff + k * hNum) % g.treeHuge < g.treeHuge := Nat.mod_lt _ okg.th_pos
        have e : t * g.treeFrames + (childOff + k * hNum) % g.treeHuge * g.hugeFrames =
            (t * g.treeHuge + (childOff + k * hNum) % g.treeHuge) * g.hugeFrames + 0 := by
          rw [okg.tf_eq, Nat.add_mul, Nat.mul_assoc]; omega
        rw [e]
        exact frame_in_tree g okg t _ 0 hlt okg.hf_pos
      · exact ih (k + 1)

theorem getGo_low (okg : GeomOk g) (start order t childOff : Nat) :
    ∀ cnt j, LowRes (fun r => (∀ e, r = .error e → e = Err.memory) ∧ ∀ f, r = .ok f → f / g.treeFrames = t) (Lower.get.go g start order t childOff (t * g.treeHuge) cnt j) := by
  intro cnt
  induction cnt with
  | zero => intro j; unfold Lower.get.go; exact ⟨(fun e he => by cases he; rfl), (fun f hf => by cases hf)⟩
  | succ cnt ih =>
    intro j
    unfold Lower.get.go
    dsimp only [Bind.bind, tryUpdate, updK, Prog.bind, LowRes]
    refine ⟨fun cur s h => absurd h (ofOption_ne_panic _ _), fun r => ?_⟩
    cases r with
    | error e => exact ih (j + 1)
    | ok old =>
      dsimp only [Prog.bind]
      refine LowRes.bind _ _ (setFirstZeros_low g okg _ _ _) (fun s hs => ?_)
      cases s with
      | ok off =>
        refine ⟨(fun e he => by cases he), ?_⟩
        intro f hf
        cases hf
        exact frame_in_tree g okg t _ off (Nat.mod_lt _ okg.th_pos) (hs off rfl)
      | error e =>
        dsimp only [Bind.bind, updK, Prog.bind, LowRes]
        refine ⟨fun cur s h => Huge.inc_panic _ _ _ _ h, fun u => ?_⟩
        cases u with
        | ok _ => exact ih (j + 1)
        | error _ => show LowerMsg _; simp [LowerMsg, lowerMsgs]

/-- **`Lower::get`**: lower-only; an untargeted success lies in the searched tree, a targeted one
    is the target -/
theorem lowerGet_low (okg : GeomOk g) (start order : Nat) (frame : Option Nat) :
    LowRes (fun r => (∀ e, r = .error e → e = Err.memory) ∧
        ∀ f, r = .ok f → match frame with | some x => f = x | none => f / g.treeFrames = start * 64 / g.treeFrames)
      (Lower.get g start order frame) := by
  unfold Lower.get
  cases frame with
  | some x =>
    dsimp only
    refine LowRes.bind _ _ (getAt_low g x order) (fun r hr => ?_)
    refine ⟨?_, ?_⟩
    · intro e he
      cases r with
      | ok _ => cases he
      | error e' => simp only [Except.map] at he; cases he; exact hr _ rfl
    · intro f hf
      cases r with
      | ok _ => simp only [Except.map] at hf; cases hf; rfl
      | error e => cases hf
  | none =>
    dsimp only
    split
    · exact getGoH_low g okg _ _ _ _ _
    · have : start * 64 / g.treeFrames * g.treeFrames / g.hugeFrames = start * 64 / g.treeFrames * g.treeHuge := by
        rw [okg.tf_eq, ← Nat.mul_assoc]; exact Nat.mul_div_cancel _ okg.hf_pos
      rw [this]
      exact getGo_low g okg _ _ _ _ _ _

theorem putSmall_low (frame order : Nat) : LowT (Lower.putSmall g frame order) := by
  unfold Lower.putSmall
  have ht := fun a b d e => LowRes.mono (Q := fun _ => True) (fun _ _ => trivial) _ (toggle_low g a b d e)
  lauto [ht]
  refine ⟨fun cur s h => Huge.inc_panic _ _ _ _ h, fun _ => ?_⟩
  lauto []

theorem spinWait_low (t i : Nat) : ∀ n, LowT (spinWaitNotHuge g t i n) := by
  intro n
  induction n with
  | zero => unfold spinWaitNotHuge; exact trivial
  | succ n ih => unfold spinWaitNotHuge; lauto [ih]

theorem partialPutHuge_low (retries old frame order : Nat) : LowT (Lower.partialPutHuge g retries old frame order) := by
  unfold Lower.partialPutHuge
  have ht := fun a b d e => LowRes.mono (Q := fun _ => True) (fun _ _ => trivial) _ (toggle_low g a b d e)
  lauto [ht, putSmall_low, spinWait_low]

/-- **`Lower::put`** is lower-only -/
theorem lowerPut_low (retries frame order : Nat) : LowT (Lower.put g retries frame order) := by
  unfold Lower.put
  lauto [casAll_low, partialPutHuge_low, putSmall_low]

end
end LLFree
