/-
  `Trees::search_best`: a generic specification (soundness of the search loop for any access
  function that keeps an invariant while it answers `Memory`).
-/
import LLFreeV.Proofs.UpperGet3
namespace LLFree
open Prog

theorem SortedBuffer.add_mem {τ : Type} (le : τ → τ → Bool) (n : Nat) (buf : List τ) (v x : τ)
    (h : x ∈ SortedBuffer.add le n buf v) : x ∈ buf ∨ x = v := by
  unfold SortedBuffer.add at h
  have hsplit : buf.takeWhile (fun w => !le v w) ++ buf.dropWhile (fun w => !le v w) = buf := List.takeWhile_append_dropWhile
  simp only at h
  split at h
  · rcases List.mem_append.1 h with h1 | h1
    · left; rw [← hsplit]; exact List.mem_append_left _ h1
    · rcases List.mem_cons.1 h1 with h2 | h2
      · right; exact h2
      · left; rw [← hsplit]; exact List.mem_append_right _ h2
  · split at h
    · left; exact h
    · rename_i a lo' heq
      rcases List.mem_append.1 h with h1 | h1
      · left; rw [← hsplit, heq]; exact List.mem_append_left _ (List.mem_cons_of_mem _ h1)
      · rcases List.mem_cons.1 h1 with h2 | h2
        · right; exact h2
        · left; rw [← hsplit]; exact List.mem_append_right _ h2

section
variable {β : Type} (tf ntrees nbuf start : Nat) (rate : Nat → Nat → Policy) (access : Nat → Prog (Res β))
  (I : Mem → Prop) (Q : Res β → Mem → Prop)

theorem searchBest_tryBest_spec
    (hacc : ∀ j m, j < ntrees → I m → Runs m (access j) (fun r m' => (r = .error .memory → I m') ∧ (r ≠ .error .memory → Q r m')))
    (hend : ∀ m, I m → Q (.error .memory) m)
    (l : List ((Policy × Bool) × Nat)) (hl : ∀ x ∈ l, x.2 < ntrees) (m : Mem) (hI : I m) :
    Runs m (Trees.searchBest.tryBest access l) Q := by
  induction l generalizing m with
  | nil =>
    unfold Trees.searchBest.tryBest
    exact Runs.pure (hend m hI)
  | cons x rest ih =>
    obtain ⟨p, i⟩ := x
    unfold Trees.searchBest.tryBest
    apply Runs.bind (hacc i m (hl (p, i) (by simp)) hI)
    rintro r m1 ⟨h1, h2⟩
    cases r with
    | ok v => exact Runs.pure (h2 (by simp))
    | error e =>
      cases e with
      | memory => exact ih (fun x hx => hl x (by simp [hx])) m1 (h1 rfl)
      | argument => exact Runs.pure (h2 (by simp))
      | initialization => exact Runs.pure (h2 (by simp))

theorem searchBest_scan_spec
    (hacc : ∀ j m, j < ntrees → I m → Runs m (access j) (fun r m' => (r = .error .memory → I m') ∧ (r ≠ .error .memory → Q r m')))
    (hend : ∀ m, I m → Q (.error .memory) m)
    (hload : ∀ m, I m → ∀ j, j < ntrees → ∃ t : Tree, m.trees[j]? = some t)
    (cnt i : Nat) (best : Best) (hb : ∀ x ∈ best, x.2 < ntrees) (m : Mem) (hI : I m) (hn : cnt = 0 ∨ 0 < ntrees) :
    Runs m (Trees.searchBest.scan tf ntrees nbuf start rate access cnt i best) Q := by
  induction cnt generalizing i best m with
  | zero =>
    unfold Trees.searchBest.scan
    exact searchBest_tryBest_spec ntrees access I Q hacc hend best.reverse (fun x hx => hb x (List.mem_reverse.1 hx)) m hI
  | succ cnt ih =>
    unfold Trees.searchBest.scan
    have hpos : 0 < ntrees := by rcases hn with h | h; cases h; exact h
    have hne : ¬ ntrees = 0 := by omega
    simp only [hne, if_false]
    have hidx := searchIdx_lt start ntrees i hpos
    obtain ⟨t, ht⟩ := hload m hI _ hidx
    apply Runs.load_tree ht
    by_cases hr : t.reserved = true
    · simp only [hr, if_true]
      exact ih (i + 1) best hb m hI (Or.inr hpos)
    · simp only [hr, Bool.false_eq_true, if_false]
      cases hp : rate t.cls t.free with
      | invalid => exact ih (i + 1) best hb m hI (Or.inr hpos)
      | demote =>
        apply ih (i + 1) _ _ m hI (Or.inr hpos)
        intro x hx
        rcases SortedBuffer.add_mem _ _ _ _ _ hx with h | h
        · exact hb x h
        · rw [h]; exact hidx
      | steal =>
        apply ih (i + 1) _ _ m hI (Or.inr hpos)
        intro x hx
        rcases SortedBuffer.add_mem _ _ _ _ _ hx with h | h
        · exact hb x h
        · rw [h]; exact hidx
      | «match» q =>
        by_cases hq : q = 255
        · subst hq
          simp only
          apply Runs.bind (hacc _ m hidx hI)
          rintro r m1 ⟨h1, h2⟩
          cases r with
          | ok v => exact Runs.pure (h2 (by simp))
          | error e =>
            cases e with
            | memory => exact ih (i + 1) best hb m1 (h1 rfl) (Or.inr hpos)
            | argument => exact Runs.pure (h2 (by simp))
            | initialization => exact Runs.pure (h2 (by simp))
        · split
          · rename_i h; cases h; exact absurd rfl hq
          · rename_i h; cases h
          · apply ih (i + 1) _ _ m hI (Or.inr hpos)
            intro x hx
            rcases SortedBuffer.add_mem _ _ _ _ _ hx with h | h
            · exact hb x h
            · rw [h]; exact hidx

/-- **`Trees::search_best`** -/
theorem searchBest_spec (offset len : Nat)
    (hacc : ∀ j m, j < ntrees → I m → Runs m (access j) (fun r m' => (r = .error .memory → I m') ∧ (r ≠ .error .memory → Q r m')))
    (hend : ∀ m, I m → Q (.error .memory) m)
    (hload : ∀ m, I m → ∀ j, j < ntrees → ∃ t : Tree, m.trees[j]? = some t)
    (m : Mem) (hI : I m) (hn : len - offset = 0 ∨ 0 < ntrees) :
    Runs m (Trees.searchBest tf ntrees nbuf start offset len rate access) Q := by
  unfold Trees.searchBest
  exact searchBest_scan_spec tf ntrees nbuf start rate access I Q hacc hend hload _ _ [] (by simp) m hI hn

end
end LLFree
