/-
  Generic sequential specification of `casRange` (compare-exchange a range of entries with
  roll-back): all-or-nothing.
-/
import LLFreeV.Proofs.MemLemmas
namespace LLFree
open Prog

theorem Mem.get?_set_same (m : Mem) (k : Kind) (i : Nat) (v : k.Val) (j : Nat) :
    (m.set k i v).get? k j = if j = i then (m.get? k i).map (fun _ => v) else m.get? k j := by
  cases k <;>
  · simp only [Mem.get?, Mem.set, Array.getElem?_setIfInBounds]
    by_cases h : i = j
    · subst h
      simp only [if_true]
      split
      · rename_i hlt; simp [Array.getElem?_eq_getElem hlt]
      · rename_i hlt; simp [Array.getElem?_eq_none (Nat.le_of_not_lt hlt)]
    · have : ¬ j = i := fun e => h e.symm
      simp [h, this]

theorem Mem.get?_set_other (m : Mem) (k k' : Kind) (h : k' ≠ k) (i : Nat) (v : k.Val) (j : Nat) :
    (m.set k i v).get? k' j = m.get? k' j := by
  cases k <;> cases k' <;> first | exact absurd rfl h | rfl

theorem Mem.ext_get? {a b : Mem} (h : ∀ k j, a.get? k j = b.get? k j) : a = b := by
  obtain ⟨r1, h1, t1, s1⟩ := a
  obtain ⟨r2, h2, t2, s2⟩ := b
  have hr : r1 = r2 := Array.ext_getElem? (fun j => h .row j)
  have hh : h1 = h2 := Array.ext_getElem? (fun j => h .huge j)
  have ht : t1 = t2 := Array.ext_getElem? (fun j => h .tree j)
  have hs : s1 = s2 := Array.ext_getElem? (fun j => h .slot j)
  subst hr hh ht hs; rfl

/-- `m` is `m0` with the kind-`k` entries `[lo, hi)` replaced by `x` -/
structure RangeAre (k : Kind) (m0 m : Mem) (lo hi : Nat) (x : k.Val) : Prop where
  same : ∀ j, m.get? k j = if lo ≤ j ∧ j < hi then (m0.get? k j).map (fun _ => x) else m0.get? k j
  other : ∀ k', k' ≠ k → ∀ j, m.get? k' j = m0.get? k' j

theorem RangeAre.empty (k : Kind) (m : Mem) (lo : Nat) (x : k.Val) : RangeAre k m m lo lo x :=
  ⟨fun j => by have : ¬ (lo ≤ j ∧ j < lo) := by omega
               simp [this], fun _ _ _ => rfl⟩

theorem RangeAre.eq_of_empty {k : Kind} {m0 m : Mem} {lo : Nat} {x : k.Val} (h : RangeAre k m0 m lo lo x) : m = m0 := by
  apply Mem.ext_get?
  intro k' j
  by_cases e : k' = k
  · subst e
    rw [h.same]
    have : ¬ (lo ≤ j ∧ j < lo) := by omega
    simp [this]
  · exact h.other k' e j

theorem RangeAre.step {k : Kind} {m0 m : Mem} {lo hi : Nat} {x : k.Val} (h : RangeAre k m0 m lo hi x) (hlo : lo ≤ hi) :
    RangeAre k m0 (m.set k hi x) lo (hi + 1) x := by
  refine ⟨fun j => ?_, fun k' hk j => ?_⟩
  · rw [Mem.get?_set_same]
    by_cases hj : j = hi
    · subst hj
      have h1 : lo ≤ j ∧ j < j + 1 := ⟨hlo, by omega⟩
      have h2 : ¬ (lo ≤ j ∧ j < j) := by omega
      simp only [if_true, h1, and_self]
      rw [h.same]; simp [h2]
    · simp only [hj, if_false]
      rw [h.same]
      by_cases h1 : lo ≤ j ∧ j < hi
      · have : lo ≤ j ∧ j < hi + 1 := ⟨h1.1, by omega⟩
        simp [h1, this]
      · have : ¬ (lo ≤ j ∧ j < hi + 1) := by omega
        simp [h1, this]
  · rw [Mem.get?_set_other _ _ _ hk]; exact h.other k' hk j

theorem RangeAre.restore {k : Kind} {m0 m : Mem} {lo hi : Nat} {x y : k.Val} (h : RangeAre k m0 m lo hi x)
    (horig : m0.get? k (hi - 1) = some y) (hlo : lo < hi) :
    RangeAre k m0 (m.set k (hi - 1) y) lo (hi - 1) x := by
  refine ⟨fun j => ?_, fun k' hk j => ?_⟩
  · rw [Mem.get?_set_same]
    by_cases hj : j = hi - 1
    · subst hj
      have h2 : ¬ (lo ≤ hi - 1 ∧ hi - 1 < hi - 1) := by omega
      have h1 : lo ≤ hi - 1 ∧ hi - 1 < hi := by omega
      simp only [if_true, h2, if_false]
      rw [h.same]; simp [h1, horig]
    · simp only [hj, if_false]
      rw [h.same]
      by_cases h1 : lo ≤ j ∧ j < hi
      · have : lo ≤ j ∧ j < hi - 1 := ⟨h1.1, by omega⟩
        simp [h1, this]
      · have : ¬ (lo ≤ j ∧ j < hi - 1) := by omega
        simp [h1, this]
  · rw [Mem.get?_set_other _ _ _ hk]; exact h.other k' hk j

/-- the roll-back restores the original memory -/
theorem casRangeUndo_spec (k : Kind) (base : Nat) (cur new : k.Val) (msg : String) (m0 : Mem) :
    ∀ (cnt : Nat) (m : Mem) (j : Nat), cnt ≤ j →
      RangeAre k m0 m (base + (j - cnt)) (base + j) new →
      (∀ i, j - cnt ≤ i → i < j → m0.get? k (base + i) = some cur) →
      runSolo (casRangeUndo k base cur new msg cnt j) m = (m0, .ok ()) := by
  intro cnt
  induction cnt with
  | zero =>
    intro m j _ hra _
    simp only [Nat.sub_zero] at hra
    simp [casRangeUndo, hra.eq_of_empty]
  | succ cnt ih =>
    intro m j hcnt hra horig
    rw [casRangeUndo]
    have hcur : m.get? k (base + (j - 1)) = some new := by
      rw [hra.same]
      have : base + (j - (cnt + 1)) ≤ base + (j - 1) ∧ base + (j - 1) < base + j := by omega
      simp [this, horig (j - 1) (by omega) (by omega)]
    simp only [runSolo_bind]
    rw [runSolo_casK_some _ _ hcur]
    simp only [if_true, andThen_ok]
    have hra' := hra.restore (y := cur) (by
      have : base + j - 1 = base + (j - 1) := by omega
      rw [this]; exact horig (j - 1) (by omega) (by omega)) (by omega)
    have e1 : base + j - 1 = base + (j - 1) := by omega
    rw [e1] at hra'
    have e2 : j - (cnt + 1) = (j - 1) - cnt := by omega
    rw [e2] at hra'
    exact ih _ (j - 1) (by omega) hra' (fun i h1 h2 => horig i (by omega) (by omega))

/-- **`casRange`** is all-or-nothing -/
theorem casRange_spec (k : Kind) (base : Nat) (cur new : k.Val) (msg : String) (m0 : Mem) :
    ∀ (cnt : Nat) (m : Mem) (j : Nat),
      RangeAre k m0 m base (base + j) new →
      (∀ i, i < j → m0.get? k (base + i) = some cur) →
      (∀ i, i < j + cnt → (m0.get? k (base + i)).isSome = true) →
      ((∀ i, j ≤ i → i < j + cnt → m0.get? k (base + i) = some cur) →
        ∃ m', runSolo (casRange k base cur new msg cnt j) m = (m', .ok true) ∧
          RangeAre k m0 m' base (base + j + cnt) new) ∧
      ((¬ ∀ i, j ≤ i → i < j + cnt → m0.get? k (base + i) = some cur) →
        runSolo (casRange k base cur new msg cnt j) m = (m0, .ok false)) := by
  intro cnt
  induction cnt with
  | zero =>
    intro m j hra _ _
    have hall : ∀ i, j ≤ i → i < j + 0 → m0.get? k (base + i) = some cur := fun i h1 h2 => by omega
    exact ⟨fun _ => ⟨m, by simp [casRange], by simpa using hra⟩, fun hn => absurd hall hn⟩
  | succ cnt ih =>
    intro m j hra horig hex
    rw [casRange]
    have hcur : m.get? k (base + j) = m0.get? k (base + j) := by
      rw [hra.same]
      have : ¬ (base ≤ base + j ∧ base + j < base + j) := by omega
      simp [this]
    obtain ⟨v, hv⟩ : ∃ v, m0.get? k (base + j) = some v := by
      have := hex j (by omega)
      exact Option.isSome_iff_exists.1 this
    simp only [runSolo_bind]
    rw [runSolo_casK_some _ _ (hcur.trans hv)]
    by_cases hve : v = cur
    · subst hve
      simp only [if_true, andThen_ok]
      have hra' := hra.step (lo := base) (hi := base + j) (by omega)
      have hnext := ih (m.set k (base + j) new) (j + 1) hra'
        (by
          intro i hi
          by_cases e : i = j
          · subst e; exact hv
          · exact horig i (by omega))
        (by intro i hi; exact hex i (by omega))
      constructor
      · intro hall
        obtain ⟨m', hm', hra''⟩ := hnext.1 (fun i h1 h2 => hall i (by omega) (by omega))
        refine ⟨m', hm', ?_⟩
        have : base + (j + 1) + cnt = base + j + (cnt + 1) := by omega
        rwa [this] at hra''
      · intro hall
        apply hnext.2
        intro hh
        apply hall
        intro i h1 h2
        by_cases e : i = j
        · subst e; exact hv
        · exact hh i (by omega) (by omega)
    · have hall : ¬ ∀ i, j ≤ i → i < j + (cnt + 1) → m0.get? k (base + i) = some cur := by
        intro hh
        have := hh j (by omega) (by omega)
        rw [hv] at this; injection this with this; exact hve this
      refine ⟨fun hh => absurd hh hall, fun _ => ?_⟩
      simp only [hve, if_false, andThen_ok, runSolo_bind]
      have hu := casRangeUndo_spec k base cur new msg m0 j m j (Nat.le_refl _)
        (by simpa using hra) (fun i _ h2 => horig i h2)
      rw [hu]
      simp

end LLFree
