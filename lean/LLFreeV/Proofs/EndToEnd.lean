/-
  From `LLFree::new` (free-all / allocate-all) to every sequential history: the initialisation
  programs establish the invariants for every frame count, so the per-call refinement theorems
  apply to every call of every history of a freshly constructed allocator.
-/
import LLFreeV.Proofs.LowerInit2
import LLFreeV.Proofs.UpperInit
import LLFreeV.Proofs.LowerRecover
namespace LLFree
open Prog

section
variable {c : Cfg}

theorem FreshFree.allocated (ok : GeomOk16 c.geom) {m m' : Mem} (hs : ShapeOk c m) (h : FreshFree c m m') (f : Nat) :
    m'.allocated c.geom f = decide (c.frames ≤ f) := by
  have h16 := ok.hf_lt
  unfold Mem.allocated
  rw [h.bits]
  have : Huge.isHuge (m'.hugeE (f / c.geom.hugeFrames)) = false := by
    have hle : m'.hugeE (f / c.geom.hugeFrames) ≤ c.geom.hugeFrames := by
      by_cases hj : f / c.geom.hugeFrames < c.ntrees * c.geom.treeHuge
      · rw [h.entries _ hj]; exact Nat.min_le_right _ _
      · rw [hugeE_beyond m' _ (by rw [h.hugeSize, hs.huge]; omega)]; omega
    simp [Huge.isHuge, HugeMarker]; omega
  rw [this]; simp

theorem FreshAlloc.allocated (okg : GeomOk c.geom) {m m' : Mem} (h : FreshAlloc c m m') (hs : ShapeOk c m) (f : Nat) :
    m'.allocated c.geom f = true := by
  unfold Mem.allocated
  rw [h.bits]
  by_cases a : c.frames / c.geom.hugeFrames ≤ f / c.geom.hugeFrames
  · simp [a]
  · have hlt : f / c.geom.hugeFrames < c.frames / c.geom.hugeFrames := by omega
    have hL2 : c.frames / c.geom.hugeFrames ≤ c.ntrees * c.geom.treeHuge := by
      have h1 : c.nhuge ≤ c.ntrees * c.geom.treeHuge := okg.ceil_hf_le c.frames
      have h2 : c.frames / c.geom.hugeFrames ≤ c.nhuge := by
        unfold Cfg.nhuge; exact Nat.div_le_div_right (by have := okg.hf_pos; omega)
      omega
    rw [h.entries _ (by omega), if_pos hlt]
    simp [Huge.isHuge]

theorem ShapeOk.of_mem (m : Mem) (h1 : m.rows.size = c.nhuge * c.geom.rows) (h2 : m.huge.size = c.ntrees * c.geom.treeHuge)
    (h3 : m.trees.size = c.ntrees) (h4 : m.slots.size = c.nslots) : ShapeOk c m := ⟨h1, h2, h3, h4⟩

/-- **`LLFree::new(.., Init::FreeAll, ..)`** (the part after the metadata checks), for every
    frame count: the upper invariant holds with nothing hidden, exactly the managed frames are
    free. -/
theorem init_freeAll_spec (ok : CfgOk c) (m : Mem) (hs : ShapeOk c m) (habs : ∀ s, SlotAbsent m s) :
    Runs m (initProg c .freeAll) (fun _ m' => UpperInv0 c (fun _ => 0) m' ∧
      ∀ f, m'.allocated c.geom f = decide (c.frames ≤ f)) := by
  unfold initProg
  simp only
  apply Runs.bind (freeAll_lowerInv ok.geom m hs)
  rintro _ m1 ⟨inv1, ff⟩
  have hne : Init.freeAll ≠ Init.none := by decide
  simp only [hne, ne_eq, not_false_eq_true, if_true]
  have habs1 : ∀ s, SlotAbsent m1 s := by intro s l hl; rw [ff.slots] at hl; exact habs s l hl
  apply Runs.mono (trees_init_spec ok m1 inv1 (by rw [ff.trees]; exact hs.trees) (by rw [ff.slots]; exact hs.slots) habs1)
  rintro _ m2 ⟨inv2, same⟩
  refine ⟨inv2, fun f => ?_⟩
  rw [Mem.allocated_congr c.geom m1 m2 same.1 same.2, ff.allocated ok.geom hs]

/-- **`LLFree::new(.., Init::AllocAll, ..)`**: every frame is allocated; every huge frame inside
    the range as a whole. -/
theorem init_allocAll_spec (ok : CfgOk c) (m : Mem) (hs : ShapeOk c m) (habs : ∀ s, SlotAbsent m s) :
    Runs m (initProg c .allocAll) (fun _ m' => UpperInv0 c (fun _ => 0) m' ∧
      (∀ f, m'.allocated c.geom f = true) ∧
      (∀ j, j < c.frames / c.geom.hugeFrames → m'.whole j = true)) := by
  have okg := ok.geom.toGeomOk
  unfold initProg
  simp only
  apply Runs.bind (reserveAll_lowerInv ok.geom m hs)
  rintro _ m1 ⟨inv1, fa⟩
  have hne : Init.allocAll ≠ Init.none := by decide
  simp only [hne, ne_eq, not_false_eq_true, if_true]
  have habs1 : ∀ s, SlotAbsent m1 s := by intro s l hl; rw [fa.slots] at hl; exact habs s l hl
  apply Runs.mono (trees_init_spec ok m1 inv1 (by rw [fa.trees]; exact hs.trees) (by rw [fa.slots]; exact hs.slots) habs1)
  rintro _ m2 ⟨inv2, same⟩
  refine ⟨inv2, fun f => ?_, fun j hj => ?_⟩
  · rw [Mem.allocated_congr c.geom m1 m2 same.1 same.2, fa.allocated okg hs]
  · rw [Mem.whole_congr m1 m2 same.2]
    unfold Mem.whole
    have hL2 : c.frames / c.geom.hugeFrames ≤ c.ntrees * c.geom.treeHuge := by
      have h1 : c.nhuge ≤ c.ntrees * c.geom.treeHuge := okg.ceil_hf_le c.frames
      have h2 : c.frames / c.geom.hugeFrames ≤ c.nhuge := by
        unfold Cfg.nhuge; exact Nat.div_le_div_right (by have := okg.hf_pos; omega)
      omega
    rw [fa.entries j (by omega), if_pos hj]
    rfl

/-- **From construction to every history**: `new` with free-all or allocate-all followed by any
    list of valid-parameter calls never panics and keeps the invariant. -/
theorem new_then_history (ok : CfgOk c) (init : Init) (hinit : init = .freeAll ∨ init = .allocAll)
    (calls : List Call) (hvalid : ∀ x ∈ calls, x.valid c) (m : Mem) (hs : ShapeOk c m) (habs : ∀ s, SlotAbsent m s) :
    Runs m (do initProg c init; runCalls c calls) (fun _ m' => ∃ H', UpperInv0 c H' m') := by
  rcases hinit with rfl | rfl
  · apply Runs.bind (init_freeAll_spec ok m hs habs)
    rintro _ m1 ⟨inv1, _⟩
    exact calls_safe ok calls hvalid _ m1 inv1
  · apply Runs.bind (init_allocAll_spec ok m hs habs)
    rintro _ m1 ⟨inv1, _⟩
    exact calls_safe ok calls hvalid _ m1 inv1

/-- **`LLFree::new(.., Init::Recover, ..)`** over a persistent state satisfying the weak
    invariant (and zeroed volatile buffers): both invariants hold afterwards with nothing hidden,
    and the allocation status of *every frame* is exactly the one recorded in the persistent
    state (whole-huge markers and bits). -/
theorem init_recover_spec (ok : CfgOk c) (m : Mem) (ci : CrashInv c m) (ht : m.trees.size = c.ntrees)
    (hss : m.slots.size = c.nslots) (habs : ∀ s, SlotAbsent m s) :
    Runs m (initProg c .recover) (fun _ m' => UpperInv0 c (fun _ => 0) m' ∧
      (∀ f, m'.allocated c.geom f = m.allocated c.geom f) ∧ (∀ h, m'.whole h = m.whole h)) := by
  unfold initProg
  simp only
  apply Runs.bind (recover_spec ok.geom m ci ht)
  rintro _ m1 ⟨inv1, hsame, hbits, htrees, hslots⟩
  have hne : Init.recover ≠ Init.none := by decide
  simp only [hne, ne_eq, not_false_eq_true, if_true]
  have habs1 : ∀ s, SlotAbsent m1 s := by intro s l hl; rw [hslots] at hl; exact habs s l hl
  apply Runs.mono (trees_init_spec ok m1 inv1 (by rw [htrees]; exact ht) (by rw [hslots]; exact hss) habs1)
  rintro _ m2 ⟨inv2, same⟩
  refine ⟨inv2, fun f => ?_, fun h => ?_⟩
  · rw [Mem.allocated_congr c.geom m1 m2 same.1 same.2]
    unfold Mem.allocated
    rw [hsame]
    cases hm : Huge.isHuge (m.hugeE (f / c.geom.hugeFrames)) with
    | true => rfl
    | false => rw [hbits f hm]
  · rw [Mem.whole_congr m1 m2 same.2]
    unfold Mem.whole
    exact hsame h

/-- recovery, then any history -/
theorem recover_then_history (ok : CfgOk c) (calls : List Call) (hvalid : ∀ x ∈ calls, x.valid c) (m : Mem)
    (ci : CrashInv c m) (ht : m.trees.size = c.ntrees) (hss : m.slots.size = c.nslots) (habs : ∀ s, SlotAbsent m s) :
    Runs m (do initProg c .recover; runCalls c calls) (fun _ m' => ∃ H', UpperInv0 c H' m') := by
  apply Runs.bind (init_recover_spec ok m ci ht hss habs)
  rintro _ m1 ⟨inv1, _⟩
  exact calls_safe ok calls hvalid _ m1 inv1

end
end LLFree
